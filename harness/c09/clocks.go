// Differing clocks. Every router of a mesh of this driver lives in one process and reads one clock; the real
// AnnouncePingHandler.Send stamps an announcement with time.Now() - the sequence time of the raw-signed frame and
// `Expires` (clock of the origin + two announce intervals + 10 s). Honest routers do not share a clock: a router
// without RTC / before its first NTP answer / in a resumed VM is seconds or minutes behind (or ahead of) its
// neighbours, and the code says so itself (m/table.go AddRoute: "Be graceful with routers that have time lag": an
// expiry up to one hour in the past is admitted and raised, only beyond that it is "already expired"; nothing bounds
// an expiry in the future, nothing compares a sequence time with the local clock - only with the previous one of the
// same sender).
//
// Here some routers of a mesh have a clock offset (a few seconds up to just under an hour, slow or fast - well
// inside what the code grants; a lag beyond the hour is outside of what C09 can demand and is never generated).
// Such a router announces itself through the REAL Send; what Send puts on its links is taken off the wire again as a
// template, and the same announcement goes out with the two values that come from the clock (sequence time, Expires)
// moved by the offset and the raw signature made again with the router's own key - byte for byte what Send produces
// where the clock reads that time (checked: offset 0 reproduces the template exactly). The offset of a router stays
// or grows (a slow clock is corrected) between rounds, so the signed time sequence of every sender increases. The
// judgement is the one of every other mesh: GossipMesh_Trace (flooding rules, drained, Reach over the real labels).
package main

import (
	"bytes"
	"fmt"
	"math/rand"
	"net/netip"
	"sort"
	"strings"
	"time"

	"github.com/fxamacker/cbor/v2"

	"github.com/mycoria/mycoria/config"
	"github.com/mycoria/mycoria/frame"
	"github.com/mycoria/mycoria/peering"
	"github.com/mycoria/mycoria/router"

	"verifharness/internal/vf"
	"verifharness/internal/world"
)

func copyClocks(in map[int]time.Duration) map[int]time.Duration {
	if len(in) == 0 {
		return nil
	}
	out := make(map[int]time.Duration, len(in))
	for k, v := range in {
		if v != 0 {
			out[k] = v
		}
	}
	return out
}

func clockWords(off time.Duration) string {
	if off < 0 {
		return fmt.Sprintf("%s slow", -off)
	}
	return fmt.Sprintf("%s fast", off)
}

func describeClocks(cl map[int]time.Duration) string {
	ids := make([]int, 0, len(cl))
	for id := range cl {
		ids = append(ids, id)
	}
	sort.Ints(ids)
	var parts []string
	for _, id := range ids {
		parts = append(parts, fmt.Sprintf("router %d: %s", id, clockWords(cl[id])))
	}
	return strings.Join(parts, ", ")
}

// errRestamp: the driver could not make the announcement of a router with another clock (never a verdict).
type errRestamp struct{ error }

// restamp builds, with the builder and the key of node n, the frame `data` (an announcement n's real Send just
// emitted) as it is where n's clock is off by `off`: sequence time and Expires moved, signed again. Everything else
// (ping header incl. ping id, router info, return label, stub flag, message type, addresses, TTL, flow control) is
// the template's.
func restamp(n *world.Node, data []byte, off time.Duration) (*frame.FrameV1, error) {
	pf, err := frame.NewFrameBuilder().ParseFrameV1(append([]byte(nil), data...), nil, 0)
	if err != nil {
		return nil, fmt.Errorf("parse template: %w", err)
	}
	if pf.SrcIP() != n.ID.IP || pf.MessageType().IsEncrypted() || len(pf.SwitchBlock()) != 0 || len(pf.AppendixData()) != 0 {
		return nil, fmt.Errorf("template is not a fresh raw-signed announcement of %s", n.Name)
	}
	md := pf.MessageData()
	if len(md) < 3 || len(md) < 2+int(md[1]) {
		return nil, fmt.Errorf("template: short message")
	}
	hl := 2 + int(md[1])
	var hdr router.PingHeader
	if err := cbor.Unmarshal(md[2:hl], &hdr); err != nil || hdr.PingType != "announce" {
		return nil, fmt.Errorf("template is not an announcement (%v, %q)", err, hdr.PingType)
	}
	var msg router.AnnouncePingMsg
	if err := cbor.Unmarshal(md[hl:], &msg); err != nil {
		return nil, fmt.Errorf("template message: %w", err)
	}
	// the encoding must be reproducible, or the moved announcement would differ in more than the clock
	if same, err := cbor.Marshal(&msg); err != nil || !bytes.Equal(same, md[hl:]) {
		return nil, fmt.Errorf("template message does not re-encode to itself (%v)", err)
	}
	if !msg.Expires.IsZero() {
		msg.Expires = msg.Expires.Add(off)
	}
	body, err := cbor.Marshal(&msg)
	if err != nil {
		return nil, err
	}
	frameData := make([]byte, hl+len(body))
	copy(frameData, md[:hl])
	copy(frameData[hl:], body)
	f, err := n.Builder.NewFrameV1(pf.SrcIP(), pf.DstIP(), pf.MessageType(), nil, frameData, nil)
	if err != nil {
		return nil, fmt.Errorf("build: %w", err)
	}
	// sendPingMsg: TTL 0 while signing
	f.SetTTL(0)
	f.SetFlowControl(0)
	f.SetSequenceTime(pf.SequenceTime().Add(off))
	if err := f.SignRaw(n.ID.PrivateKey); err != nil {
		f.ReturnToPool()
		return nil, fmt.Errorf("sign: %w", err)
	}
	f.SetTTL(pf.TTL())
	f.SetFlowControl(pf.FlowControl())
	return f, nil
}

// sameButNonce: two serialised fresh announcements of n are the same frame but for the three random bytes every new
// frame gets (frame_v1.go initHeader) and the signature over them, which must be n's.
func sameButNonce(n *world.Node, got, want []byte) error {
	const nonceAt, nonceEnd, sigLen = 5, 8, 64
	if len(got) != len(want) || len(got) < nonceEnd+sigLen {
		return fmt.Errorf("%d bytes instead of %d", len(got), len(want))
	}
	if !bytes.Equal(got[:nonceAt], want[:nonceAt]) || !bytes.Equal(got[nonceEnd:len(got)-sigLen], want[nonceEnd:len(want)-sigLen]) {
		return fmt.Errorf("the frames differ outside nonce and signature")
	}
	pf, err := frame.NewFrameBuilder().ParseFrameV1(append([]byte(nil), got...), nil, 0)
	if err != nil {
		return err
	}
	if len(pf.AuthData()) != sigLen || len(pf.AppendixData()) != 0 {
		return fmt.Errorf("unexpected layout (auth %d, appendix %d bytes)", len(pf.AuthData()), len(pf.AppendixData()))
	}
	pf.SetTTL(0)
	pf.SetFlowControl(0)
	if err := pf.VerifyRaw(n.ID.PublicKey); err != nil {
		return fmt.Errorf("signature: %w", err)
	}
	return nil
}

// announceWithClock: one Send call of router o, whose clock is off by `off`.
func (r *run) announceWithClock(o int, off time.Duration, peer netip.Addr) error {
	n := r.ms.Node(o)
	w := r.ms.W
	before := map[int]bool{}
	w.Lock()
	for _, fl := range w.Inflight {
		before[fl.ID] = true
	}
	w.Unlock()
	// the real Send with the clock of this process: a template, not traffic
	r.muted = true
	sendErr := n.Rt.AnnouncePing.Send(peer)
	r.muted = false
	var tmpl, rest []*world.Flight
	w.Lock()
	for _, fl := range w.Inflight {
		if before[fl.ID] {
			rest = append(rest, fl)
		} else {
			tmpl = append(tmpl, fl)
		}
	}
	w.Inflight = rest
	w.Unlock()
	if sendErr != nil {
		return sendErr
	}
	if len(tmpl) == 0 {
		return nil
	}
	// sendPingMsg puts clones of ONE signed frame on the links
	for _, fl := range tmpl {
		if fl.From != n || n.LinkTo(fl.To) == nil {
			return errRestamp{fmt.Errorf("Send of %s put a frame on a link %s -> %s", n.Name, fl.From.Name, fl.To.Name)}
		}
		if !bytes.Equal(fl.Data, tmpl[0].Data) {
			return errRestamp{fmt.Errorf("one Send of %s put differing frames on its links", n.Name)}
		}
	}
	if !r.restamps[o] {
		// offset 0 must give the template back
		f0, err := restamp(n, tmpl[0].Data, 0)
		if err != nil {
			return errRestamp{err}
		}
		wm, err := f0.FrameDataWithMargins(peering.FrameOffset, peering.FrameOverhead)
		if err != nil {
			f0.ReturnToPool()
			return errRestamp{err}
		}
		got := append([]byte(nil), wm[peering.FrameOffset:len(wm)-peering.FrameOverhead]...)
		f0.ReturnToPool()
		if err := sameButNonce(n, got, tmpl[0].Data); err != nil {
			return errRestamp{fmt.Errorf("re-stamping an announcement of %s with offset 0 does not reproduce what Send emitted: %w", n.Name, err)}
		}
		if r.restamps == nil {
			r.restamps = map[int]bool{}
		}
		r.restamps[o] = true
	}
	f, err := restamp(n, tmpl[0].Data, off)
	if err != nil {
		return errRestamp{err}
	}
	for i, fl := range tmpl {
		var sf frame.Frame = f
		if i < len(tmpl)-1 {
			sf = f.Clone()
		}
		// onto the link the switch had chosen, the way it did
		link := n.LinkTo(fl.To)
		if fl.Prio {
			err = link.SendPriority(sf)
		} else {
			err = link.Send(sf)
		}
		if err != nil {
			return errRestamp{err}
		}
	}
	return nil
}

// drawOffset: seconds, around the life time Send gives an announcement (10 min 10 s - a slow clock beyond it announces
// an expiry that has passed on its neighbours' clocks), or up to just under an hour; slow or fast. Whole milliseconds
// (the precision of sequence times).
func drawOffset(rng *rand.Rand) time.Duration {
	var d time.Duration
	switch p := rng.Intn(10); {
	case p < 2:
		d = 2*time.Second + time.Duration(rng.Int63n(int64(90*time.Second)))
	case p < 4:
		d = 8*time.Minute + time.Duration(rng.Int63n(int64(5*time.Minute)))
	case p < 5:
		d = 30 * time.Minute // no RTC battery, half an hour behind
	default:
		d = 13*time.Minute + time.Duration(rng.Int63n(int64(45*time.Minute)))
	}
	d = d.Truncate(time.Millisecond)
	if rng.Intn(10) < 7 {
		return -d
	}
	return d
}

// differingClocks: meshes of every family in which one, a few or all routers have a clock offset; every router
// announces itself, the network drains, judgement; now and then a second round after some slow clocks were
// corrected (fully or partly).
func differingClocks(c *vf.Ctx, rng *rand.Rand, gens map[string]func(n int) [][]int) {
	names := make([]string, 0, len(gens))
	for k := range gens {
		names = append(names, k)
	}
	sort.Strings(names)
	instances := c.Pick(3*len(names), 16*len(names))
	maxN := c.Pick(10, 16)
	b := &batch{}
	nrounds, nrouters := 0, 0
	for k := 0; k < instances; k++ {
		name := names[k%len(names)]
		n := 4 + rng.Intn(maxN-3)
		raw := gens[name](n)
		labelMode = rng.Intn(4)
		if labelMode == 1 && n > 8 {
			labelMode = 2
		}
		edges := toEdges(raw, rng, true)
		labelMode = 0
		// whose clock differs: mostly one router, now and then a few, now and then every router (each its own)
		clock := map[int]time.Duration{}
		who := 1
		switch p := rng.Intn(10); {
		case p < 2:
			who = 2 + rng.Intn(2)
		case p < 3:
			who = n
		}
		for _, id := range rng.Perm(n)[:min(who, n)] {
			clock[id+1] = drawOffset(rng)
		}
		infoSeed := rng.Intn(4)
		cfg := func(i int) config.Store {
			var s config.Store
			for j := 0; j < (i+infoSeed)%3; j++ {
				s.Router.Listen = append(s.Router.Listen, fmt.Sprintf("tcp:%d", 4000+i*10+j))
				s.Router.IANA = append(s.Router.IANA, fmt.Sprintf("router-%d-%d.example.org", i, j))
			}
			return s
		}
		desc := map[string]any{"family": "clocks-" + name, "n": n, "edges": raw, "instance": k, "clocks": describeClocks(clock)}
		r, err := newRun(c, n, edges, cfg, desc)
		if err != nil {
			c.Fatal("mesh with differing clocks %s/%d: %v", name, n, err)
		}
		r.clock = clock
		nrouters += len(clock)
		r.sequential = rng.Intn(4) == 0
		srng := rand.New(rand.NewSource(c.Seed*104729 + int64(k)))
		maxDeliver := 200000
		fail := func() {
			c.Violation(vf.Key("termination", "clocks-"+name), fmt.Sprintf("flooding did not terminate within %d deliveries in a %s of %d honest routers whose clocks differ (%s)", maxDeliver, name, n, describeClocks(r.clock)), map[string]any{"edges": raw, "steps": r.steps}, nil)
		}
		rounds := 1
		if srng.Intn(3) == 0 {
			rounds = 2
		}
		okRun := true
		for rd := 0; rd < rounds; rd++ {
			if rd > 0 {
				// some clocks were set: a slow clock jumps forward (to the right time or part of the way); no clock is
				// ever set back here (a signed time sequence that runs backwards is refused by design)
				ids := make([]int, 0, len(r.clock))
				for id := range r.clock {
					ids = append(ids, id)
				}
				sort.Ints(ids)
				for _, id := range ids {
					off := r.clock[id]
					if off < 0 && srng.Intn(2) == 0 {
						if srng.Intn(2) == 0 {
							delete(r.clock, id)
						} else {
							r.clock[id] = -time.Duration(srng.Int63n(int64(-off))).Truncate(time.Millisecond)
						}
					}
				}
				r.round = rd
				r.steps = append(r.steps, fmt.Sprintf("clocks now: %s", describeClocks(r.clock)))
			}
			if !r.nextRound(srng, srng.Intn(4) != 0, maxDeliver, true) {
				fail()
				okRun = false
				break
			}
			nrounds++
		}
		if !okRun {
			continue
		}
		if r.setupFailed {
			// the announcement of some clock could not be made (reported as broken): nothing to judge
			continue
		}
		if len(r.ms.W.Panics) > 0 {
			c.Violation(vf.Key("panic", "clocks-"+name), fmt.Sprintf("a worker panicked while flooding a %s of %d honest routers whose clocks differ: %v", name, n, r.ms.W.Panics[0]), map[string]any{"edges": raw, "steps": r.steps}, nil)
		}
		b.add(r)
		c.Distinct(fmt.Sprintf("clocks|%s|%d|%d", name, n, k))
		c.Logf("T differing clocks %s n=%d (%s): %d round(s), %d deliveries, %d events", name, n, desc["clocks"], rounds, r.deliv, len(r.events))
		if k == 0 {
			c.Sample(map[string]any{"kind": "mesh with differing clocks", "family": name, "n": n, "edges": raw, "clocks": desc["clocks"], "rounds": rounds})
		}
		if len(b.events) > 15000 {
			b.validate(c, fmt.Sprintf("differing-clocks-upto-%d", k))
			b = &batch{}
		}
	}
	b.validate(c, "differing-clocks-rest")
	c.Stage("T-differing-clocks", map[string]any{"meshes": instances, "rounds": nrounds, "routers_with_offset": nrouters})
}
