// Living meshes. Every other mesh of this driver is built once, announced and drained. The second clause of C09
// ("following that route's forward labels over the real links leads to that destination") speaks of the links as
// they are NOW: in a living mesh a link between two routers is lost and established again, and the new link often
// has ANOTHER switch label (the label derived from the peer's address is only used when it is free; otherwise the
// link gets a random one), sometimes the same label, sometimes a label that another link of that router had before,
// sometimes another latency. Afterwards every router announces itself again (the regular announcement), the network
// drains and the same judgement (GossipMesh_Trace: flooding rules, drained, Reach by following the real labels over
// the present links) is made again - on the same running routers, with whatever their tables remember.
package main

import (
	"fmt"
	"math/rand"
	"sort"
	"strings"
	"time"

	"github.com/mycoria/mycoria/m"

	"verifharness/internal/mesh"
	"verifharness/internal/vf"
)

type quietInfo struct {
	round    int
	relinked []map[string]any
	links    any
	clocks   map[int]time.Duration // clocks.go: the routers whose clock differs, at that moment
}

// freshLabel returns a label that router x does not use (and that is not `not`), of the class of `like` or of any class.
func freshLabel(r *run, rng *rand.Rand, x int, like, not m.SwitchLabel, taken map[m.SwitchLabel]bool) m.SwitchLabel {
	for {
		var l m.SwitchLabel
		big := like >= 128
		if rng.Intn(3) == 0 {
			big = rng.Intn(2) == 0
		}
		if big {
			l = m.SwitchLabel(128 + rng.Intn(16256))
		} else {
			l = m.SwitchLabel(1 + rng.Intn(127))
		}
		if l != not && !taken[l] && r.ms.Node(x).Peer.GetLinkByLabel(l) == nil {
			return l
		}
	}
}

// relink removes k links of the mesh (both ends, as a closing link does) and establishes them again between the same
// routers. downRound: while the links are away every router announces itself and the network drains (nothing is
// judged then but the flooding rules: the mesh may be disconnected). It returns what was done.
func (r *run) relink(rng *rand.Rand, k int, downRound bool, maxDeliver int) ([]map[string]any, error) {
	ms := r.ms
	if k > len(ms.Edges) {
		k = len(ms.Edges)
	}
	picks := rng.Perm(len(ms.Edges))[:k]
	sort.Ints(picks)
	// the links go away
	freed := map[int][]m.SwitchLabel{} // router -> labels its lost links had
	for _, pi := range picks {
		e := ms.Edges[pi]
		a, b := ms.Node(e.A), ms.Node(e.B)
		la, lb := a.LinkTo(b), b.LinkTo(a)
		if la == nil || lb == nil || la.SwitchLabel() != e.LA || lb.SwitchLabel() != e.LB {
			return nil, fmt.Errorf("link %d-%d is not what the mesh says", e.A, e.B)
		}
		if rng.Intn(2) == 0 {
			la, lb = lb, la
		}
		la.Close(nil)
		lb.Close(nil)
		if a.Peer.GetLink(b.ID.IP) != nil || b.Peer.GetLink(a.ID.IP) != nil {
			return nil, fmt.Errorf("link %d-%d is still there after it was closed", e.A, e.B)
		}
		freed[e.A] = append(freed[e.A], e.LA)
		freed[e.B] = append(freed[e.B], e.LB)
		r.steps = append(r.steps, fmt.Sprintf("link %d-%d (labels %d/%d) lost", e.A, e.B, e.LA, e.LB))
	}
	if downRound {
		var rest []mesh.Edge
		gone := map[int]bool{}
		for _, pi := range picks {
			gone[pi] = true
		}
		for i, e := range ms.Edges {
			if !gone[i] {
				rest = append(rest, e)
			}
		}
		all := ms.Edges
		ms.Edges = rest
		r.events = append(r.events, map[string]any{"ev": "relink", "links": ms.Topo()["links"]})
		ms.Edges = all
		r.steps = append(r.steps, "every router announces itself while the links are away")
		if !r.nextRound(rng, rng.Intn(3) != 0, maxDeliver, false) {
			return nil, errNoTermination
		}
	}
	// ... and are established again
	taken := map[int]map[m.SwitchLabel]bool{}
	var done []map[string]any
	order := append([]int(nil), picks...)
	rng.Shuffle(len(order), func(i, j int) { order[i], order[j] = order[j], order[i] })
	for _, pi := range order {
		e := ms.Edges[pi]
		choose := func(x int, old m.SwitchLabel) (m.SwitchLabel, string) {
			if taken[x] == nil {
				taken[x] = map[m.SwitchLabel]bool{}
			}
			switch p := rng.Intn(20); {
			case p < 3: // the derived label was free again
				if !taken[x][old] && ms.Node(x).Peer.GetLinkByLabel(old) == nil {
					taken[x][old] = true
					return old, "same"
				}
			case p < 8: // a label that another lost link of this router had
				var cand []m.SwitchLabel
				for _, l := range freed[x] {
					if l != old && !taken[x][l] && ms.Node(x).Peer.GetLinkByLabel(l) == nil {
						cand = append(cand, l)
					}
				}
				if len(cand) > 0 {
					l := cand[rng.Intn(len(cand))]
					taken[x][l] = true
					return l, "of-another-lost-link"
				}
			}
			l := freshLabel(r, rng, x, old, old, taken[x])
			taken[x][l] = true
			return l, "other"
		}
		na, howA := choose(e.A, e.LA)
		nb, howB := choose(e.B, e.LB)
		lat := uint16(5) // what mesh.New gives every link
		if rng.Intn(5) == 0 {
			lat = uint16(1 + rng.Intn(40))
		}
		if _, _, err := ms.W.Connect(ms.Node(e.A), ms.Node(e.B), na, nb, lat); err != nil {
			return nil, fmt.Errorf("re-establishing %d-%d with labels %d/%d: %w", e.A, e.B, na, nb, err)
		}
		done = append(done, map[string]any{"a": e.A, "b": e.B, "old": []int{int(e.LA), int(e.LB)}, "new": []int{int(na), int(nb)},
			"label_at_a": howA, "label_at_b": howB, "latency": int(lat)})
		r.steps = append(r.steps, fmt.Sprintf("link %d-%d established again: labels %d/%d -> %d/%d, latency %d", e.A, e.B, e.LA, e.LB, na, nb, lat))
		ms.Edges[pi].LA, ms.Edges[pi].LB = na, nb
	}
	sort.Slice(done, func(i, j int) bool {
		if done[i]["a"].(int) != done[j]["a"].(int) {
			return done[i]["a"].(int) < done[j]["a"].(int)
		}
		return done[i]["b"].(int) < done[j]["b"].(int)
	})
	if downRound {
		done = append(done, map[string]any{"announcements_while_down": true})
	}
	// closing and adding links sends nothing by itself; whatever is in flight now is delivered before the next round
	for r.ms.W.NInflight() > 0 {
		if r.deliv > maxDeliver {
			return nil, errNoTermination
		}
		r.deliverIdx(rng.Intn(r.ms.W.NInflight()))
	}
	r.events = append(r.events, map[string]any{"ev": "relink", "links": ms.Topo()["links"]})
	return done, nil
}

var errNoTermination = fmt.Errorf("flooding did not terminate")

// nextRound: every router announces itself again and the network drains; judge: with a quiet event that names every
// router as announced (the mesh is connected), otherwise with one that names none (drained, nothing about reach).
func (r *run) nextRound(rng *rand.Rand, perLink bool, maxDeliver int, judge bool) bool {
	n := len(r.ms.Nodes)
	if r.annBase == nil {
		r.annBase = map[int]int{}
	}
	all := make([]int, n)
	for i := range all {
		all[i] = i + 1
		r.annBase[i+1] = r.annSent[i+1]
	}
	rng.Shuffle(n, func(i, j int) { all[i], all[j] = all[j], all[i] })
	if !judge {
		// finish records the tables of the routers named in its argument as announced: announce by hand, then an
		// empty list
		for _, o := range all {
			nl := len(r.ms.Node(o).Peer.GetLinks()) // a router that lost its only link has nobody to announce to
			want := min(1, nl)
			if perLink {
				want = nl
			}
			for r.annSent[o]-r.annBase[o] < want {
				r.announce(o)
				for k := 0; k < rng.Intn(4) && r.ms.W.NInflight() > 0; k++ {
					r.deliverIdx(rng.Intn(r.ms.W.NInflight()))
				}
			}
		}
		return r.finish([]int{}, perLink, rng, maxDeliver)
	}
	return r.finish(all, perLink, rng, maxDeliver)
}

func describeRelinks(done []map[string]any) string {
	var parts []string
	for _, d := range done {
		if d["announcements_while_down"] != nil {
			parts = append(parts, "every router also announced itself while the links were away")
			continue
		}
		parts = append(parts, fmt.Sprintf("link %v-%v was lost and established again with labels %v instead of %v (latency %v)", d["a"], d["b"], d["new"], d["old"], d["latency"]))
	}
	return strings.Join(parts, "; ")
}

// describeUnreached names, for the text of a violation only (the verdict is TLC's), the pairs without a route whose
// labels lead to the destination over the present links, and where the labels of the routes held lead instead.
func describeUnreached(ev map[string]any, links any) string {
	tables, _ := ev["tables"].([][]mesh.Route)
	announced, _ := ev["announced"].([]int)
	ls, _ := links.([]map[string]any)
	via := func(x, lb int) int {
		for _, l := range ls {
			if l["a"].(int) == x && l["la"].(int) == lb {
				return l["b"].(int)
			}
			if l["b"].(int) == x && l["lb"].(int) == lb {
				return l["a"].(int)
			}
		}
		return 0
	}
	var out []string
	npairs := 0
	for xi, tb := range tables {
		x := xi + 1
		for _, d := range announced {
			if d == x {
				continue
			}
			ok := false
			var held []string
			for _, rt := range tb {
				if rt.Dst != d {
					continue
				}
				if len(rt.Labels) == 0 {
					if rt.Peer && (via0(ls, x, d)) {
						ok = true
					}
					held = append(held, "peer entry without a path")
					continue
				}
				cur, walk := x, []string{fmt.Sprint(x)}
				for _, lb := range rt.Labels {
					nx := via(cur, lb)
					if nx == 0 {
						walk = append(walk, fmt.Sprintf("(router %d has no link with label %d)", cur, lb))
						cur = 0
						break
					}
					walk = append(walk, fmt.Sprint(nx))
					cur = nx
				}
				if cur == d {
					ok = true
				}
				held = append(held, fmt.Sprintf("path %v forward labels %v lead %s", rt.Path, rt.Labels, strings.Join(walk, " -> ")))
			}
			if !ok {
				npairs++
				if len(out) < 4 {
					if len(held) == 0 {
						out = append(out, fmt.Sprintf("router %d holds no route to router %d", x, d))
					} else {
						out = append(out, fmt.Sprintf("router %d holds %d route(s) to router %d, none of which leads there over the links as they are now: %s", x, len(held), d, strings.Join(held, " | ")))
					}
				}
			}
		}
	}
	if npairs == 0 {
		return "the trace was rejected at the quiet point (frames left undelivered?)"
	}
	return fmt.Sprintf("%d (router, destination) pairs without a route that leads to the destination, e.g. %s", npairs, strings.Join(out, "; "))
}

func via0(ls []map[string]any, x, d int) bool {
	for _, l := range ls {
		if (l["a"].(int) == x && l["b"].(int) == d) || (l["a"].(int) == d && l["b"].(int) == x) {
			return true
		}
	}
	return false
}

// livingMeshes: meshes of every family are announced and drained, then for one or more rounds links are lost and
// established again (other labels / the same / labels other lost links had; now and then another latency; now and
// then a round of announcements while the links are away), every router announces itself again, the network drains
// and the judgement of C09 is made again on the same running routers.
func livingMeshes(c *vf.Ctx, rng *rand.Rand, gens map[string]func(n int) [][]int) {
	names := make([]string, 0, len(gens))
	for k := range gens {
		names = append(names, k)
	}
	sort.Strings(names)
	instances := c.Pick(2*len(names), 12*len(names))
	maxN := c.Pick(10, 16)
	b := &batch{}
	nrounds := 0
	for k := 0; k < instances; k++ {
		name := names[k%len(names)]
		n := 4 + rng.Intn(maxN-3)
		raw := gens[name](n)
		labelMode = rng.Intn(4)
		if labelMode == 1 && n > 8 {
			labelMode = 2
		}
		edges := toEdges(raw, rng, true)
		labelMode = 0
		desc := map[string]any{"family": "living-" + name, "n": n, "edges": raw, "instance": k}
		r, err := newRun(c, n, edges, nil, desc)
		if err != nil {
			c.Fatal("living mesh %s/%d: %v", name, n, err)
		}
		r.sequential = rng.Intn(4) == 0
		srng := rand.New(rand.NewSource(c.Seed*7919 + int64(k)))
		maxDeliver := 200000
		fail := func() {
			c.Violation(vf.Key("termination", "living-"+name), fmt.Sprintf("flooding did not terminate within %d deliveries in a living %s of %d routers (links lost and established again between rounds of announcements)", maxDeliver, name, n), map[string]any{"edges": raw, "steps": r.steps}, nil)
		}
		if !r.nextRound(srng, true, maxDeliver, true) {
			fail()
			continue
		}
		rounds := 1 + srng.Intn(c.Pick(2, 3))
		okRun := true
		for rd := 1; rd <= rounds && okRun; rd++ {
			// how many links: mostly one or two, now and then many
			nl := 1 + srng.Intn(2)
			if srng.Intn(4) == 0 {
				nl = 1 + srng.Intn(len(r.ms.Edges))
			}
			down := srng.Intn(5) == 0
			done, err := r.relink(srng, nl, down, maxDeliver)
			if err == errNoTermination {
				fail()
				okRun = false
				break
			}
			if err != nil {
				c.Broken("living mesh %s/%d round %d: %v", name, n, rd+1, err)
			}
			r.round, r.relinked = rd, done
			if !r.nextRound(srng, srng.Intn(4) != 0, maxDeliver, true) {
				fail()
				okRun = false
				break
			}
			nrounds++
		}
		if !okRun {
			continue
		}
		if len(r.ms.W.Panics) > 0 {
			c.Violation(vf.Key("panic", "living-"+name), fmt.Sprintf("a worker panicked while flooding a living %s of %d routers: %v", name, n, r.ms.W.Panics[0]), map[string]any{"edges": raw, "steps": r.steps}, nil)
		}
		b.add(r)
		c.Distinct(fmt.Sprintf("living|%s|%d|%d", name, n, k))
		c.Logf("T living mesh %s n=%d: %d rounds after the first, %d deliveries, %d events", name, n, rounds, r.deliv, len(r.events))
		if k == 0 {
			c.Sample(map[string]any{"kind": "living mesh", "family": name, "n": n, "edges": raw, "rounds": rounds + 1, "last_relink": r.relinked})
		}
		if len(b.events) > 15000 {
			b.validate(c, fmt.Sprintf("living-meshes-upto-%d", k))
			b = &batch{}
		}
	}
	b.validate(c, "living-meshes-rest")
	c.Stage("T-living-meshes", map[string]any{"meshes": instances, "rounds_after_relink": nrounds})
}
