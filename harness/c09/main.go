// C09 - gossip reach and termination in honest meshes. Stage M: TLC on
// GossipMesh (all connected 3- and 4-node graphs, every delivery order).
// Stage R: every transition of the dumped graphs is replayed as a schedule on
// meshes of real router stacks over virtual links. Stage T: meshes of up to 16
// routers (lines, rings, stars, trees, grids, random graphs; 1- and 2-byte
// labels; varied router-info sizes) under seeded random delivery orders. All
// runs are recorded and judged by TLC (GossipMesh_Trace: NoEcho, loop-free,
// once per path, drained, Reach by following the real labels). Living meshes
// (relink.go): after the first drained round links of the same running routers
// are lost and established again (other / same / exchanged labels, now and then
// another latency or a round of announcements in between), everybody announces
// again and the same judgement is made against the links as they are now.
package main

import (
	"encoding/json"
	"errors"
	"fmt"
	"math/rand"
	"net/netip"
	"sort"
	"sync"
	"time"

	"github.com/mycoria/mycoria/config"
	"github.com/mycoria/mycoria/m"

	"verifharness/internal/mesh"
	"verifharness/internal/vf"
	"verifharness/internal/world"
)

type msg struct {
	O    int   `json:"o"`
	K    int   `json:"k"`
	Hops []int `json:"hops"`
	From int   `json:"from"`
	To   int   `json:"to"`
}

type act struct {
	Name    string `json:"name"`
	O       int    `json:"o"`
	K       int    `json:"k"`
	M       msg    `json:"m"`
	Outcome string `json:"outcome"`
	Fwd     []int  `json:"fwd"`
}

// run is one mesh execution being recorded.
type run struct {
	c       *vf.Ctx
	ms      *mesh.Mesh
	events  []any
	stampK  map[int]map[int64]int // origin -> stamp -> k
	flights map[int]msg           // flight id -> decoded
	annSent map[int]int           // origin -> announcements sent
	desc    map[string]any
	steps   []string
	drift   int
	deliv   int
	// sequential: finish drains the network after each origin's announcements
	sequential bool
	// living meshes (relink.go): announcements sent before the present round, the number of the present round, what
	// was done to the links before it (nil in the first round), and for every quiet event its number and that record
	annBase  map[int]int
	round    int
	relinked []map[string]any
	quietAt  map[int]quietInfo // index in events -> round
	// differing clocks (clocks.go): the offset of the wall clock of a router against the clock of this process (absent:
	// none); muted: what the real Send emits right now is a template that is taken off the wire again, not traffic
	clock map[int]time.Duration
	muted bool
	// the driver failed to make an announcement of another clock: the run is reported as broken and not judged
	setupFailed bool
	restamps    map[int]bool // routers whose re-stamping was checked against the real Send (offset 0 = byte-identical)
}

// idsOverride: identities for the next meshes (nil: the pooled identities, all of one continent)
var idsOverride []*m.Address

var (
	farMu  sync.Mutex
	farIDs []*m.Address
)

// farIdentities returns n identities of another continent (mined once, in parallel).
func farIdentities(n int) []*m.Address {
	farMu.Lock()
	defer farMu.Unlock()
	if len(farIDs) < n {
		out := make([]*m.Address, n-len(farIDs))
		var wg sync.WaitGroup
		for i := range out {
			wg.Add(1)
			go func(i int) {
				defer wg.Done()
				out[i] = world.NewIdentity(netip.MustParsePrefix("fd40::/12")) // North America
			}(i)
		}
		wg.Wait()
		farIDs = append(farIDs, out...)
	}
	return farIDs[:n]
}

func newRun(c *vf.Ctx, n int, edges []mesh.Edge, cfg func(i int) config.Store, desc map[string]any) (*run, error) {
	ms, err := mesh.New(n, edges, mesh.Opts{Cfg: cfg, IDs: idsOverride})
	if err != nil {
		return nil, err
	}
	r := &run{c: c, ms: ms, stampK: map[int]map[int64]int{}, flights: map[int]msg{}, annSent: map[int]int{}, desc: desc}
	r.events = append(r.events, ms.Topo())
	ms.W.OnSend = func(fl *world.Flight) {
		if r.muted {
			return
		}
		a, err := ms.Decode(fl.Data)
		if err != nil || !a.IsAnn {
			return
		}
		if r.stampK[a.Origin] == nil {
			r.stampK[a.Origin] = map[int64]int{}
		}
		k, ok := r.stampK[a.Origin][a.Stamp]
		if !ok {
			k = len(r.stampK[a.Origin]) + 1
			r.stampK[a.Origin][a.Stamp] = k
		}
		hops := a.Hops
		if hops == nil {
			hops = []int{}
		}
		mm := msg{O: a.Origin, K: k, Hops: hops, From: ms.ID(fl.From.ID.IP), To: ms.ID(fl.To.ID.IP)}
		r.flights[fl.ID] = mm
		r.events = append(r.events, map[string]any{"ev": "send", "o": mm.O, "k": mm.K, "hops": mm.Hops, "from": mm.From, "to": mm.To})
	}
	return r, nil
}

// announce lets origin o send its next announcement (one Send call).
func (r *run) announce(o int) {
	n := r.ms.Node(o)
	links := n.Peer.GetLinks()
	if len(links) == 0 {
		return
	}
	i := r.annSent[o] % len(links)
	r.annSent[o]++
	time.Sleep(2 * time.Millisecond) // distinct raw-signed stamps per origin
	if off := r.clock[o]; off != 0 {
		// a router whose clock differs: what Send makes of that clock (clocks.go)
		r.events = append(r.events, map[string]any{"ev": "announce", "o": o, "k": r.annSent[o], "clock_ms": off.Milliseconds()})
		r.steps = append(r.steps, fmt.Sprintf("announce %d (its clock: %s)", o, clockWords(off)))
		if err := r.announceWithClock(o, off, links[i].Peer()); err != nil {
			var re errRestamp
			if errors.As(err, &re) {
				// the driver could not make the announcement of that clock: no verdict
				if !r.setupFailed {
					r.c.Broken("announcement of router %d with its clock %s: %v", o, clockWords(off), err)
				}
				r.setupFailed = true
			}
			r.c.Extra("announce_error", err.Error())
		}
		r.c.Eval(1)
		return
	}
	r.events = append(r.events, map[string]any{"ev": "announce", "o": o, "k": r.annSent[o]})
	r.steps = append(r.steps, fmt.Sprintf("announce %d", o))
	if err := n.Rt.AnnouncePing.Send(links[i].Peer()); err != nil {
		r.c.Extra("announce_error", err.Error())
	}
	r.c.Eval(1)
}

func sameHops(a, b []int) bool {
	if len(a) != len(b) {
		return false
	}
	for i := range a {
		if a[i] != b[i] {
			return false
		}
	}
	return true
}

// deliverIdx delivers the in-flight frame at index i and returns the ids of the flights it caused.
func (r *run) deliverIdx(i int) []int {
	fl := r.ms.W.Take(i)
	mm, isAnn := r.flights[fl.ID]
	before := map[int]bool{}
	for _, x := range r.ms.W.Inflight {
		before[x.ID] = true
	}
	if isAnn {
		r.events = append(r.events, map[string]any{"ev": "deliver", "o": mm.O, "k": mm.K, "hops": mm.Hops, "from": mm.From, "to": mm.To})
		r.steps = append(r.steps, fmt.Sprintf("deliver o=%d k=%d hops=%v %d->%d", mm.O, mm.K, mm.Hops, mm.From, mm.To))
	}
	_, _ = r.ms.W.Deliver(fl)
	r.deliv++
	r.c.Eval(1)
	var caused []int
	for _, x := range r.ms.W.Inflight {
		if !before[x.ID] {
			caused = append(caused, x.ID)
		}
	}
	return caused
}

// find returns the index of the in-flight frame that is model message mm, -1 if none.
func (r *run) find(mm msg) int {
	for i, fl := range r.ms.W.Inflight {
		x, ok := r.flights[fl.ID]
		if ok && x.O == mm.O && x.K == mm.K && x.From == mm.From && x.To == mm.To && sameHops(x.Hops, mm.Hops) {
			return i
		}
	}
	return -1
}

// finish sends the outstanding announcements of the given origins (perLink:
// one per link), drains the network with the given order and records the
// final tables.
func (r *run) finish(origins []int, perLink bool, rng *rand.Rand, maxDeliver int) bool {
	for _, o := range origins {
		want := 1
		if perLink {
			want = len(r.ms.Node(o).Peer.GetLinks())
		}
		for r.annSent[o]-r.annBase[o] < want {
			r.announce(o)
			// interleave: deliver a few frames between announcements
			for k := 0; rng != nil && k < rng.Intn(4) && r.ms.W.NInflight() > 0; k++ {
				r.deliverIdx(rng.Intn(r.ms.W.NInflight()))
			}
		}
		// one after the other: the network drains before the next router announces
		for r.sequential && r.ms.W.NInflight() > 0 {
			if r.deliv > maxDeliver {
				return false
			}
			i := 0
			if rng != nil {
				i = rng.Intn(r.ms.W.NInflight())
			}
			r.deliverIdx(i)
		}
	}
	for r.ms.W.NInflight() > 0 {
		if r.deliv > maxDeliver {
			return false
		}
		i := 0
		if rng != nil {
			i = rng.Intn(r.ms.W.NInflight())
		}
		r.deliverIdx(i)
	}
	tables := make([][]mesh.Route, len(r.ms.Nodes))
	for i := range r.ms.Nodes {
		tables[i] = r.ms.Table(i + 1)
		if tables[i] == nil {
			tables[i] = []mesh.Route{}
		}
	}
	sort.Ints(origins)
	if r.quietAt == nil {
		r.quietAt = map[int]quietInfo{}
	}
	r.quietAt[len(r.events)] = quietInfo{round: r.round, relinked: r.relinked, links: r.ms.Topo()["links"], clocks: copyClocks(r.clock)}
	r.events = append(r.events, map[string]any{"ev": "quiet", "tables": tables, "announced": origins})
	return true
}

type batch struct {
	events []any
	runs   []*run
	starts []int
}

func (b *batch) add(r *run) {
	b.starts = append(b.starts, len(b.events))
	b.runs = append(b.runs, r)
	b.events = append(b.events, r.events...)
}

func (b *batch) validate(c *vf.Ctx, label string) {
	if len(b.events) == 0 {
		return
	}
	rejectAt, inv, res, err := c.TraceCheck("GossipMesh_Trace", "GossipMesh_Trace.cfg", b.events, vf.TLCOpts{Timeout: 40 * time.Minute, Heap: "12g"})
	if err != nil {
		c.Fatal("T %s: %v", label, err)
	}
	c.AddTraces(len(b.runs))
	c.AddModel(res.Distinct, res.Generated)
	c.Stage("T/"+label, map[string]any{"meshes": len(b.runs), "events": len(b.events), "wall_s": res.Wall.Seconds()})
	c.Logf("T %s: %d events of %d mesh runs validated in %.1fs", label, len(b.events), len(b.runs), res.Wall.Seconds())
	if rejectAt <= 0 && inv == "" {
		return
	}
	idx := rejectAt - 1
	ri := sort.Search(len(b.starts), func(i int) bool { return b.starts[i] > idx }) - 1
	r := b.runs[ri]
	ev := b.events[idx].(map[string]any)
	kind := fmt.Sprint(ev["ev"])
	what := ""
	switch kind {
	case "send":
		what = fmt.Sprintf("a frame crossed a link that the flooding rules forbid (to origin / back / into its hop list / twice on one path / not loop-free): %v", ev)
		kind = "flood-rule"
	case "deliver":
		what = fmt.Sprintf("an announcement was delivered twice on the same path: %v", ev)
		kind = "once-per-path"
	case "quiet":
		what = "after the network drained some router has no route whose labels lead to another router that announced itself (or frames were left undelivered)"
		kind = "reach"
		if qi, ok := r.quietAt[idx-b.starts[ri]]; ok && len(qi.clocks) > 0 {
			// honest routers whose clocks differ: say whose, and which routes are missing
			what = fmt.Sprintf("honest routers whose wall clocks differ (%s; an announcement carries the sequence time and the expiry - clock + what Send adds - of the clock of its origin; every lag is well inside the hour m/table.go AddRoute grants 'routers that have time lag'), round %d: every router announced itself and the network drained: %s",
				describeClocks(qi.clocks), qi.round+1, describeUnreached(ev, qi.links))
			kind = "reach-clock-offset"
		} else if ok && qi.round > 0 {
			// a living mesh: say what happened to the links and which routes do not lead anywhere now
			what = fmt.Sprintf("round %d of a living mesh (the same running routers; before this round: %s; then every router announced itself again and the network drained): %s",
				qi.round+1, describeRelinks(qi.relinked), describeUnreached(ev, qi.links))
			kind = "reach-after-relink"
		}
		// name the missing pairs for the key-independent description
		ev = map[string]any{"announced": ev["announced"], "tables": ev["tables"]}
	}
	c.Violation(vf.Key(kind, r.desc["family"]), fmt.Sprintf("mesh %v: %s", r.desc, what),
		map[string]any{"mesh": r.desc, "topology": r.ms.Topo(), "steps": r.steps, "event": ev}, nil)
}

// label modes: 0 = mixed 1-/2-byte, 1 = tiny (1..23, one CBOR byte), 2 = any 1-byte, 3 = only 2-byte
var labelMode int

func toEdges(raw [][]int, rng *rand.Rand, big bool) []mesh.Edge {
	used := map[int]map[m.SwitchLabel]bool{}
	pick := func(n int) m.SwitchLabel {
		if used[n] == nil {
			used[n] = map[m.SwitchLabel]bool{}
		}
		for {
			var l m.SwitchLabel
			switch {
			case labelMode == 1:
				l = m.SwitchLabel(1 + rng.Intn(23))
			case labelMode == 2:
				l = m.SwitchLabel(1 + rng.Intn(127))
			case labelMode == 3:
				l = m.SwitchLabel(128 + rng.Intn(16256))
			case big && rng.Intn(2) == 0:
				l = m.SwitchLabel(128 + rng.Intn(16256))
			default:
				l = m.SwitchLabel(1 + rng.Intn(127))
			}
			if !used[n][l] {
				used[n][l] = true
				return l
			}
		}
	}
	var out []mesh.Edge
	for _, e := range raw {
		out = append(out, mesh.Edge{A: e[0], B: e[1], LA: pick(e[0]), LB: pick(e[1])})
	}
	return out
}

func main() { vf.Main("C09", "model_checking", run0) }

func run0(c *vf.Ctx) {
	c.Rule("M: TLC exhaustive over every delivery order for all 4 connected labelled 3-node graphs (all nodes announce) and all 38 connected labelled 4-node graphs (each single origin; thorough: each pair of origins), checking NoEcho, loop-free, once per path, at most three routes, Reach at quiescence and termination under fairness. R: every transition of those graphs replayed as a schedule on real router stacks. T: meshes of 5..16 routers in 7 families with random 1-/2-byte labels, varied router-info sizes, seeded random delivery orders; living meshes of 4..16 routers of the same families: rounds of (links lost and established again with other, the same or exchanged labels, sometimes another latency, sometimes announcements while they are away; all announce; drain; same judgement against the present links); meshes of the same families in which one, a few or all honest routers have a clock that is seconds up to just under an hour slow or fast (their announcements carry the sequence time and expiry of that clock, made from what the real Send emits; one or two rounds, slow clocks corrected in between; same judgement). distinct = distinct (family, size, label seed, schedule seed)")
	c.Assume("honest routers only (C08 covers dishonest ones)", "announcements of one origin carry distinct millisecond stamps in replayed schedules (the driver spaces Send calls by 2 ms); equal stamps are tolerated by the trace spec in stage T", "exhaustive schedules only up to 4 routers", "clocks of honest routers differ by less than an hour (m/table.go AddRoute grants 'routers that have time lag' an expiry up to one hour in the past; a larger lag is not generated and nothing is claimed for it); a clock is never set back while the router runs")

	// ---- M ----
	mcs := []string{"GossipMesh_MC3.cfg", "GossipMesh_MC3p.cfg", "GossipMesh_MC4.cfg"}
	if c.Thorough() {
		mcs = append(mcs, "GossipMesh_MC4b.cfg")
	}
	for _, cfg := range mcs {
		mc, err := c.TLC("GossipMesh", cfg, vf.TLCOpts{Workers: 16, Coverage: cfg == "GossipMesh_MC3.cfg", Timeout: 120 * time.Minute, Heap: "24g"})
		if err != nil {
			c.Fatal("M %s: %v", cfg, err)
		}
		if mc.Violated != "" {
			c.Broken("M %s: %s violated in the model", cfg, mc.Violated)
		}
		if cfg == "GossipMesh_MC3.cfg" && (mc.Coverage["Announce"] == 0 || mc.Distinct < 1000) {
			c.Broken("M: vacuous (coverage %v)", mc.Coverage)
		}
		c.AddModel(mc.Distinct, mc.Generated)
		c.Stage("M/"+cfg, map[string]any{"distinct": mc.Distinct, "generated": mc.Generated, "wall_s": mc.Wall.Seconds()})
		c.Logf("M %s: %d distinct", cfg, mc.Distinct)
	}

	rng := rand.New(rand.NewSource(c.Seed))

	// ---- R: schedules from the dumped graphs ----
	for _, dc := range []struct {
		cfg string
		n   int
	}{{"GossipMesh_Dump3.cfg", 3}, {"GossipMesh_Dump4.cfg", 4}} {
		d, err := c.TLC("GossipMesh", dc.cfg, vf.TLCOpts{Workers: 1, Timeout: 20 * time.Minute, Heap: "8g"})
		if err != nil {
			c.Fatal("R dump: %v", err)
		}
		// initial states: sources that are never a target
		isTo := map[string]bool{}
		for _, e := range d.Edges {
			isTo[e.To] = true
		}
		seenInit := map[string]bool{}
		for _, e := range d.Edges {
			if !isTo[e.From] && !seenInit[e.From] {
				seenInit[e.From] = true
				d.Inits = append(d.Inits, e.From)
			}
		}
		g := vf.BuildGraph(d)
		paths := g.CoverPaths(0)
		total := len(paths)
		lim := c.Pick(250, 100000)
		if len(paths) > lim {
			rng.Shuffle(len(paths), func(i, j int) { paths[i], paths[j] = paths[j], paths[i] })
			paths = paths[:lim]
		}
		b := &batch{}
		drift := 0
		for pi, p := range paths {
			// topology of this behaviour from the first state
			var view []json.RawMessage
			if err := json.Unmarshal([]byte(g.Edges[p[0]].From), &view); err != nil || len(view) < 2 {
				c.Fatal("view: %v", err)
			}
			var rawEdges [][]int
			var origins []int
			_ = json.Unmarshal(view[0], &rawEdges)
			_ = json.Unmarshal(view[1], &origins)
			edges := toEdges(rawEdges, rng, true)
			r, err := newRun(c, dc.n, edges, nil, map[string]any{"family": fmt.Sprintf("tlc-%d", dc.n), "edges": rawEdges, "origins": origins, "path": pi})
			if err != nil {
				c.Fatal("mesh: %v", err)
			}
			ok := true
			for _, ei := range p {
				var a act
				if err := json.Unmarshal(g.Edges[ei].Act, &a); err != nil {
					c.Fatal("act: %v", err)
				}
				switch a.Name {
				case "announce":
					r.announce(a.O)
				case "deliver":
					i := r.find(a.M)
					if i < 0 {
						// the real code did not produce the frame the model expects:
						// implementation-level divergence, the run is finished FIFO
						drift++
						ok = false
					} else {
						caused := r.deliverIdx(i)
						got := map[int]bool{}
						for _, id := range caused {
							if x, isAnn := r.flights[id]; isAnn {
								got[x.To] = true
							}
						}
						if len(got) != len(a.Fwd) {
							drift++
						} else {
							for _, t := range a.Fwd {
								if !got[t] {
									drift++
									break
								}
							}
						}
					}
				}
				if !ok {
					break
				}
			}
			perLink := dc.n == 3 && false
			if !r.finish(origins, perLink, nil, 20000) {
				c.Violation(vf.Key("termination", "tlc"), fmt.Sprintf("flooding did not terminate within 20000 deliveries on %v", rawEdges), map[string]any{"edges": rawEdges, "steps": r.steps}, nil)
			}
			b.add(r)
			c.Distinct(fmt.Sprintf("tlc|%v|%v|%d", rawEdges, origins, pi))
			if pi == 0 {
				c.Sample(map[string]any{"kind": "TLC schedule", "edges": rawEdges, "origins": origins, "steps": r.steps})
			}
		}
		c.Stage("R/"+dc.cfg, map[string]any{"graph_edges": len(g.Edges), "cover_paths": total, "executed": len(paths), "impl_level_drift": drift})
		c.Logf("R %s: %d edges, %d paths, %d executed, drift %d", dc.cfg, len(g.Edges), total, len(paths), drift)
		b.validate(c, "replay-"+dc.cfg)
	}

	// ---- T: bigger meshes ----
	type fam struct {
		name string
		gen  func(n int) [][]int
	}
	line := func(n int) [][]int {
		var e [][]int
		for i := 1; i < n; i++ {
			e = append(e, []int{i, i + 1})
		}
		return e
	}
	fams := []fam{
		{"line", line},
		{"ring", func(n int) [][]int { return append(line(n), []int{n, 1}) }},
		{"star", func(n int) [][]int {
			var e [][]int
			for i := 2; i <= n; i++ {
				e = append(e, []int{1, i})
			}
			return e
		}},
		{"tree", func(n int) [][]int {
			var e [][]int
			for i := 2; i <= n; i++ {
				e = append(e, []int{i / 2, i})
			}
			return e
		}},
		{"grid", func(n int) [][]int {
			w := 2
			for w*w < n {
				w++
			}
			var e [][]int
			for i := 1; i <= n; i++ {
				if i%w != 0 && i+1 <= n {
					e = append(e, []int{i, i + 1})
				}
				if i+w <= n {
					e = append(e, []int{i, i + w})
				}
			}
			return e
		}},
		{"random-sparse", func(n int) [][]int {
			var e [][]int
			have := map[[2]int]bool{}
			for i := 2; i <= n; i++ {
				j := 1 + rng.Intn(i-1)
				e = append(e, []int{j, i})
				have[[2]int{j, i}] = true
			}
			extra := 1 + rng.Intn(3)
			for k := 0; k < extra*10 && extra > 0; k++ {
				a, b := 1+rng.Intn(n), 1+rng.Intn(n)
				if a > b {
					a, b = b, a
				}
				if a != b && !have[[2]int{a, b}] {
					have[[2]int{a, b}] = true
					e = append(e, []int{a, b})
					extra--
				}
			}
			return e
		}},
		{"ladder", func(n int) [][]int {
			h := n / 2
			var e [][]int
			for i := 1; i < h; i++ {
				e = append(e, []int{i, i + 1}, []int{h + i, h + i + 1})
			}
			for i := 1; i <= h; i += 2 {
				e = append(e, []int{i, h + i})
			}
			if n%2 == 1 {
				e = append(e, []int{n, 1})
			}
			return e
		}},
	}
	sizes := []int{5, 8, 16}
	if c.Thorough() {
		sizes = []int{5, 6, 7, 8, 10, 12, 14, 16}
	}
	b := &batch{}
	reps := c.Pick(1, 4)
	for _, f := range fams {
		for _, n := range sizes {
			if f.name == "grid" && n > 9 && !c.Thorough() {
				n = 9
			}
			for rep := 0; rep < reps*4; rep++ {
				// every label class: mixed, tiny, any 1-byte, only 2-byte (star nodes have up to 15 links: no tiny mode there)
				labelMode = rep % 4
				if labelMode == 1 && (f.name == "star" || f.name == "grid") && n > 8 {
					labelMode = 2
				}
				if rep >= 1 && n < 16 && !c.Thorough() {
					continue // quick: the extra label classes only on the largest meshes
				}
				raw := f.gen(n)
				edges := toEdges(raw, rng, true)
				labelMode = 0
				infoSeed := rng.Intn(4)
				cfg := func(i int) config.Store {
					var s config.Store
					for k := 0; k < (i+infoSeed)%4; k++ {
						s.Router.Listen = append(s.Router.Listen, fmt.Sprintf("tcp:%d", 4000+i*10+k))
						s.Router.IANA = append(s.Router.IANA, fmt.Sprintf("router-%d-%d.example.org", i, k))
					}
					if (i+infoSeed)%5 == 0 {
						for k := 0; k < 6; k++ {
							s.ServiceConfigs = append(s.ServiceConfigs, config.ServiceConfig{
								Name: fmt.Sprintf("service-%d-%d", i, k), Description: "a public service with a long description to grow the announcement beyond a small buffer",
								URL: fmt.Sprintf("tcp://svc%d.myco:%d", k, 1000+k), Public: true, Advertise: true,
							})
						}
					}
					return s
				}
				all := make([]int, n)
				for i := range all {
					all[i] = i + 1
				}
				r, err := newRun(c, n, edges, cfg, map[string]any{"family": f.name, "n": n, "edges": raw, "rep": rep, "labels": []string{"mixed", "tiny", "1-byte", "2-byte"}[rep%4]})
				if err != nil {
					c.Fatal("mesh %s/%d: %v", f.name, n, err)
				}
				srng := rand.New(rand.NewSource(c.Seed*1000 + int64(rep)))
				if !r.finish(all, true, srng, 60000) {
					c.Violation(vf.Key("termination", f.name), fmt.Sprintf("flooding did not terminate within 60000 deliveries in a %s of %d routers", f.name, n), map[string]any{"edges": raw}, nil)
					continue
				}
				if len(r.ms.W.Panics) > 0 {
					c.Violation(vf.Key("panic", f.name), fmt.Sprintf("a worker panicked while flooding a %s of %d routers: %v", f.name, n, r.ms.W.Panics[0]), map[string]any{"edges": raw}, nil)
				}
				b.add(r)
				c.Distinct(fmt.Sprintf("%s|%d|%d", f.name, n, rep))
				c.Logf("T mesh %s n=%d rep=%d: %d deliveries, %d events", f.name, n, rep, r.deliv, len(r.events))
				if f.name == "ring" && n == sizes[0] {
					c.Sample(map[string]any{"kind": "mesh run", "family": f.name, "n": n, "edges": raw, "deliveries": r.deliv, "first_steps": r.steps[:min(8, len(r.steps))]})
				}
				if len(b.events) > 15000 {
					b.validate(c, fmt.Sprintf("meshes-upto-%s-%d", f.name, n))
					b = &batch{}
				}
			}
		}
	}
	b.validate(c, "meshes-rest")
	// two continents: a few routers of one continent in a dense mesh (every router linked to its three neighbours on
	// either side of a ring) with many routers of another - the table keeps routes to the other continent under a
	// budget of its own
	b = &batch{}
	for vi, near := range []int{1, 3, 1, 3} {
		// the routers announce one after the other (the network drains in between), or all at about the same time
		oneByOne := vi < 2
		if !c.Thorough() && vi != 0 {
			continue
		}
		tcSizes := []int{16}
		if c.Thorough() {
			tcSizes = []int{12, 14, 16}
		}
		for _, n := range tcSizes {
			var raw [][]int
			for i := 1; i <= n; i++ {
				for d := 1; d <= 3; d++ {
					j := (i-1+d)%n + 1
					raw = append(raw, []int{min(i, j), max(i, j)})
				}
			}
			edges := toEdges(raw, rng, true)
			ids := append([]*m.Address(nil), mesh.Identities(near)...)
			ids = append(ids, farIdentities(n-near)...)
			rng.Shuffle(len(ids), func(i, j int) { ids[i], ids[j] = ids[j], ids[i] })
			idsOverride = ids
			all := make([]int, n)
			for i := range all {
				all[i] = i + 1
			}
			r, err := newRun(c, n, edges, nil, map[string]any{"family": "two-continents", "n": n, "near": near, "edges": raw, "one_after_the_other": oneByOne})
			idsOverride = nil
			if err == nil {
				r.sequential = oneByOne
			}
			if err != nil {
				c.Fatal("mesh two-continents/%d: %v", n, err)
			}
			srng := rand.New(rand.NewSource(c.Seed*1000 + int64(near)))
			if !r.finish(all, true, srng, 200000) {
				c.Violation(vf.Key("termination", "two-continents"), fmt.Sprintf("flooding did not terminate within 200000 deliveries in a dense mesh of %d routers of two continents", n), map[string]any{"edges": raw}, nil)
				continue
			}
			if len(r.ms.W.Panics) > 0 {
				c.Violation(vf.Key("panic", "two-continents"), fmt.Sprintf("a worker panicked while flooding a dense mesh of %d routers of two continents: %v", n, r.ms.W.Panics[0]), map[string]any{"edges": raw}, nil)
			}
			b.add(r)
			c.Distinct(fmt.Sprintf("two-continents|%d|%d|%v", n, near, oneByOne))
			c.Logf("T mesh two-continents n=%d near=%d: %d deliveries, %d events", n, near, r.deliv, len(r.events))
		}
	}
	b.validate(c, "meshes-two-continents")
	gens := map[string]func(n int) [][]int{}
	for _, f := range fams {
		gens[f.name] = f.gen
	}
	livingMeshes(c, rng, gens)
	differingClocks(c, rng, gens)
	concurrentRelays(c, rng)
}

// concurrentRelays: a router runs one frame worker per CPU - the announcements that reach a relay at the same moment
// are handled side by side. Meshes with a hub (stars, double stars, trees) are flooded with every batch of frames for
// one router handled by as many real router workers at once; when the network has drained every router must hold a
// route to every other one (judged by TLC: topo + quiet events of GossipMesh_Trace).
func concurrentRelays(c *vf.Ctx, rng *rand.Rand) {
	shapes := map[string]func(n int) [][]int{
		"star": func(n int) [][]int {
			var e [][]int
			for i := 2; i <= n; i++ {
				e = append(e, []int{1, i})
			}
			return e
		},
		"double-star": func(n int) [][]int {
			e := [][]int{{1, 2}}
			for i := 3; i <= n; i++ {
				e = append(e, []int{1 + i%2, i})
			}
			return e
		},
		"tree": func(n int) [][]int {
			var e [][]int
			for i := 2; i <= n; i++ {
				e = append(e, []int{i / 2, i})
			}
			return e
		},
	}
	var events []any
	var descs []map[string]any
	var starts []int
	rounds := c.Pick(30, 400)
	names := []string{"star", "double-star", "tree"}
	for k := 0; k < rounds; k++ {
		name := names[k%3]
		n := 6 + rng.Intn(5)
		raw := shapes[name](n)
		edges := toEdges(raw, rng, true)
		ms, err := mesh.New(n, edges, mesh.Opts{})
		if err != nil {
			c.Fatal("concurrent mesh: %v", err)
		}
		for i := 1; i <= n; i++ {
			ms.Announce(i, true)
		}
		guard := 0
		for ms.W.NInflight() > 0 && guard < 5000 {
			guard++
			// all frames in flight for one receiver, handled at once
			ms.W.Lock()
			to := ms.W.Inflight[rng.Intn(len(ms.W.Inflight))].To
			var batch []*world.Flight
			var rest []*world.Flight
			for _, fl := range ms.W.Inflight {
				if fl.To == to {
					batch = append(batch, fl)
				} else {
					rest = append(rest, fl)
				}
			}
			ms.W.Inflight = rest
			ms.W.Unlock()
			ms.W.DeliverConcurrent(batch)
			c.Eval(len(batch))
		}
		if len(ms.W.Panics) > 0 {
			c.Violation(vf.Key("panic", "concurrent-"+name), fmt.Sprintf("a worker panicked while %d routers of a %s handled announcements concurrently: %v", n, name, ms.W.Panics[0]), map[string]any{"edges": raw}, nil)
		}
		tables := make([][]mesh.Route, n)
		all := make([]int, n)
		for i := 0; i < n; i++ {
			tables[i] = ms.Table(i + 1)
			if tables[i] == nil {
				tables[i] = []mesh.Route{}
			}
			all[i] = i + 1
		}
		starts = append(starts, len(events))
		descs = append(descs, map[string]any{"family": "concurrent-" + name, "n": n, "edges": raw})
		events = append(events, ms.Topo(), map[string]any{"ev": "quiet", "tables": tables, "announced": all})
		c.Distinct(fmt.Sprintf("concurrent|%s|%d|%d", name, n, k))
	}
	for len(events) > 0 {
		rejectAt, inv, res, err := c.TraceCheck("GossipMesh_Trace", "GossipMesh_Trace.cfg", events, vf.TLCOpts{Timeout: 20 * time.Minute, Heap: "8g"})
		if err != nil {
			c.Fatal("T concurrent: %v", err)
		}
		c.AddModel(res.Distinct, res.Generated)
		if rejectAt <= 0 && inv == "" {
			break
		}
		ri := sort.Search(len(starts), func(i int) bool { return starts[i] > rejectAt-1 }) - 1
		c.Violation(vf.Key("reach", descs[ri]["family"]), fmt.Sprintf("mesh %v, announcements handled by several router workers of one router at once: after the network drained some router has no route whose labels lead to another router that announced itself", descs[ri]), map[string]any{"mesh": descs[ri], "event": events[rejectAt-1]}, nil)
		nx := len(events)
		if ri+1 < len(starts) {
			nx = starts[ri+1]
		}
		var ns []int
		for _, st := range starts[ri+1:] {
			ns = append(ns, st-nx)
		}
		events, starts, descs = events[nx:], ns, descs[ri+1:]
		if c.NViolations() > 3 {
			break
		}
	}
	c.AddTraces(rounds)
	c.Stage("T-concurrent-workers", map[string]any{"meshes": rounds})
}
