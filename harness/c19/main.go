// C19 - built-in resolver. Stage M: TLC on Resolver enumerates name kind x
// top-level domain x type x class x membership of the name in the three
// configurable sources, with the answer the fixed source order demands, and
// checks the no-shadowing invariants. Stage R: every case is rendered into a
// real configuration (parsed by config.MakeConfig), a real mapping store and
// a real dns.Server; each case is queried in several spellings, directly
// through ServeDNS with a recording writer and over a loopback UDP socket
// through the real miekg server loop. Stage T: the observed replies are
// judged by TLC (Resolver_Trace). Hostile packets (empty question, many
// questions, truncated, random bytes) go through the real server loop; the
// server must still answer afterwards.
package main

import (
	"encoding/json"
	"fmt"
	"net"
	"net/netip"
	"sort"
	"strings"
	"time"

	mdns "github.com/miekg/dns"

	"github.com/mycoria/mycoria/api/dns"
	"github.com/mycoria/mycoria/config"
	"github.com/mycoria/mycoria/storage"

	"verifharness/internal/mesh"
	"verifharness/internal/vf"
	"verifharness/internal/world"
)

type act struct {
	Name   string `json:"name"`
	Kind   string `json:"kind"`
	Tld    string `json:"tld"`
	Type   string `json:"type"`
	Class  string `json:"class"`
	InRes  bool   `json:"inres"`
	InFr   bool   `json:"infr"`
	InMap  bool   `json:"inmap"`
	Answer string `json:"answer"`
	NoMap  string `json:"nomap"`
}

var types = map[string]uint16{"A": mdns.TypeA, "AAAA": mdns.TypeAAAA, "SVCB": mdns.TypeSVCB, "HTTPS": mdns.TypeHTTPS, "ANY": mdns.TypeANY,
	"MX": mdns.TypeMX, "TXT": mdns.TypeTXT, "PTR": mdns.TypePTR, "T65535": 65535}
var classes = map[string]uint16{"IN": mdns.ClassINET, "ANY": mdns.ClassANY, "CH": mdns.ClassCHAOS, "HS": mdns.ClassHESIOD, "NONE": mdns.ClassNONE}

// labels per name kind.
var labels = map[string][]string{
	"api":       {"router", "open"},
	"forbidden": {"wpad", "myco"},
	"plain":     {"a.b", "xn--bcher-kva", "svc", "bob", "router2", "wpa"},
}

type recWriter struct {
	msgs []*mdns.Msg
}

func (w *recWriter) LocalAddr() net.Addr         { return &net.UDPAddr{IP: net.IPv6loopback, Port: 53} }
func (w *recWriter) RemoteAddr() net.Addr        { return &net.UDPAddr{IP: net.IPv6loopback, Port: 5353} }
func (w *recWriter) WriteMsg(m *mdns.Msg) error  { w.msgs = append(w.msgs, m); return nil }
func (w *recWriter) Write(b []byte) (int, error) { return len(b), nil }
func (w *recWriter) Close() error                { return nil }
func (w *recWriter) TsigStatus() error           { return nil }
func (w *recWriter) TsigTimersOnly(bool)         {}
func (w *recWriter) Hijack()                     {}

type setup struct {
	srv   *dns.Server
	conn  net.PacketConn
	addrs map[string]netip.Addr // source -> address it holds
	store *storage.MemStorage
}

// build renders membership (label, inres, infr, inmap) into a real config,
// store and server. spell selects how the configuration spells the names.
func build(c *vf.Ctx, label string, inres, infr, inmap bool, spell int) (*setup, error) {
	return buildWith(c, label, inres, infr, inmap, spell, nil)
}

// buildWith is build with the server's packet conn passed through wrap (stage F: a conn whose operations can fail).
func buildWith(c *vf.Ctx, label string, inres, infr, inmap bool, spell int, wrap func(net.PacketConn) net.PacketConn) (*setup, error) {
	ids := mesh.Identities(5)
	rAddr, fAddr, mAddr := ids[1].IP, ids[2].IP, ids[3].IP
	st := config.Store{}
	st.Router.Listen = []string{"tcp:47369"}
	// some unrelated entries that must never answer
	st.ResolveConfig = map[string]string{"other.myco": ids[4].IP.String()}
	st.FriendConfigs = []config.FriendConfig{{Name: "zed", IP: ids[4].IP.String()}}
	if inres {
		key := label + ".myco"
		if label == "xn--bcher-kva" && spell%2 == 0 {
			key = "bücher.myco" // the configuration spells an internationalised name in unicode; queries carry punycode
		}
		switch spell % 3 {
		case 1:
			key = strings.ToUpper(key)
		case 2:
			key += "."
		}
		st.ResolveConfig[key] = rAddr.String()
	}
	if infr {
		if spell%2 == 0 {
			// the friend has an earlier entry under another name (a nickname and a host name for one router): every
			// configured name is a friend name
			st.FriendConfigs = append(st.FriendConfigs, config.FriendConfig{Name: "nickname-of-the-same-router", IP: fAddr.String()})
		}
		st.FriendConfigs = append(st.FriendConfigs, config.FriendConfig{Name: label, IP: fAddr.String()})
	}
	var n *world.Node
	if p, v, _ := vf.NoPanic(func() { n = world.NewWorld().NewNode("r", world.NodeOpts{Cfg: st, ID: ids[0]}) }); p {
		return nil, fmt.Errorf("config rejected: %v", v)
	}
	store := storage.NewMemStorage()
	_ = store.SaveMapping("unrelated.myco", ids[4].IP)
	if inmap {
		if err := store.SaveMapping(label+".myco", mAddr); err != nil {
			return nil, err
		}
	}
	conn, err := net.ListenPacket("udp", "127.0.0.1:0")
	if err != nil {
		return nil, err
	}
	if wrap != nil {
		conn = wrap(conn)
	}
	srv, err := dns.New(n, conn, store)
	if err != nil {
		return nil, err
	}
	return &setup{srv: srv, conn: conn, store: store, addrs: map[string]netip.Addr{
		"internal": config.DefaultAPIAddress, "resolve-config": rAddr, "friend": fAddr, "mapping": mAddr,
	}}, nil
}

func qname(label, tld string, spell int) string {
	var name string
	switch tld {
	case "myco":
		name = label + ".myco."
	case "org":
		if spell%2 == 0 {
			name = label + ".org."
		} else {
			name = label + ".myco.org."
		}
	case "myco-only":
		name = "myco."
	case "no-question":
		name = ""
	case "none":
		switch spell % 5 {
		case 0:
			name = label + "."
		case 1:
			name = label + "myco."
		case 2:
			name = label + ".myco" // not fully qualified: only reachable by a direct handler call
		case 3:
			// ONE label that contains a dot ("<label>.myco" as a single label under the root): in presentation format the
			// dot is escaped, so the text ends in ".myco." although the name is not under .myco
			name = label + "\\.myco."
		default:
			name = label + "\\046myco." // the same label with the decimal escape
		}
	}
	switch (spell / 3) % 3 {
	case 1:
		name = strings.ToUpper(name)
	case 2:
		b := []byte(name)
		for i := range b {
			if i%2 == 0 && b[i] >= 'a' && b[i] <= 'z' {
				b[i] -= 32
			}
		}
		name = string(b)
	}
	return name
}

type obs struct {
	Ev           string `json:"ev"`
	Kind         string `json:"kind"`
	Tld          string `json:"tld"`
	Type         string `json:"type"`
	Class        string `json:"class"`
	InRes        bool   `json:"inres"`
	InFr         bool   `json:"infr"`
	InMap        bool   `json:"inmap"`
	Rcode        string `json:"rcode"`
	Source       string `json:"source"`
	AddrOK       bool   `json:"addrok"`
	Panic        bool   `json:"panic"`
	Lookup       string `json:"lookup"`
	LookupAddrOK bool   `json:"lookupaddrok"`
	QName        string `json:"qname"`
	Via          string `json:"via"`
	Label        string `json:"label"`
	Fault        string `json:"fault"` // "none", or the transport fault that hit this query (stage F); rcode "silent": no message reached the client
}

func rcodeName(rc int) string {
	switch rc {
	case mdns.RcodeSuccess:
		return "ok"
	case mdns.RcodeNameError:
		return "nxdomain"
	}
	return strings.ToLower(mdns.RcodeToString[rc])
}

// judgeReply extracts the source TXT and checks every address record.
func judgeReply(m *mdns.Msg, s *setup) (source string, addrok bool) {
	addrok = true
	nAddr := 0
	for _, rr := range append(append([]mdns.RR{}, m.Answer...), m.Extra...) {
		switch v := rr.(type) {
		case *mdns.TXT:
			for _, t := range v.Txt {
				if after, ok := strings.CutPrefix(t, "answer source: "); ok {
					source = after
				}
			}
		}
	}
	want, ok := s.addrs[source]
	for _, rr := range append(append([]mdns.RR{}, m.Answer...), m.Extra...) {
		switch v := rr.(type) {
		case *mdns.AAAA:
			nAddr++
			a, _ := netip.AddrFromSlice(v.AAAA)
			if !ok || a != want {
				addrok = false
			}
		case *mdns.A:
			addrok = false // never an IPv4 answer
		case *mdns.SVCB:
			for _, kv := range v.Value {
				if h, isHint := kv.(*mdns.SVCBIPv6Hint); isHint {
					for _, ip := range h.Hint {
						a, _ := netip.AddrFromSlice(ip)
						if !ok || a != want {
							addrok = false
						}
					}
				}
			}
		}
	}
	if nAddr == 0 {
		addrok = false
	}
	// the record type that was asked for must itself be in the ANSWER section and carry exactly that address
	// (an AAAA query is answered by an AAAA record, an SVCB query by an SVCB record with the address as its
	// ipv6hint, ANY by both); for the other address-type queries the code puts both records into the additional section
	if len(m.Question) == 1 && ok {
		hasAAAA, hasSVCB := false, false
		for _, rr := range m.Answer {
			switch v := rr.(type) {
			case *mdns.AAAA:
				if a, _ := netip.AddrFromSlice(v.AAAA); a == want {
					hasAAAA = true
				}
			case *mdns.SVCB:
				for _, kv := range v.Value {
					if h, isHint := kv.(*mdns.SVCBIPv6Hint); isHint && len(h.Hint) == 1 {
						if a, _ := netip.AddrFromSlice(h.Hint[0]); a == want {
							hasSVCB = true
						}
					}
				}
			}
		}
		switch m.Question[0].Qtype {
		case mdns.TypeAAAA:
			addrok = addrok && hasAAAA
		case mdns.TypeSVCB:
			addrok = addrok && hasSVCB
		case mdns.TypeANY:
			addrok = addrok && hasAAAA && hasSVCB
		}
	}
	return
}

func main() {
	vf.Main("C19", "model_checking", run)
}

var udpErrs int

func run(c *vf.Ctx) {
	c.Rule("TLC enumerates name kind x tld x qtype x qclass x membership in {resolve, friends, mappings}; each case is rendered into a real config/store/dns.Server and queried in several spellings (case, trailing dot, look-alike suffixes), via ServeDNS directly and via the real UDP server loop; replies judged by Resolver_Trace")
	c.Assume("friend names are matched as configured in lower case (the property leaves spelling open); a query name is on the wire in ASCII")

	// ---- Stage M
	res, err := c.TLC("Resolver", "Resolver_MC.cfg", vf.TLCOpts{Workers: 1})
	if err != nil {
		c.Fatal("TLC: %v", err)
	}
	if res.Violated != "" {
		c.Violation("model/"+res.Violated, "Resolver model violates "+res.Violated, res.ErrTrace, nil)
		return
	}
	c.AddModel(res.Distinct, res.Generated)
	var cases []act
	for _, e := range res.Edges {
		var a act
		if err := json.Unmarshal(e.Act, &a); err != nil {
			c.Fatal("edge: %v", err)
		}
		if a.Name == "case" {
			cases = append(cases, a)
		}
	}
	if len(cases) < 4000 {
		c.Fatal("only %d cases from TLC", len(cases))
	}
	c.Logf("M: %d states, %d cases", res.Distinct, len(cases))
	c.Stage("M", map[string]any{"states": res.Distinct, "cases": len(cases)})

	// ---- Stage R: group cases by membership so that one server serves many queries.
	groups := map[string][]act{}
	for _, a := range cases {
		k := fmt.Sprintf("%s/%v/%v/%v", a.Kind, a.InRes, a.InFr, a.InMap)
		groups[k] = append(groups[k], a)
	}
	keys := make([]string, 0, len(groups))
	for k := range groups {
		keys = append(keys, k)
	}
	sort.Strings(keys)
	var trace []any
	var obsAll []obs
	nSpell := c.Pick(3, 9)
	for gi, k := range keys {
		g := groups[k]
		a0 := g[0]
		lbls := labels[a0.Kind]
		if !c.Thorough() {
			lbls = lbls[:min(len(lbls), 3)]
		}
		for li, label := range lbls {
			s, err := build(c, label, a0.InRes, a0.InFr, a0.InMap, gi+li)
			if err != nil {
				c.Fatal("build %s %s: %v", k, label, err)
			}
			if err := s.srv.Start(); err != nil {
				c.Fatal("start: %v", err)
			}
			client := &mdns.Client{Net: "udp", Timeout: 400 * time.Millisecond}
			slow := &mdns.Client{Net: "udp", Timeout: 3 * time.Second} // second try of a query that got no reply (a loaded machine must not look like a silent server)
			// phases 1 and 2: the stored mappings change while the server runs (the name is mapped / mapped to another
			// address / not mapped any more); what a source holds is what it holds at the moment of the query
			inMap := a0.InMap
			for phase := 0; phase < 3; phase++ {
				if phase > 0 {
					if inMap {
						if err := s.store.DeleteMapping(label + ".myco"); err != nil {
							c.Fatal("delete mapping: %v", err)
						}
					} else {
						to := mesh.Identities(8)[5+phase].IP
						if err := s.store.SaveMapping(label+".myco", to); err != nil {
							c.Fatal("save mapping: %v", err)
						}
						s.addrs["mapping"] = to
					}
					inMap = !inMap
				}
				for ci, a := range g {
					for sp := 0; sp < nSpell; sp++ {
						if phase > 0 && sp != phase {
							continue
						}
						a.InMap = inMap
						spell := sp*3 + (ci+sp+li)%3 + sp
						name := qname(label, a.Tld, spell)
						q := new(mdns.Msg)
						q.Id = uint16(1 + ci)
						q.RecursionDesired = true
						q.Question = []mdns.Question{{Name: name, Qtype: types[a.Type], Qclass: classes[a.Class]}}
						if a.Tld == "no-question" {
							q.Question = nil
						}
						o := obs{Ev: "query", Kind: a.Kind, Tld: a.Tld, Type: a.Type, Class: a.Class, InRes: a.InRes, InFr: a.InFr, InMap: a.InMap, QName: name, Label: label, Fault: "none"}
						// direct
						w := &recWriter{}
						p, pv, _ := vf.NoPanic(func() { s.srv.ServeDNS(w, q) })
						o.Via = "direct"
						o.Panic = p
						_ = pv
						if len(w.msgs) == 1 {
							o.Rcode = rcodeName(w.msgs[0].Rcode)
							if w.msgs[0].Rcode == mdns.RcodeSuccess {
								o.Source, o.AddrOK = judgeReply(w.msgs[0], s)
							}
						} else {
							o.Rcode = fmt.Sprintf("replies=%d", len(w.msgs))
						}
						if a.Tld == "myco" {
							ip, src := s.srv.Lookup(strings.TrimSuffix(strings.ToLower(name), "."))
							o.Lookup = string(src)
							if want, ok := s.addrs[string(src)]; ok {
								o.LookupAddrOK = ip == want
							}
						}
						c.Eval(1)
						c.Distinct(fmt.Sprintf("%s/%s/%s/%s/%s/%d/%d", k, label, a.Tld, a.Type, a.Class, spell%9, phase))
						obsAll = append(obsAll, o)
						trace = append(trace, o)
						// over the wire (names must be fully qualified there)
						if phase > 0 {
							// the wire path was probed in phase 0
						} else if a.Tld == "no-question" && sp > 0 {
							// one wire probe per case is enough
						} else if a.Tld == "no-question" {
							// on the wire: a bare 12-byte header that announces one question
							// (the server loop hands it to the handler with none)
							o2 := o
							o2.Via = "udp-header-only"
							hdr := []byte{0, byte(1 + ci%250), 1, 0, 0, 1, 0, 0, 0, 0, 0, 0}
							o2.Rcode = rawExchange(s.conn.LocalAddr().String(), hdr, 250*time.Millisecond)
						if o2.Rcode == "noreply" && udpErrs < 12 {
							// second try with patience (a loaded machine must not look like a silent server); bounded like the
							// other wire probes
							if o2.Rcode = rawExchange(s.conn.LocalAddr().String(), hdr, 3*time.Second); o2.Rcode == "noreply" {
								udpErrs++
							}
						}
							o2.Source, o2.AddrOK = "", false
							c.Eval(1)
							obsAll = append(obsAll, o2)
							trace = append(trace, o2)
						} else if strings.HasSuffix(name, ".") && (sp == 0 || c.Thorough()) && udpErrs < 12 {
							o2 := o
							o2.Via = "udp"
							r, _, err := client.Exchange(q, s.conn.LocalAddr().String())
							if err != nil {
								r, _, err = slow.Exchange(q, s.conn.LocalAddr().String())
							}
							if err != nil {
								o2.Rcode = "error:" + err.Error()
								udpErrs++ // after a dozen queries without any reply the wire probes stop (each costs seconds)
							} else {
								o2.Rcode = rcodeName(r.Rcode)
								o2.Source, o2.AddrOK = "", false
								if r.Rcode == mdns.RcodeSuccess {
									o2.Source, o2.AddrOK = judgeReply(r, s)
								}
							}
							c.Eval(1)
							obsAll = append(obsAll, o2)
							trace = append(trace, o2)
						}
					}
				}
			}
			if gi%4 == 0 && li == 0 {
				hostile(c, s, client, label)
			}
			_ = s.srv.Stop()
			_ = s.conn.Close()
		}
	}
	c.Sample(obsAll[0])
	c.Sample(obsAll[len(obsAll)/2])
	c.Logf("R: %d queries", len(obsAll))

	// ---- Stage F: the same cases with a transport that fails (fault.go); the observations join the same trace.
	fobs := faultStage(c, groups, keys)
	for i, o := range fobs {
		if i == 0 || (o.Fault != "none" && i%97 == 1) {
			c.Sample(o)
		}
		obsAll = append(obsAll, o)
		trace = append(trace, o)
	}

	// ---- Stage T
	rejectAt, inv, tres, terr := c.TraceCheck("Resolver_Trace", "Resolver_Trace.cfg", trace, vf.TLCOpts{Workers: 1, Timeout: 20 * time.Minute})
	if terr != nil {
		c.Fatal("trace check: %v", terr)
	}
	c.AddModel(tres.Distinct, tres.Generated)
	ok := rejectAt <= 0 && inv == ""
	c.AddTraces(len(trace))
	c.Stage("T", map[string]any{"events": len(trace), "accepted": ok})
	if !ok {
		// find all rejected observations with the Go mirror of the trace predicate
		// to key them; TLC decided, Go only names.
		n := 0
		for i := rejectAt - 1; i < len(obsAll) && i >= 0; i++ {
			o := obsAll[i]
			if explain(o) == "" {
				continue
			}
			n++
			if n > 6 {
				break
			}
			key := vf.Key(explain(o), o.Kind, o.Tld, o.Type, o.Class, o.InRes, o.InFr, o.InMap, o.Via)
			if o.Tld == "no-question" {
				key = vf.Key(explain(o), o.Tld, o.Via)
			}
			after := ""
			if o.Fault != "none" && o.Fault != "" {
				after = fmt.Sprintf(" - this message reached the client after a failed transport operation of the server (%s); the name's source order allows no such answer", o.Fault)
			}
			c.Violation(key, fmt.Sprintf("resolver reply not allowed by the source order: %s for %q (%s): rcode=%s source=%q addrok=%v lookup=%q%s", explain(o), o.QName, o.Via, o.Rcode, o.Source, o.AddrOK, o.Lookup, after), o, nil)
		}
		if n == 0 {
			c.Broken("trace rejected at %d but no observation explains it", rejectAt)
		}
	}
}

// rawExchange sends one UDP packet and returns the reply's rcode name.
func rawExchange(addr string, pkt []byte, wait time.Duration) string {
	conn, err := net.Dial("udp", addr)
	if err != nil {
		return "error:" + err.Error()
	}
	defer conn.Close()
	_ = conn.SetDeadline(time.Now().Add(wait))
	if _, err := conn.Write(pkt); err != nil {
		return "error:" + err.Error()
	}
	buf := make([]byte, 2048)
	n, err := conn.Read(buf)
	if err != nil {
		return "noreply"
	}
	var m mdns.Msg
	if err := m.Unpack(buf[:n]); err != nil {
		return "garbled"
	}
	return rcodeName(m.Rcode)
}

// explain names why an observation is not allowed (mirror of QueryOK, used
// only to key a rejection TLC reported).
func explain(o obs) string {
	if o.Panic {
		return "panic"
	}
	silentAfterFault := o.Fault != "none" && o.Fault != "" && o.Rcode == "silent"
	addr := map[string]bool{"A": true, "AAAA": true, "SVCB": true, "HTTPS": true, "ANY": true}
	lookup := func() string {
		switch {
		case o.Kind == "api":
			return "internal"
		case o.InRes:
			return "resolve-config"
		case o.Kind == "forbidden":
			return "forbidden"
		case o.InFr:
			return "friend"
		case o.InMap:
			return "mapping"
		}
		return "none"
	}()
	want := "nxdomain"
	if o.Tld == "myco" && addr[o.Type] && (o.Class == "IN" || o.Class == "ANY") && lookup != "none" && lookup != "forbidden" {
		want = lookup
	}
	if silentAfterFault {
		// no message at all after a failed write: the client repeats the query
	} else if want == "nxdomain" {
		if o.Rcode == "replies=0" || o.Rcode == "noreply" {
			return "no-reply"
		}
		if o.Rcode != "nxdomain" {
			return "answered-instead-of-nxdomain"
		}
	} else {
		if o.Rcode == "nxdomain" && o.Fault != "none" && o.Fault != "" {
			return "name-error-for-a-name-with-a-source-after-failed-write"
		}
		if o.Rcode != "ok" {
			return "no-answer"
		}
		if o.Source != want {
			return "wrong-source"
		}
		if !o.AddrOK {
			return "wrong-address"
		}
	}
	if o.Tld == "myco" {
		wl := lookup
		if wl == "none" {
			wl = ""
		}
		if o.Lookup != wl {
			return "lookup-wrong-source"
		}
		if wl != "" && wl != "forbidden" && !o.LookupAddrOK {
			return "lookup-wrong-address"
		}
	}
	return ""
}

// hostile sends malformed packets through the real server loop and requires
// the server to survive and still answer a well-formed query.
func hostile(c *vf.Ctx, s *setup, client *mdns.Client, label string) {
	addr := s.conn.LocalAddr().String()
	conn, err := net.Dial("udp", addr)
	if err != nil {
		c.Broken("dial: %v", err)
		return
	}
	defer conn.Close()
	var pkts [][]byte
	// empty question section
	m0 := new(mdns.Msg)
	m0.Id = 7
	b, _ := m0.Pack()
	pkts = append(pkts, b)
	// two questions
	m2 := new(mdns.Msg)
	m2.Question = []mdns.Question{{Name: label + ".myco.", Qtype: mdns.TypeAAAA, Qclass: mdns.ClassINET}, {Name: "x.myco.", Qtype: mdns.TypeAAAA, Qclass: mdns.ClassINET}}
	b, _ = m2.Pack()
	pkts = append(pkts, b)
	// a response, an update, truncations, random bytes
	m3 := new(mdns.Msg)
	m3.SetQuestion(label+".myco.", mdns.TypeAAAA)
	m3.Response = true
	b, _ = m3.Pack()
	pkts = append(pkts, b)
	m4 := new(mdns.Msg)
	m4.SetQuestion(label+".myco.", mdns.TypeAAAA)
	m4.Opcode = mdns.OpcodeUpdate
	b, _ = m4.Pack()
	pkts = append(pkts, b)
	m5 := new(mdns.Msg)
	m5.SetQuestion(label+".myco.", mdns.TypeAAAA)
	full, _ := m5.Pack()
	for i := 0; i < len(full); i += 3 {
		pkts = append(pkts, full[:i])
	}
	for i := 0; i < 40; i++ {
		r := make([]byte, 1+c.Rand.Intn(80))
		c.Rand.Read(r)
		pkts = append(pkts, r)
		// a valid header with random body
		r2 := append(append([]byte{}, full[:12]...), r...)
		pkts = append(pkts, r2)
	}
	for _, p := range pkts {
		_, _ = conn.Write(p)
		c.Eval(1)
	}
	// direct handler calls with question counts the server loop would reject
	for _, m := range []*mdns.Msg{m2} {
		w := &recWriter{}
		if p, v, _ := vf.NoPanic(func() { s.srv.ServeDNS(w, m) }); p {
			c.Violation("panic/direct-multi-question", fmt.Sprintf("ServeDNS panics on a message with two questions: %v", v), map[string]any{"questions": 2}, nil)
		}
	}
	time.Sleep(20 * time.Millisecond)
	q := new(mdns.Msg)
	q.SetQuestion("router.myco.", mdns.TypeAAAA)
	r, _, err := client.Exchange(q, addr)
	if err != nil || r.Rcode != mdns.RcodeSuccess {
		c.Violation("hostile/server-dead", fmt.Sprintf("after %d malformed packets the resolver no longer answers router.myco: %v", len(pkts), err), map[string]any{"packets": len(pkts)}, nil)
	}
	c.Distinct("hostile/" + label)
}
