// Stage F of C19 - transport faults as one more dimension of the cases.
//
// The resolver writes every reply with a 10 ms write deadline and its
// transport can fail transiently (the netstack's WriteTo stalls, ENOBUFS);
// a recording writer that never fails cannot show what the client is told
// then. Here the same cases (name kind x tld x type x class x membership) are
// served by a real dns.Server whose packet conn and whose response writer fail
// at chosen operations: the k-th WriteMsg / WriteTo or the k-th
// SetWriteDeadline after arming (k = 1, 2, random, two in a row), failing with
// a deadline error, ENOBUFS, a short write, or an error reported although the
// datagram left. Both paths: ServeDNS directly, and the real miekg server loop
// on a loopback UDP socket wrapped as a generic net.PacketConn (the way the
// netstack conn is used in production), pipelined and one by one.
//
// Judgement, by the same Resolver_Trace oracle: every message that reaches the
// client for a query is one event and must be the answer the source order
// allows; a query for which a fault fired may also stay without any message
// (event rcode "silent" with the fault named - the client repeats it, and the
// repeated query, sent without fault, must be answered); never a panic.
package main

import (
	"errors"
	"fmt"
	"io"
	"net"
	"os"
	"strings"
	"sync"
	"syscall"
	"time"

	mdns "github.com/miekg/dns"

	"verifharness/internal/vf"
)

// faultPlan decides which transport operations fail. It is shared by the
// packet conn handed to dns.New and by the response writers of direct calls.
type faultPlan struct {
	mu      sync.Mutex
	armed   bool
	op      string // "write" (WriteMsg / Write / WriteTo) or "deadline" (SetWriteDeadline)
	kind    string
	failAt  map[int]bool
	n       int            // operations of the armed kind since arming
	current uint16         // query being served (a deadline has no message id)
	fired   map[uint16]int // query id -> faults that hit one of its operations
	real    map[uint16]int // query id -> operations of the REAL socket that failed (the 10 ms write deadline of the resolver
	// does run out on a loaded machine); never reset, ids are unique
	nReal int
}

// noteReal records a failure of the real socket: a transport fault like the injected ones, only not chosen by the driver.
func (p *faultPlan) noteReal(op string, id uint16) {
	p.mu.Lock()
	defer p.mu.Unlock()
	if op == "deadline" {
		id = p.current
	}
	if p.real == nil {
		p.real = map[uint16]int{}
	}
	p.real[id]++
	p.nReal++
}

func (p *faultPlan) arm(op, kind string, failAt []int) {
	p.mu.Lock()
	defer p.mu.Unlock()
	p.armed, p.op, p.kind, p.n = true, op, kind, 0
	p.failAt = map[int]bool{}
	for _, k := range failAt {
		p.failAt[k] = true
	}
	p.fired = map[uint16]int{}
}

func (p *faultPlan) disarm() {
	p.mu.Lock()
	p.armed = false
	p.mu.Unlock()
}

func (p *faultPlan) setCurrent(id uint16) {
	p.mu.Lock()
	p.current = id
	p.mu.Unlock()
}

func (p *faultPlan) firedFor(id uint16) int {
	p.mu.Lock()
	defer p.mu.Unlock()
	return p.fired[id] + p.real[id]
}

func (p *faultPlan) realFor(id uint16) int {
	p.mu.Lock()
	defer p.mu.Unlock()
	return p.real[id]
}

// hit is called for every operation; err != nil: the operation fails;
// deliver: the data leaves nevertheless (error reported only).
func (p *faultPlan) hit(op string, id uint16) (err error, deliver bool) {
	p.mu.Lock()
	defer p.mu.Unlock()
	if !p.armed || op != p.op {
		return nil, true
	}
	p.n++
	if !p.failAt[p.n] {
		return nil, true
	}
	if op == "deadline" {
		id = p.current
	}
	p.fired[id]++
	switch p.kind {
	case "enobufs":
		return &net.OpError{Op: "write", Net: "udp", Err: os.NewSyscallError("sendto", syscall.ENOBUFS)}, false
	case "short-write":
		return io.ErrShortWrite, false
	case "reported-only":
		return &net.OpError{Op: "write", Net: "udp", Err: os.ErrDeadlineExceeded}, true
	case "closed":
		return &net.OpError{Op: "set", Net: "udp", Err: net.ErrClosed}, false
	}
	return &net.OpError{Op: "write", Net: "udp", Err: os.ErrDeadlineExceeded}, false
}

// faultConn is the packet conn of the server: a real loopback socket behind a
// generic net.PacketConn (so the server loop writes with WriteTo).
type faultConn struct {
	net.PacketConn
	plan *faultPlan
}

func (c *faultConn) SetWriteDeadline(t time.Time) error {
	if err, _ := c.plan.hit("deadline", 0); err != nil {
		return err
	}
	err := c.PacketConn.SetWriteDeadline(t)
	if err != nil {
		c.plan.noteReal("deadline", 0)
	}
	return err
}

func (c *faultConn) WriteTo(b []byte, a net.Addr) (int, error) {
	var id uint16
	if len(b) >= 2 {
		id = uint16(b[0])<<8 | uint16(b[1])
	}
	err, deliver := c.plan.hit("write", id)
	if err != nil {
		if deliver {
			_, _ = c.PacketConn.WriteTo(b, a)
		}
		if errors.Is(err, io.ErrShortWrite) {
			return len(b) / 2, err
		}
		return 0, err
	}
	n, err := c.PacketConn.WriteTo(b, a)
	if err != nil {
		c.plan.noteReal("write", id)
	}
	return n, err
}

// faultWriter is the response writer of direct calls: it keeps what would be
// on the wire of every write that is not failed.
type faultWriter struct {
	recWriter
	plan *faultPlan
}

func (w *faultWriter) WriteMsg(m *mdns.Msg) error {
	err, deliver := w.plan.hit("write", m.Id)
	if err == nil || deliver {
		// what would be on the wire; a query name that is not fully qualified exists only in direct calls and cannot
		// be packed: the message is kept as it is then
		got := new(mdns.Msg)
		if wire, perr := m.Pack(); perr != nil {
			w.msgs = append(w.msgs, m.Copy())
		} else if uerr := got.Unpack(wire); uerr != nil {
			w.msgs = append(w.msgs, nil)
		} else {
			w.msgs = append(w.msgs, got)
		}
	}
	return err
}

func (w *faultWriter) Write(b []byte) (int, error) {
	var id uint16
	if len(b) >= 2 {
		id = uint16(b[0])<<8 | uint16(b[1])
	}
	err, deliver := w.plan.hit("write", id)
	if err == nil || deliver {
		got := new(mdns.Msg)
		if uerr := got.Unpack(b); uerr != nil {
			w.msgs = append(w.msgs, nil)
		} else {
			w.msgs = append(w.msgs, got)
		}
	}
	if err != nil {
		return 0, err
	}
	return len(b), nil
}

// fq is one query of a window.
type fq struct {
	a    act
	name string
	q    *mdns.Msg
	id   uint16
	msgs []*mdns.Msg // what reached the client (nil entry: not a DNS message)
}

var faultSilent int // queries without reply and without fault on the wire (each costs seconds)

// collect reads what arrives on sock until every query in ids has either a
// message or a fired fault and a grace period has passed after that.
func collect(sock net.Conn, plan *faultPlan, qs []*fq, grace time.Duration, resend func(q *fq)) {
	byID := map[uint16]*fq{}
	for _, q := range qs {
		byID[q.id] = q
	}
	buf := make([]byte, 4096)
	start := time.Now()
	var settledAt time.Time
	resent := false
	for iter := 0; ; iter++ {
		_ = sock.SetReadDeadline(time.Now().Add(4 * time.Millisecond))
		n, err := sock.Read(buf)
		if err == nil && n >= 2 {
			id := uint16(buf[0])<<8 | uint16(buf[1])
			if q := byID[id]; q != nil {
				m := new(mdns.Msg)
				if uerr := m.Unpack(buf[:n]); uerr != nil {
					q.msgs = append(q.msgs, nil)
				} else {
					q.msgs = append(q.msgs, m)
				}
			}
		} else if err != nil {
			var ne net.Error
			if !errors.As(err, &ne) || !ne.Timeout() {
				time.Sleep(2 * time.Millisecond)
			}
		}
		settled := true
		for _, q := range qs {
			if len(q.msgs) == 0 && plan.firedFor(q.id) == 0 {
				settled = false
			}
		}
		switch {
		case settled && settledAt.IsZero():
			settledAt = time.Now()
		case settled && time.Since(settledAt) > grace:
			return
		case !settled && !resent && time.Since(start) > time.Second && iter > 100:
			// like a stub resolver (and like the wire probes of stage R): one patient second try before a query counts
			// as unanswered - on a loaded machine the resolver's own 10 ms write deadline runs out now and then
			resent = true
			for _, q := range qs {
				if len(q.msgs) == 0 && plan.firedFor(q.id) == 0 {
					resend(q)
				}
			}
		case !settled && time.Since(start) > 4*time.Second && iter > 400:
			faultSilent++
			return
		}
	}
}

// faultStage runs the windows and returns the observations (one per message
// that reached a client, or one "silent" per query without any).
func faultStage(c *vf.Ctx, groups map[string][]act, keys []string) []obs {
	var out []obs
	nServers := c.Pick(28, 96)
	nWindows := c.Pick(5, 8)
	grace := time.Duration(c.Pick(30, 50)) * time.Millisecond
	begin := time.Now()
	limit := time.Duration(c.Pick(25, 150)) * time.Second
	var nextID uint16 = 100
	nFired, nQueries, nSilent, nReal := 0, 0, 0, 0
	kindsOf := map[string][]string{
		"write":    {"deadline-exceeded", "enobufs", "short-write", "reported-only"},
		"deadline": {"deadline-exceeded", "enobufs", "closed"},
	}
	// the sources must all be met: walk the groups in a shuffled order
	order := c.Rand.Perm(len(keys))
	for si := 0; si < nServers && time.Since(begin) < limit && faultSilent < 4; si++ {
		k := keys[order[si%len(order)]]
		g := groups[k]
		a0 := g[0]
		lbls := labels[a0.Kind]
		label := lbls[c.Rand.Intn(len(lbls))]
		plan := &faultPlan{}
		s, err := buildWith(c, label, a0.InRes, a0.InFr, a0.InMap, c.Rand.Intn(6), func(pc net.PacketConn) net.PacketConn {
			return &faultConn{PacketConn: pc, plan: plan}
		})
		if err != nil {
			c.Broken("fault stage: build %s %s: %v", k, label, err)
			return out
		}
		if err := s.srv.Start(); err != nil {
			c.Broken("fault stage: start: %v", err)
			return out
		}
		var positives []act
		for _, a := range g {
			if a.Answer != "nxdomain" {
				positives = append(positives, a)
			}
		}
		for wi := 0; wi < nWindows && faultSilent < 4 && time.Since(begin) < limit; wi++ {
			wire := c.Rand.Intn(2) == 0
			op := "write"
			if c.Rand.Intn(3) == 0 {
				op = "deadline"
			}
			kind := kindsOf[op][c.Rand.Intn(len(kindsOf[op]))]
			n := 1 + c.Rand.Intn(4)
			var failAt []int
			switch c.Rand.Intn(4) {
			case 0:
				failAt = []int{1}
			case 1:
				failAt = []int{2}
			case 2:
				failAt = []int{1 + c.Rand.Intn(n+1)}
			default:
				f := 1 + c.Rand.Intn(n)
				failAt = []int{f, f + 1} // two operations in a row fail
			}
			// the queries of the window
			var qs []*fq
			for i := 0; i < n; i++ {
				var a act
				for try := 0; ; try++ {
					if len(positives) > 0 && c.Rand.Intn(100) < 65 {
						a = positives[c.Rand.Intn(len(positives))]
					} else {
						a = g[c.Rand.Intn(len(g))]
					}
					if !wire || a.Tld != "no-question" || try > 50 {
						break
					}
				}
				spell := c.Rand.Intn(27)
				name := qname(label, a.Tld, spell)
				if wire && !strings.HasSuffix(name, ".") {
					name = qname(label, a.Tld, spell+1) // the spelling that is not fully qualified cannot be put on the wire
				}
				nextID++
				q := new(mdns.Msg)
				q.Id = nextID
				q.RecursionDesired = true
				q.Question = []mdns.Question{{Name: name, Qtype: types[a.Type], Qclass: classes[a.Class]}}
				if a.Tld == "no-question" {
					if wire {
						continue
					}
					q.Question = nil
				}
				qs = append(qs, &fq{a: a, name: name, q: q, id: nextID})
			}
			if len(qs) == 0 {
				continue
			}
			via := "direct-fault"
			if wire {
				via = "udp-fault"
			}
			plan.arm(op, kind, failAt)
			panicked := map[uint16]bool{}
			ok := runWindow(c, s, plan, qs, wire, op, grace, panicked)
			plan.disarm()
			if !ok {
				break
			}
			// the repeated queries of the client, without fault
			var retries []*fq
			for _, q := range qs {
				if plan.firedFor(q.id) > 0 {
					nextID++
					rq := q.q.Copy()
					rq.Id = nextID
					retries = append(retries, &fq{a: q.a, name: q.name, q: rq, id: nextID})
				}
			}
			fired := map[uint16]int{}
			for _, q := range qs {
				fired[q.id] = plan.firedFor(q.id) - plan.realFor(q.id)
			}
			if len(retries) > 0 {
				plan.arm("none", "", nil)
				ok = runWindow(c, s, plan, retries, wire, "deadline", grace/3, panicked)
				plan.disarm()
				if !ok {
					break
				}
			}
			for _, q := range append(qs, retries...) {
				a := q.a
				o := obs{Ev: "query", Kind: a.Kind, Tld: a.Tld, Type: a.Type, Class: a.Class, InRes: a.InRes, InFr: a.InFr, InMap: a.InMap,
					QName: q.name, Label: label, Via: via, Fault: "none", Panic: panicked[q.id]}
				if fired[q.id] > 0 {
					o.Fault = fmt.Sprintf("%s:%s@%v", op, kind, failAt)
					nFired++
				} else if plan.realFor(q.id) > 0 {
					o.Fault = "real-socket-error"
					nReal++
				}
				if a.Tld == "myco" {
					ip, src := s.srv.Lookup(strings.TrimSuffix(strings.ToLower(q.name), "."))
					o.Lookup = string(src)
					if want, ok := s.addrs[string(src)]; ok {
						o.LookupAddrOK = ip == want
					}
				}
				nQueries++
				c.Eval(1)
				c.Distinct(fmt.Sprintf("fault/%s/%s/%s/%s/%s/%v", k, via, op, kind, a.Answer, fired[q.id] > 0))
				if len(q.msgs) == 0 {
					o.Rcode = "silent"
					nSilent++
					out = append(out, o)
					continue
				}
				for _, m := range q.msgs {
					o1 := o
					if m == nil {
						o1.Rcode = "garbled"
					} else {
						o1.Rcode = rcodeName(m.Rcode)
						if m.Rcode == mdns.RcodeSuccess {
							o1.Source, o1.AddrOK = judgeReply(m, s)
						}
					}
					out = append(out, o1)
				}
			}
		}
		_ = s.srv.Stop()
		_ = s.conn.Close()
	}
	if nFired == 0 {
		c.Broken("fault stage: no fault fired in %d queries", nQueries)
	}
	c.Logf("F: %d queries under transport faults, %d hit by a fault, %d without any message, %d hit by an error of the real socket, %d observations, %.1fs", nQueries, nFired, nSilent, nReal, len(out), time.Since(begin).Seconds())
	c.Stage("F", map[string]any{"queries": nQueries, "faulted": nFired, "silent": nSilent, "real_socket_errors": nReal, "observations": len(out)})
	return out
}

// runWindow serves the queries of one window; false: the stage cannot go on
// (reported as broken).
func runWindow(c *vf.Ctx, s *setup, plan *faultPlan, qs []*fq, wire bool, op string, grace time.Duration, panicked map[uint16]bool) bool {
	if !wire {
		for _, q := range qs {
			plan.setCurrent(q.id)
			w := &faultWriter{plan: plan}
			if p, _, _ := vf.NoPanic(func() { s.srv.ServeDNS(w, q.q) }); p {
				panicked[q.id] = true
			}
			q.msgs = w.msgs
		}
		return true
	}
	sock, err := net.Dial("udp", s.conn.LocalAddr().String())
	if err != nil {
		c.Broken("fault stage: dial: %v", err)
		return false
	}
	defer sock.Close()
	send := func(q *fq) bool {
		b, err := q.q.Pack()
		if err != nil {
			c.Broken("fault stage: pack %q: %v", q.name, err)
			return false
		}
		if _, err := sock.Write(b); err != nil {
			c.Broken("fault stage: send: %v", err)
			return false
		}
		return true
	}
	if op == "write" {
		// pipelined: a failed write is attributed by the id of the message
		for _, q := range qs {
			if !send(q) {
				return false
			}
		}
		collect(sock, plan, qs, grace, func(q *fq) { send(q) })
		return true
	}
	// one by one: a failed SetWriteDeadline belongs to the query in service
	for _, q := range qs {
		plan.setCurrent(q.id)
		if !send(q) {
			return false
		}
		collect(sock, plan, []*fq{q}, grace, func(q *fq) { send(q) })
	}
	return true
}
