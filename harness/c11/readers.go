// The read-only side of the table. C11 speaks of lookups "after any sequence of route additions, next-hop or
// disconnect removals and cleanups": those are the operations that change the table. Everything else m.RoutingTable
// exports is called by other parts of the program ON THE LIVE TABLE in between - the router looks routes up
// (LookupNearest, LookupNearestRoute, LookupPossiblePaths), the dashboard renders the table page (Format, which even
// takes the write lock). The histories of the other stages never contained such calls, so a "reader" that leaves the
// table in another state (re-ordered, trimmed, with entries swapped for copies ...) could not be seen.
//
// Here the exported methods of *m.RoutingTable are enumerated by reflection and classified:
//   - the mutators the property names (AddRoute, RemoveNextHop, RemoveDisconnected, Clean) and the guarded ageing hook;
//   - readers: the methods known today (checked against `go doc m.RoutingTable`) and any further method whose name
//     says that it only reads (Lookup*, Format*, List*, Export*, Get* ...) and whose parameters can be produced here;
//   - everything else is NOTICED (log and evidence), never called: an unknown method may be a new mutator.
//
// A reader call is an operation of a history like any other ("read" event of RoutingTable_Trace and
// RoutingTableNested_Trace): as a step of the trace specification it is a stuttering step of the table (ReadOK /
// ReadOnly: the set of routes is what it was), and every clause of the property - first of all P1 on the real lookups
// taken AFTER the call - is evaluated behind it as behind every other operation.
package main

import (
	"fmt"
	"math/rand"
	"net/netip"
	"reflect"
	"sort"
	"strings"
	"time"

	"github.com/mycoria/mycoria/m"

	"verifharness/internal/vf"
)

// tableMutators: the operations that are allowed to change the table.
var tableMutators = map[string]bool{
	"AddRoute": true, "RemoveNextHop": true, "RemoveDisconnected": true, "Clean": true,
	"VerifAge": true, // guarded hook: lets time pass
}

// knownReaders: the exported non-mutating methods as of `go doc github.com/mycoria/mycoria/m RoutingTable`
// (VerifEntries is the guarded projection hook). One that disappears is reported in the evidence.
var knownReaders = []string{"Format", "LookupNearest", "LookupNearestRoute", "LookupPossiblePaths", "VerifEntries"}

// readerPrefixes: names that declare a method as read-only; such a method is picked up without editing this file.
var readerPrefixes = []string{"Lookup", "Format", "String", "List", "Export", "Get", "Entries", "Routes", "Peers", "Len", "Count",
	"Size", "Has", "Contains", "Find", "Nearest", "Dump", "Stats", "Is", "Snapshot", "Render", "Describe", "Marshal"}

type readerSet struct {
	names     []string // callable readers, sorted
	unknown   []string // exported methods that are neither mutators nor readers by name: noticed, not called
	unfeeding []string // readers by name whose parameters cannot be produced here: noticed, not called
	missing   []string // known readers that are gone
}

var (
	addrT     = reflect.TypeOf(netip.Addr{})
	prefixT   = reflect.TypeOf(netip.Prefix{})
	addrsT    = reflect.TypeOf([]netip.Addr{})
	distanceT = reflect.TypeOf(m.AddrDistance{})
	durationT = reflect.TypeOf(time.Duration(0))
)

func feedable(t reflect.Type) bool {
	switch t {
	case addrT, prefixT, addrsT, distanceT, durationT:
		return true
	}
	switch t.Kind() {
	case reflect.Int, reflect.Int8, reflect.Int16, reflect.Int32, reflect.Int64,
		reflect.Uint, reflect.Uint8, reflect.Uint16, reflect.Uint32, reflect.Uint64, reflect.Bool, reflect.String:
		return true
	}
	return false
}

// enumerateReaders classifies the exported methods of *m.RoutingTable.
func enumerateReaders() *readerSet {
	rs := &readerSet{}
	t := reflect.TypeOf((*m.RoutingTable)(nil))
	have := map[string]bool{}
	for i := 0; i < t.NumMethod(); i++ {
		mt := t.Method(i)
		have[mt.Name] = true
		if tableMutators[mt.Name] {
			continue
		}
		byName := false
		for _, k := range knownReaders {
			byName = byName || k == mt.Name
		}
		for _, p := range readerPrefixes {
			byName = byName || strings.HasPrefix(mt.Name, p)
		}
		if !byName {
			rs.unknown = append(rs.unknown, mt.Name)
			continue
		}
		ok := !mt.Type.IsVariadic()
		for a := 1; a < mt.Type.NumIn() && ok; a++ {
			ok = feedable(mt.Type.In(a))
		}
		if ok {
			rs.names = append(rs.names, mt.Name)
		} else {
			rs.unfeeding = append(rs.unfeeding, mt.Name)
		}
	}
	for _, k := range knownReaders {
		if !have[k] {
			rs.missing = append(rs.missing, k)
		}
	}
	sort.Strings(rs.names)
	return rs
}

var readers = enumerateReaders()

// readOrderDrift counts reader calls behind which the ORDER of the entries differed although the set of routes was
// the same - implementation level, reported in the evidence only; the verdict is the property's (the lookups).
var readOrderDrift int

func feed(t reflect.Type, rng *rand.Rand, univ []netip.Addr) reflect.Value {
	pickAddr := func() netip.Addr {
		a := univ[rng.Intn(len(univ))]
		if rng.Intn(4) == 0 { // a neighbour that has no route
			b := a.As16()
			b[15] ^= byte(0x40 + rng.Intn(0x40))
			b[9] = byte(rng.Intn(256))
			a = netip.AddrFrom16(b)
		}
		return a
	}
	switch t {
	case addrT:
		return reflect.ValueOf(pickAddr())
	case prefixT:
		p, _ := pickAddr().Prefix([]int{9, 12, 16, 18, 20, 128}[rng.Intn(6)])
		return reflect.ValueOf(p)
	case addrsT:
		var l []netip.Addr
		for i := rng.Intn(3); i > 0; i-- {
			l = append(l, pickAddr())
		}
		return reflect.ValueOf(l)
	case distanceT:
		if rng.Intn(2) == 0 {
			return reflect.ValueOf(m.ZeroAddrDistance()) // "no maximum"
		}
		return reflect.ValueOf(m.IPDistance(pickAddr(), pickAddr()))
	case durationT:
		return reflect.ValueOf(time.Duration(rng.Intn(3)) * time.Hour)
	}
	v := reflect.New(t).Elem()
	switch t.Kind() {
	case reflect.Int, reflect.Int8, reflect.Int16, reflect.Int32, reflect.Int64:
		v.SetInt(int64(1 + rng.Intn(4)))
	case reflect.Uint, reflect.Uint8, reflect.Uint16, reflect.Uint32, reflect.Uint64:
		v.SetUint(uint64(1 + rng.Intn(4)))
	case reflect.Bool:
		v.SetBool(rng.Intn(2) == 0)
	}
	return v
}

// callReader calls the reader `name` on the live table with arguments drawn from argSeed and the given addresses.
// The results are dropped (entries returned by lookups are constants for the caller). It returns the call as text.
func callReader(rt *m.RoutingTable, name string, argSeed int64, univ []netip.Addr) (string, error) {
	mv := reflect.ValueOf(rt).MethodByName(name)
	if !mv.IsValid() {
		return "", fmt.Errorf("m.RoutingTable has no method %s", name)
	}
	rng := rand.New(rand.NewSource(argSeed))
	mt := mv.Type()
	args := make([]reflect.Value, mt.NumIn())
	txt := make([]string, mt.NumIn())
	for i := range args {
		if !feedable(mt.In(i)) {
			return "", fmt.Errorf("cannot produce parameter %d (%s) of %s", i, mt.In(i), name)
		}
		args[i] = feed(mt.In(i), rng, univ)
		txt[i] = fmt.Sprint(args[i].Interface())
	}
	before := rt.VerifEntries()
	mv.Call(args)
	after := rt.VerifEntries()
	if len(before) == len(after) {
		for i := range before {
			if before[i].DstIP != after[i].DstIP || before[i].NextHop != after[i].NextHop || len(before[i].Path.Hops) != len(after[i].Path.Hops) {
				readOrderDrift++
				break
			}
		}
	}
	return name + "(" + strings.Join(txt, ", ") + ")", nil
}

// pickReader: one of the callable readers.
func pickReader(rng *rand.Rand) (name string, argSeed int64) {
	return readers.names[rng.Intn(len(readers.names))], rng.Int63()
}

// withReads interleaves reader calls with the operations of a history: behind every operation with probability
// 1/every, and at least one somewhere behind the first operation.
func withReads(rng *rand.Rand, ops []act, every int) []act {
	if len(readers.names) == 0 || len(ops) == 0 {
		return ops
	}
	out := make([]act, 0, len(ops)+len(ops)/every+1)
	forced := rng.Intn(len(ops))
	for i, a := range ops {
		out = append(out, a)
		for n := 0; (i == forced && n == 0) || rng.Intn(every) == 0; n++ {
			fn, seed := pickReader(rng)
			out = append(out, act{Name: "read", Fn: fn, Arg: seed})
			if n >= 2 {
				break
			}
		}
	}
	return out
}

// reportReaders writes what the enumeration found into log and evidence; without a single callable reader the stage
// would be vacuous.
func reportReaders(c *vf.Ctx) {
	c.Logf("readers of m.RoutingTable (reflection): called %v; noticed but not called: unclassified %v, parameters not producible %v; known readers that are gone %v",
		readers.names, readers.unknown, readers.unfeeding, readers.missing)
	c.Extra("table_readers", map[string]any{"called": readers.names, "unclassified_not_called": readers.unknown,
		"parameters_not_producible": readers.unfeeding, "known_but_gone": readers.missing})
	callable := 0
	for _, n := range readers.names {
		if n != "VerifEntries" {
			callable++
		}
	}
	if callable == 0 {
		c.Broken("no exported read-only method of m.RoutingTable could be called: the reader histories are vacuous")
	}
}
