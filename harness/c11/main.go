// C11 - routing table. Stage M: TLC on RoutingTable (operations transcribed
// from m/table.go, invariants P1..P7). Stage R: every transition of the
// dumped graph (sequences of <= 3 operations) and TLC simulation walks are
// executed on a real m.RoutingTable; stage T: Go-PRNG histories likewise; in
// all cases the real table is projected after every operation together with
// the real lookups, and TLC (RoutingTable_Trace) evaluates P1..P7 and
// LookupOK on the real snapshots.
package main

import (
	"encoding/json"
	"fmt"
	"math/rand"
	"net/netip"
	"sort"
	"time"

	"github.com/mycoria/mycoria/m"

	"verifharness/internal/vf"
)

type route struct {
	Dst    int    `json:"dst"`
	Nh     int    `json:"nh"`
	Src    string `json:"src"`
	Hops   int    `json:"hops"`
	Delay  int    `json:"delay"`
	Relays []int  `json:"relays"`
	Plen   int    `json:"plen"`
	Exp    string `json:"exp"`
}

type act struct {
	Name   string `json:"name"`
	Route  route  `json:"route"`
	Added  bool   `json:"added"`
	Peer   int    `json:"peer"`
	Router int    `json:"router"`
	Peers  []int  `json:"peers"`
	Fn     string `json:"fn,omitempty"`  // "read": the exported read-only method that is called (readers.go)
	Arg    int64  `json:"arg,omitempty"` // "read": seed of its arguments
}

var me = netip.MustParseAddr("fd10::100")

func addrOf(d int) netip.Addr {
	if d == 0 {
		return me
	}
	if d <= 3 {
		return netip.MustParseAddr(fmt.Sprintf("fd10::%x", d))
	}
	return netip.MustParseAddr(fmt.Sprintf("fd20::%x", d))
}

func intOf(a netip.Addr) int {
	if a == me {
		return 0
	}
	b := a.As16()
	return int(b[15])
}

func newTable(limit int) *m.RoutingTable {
	return m.NewRoutingTable(m.RoutingTableConfig{
		RoutablePrefixes: []m.RoutablePrefix{{
			BasePrefix:       m.RoutingAddressPrefix,
			RoutingBits:      m.ContinentPrefixBits,
			EntryTTL:         time.Hour,
			EntriesPerPrefix: limit,
		}},
		RouterIP: me,
	})
}

func entryOf(r route) m.RoutingTableEntry {
	e := m.RoutingTableEntry{DstIP: addrOf(r.Dst), NextHop: addrOf(r.Nh)}
	if r.Src == "peer" {
		e.Source = m.RouteSourcePeer
	} else {
		e.Source = m.RouteSourceGossip
		e.Expires = time.Now().Add(2 * time.Hour)
	}
	if r.Plen == 0 {
		return e
	}
	first := uint16(0)
	base := 5 * (len(r.Relays) + 2)
	if r.Delay > base {
		first = 100
	}
	hops := []m.SwitchHop{{Router: me, Delay: first, ForwardLabel: m.SwitchLabel(10 + r.Nh), ReturnLabel: 0}}
	for i, x := range r.Relays {
		hops = append(hops, m.SwitchHop{Router: addrOf(x), Delay: 0, ForwardLabel: m.SwitchLabel(20 + i), ReturnLabel: m.SwitchLabel(30 + i)})
	}
	hops = append(hops, m.SwitchHop{Router: addrOf(r.Dst), Delay: 0, ForwardLabel: 0, ReturnLabel: 40})
	e.Path = m.SwitchPath{Hops: hops}
	return e
}

func project(e *m.RoutingTableEntry) route {
	r := route{Dst: intOf(e.DstIP), Nh: intOf(e.NextHop), Hops: int(e.Path.TotalHops), Delay: int(e.Path.TotalDelay),
		Plen: len(e.Path.Hops), Relays: []int{}, Exp: "fresh"}
	switch e.Source {
	case m.RouteSourcePeer:
		r.Src = "peer"
	case m.RouteSourceGossip:
		r.Src = "gossip"
	default:
		r.Src = "other"
	}
	if len(e.Path.Hops) > 2 {
		for _, h := range e.Path.Hops[1 : len(e.Path.Hops)-1] {
			r.Relays = append(r.Relays, intOf(h.Router))
		}
	}
	if e.Source != m.RouteSourcePeer && !e.Expires.After(time.Now()) {
		r.Exp = "old"
	}
	return r
}

var dsts = []int{1, 2, 3, 4}

// flatUniv: the addresses reader calls are fed with in the stages of the small universe.
var flatUniv = []netip.Addr{addrOf(1), addrOf(2), addrOf(3), addrOf(4), me}

func snapshot(rt *m.RoutingTable) (after []route, lookups []map[string]any) {
	ents := rt.VerifEntries()
	after = make([]route, 0, len(ents))
	for i := range ents {
		after = append(after, project(&ents[i]))
	}
	for _, fn := range []string{"nearest", "route"} {
		for _, d := range dsts {
			var rte *m.RoutingTableEntry
			var isdst bool
			if fn == "nearest" {
				rte, isdst = rt.LookupNearest(addrOf(d))
			} else {
				rte, isdst = rt.LookupNearestRoute(addrOf(d))
			}
			lk := map[string]any{"fn": fn, "a": d, "found": rte != nil, "isdst": isdst, "dst": -1, "nh": -1, "hops": -1, "delay": -1, "src": ""}
			if rte != nil {
				p := project(rte)
				lk["dst"], lk["nh"], lk["hops"], lk["delay"], lk["src"] = p.Dst, p.Nh, p.Hops, p.Delay, p.Src
			}
			lookups = append(lookups, lk)
		}
	}
	return
}

// exec applies one operation to the real table and returns the trace event.
func exec(c *vf.Ctx, rt *m.RoutingTable, a act) map[string]any {
	return execWith(c, rt, a, entryOf, snapshot)
}

// execWith: exec with the builder of entries and the projection of the table given by the caller.
func execWith(c *vf.Ctx, rt *m.RoutingTable, a act, entryOf func(route) m.RoutingTableEntry,
	snapshot func(*m.RoutingTable) ([]route, []map[string]any),
) map[string]any {
	ev := map[string]any{"ev": a.Name}
	switch a.Name {
	case "add":
		added, err := rt.AddRoute(entryOf(a.Route))
		ev["route"] = a.Route
		ev["added"] = added && err == nil
		ev["err"] = err != nil
	case "rmnh":
		rt.RemoveNextHop(addrOf(a.Peer))
		ev["peer"] = a.Peer
	case "rmdis":
		var l []netip.Addr
		for _, p := range a.Peers {
			l = append(l, addrOf(p))
		}
		rt.RemoveDisconnected(addrOf(a.Router), l)
		ev["router"] = a.Router
		if a.Peers == nil {
			a.Peers = []int{}
		}
		ev["peers"] = a.Peers
	case "clean":
		rt.Clean()
	case "age":
		rt.VerifAge(2 * time.Hour)
	case "read":
		call, err := callReader(rt, a.Fn, a.Arg, flatUniv)
		if err != nil {
			c.Fatal("read: %v", err)
		}
		ev["fn"], ev["call"] = a.Fn, call
	default:
		panic("unknown op " + a.Name)
	}
	c.Eval(1)
	ev["after"], ev["lookups"] = snapshot(rt)
	return ev
}

func resetEvent() map[string]any {
	return map[string]any{"ev": "reset", "after": []route{}, "lookups": []any{}}
}

type history struct {
	ops   []act
	start int // index of the reset event in the event list
}

type batch struct {
	limit  int
	events []any
	hists  []history
}

func (b *batch) run(c *vf.Ctx, ops []act) (rt *m.RoutingTable) {
	rt = newTable(b.limit)
	b.hists = append(b.hists, history{ops: ops, start: len(b.events)})
	b.events = append(b.events, resetEvent())
	for _, a := range ops {
		b.events = append(b.events, exec(c, rt, a))
	}
	return rt
}

func sig(ops []act) string {
	s := ""
	for _, a := range ops {
		switch a.Name {
		case "add":
			s += fmt.Sprintf("A%d%s%v%d;", a.Route.Dst, a.Route.Src[:1], a.Route.Relays, a.Route.Delay)
		case "rmnh":
			s += fmt.Sprintf("N%d;", a.Peer)
		case "rmdis":
			s += fmt.Sprintf("D%d%v;", a.Router, a.Peers)
		case "read":
			s += "R" + a.Fn + ";"
		default:
			s += a.Name[:1] + ";"
		}
	}
	return s
}

func (b *batch) validate(c *vf.Ctx, label string) {
	if len(b.events) == 0 {
		return
	}
	cfg := fmt.Sprintf("RoutingTable_Trace%d.cfg", b.limit)
	rejectAt, inv, res, err := c.TraceCheck("RoutingTable_Trace", cfg, b.events, vf.TLCOpts{Timeout: 40 * time.Minute, Heap: "10g"})
	if err != nil {
		c.Fatal("T %s: %v", label, err)
	}
	c.AddTraces(len(b.hists))
	c.AddModel(res.Distinct, res.Generated)
	c.Stage("T/"+label, map[string]any{"limit": b.limit, "histories": len(b.hists), "events": len(b.events), "wall_s": res.Wall.Seconds()})
	c.Logf("T %s: %d events / %d histories validated in %.1fs", label, len(b.events), len(b.hists), res.Wall.Seconds())
	if rejectAt <= 0 && inv == "" {
		return
	}
	// locate the history
	idx := rejectAt - 1
	hi := sort.Search(len(b.hists), func(i int) bool { return b.hists[i].start > idx }) - 1
	if hi < 0 {
		c.Broken("T %s: cannot locate rejected line %d", label, rejectAt)
		return
	}
	h := b.hists[hi]
	upto := idx - h.start // number of ops executed up to and including the failing one
	if upto > len(h.ops) {
		upto = len(h.ops)
	}
	ops := h.ops[:upto]
	what := inv
	if what == "" {
		what = "event-not-explained"
	}
	lastOp := "reset"
	if upto > 0 {
		lastOp = ops[upto-1].Name
	}
	limit := b.limit
	note := ""
	if lastOp == "read" {
		// a call of a read-only method is a stuttering step of the table: name it in the key and the text
		lastOp = "read-" + ops[upto-1].Fn
		note = fmt.Sprintf("; the last operation R%s is a call of the table's exported read-only method %v between the operations, behind which the routes must be what they were (ReadOK) and every lookup exact (LookupOK)", ops[upto-1].Fn, b.events[idx].(map[string]any)["call"])
	}
	c.Violation(vf.Key(what, lastOp), fmt.Sprintf("limit=%d, after operations %s the real table violates %s of RoutingTable (trace line %d of %s)%s", limit, sig(ops), what, rejectAt, label, note),
		map[string]any{"limit": limit, "ops": ops, "failing_event": b.events[idx]},
		func() bool {
			nb := &batch{limit: limit}
			nb.run(c, ops)
			r2, inv2, _, err := c.TraceCheck("RoutingTable_Trace", cfg, nb.events, vf.TLCOpts{Timeout: 5 * time.Minute})
			return err == nil && (r2 > 0 || inv2 != "") && inv2 == inv
		})
}

func main() { vf.Main("C11", "model_checking", run) }

func run(c *vf.Ctx) {
	c.Rule("M: TLC exhaustive over all sequences of <= 4 (thorough 5) operations (AddRoute peer/gossip with system-producible paths, RemoveNextHop, RemoveDisconnected with/without peer list, Clean, ageing) on a universe of 4 addresses in 2 routing prefixes, limit 1 (and 2), checking P1..P7. R: all transitions of the <=3-operation graph (quick: seeded sample) and TLC -simulate walks executed on a real m.RoutingTable; T: Go-PRNG histories; after every operation the real table and all real lookups are projected and TLC evaluates P1..P7 + LookupOK on them; in every other history the exported read-only methods of m.RoutingTable (enumerated by reflection: Format, LookupNearest, LookupNearestRoute, LookupPossiblePaths, ...) are called on the live table between the operations as operations of their own ('read' events: the routes are what they were, all clauses hold behind it). T-nested: the same on nested routable prefixes, hand-made and derived from random geo-marked router addresses with m.GetRoutablePrefixesFor. T-par: concurrent episodes on long-lived tables with a big background (writers re-announcing their routes, a goroutine taking direct peers down and up, a reader, all while another goroutine runs Clean); the quiescent table after each episode is judged by TLC against what every sequential order of the calls yields (ParAdded, ParRemoved, ParPeers, ParExpired, ParDuring). distinct = distinct operation-sequence signatures executed on the real table")
	c.Assume("only system-producible routes (peer: empty or 2-element path; gossip: >= 1 relay, next hop = first relay)", "the projection VerifEntries returns the table as it is (guarded hook, copy under the table lock)",
		"T-par: every route key is written by one goroutine per episode, so its last write is well defined; the interleaving is the scheduler's (no hook inside Clean), made likely by tables of 20-40 k entries")

	// ---- M ----
	mcs := []string{"RoutingTable_MC.cfg"}
	if c.Thorough() {
		mcs = []string{"RoutingTable_MC5.cfg", "RoutingTable_MCL2.cfg"}
	}
	for _, cfg := range mcs {
		mc, err := c.TLC("RoutingTable", cfg, vf.TLCOpts{Workers: 16, Coverage: !c.Thorough(), Timeout: 60 * time.Minute, Heap: "24g"})
		if err != nil {
			c.Fatal("M %s: %v", cfg, err)
		}
		if mc.Violated != "" {
			c.Broken("M %s: %s violated in the model", cfg, mc.Violated)
		}
		if !c.Thorough() {
			for _, a := range []string{"DoAdd", "DoRemoveNextHop", "DoRemoveDisconnected", "DoClean", "DoAge"} {
				if mc.Coverage[a] == 0 {
					c.Broken("M %s: vacuous, action %s never taken", cfg, a)
				}
			}
		}
		c.AddModel(mc.Distinct, mc.Generated)
		c.Stage("M/"+cfg, map[string]any{"distinct": mc.Distinct, "generated": mc.Generated, "wall_s": mc.Wall.Seconds()})
		c.Logf("M %s: %d distinct, %d generated", cfg, mc.Distinct, mc.Generated)
	}

	// ---- R (a): graph ----
	d, err := c.TLC("RoutingTable", "RoutingTable_Dump.cfg", vf.TLCOpts{Workers: 1, Timeout: 30 * time.Minute, Heap: "12g"})
	if err != nil {
		c.Fatal("R dump: %v", err)
	}
	if d.Violated != "" {
		c.Broken("R dump: %s violated", d.Violated)
	}
	d.Inits = []string{d.Edges[0].From}
	g := vf.BuildGraph(d)
	paths := g.CoverPaths(0)
	total := len(paths)
	if !c.Thorough() && len(paths) > 4000 {
		c.Rand.Shuffle(len(paths), func(i, j int) { paths[i], paths[j] = paths[j], paths[i] })
		paths = paths[:4000]
	}
	c.Logf("R: %d edges, %d cover paths (%d executed)", len(g.Edges), total, len(paths))
	b1 := &batch{limit: 1}
	drift := 0
	rrng := rand.New(rand.NewSource(c.Seed + 4711)) // reader calls have a PRNG of their own: the histories stay what they were
	reportReaders(c)
	for pi, p := range paths {
		ops := make([]act, len(p))
		for i, ei := range p {
			if err := json.Unmarshal(g.Edges[ei].Act, &ops[i]); err != nil {
				c.Fatal("act: %v", err)
			}
		}
		if pi%2 == 1 { // every other path with calls of the table's read-only methods between its operations
			ops = withReads(rrng, ops, 4)
		}
		rt := b1.run(c, ops)
		c.Distinct(sig(ops))
		// implementation-level comparison (drift only): predicted table vs real table
		var to []json.RawMessage
		if json.Unmarshal([]byte(g.Edges[p[len(p)-1]].To), &to) == nil && len(to) > 0 {
			var pred []route
			_ = json.Unmarshal(to[0], &pred)
			real, _ := snapshot(rt)
			if !sameSet(pred, real) {
				drift++
				if drift <= 3 {
					c.Logf("drift: ops %s predicted %v real %v", sig(ops), pred, real)
				}
			}
		}
		if pi < 2 {
			c.Sample(map[string]any{"kind": "graph path", "ops": sig(ops)})
		}
	}
	c.Stage("R-graph", map[string]any{"edges": len(g.Edges), "cover_paths": total, "executed": len(paths), "impl_level_drift": drift})
	b1.validate(c, "graph")

	// ---- R (b): simulation ----
	for _, lim := range []int{1, 2} {
		cfg := fmt.Sprintf("RoutingTable_Sim%d.cfg", lim)
		sim, err := c.TLC("RoutingTable", cfg, vf.TLCOpts{Workers: 1, Simulate: fmt.Sprintf("num=%d", c.Pick(300, 6000)), Depth: 25, Seed: c.Seed + int64(lim), Timeout: 30 * time.Minute})
		if err != nil {
			c.Fatal("R sim: %v", err)
		}
		if sim.Violated != "" {
			c.Broken("R sim %s: %s violated in the model", cfg, sim.Violated)
		}
		b := &batch{limit: lim}
		var cur []act
		flush := func() {
			if len(cur) > 0 {
				if len(b.hists)%2 == 1 {
					cur = withReads(rrng, cur, 5)
				}
				b.run(c, cur)
				c.Distinct(sig(cur))
				cur = nil
			}
		}
		for _, l := range sim.Lines {
			var st struct {
				I int `json:"i"`
				A act `json:"a"`
			}
			if json.Unmarshal([]byte(l), &st) != nil {
				continue
			}
			if st.I == 1 {
				flush()
			}
			cur = append(cur, st.A)
		}
		flush()
		c.AddModel(sim.Generated, sim.Generated)
		if len(b.hists) > 0 {
			c.Sample(map[string]any{"kind": "simulation walk", "limit": lim, "ops": sig(b.hists[0].ops)})
		}
		b.validate(c, "sim-"+cfg)
	}

	// ---- T: Go PRNG histories ----
	rng := rand.New(rand.NewSource(c.Seed))
	relays := []int{1, 2, 4}
	for _, lim := range []int{1, 2} {
		b := &batch{limit: lim}
		for k := 0; k < c.Pick(150, 3000); k++ {
			n := 10 + rng.Intn(c.Pick(40, 120))
			ops := make([]act, 0, n)
			for i := 0; i < n; i++ {
				switch x := rng.Intn(20); {
				case x < 12:
					ops = append(ops, act{Name: "add", Route: randRoute(rng, relays)})
				case x < 14:
					ops = append(ops, act{Name: "rmnh", Peer: relays[rng.Intn(3)]})
				case x < 16:
					a := act{Name: "rmdis", Router: relays[rng.Intn(3)], Peers: []int{}}
					if rng.Intn(2) == 0 {
						p := relays[rng.Intn(3)]
						if p != a.Router {
							a.Peers = []int{p}
						}
					}
					ops = append(ops, a)
				case x < 18:
					ops = append(ops, act{Name: "clean"})
				default:
					ops = append(ops, act{Name: "age"})
				}
			}
			if k%2 == 1 {
				ops = withReads(rrng, ops, 5)
			}
			b.run(c, ops)
			c.Distinct(sig(ops))
		}
		b.validate(c, fmt.Sprintf("go-prng-limit%d", lim))
	}

	// ---- T: nested routable prefixes, as the router configures them ----
	nestedStage(c)

	// ---- T: concurrent episodes on a big table (writers, removals and lookups while Clean runs) ----
	parStage(c)
}

func randRoute(rng *rand.Rand, relays []int) route {
	slow := rng.Intn(2) == 0
	switch rng.Intn(6) {
	case 0:
		d := relays[rng.Intn(3)]
		return route{Dst: d, Nh: d, Src: "peer", Hops: 1, Delay: 0, Relays: []int{}, Plen: 0, Exp: "fresh"}
	case 1:
		d := relays[rng.Intn(3)]
		dl := 10
		if slow {
			dl = 105
		}
		return route{Dst: d, Nh: d, Src: "peer", Hops: 1, Delay: dl, Relays: []int{}, Plen: 2, Exp: "fresh"}
	}
	d := 1 + rng.Intn(4)
	var rel []int
	for len(rel) == 0 {
		a := relays[rng.Intn(3)]
		if a == d {
			continue
		}
		rel = []int{a}
		if rng.Intn(2) == 0 {
			bb := relays[rng.Intn(3)]
			if bb != d && bb != a {
				rel = append(rel, bb)
			}
		}
	}
	dl := 5 * (len(rel) + 2)
	if slow {
		dl += 95
	}
	return route{Dst: d, Nh: rel[0], Src: "gossip", Hops: len(rel) + 1, Delay: dl, Relays: rel, Plen: len(rel) + 2, Exp: "fresh"}
}

func sameSet(a, b []route) bool {
	if len(a) != len(b) {
		return false
	}
	key := func(r route) string { return fmt.Sprint(r) }
	m := map[string]int{}
	for _, x := range a {
		m[key(x)]++
	}
	for _, x := range b {
		m[key(x)]--
	}
	for _, v := range m {
		if v != 0 {
			return false
		}
	}
	return true
}
