// Stage T-nested of C11: the clauses of the property on a table whose routable prefixes are NESTED the way the router
// configures them (m.GetRoutablePrefixesFor: the own prefix inside the regions of the own continent inside the
// continents), with small limits so that the bounds are reached by short histories. The own prefix sits in the
// middle of its region, so the entries of the region's routing prefix are not contiguous in the table.
// Every operation is executed on a real m.RoutingTable; the whole table and the lookups for every address of the
// universe are projected and judged by TLC (RoutingTableNested_Trace). Routing prefix and limit of every entry are
// derived by the driver from the configuration, not read from the table.
package main

import (
	"fmt"
	"math/rand"
	"net/netip"
	"time"

	"github.com/mycoria/mycoria/m"

	"verifharness/internal/vf"
)

type nestedCfg struct {
	prefixes []m.RoutablePrefix // lookup order: most specific first
	univ     []netip.Addr       // index+1 = address id
	me       netip.Addr
}

func newNested(limOwn, limRegion, limCont int) *nestedCfg {
	n := &nestedCfg{me: netip.MustParseAddr("fd13:4000::100")}
	n.prefixes = []m.RoutablePrefix{
		{BasePrefix: netip.MustParsePrefix("fd13:4000::/18"), RoutingBits: 18, EntryTTL: time.Hour, EntriesPerPrefix: limOwn},
		{BasePrefix: netip.MustParsePrefix("fd10::/12"), RoutingBits: 16, EntryTTL: time.Hour, EntriesPerPrefix: limRegion},
		{BasePrefix: netip.MustParsePrefix("fd00::/9"), RoutingBits: 12, EntryTTL: time.Hour, EntriesPerPrefix: limCont},
	}
	add := func(format string, k int) {
		for i := 1; i <= k; i++ {
			n.univ = append(n.univ, netip.MustParseAddr(fmt.Sprintf(format, i)))
		}
	}
	add("fd13:4000::%x", 4) // own prefix
	add("fd13:1000::%x", 4) // own region, below the own prefix
	add("fd13:9000::%x", 4) // own region, above the own prefix
	add("fd14::%x", 3)      // another region of the own continent
	add("fd1f:ffff::%x", 2) // the last region of the own continent
	add("fd20::%x", 3)      // another continent
	add("fd2a:5::%x", 2)    // the same other continent, further up
	add("fd60::%x", 2)      // a third continent
	return n
}

func (n *nestedCfg) id(a netip.Addr) int {
	for i, x := range n.univ {
		if x == a {
			return i + 1
		}
	}
	if a == n.me {
		return 0
	}
	return -1
}

// prefixOf: the routing prefix of a destination (as an index over the distinct prefixes seen) and its limit.
func (n *nestedCfg) prefixOf(a netip.Addr, seen map[netip.Prefix]int) (int, int) {
	for _, rp := range n.prefixes {
		if rp.BasePrefix.Contains(a) {
			p, _ := a.Prefix(rp.RoutingBits)
			if _, ok := seen[p]; !ok {
				seen[p] = len(seen) + 1
			}
			return seen[p], rp.EntriesPerPrefix
		}
	}
	return 0, 0
}

type nroute struct {
	Dst    int    `json:"dst"`
	Nh     int    `json:"nh"`
	Src    string `json:"src"`
	Hops   int    `json:"hops"`
	Delay  int    `json:"delay"`
	Relays []int  `json:"relays"`
	Exp    string `json:"exp"`
	Pfx    int    `json:"pfx"`
	Limit  int    `json:"limit"`
}

// pathDelay: the delay of a route as its hops say it - the sum of the hop delays (each at least the minimum hop
// delay), saturating at 65534. Computed here, not read from the entry: the table sorts by what IT computed.
func pathDelay(hops []m.SwitchHop, stored uint16) int {
	if len(hops) == 0 {
		return int(stored)
	}
	sum := 0
	for _, h := range hops {
		if h.Delay < m.MinHopDelay {
			sum += int(m.MinHopDelay)
		} else {
			sum += int(h.Delay)
		}
	}
	if sum > 65534 {
		sum = 65534
	}
	return sum
}

func (n *nestedCfg) project(e *m.RoutingTableEntry, seen map[netip.Prefix]int) nroute {
	hopsN := 1
	if len(e.Path.Hops) > 1 {
		hopsN = len(e.Path.Hops) - 1
	}
	r := nroute{Dst: n.id(e.DstIP), Nh: n.id(e.NextHop), Hops: hopsN, Delay: pathDelay(e.Path.Hops, e.Path.TotalDelay), Relays: []int{}, Exp: "fresh", Src: "gossip"}
	if e.Source == m.RouteSourcePeer {
		r.Src = "peer"
	}
	if len(e.Path.Hops) > 2 {
		for _, h := range e.Path.Hops[1 : len(e.Path.Hops)-1] {
			r.Relays = append(r.Relays, n.id(h.Router))
		}
	}
	if e.Source != m.RouteSourcePeer && !e.Expires.After(time.Now()) {
		r.Exp = "old"
	}
	r.Pfx, r.Limit = n.prefixOf(e.DstIP, seen)
	return r
}

func (n *nestedCfg) snapshot(rt *m.RoutingTable, seen map[netip.Prefix]int) (after []nroute, lookups []map[string]any) {
	ents := rt.VerifEntries()
	after = make([]nroute, 0, len(ents))
	for i := range ents {
		after = append(after, n.project(&ents[i], seen))
	}
	for i, a := range n.univ {
		rte, isdst := rt.LookupNearest(a)
		lk := map[string]any{"a": i + 1, "found": rte != nil, "isdst": isdst, "dst": -1, "nh": -1, "hops": -1, "delay": -1, "src": ""}
		if rte != nil {
			p := n.project(rte, seen)
			lk["dst"], lk["nh"], lk["hops"], lk["delay"], lk["src"] = p.Dst, p.Nh, p.Hops, p.Delay, p.Src
		}
		lookups = append(lookups, lk)
	}
	return
}

func (n *nestedCfg) entry(rng *rand.Rand, dst int, peers []int) (m.RoutingTableEntry, nroute) {
	d := n.univ[dst-1]
	for _, p := range peers {
		if p == dst && rng.Intn(2) == 0 {
			return m.RoutingTableEntry{DstIP: d, NextHop: d, Source: m.RouteSourcePeer}, nroute{Dst: dst, Nh: dst, Src: "peer", Hops: 1, Relays: []int{}, Exp: "fresh"}
		}
	}
	// a gossip route over one or two relays; the next hop is the first relay
	var relays []int
	for len(relays) < 1+rng.Intn(2) {
		r := peers[rng.Intn(len(peers))]
		if r != dst && (len(relays) == 0 || relays[0] != r) {
			relays = append(relays, r)
		}
	}
	first := uint16(rng.Intn(3) * 50)
	slow := uint16(0)
	if rng.Intn(5) == 0 {
		// hops that report seconds, not milliseconds: sums around and beyond what 16 bits hold
		slow = []uint16{15000, 22000, 30000, 33000, 65000}[rng.Intn(5)]
	}
	hops := []m.SwitchHop{{Router: n.me, Delay: first, ForwardLabel: m.SwitchLabel(10 + relays[0])}}
	for i, x := range relays {
		hops = append(hops, m.SwitchHop{Router: n.univ[x-1], Delay: slow, ForwardLabel: m.SwitchLabel(20 + i), ReturnLabel: m.SwitchLabel(30 + i)})
	}
	hops = append(hops, m.SwitchHop{Router: d, Delay: slow, ReturnLabel: 40})
	// one gossip route in eight carries a switch path the table must refuse (its blocks cannot be built): a return
	// label on the first hop, a forward label on the last, or labels beyond 255 bytes - "not added" then means that
	// the table is exactly what it was
	switch rng.Intn(24) {
	case 0:
		hops[0].ReturnLabel = m.SwitchLabel(1 + rng.Intn(200))
	case 1:
		hops[len(hops)-1].ForwardLabel = m.SwitchLabel(1 + rng.Intn(200))
	case 2:
		long := []m.SwitchHop{hops[0]}
		for i := 0; i < 140; i++ {
			long = append(long, m.SwitchHop{Router: n.univ[relays[0]-1], ForwardLabel: m.SwitchLabel(20000 + i), ReturnLabel: m.SwitchLabel(30000 + i)})
		}
		hops = append(long, hops[len(hops)-1])
	}
	e := m.RoutingTableEntry{DstIP: d, NextHop: n.univ[relays[0]-1], Source: m.RouteSourceGossip, Expires: time.Now().Add(2 * time.Hour), Path: m.SwitchPath{Hops: hops}}
	return e, nroute{Dst: dst, Nh: relays[0], Src: "gossip", Hops: len(relays) + 1, Delay: int(first), Relays: relays, Exp: "fresh"}
}

func nestedStage(c *vf.Ctx) {
	rng := rand.New(rand.NewSource(c.Seed + 77))
	var events []any
	type hist struct {
		start int
		desc  string
	}
	var hists []hist
	nh := c.Pick(60, 1500)
	for k := 0; k < nh; k++ {
		lims := [][3]int{{4, 3, 2}, {2, 2, 1}, {6, 4, 3}}[k%3]
		n := newNested(lims[0], lims[1], lims[2])
		rt := m.NewRoutingTable(m.RoutingTableConfig{RoutablePrefixes: n.prefixes, RouterIP: n.me})
		seen := map[netip.Prefix]int{}
		hists = append(hists, hist{len(events), fmt.Sprintf("limits own/region/continent %v", lims)})
		events = append(events, map[string]any{"ev": "reset", "after": []nroute{}, "lookups": []any{}})
		// direct peers: some in the own prefix, some in the own region, one far away
		peers := []int{1, 5, 9, 13, 18}
		var ops []string
		steps := 15 + rng.Intn(c.Pick(45, 90))
		for i := 0; i < steps; i++ {
			ev := map[string]any{}
			switch x := rng.Intn(20); {
			case x < 14:
				dst := 1 + rng.Intn(len(n.univ))
				if rng.Intn(3) == 0 { // fill the own region on both sides of the own prefix
					dst = 5 + rng.Intn(8)
				}
				e, r := n.entry(rng, dst, peers)
				added, err := rt.AddRoute(e)
				if len(e.Path.Hops) > 1 {
					r.Hops, r.Delay = len(e.Path.Hops)-1, pathDelay(e.Path.Hops, 0)
				}
				ev["ev"], ev["route"], ev["added"] = "add", r, added && err == nil
				ops = append(ops, fmt.Sprintf("add(%d via %d %s)", r.Dst, r.Nh, r.Src))
			case x < 15:
				p := peers[rng.Intn(len(peers))]
				rt.RemoveNextHop(n.univ[p-1])
				ev["ev"], ev["peer"] = "rmnh", p
				ops = append(ops, fmt.Sprintf("rmnh(%d)", p))
			case x < 16:
				p := peers[rng.Intn(len(peers))]
				rt.RemoveDisconnected(n.univ[p-1], nil)
				ev["ev"], ev["router"] = "rmdis", p
				ops = append(ops, fmt.Sprintf("rmdis(%d)", p))
			case x < 19:
				rt.Clean()
				ev["ev"] = "clean"
				ops = append(ops, "clean")
			default:
				rt.VerifAge(2 * time.Hour)
				ev["ev"] = "age"
				ops = append(ops, "age")
			}
			c.Eval(1)
			ev["after"], ev["lookups"] = n.snapshot(rt, seen)
			ev["ops"] = len(ops)
			events = append(events, ev)
		}
		c.Distinct(fmt.Sprintf("nested|%d|%v", k, lims))
		hists[len(hists)-1].desc += fmt.Sprintf("; operations %v", ops)
	}
	for len(events) > 0 {
		rejectAt, inv, res, err := c.TraceCheck("RoutingTableNested_Trace", "RoutingTableNested_Trace.cfg", events, vf.TLCOpts{Timeout: 30 * time.Minute, Heap: "8g"})
		if err != nil {
			c.Fatal("T nested: %v", err)
		}
		c.AddModel(res.Distinct, res.Generated)
		if rejectAt <= 0 && inv == "" {
			break
		}
		ev := events[rejectAt-1].(map[string]any)
		hi := 0
		for i, h := range hists {
			if h.start < rejectAt {
				hi = i
			}
		}
		desc := hists[hi].desc
		nops, _ := ev["ops"].(int)
		c.Violation(vf.Key("nested", ev["ev"]), fmt.Sprintf("nested routable prefixes (%s): after operation %d (%v) the real table violates C11 (RoutingTableNested_Trace line %d): table %v", firstN(desc, 600), nops, ev["ev"], rejectAt, ev["after"]),
			map[string]any{"history": desc, "event": ev}, nil)
		// carry on behind the history that failed
		next := len(events)
		for _, h := range hists {
			if h.start >= rejectAt {
				next = h.start
				break
			}
		}
		var nh2 []hist
		for _, h := range hists {
			if h.start >= next {
				nh2 = append(nh2, hist{h.start - next, h.desc})
			}
		}
		events, hists = events[next:], nh2
		if c.NViolations() > 4 {
			break
		}
	}
	c.AddTraces(nh)
	c.Stage("T-nested", map[string]any{"histories": nh, "universe": 24, "prefix_levels": 3})
}

func firstN(s string, n int) string {
	if len(s) > n {
		return s[:n] + "..."
	}
	return s
}
