// Stage T-nested of C11: the clauses of the property on a table whose routable prefixes are NESTED the way the router
// configures them (m.GetRoutablePrefixesFor: the own prefix inside the regions of the own continent inside the
// continents), with small limits so that the bounds are reached by short histories. The own prefix sits in the
// middle of its region, so the entries of the region's routing prefix are not contiguous in the table.
// Every operation is executed on a real m.RoutingTable; the whole table and the lookups for every address of the
// universe are projected and judged by TLC (RoutingTableNested_Trace). Routing prefix and limit of every entry are
// derived by the driver from the configuration, not read from the table.
package main

import (
	"fmt"
	"math/rand"
	"net/netip"
	"strings"
	"time"

	"github.com/mycoria/mycoria/m"

	"verifharness/internal/vf"
)

type nestedCfg struct {
	prefixes []m.RoutablePrefix // lookup order: most specific first
	univ     []netip.Addr       // index+1 = address id
	me       netip.Addr
	desc     string // where the configuration comes from

	firstOfRegion bool // the own prefix starts its region without being the whole of it (see newNestedFrom)
}

func newNested(limOwn, limRegion, limCont int) *nestedCfg {
	n := &nestedCfg{me: netip.MustParseAddr("fd13:4000::100")}
	n.prefixes = []m.RoutablePrefix{
		{BasePrefix: netip.MustParsePrefix("fd13:4000::/18"), RoutingBits: 18, EntryTTL: time.Hour, EntriesPerPrefix: limOwn},
		{BasePrefix: netip.MustParsePrefix("fd10::/12"), RoutingBits: 16, EntryTTL: time.Hour, EntriesPerPrefix: limRegion},
		{BasePrefix: netip.MustParsePrefix("fd00::/9"), RoutingBits: 12, EntryTTL: time.Hour, EntriesPerPrefix: limCont},
	}
	add := func(format string, k int) {
		for i := 1; i <= k; i++ {
			n.univ = append(n.univ, netip.MustParseAddr(fmt.Sprintf(format, i)))
		}
	}
	add("fd13:4000::%x", 4) // own prefix
	add("fd13:1000::%x", 4) // own region, below the own prefix
	add("fd13:9000::%x", 4) // own region, above the own prefix
	add("fd14::%x", 3)      // another region of the own continent
	add("fd1f:ffff::%x", 2) // the last region of the own continent
	add("fd20::%x", 3)      // another continent
	add("fd2a:5::%x", 2)    // the same other continent, further up
	add("fd60::%x", 2)      // a third continent
	n.desc = "hand-made: own prefix fd13:4000::/18 inside the regions of fd10::/12 inside the continents"
	return n
}

// newNestedFrom: the routable prefixes of a router somewhere on the map, as router.New derives them - a random
// geo-marked router address, its country prefix (m.LookupCountryMarker) and m.GetRoutablePrefixesFor. Where the own
// prefix lies in its region (first, in the middle, last, or the whole region) is the address's business. The universe
// has the shape of newNested's (own prefix; own region below and above the own prefix where there is room; two other
// regions of the continent; two other continents), so that the same generator of histories runs on it. Limits: the
// small ones of the hand-made configuration, or (lims[0] == 0) the router's own numbers.
func newNestedFrom(rng *rand.Rand, lims [3]int) (*nestedCfg, error) {
	var (
		ip     netip.Addr
		marker *m.CountryMarkerLookup
	)
	for tries := 0; marker == nil; tries++ {
		if tries > 100000 {
			return nil, fmt.Errorf("no geo-marked router address found")
		}
		var b [16]byte
		rng.Read(b[:])
		b[0], b[1] = 0xfd, byte(0x10*(1+rng.Intn(7))+rng.Intn(16))
		ip = netip.AddrFrom16(b)
		if ml, err := m.LookupCountryMarker(ip); err == nil && ml != nil && ml.Prefix.Contains(ip) && ml.Prefix.Bits() >= 16 && ml.Prefix.Bits() <= 24 {
			marker = ml
		}
	}
	n := &nestedCfg{me: ip, prefixes: m.GetRoutablePrefixesFor(ip, marker.Prefix)}
	if len(n.prefixes) < 3 {
		return nil, fmt.Errorf("GetRoutablePrefixesFor(%s, %s) returned %d prefixes", ip, marker.Prefix, len(n.prefixes))
	}
	// A country prefix that is the FIRST of its region but not the whole region (BE fd13::/18 in fd13::/16, JP
	// fd70::/17 ...) shares its base address with the region's routing prefix. Until the fix recorded in
	// known_findings.json (C11, nested/clean/first-of-region) Clean trimmed the rest of the region to the OWN prefix's
	// limit (it looked the limit up by RoutingPrefix.Addr(), and the buckets of the two prefixes were not kept apart by
	// sortForCleaning): this stage showed it as soon as configurations were derived from router addresses. Such
	// configurations get the small limits like all others.
	n.firstOfRegion = marker.Prefix.Bits() > m.RegionPrefixBits && marker.Prefix.Addr() == netip.PrefixFrom(marker.Prefix.Addr(), m.RegionPrefixBits).Masked().Addr()
	if lims[0] > 0 {
		for i := range n.prefixes {
			switch rp := &n.prefixes[i]; {
			case rp.BasePrefix == marker.Prefix:
				rp.EntriesPerPrefix = lims[0]
			case rp.RoutingBits == m.RegionPrefixBits && rp.BasePrefix != m.SpecialPrefix:
				rp.EntriesPerPrefix = lims[1]
			default:
				rp.EntriesPerPrefix = lims[2]
			}
		}
	}
	ob := marker.Prefix.Addr().As16()
	first := int(ob[2])<<8 | int(ob[3]) // the own prefix inside its /16 region: [first, last] of the next 16 bits
	span := 1 << (32 - marker.Prefix.Bits())
	last := first + span - 1
	inOwn := func() int { return first + rng.Intn(span) }
	below := func() int {
		if first > 0 {
			return rng.Intn(first)
		}
		if last < 0xffff {
			return last + 1 + rng.Intn(0xffff-last)
		}
		return inOwn()
	}
	above := func() int {
		if last < 0xffff {
			return last + 1 + rng.Intn(0xffff-last)
		}
		return below()
	}
	anywhere := func() int { return rng.Intn(0x10000) }
	group := 0
	add := func(b1 byte, v func() int, k int) {
		group++
		for i := 1; i <= k; i++ {
			var b [16]byte
			x := v()
			b[0], b[1], b[2], b[3], b[13], b[15] = 0xfd, b1, byte(x>>8), byte(x), byte(group), byte(i)
			n.univ = append(n.univ, netip.AddrFrom16(b))
		}
	}
	cont, reg := ob[1]&0xf0, ob[1]&0x0f
	otherCont := func(not ...byte) byte {
		for {
			x := byte(0x10 * (1 + rng.Intn(7)))
			ok := x != cont
			for _, y := range not {
				ok = ok && x != y
			}
			if ok {
				return x
			}
		}
	}
	c2 := otherCont()
	c3 := otherCont(c2)
	add(ob[1], inOwn, 4)                                   // own prefix
	add(ob[1], below, 4)                                   // own region, below the own prefix (if there is room)
	add(ob[1], above, 4)                                   // own region, above the own prefix (if there is room)
	add(cont|(reg+1+byte(rng.Intn(15)))&0x0f, anywhere, 3) // another region of the own continent
	add(cont|(reg+1+byte(rng.Intn(15)))&0x0f, anywhere, 2) // one more
	add(c2|byte(rng.Intn(16)), anywhere, 3)                // another continent
	add(c2|byte(rng.Intn(16)), anywhere, 2)                // the same other continent
	add(c3|byte(rng.Intn(16)), anywhere, 2)                // a third continent
	var bases []string
	for _, rp := range n.prefixes {
		bases = append(bases, fmt.Sprintf("%s/%d*%d", rp.BasePrefix, rp.RoutingBits, rp.EntriesPerPrefix))
	}
	n.desc = fmt.Sprintf("m.GetRoutablePrefixesFor of router %s in %s: own prefix %s, routable prefixes (base/routing bits*limit) %v", ip, marker.Country, marker.Prefix, bases)
	return n, nil
}

func (n *nestedCfg) id(a netip.Addr) int {
	for i, x := range n.univ {
		if x == a {
			return i + 1
		}
	}
	if a == n.me {
		return 0
	}
	return -1
}

// prefixOf: the routing prefix of a destination (as an index over the distinct prefixes seen) and its limit.
func (n *nestedCfg) prefixOf(a netip.Addr, seen map[netip.Prefix]int) (int, int) {
	for _, rp := range n.prefixes {
		if rp.BasePrefix.Contains(a) {
			p, _ := a.Prefix(rp.RoutingBits)
			if _, ok := seen[p]; !ok {
				seen[p] = len(seen) + 1
			}
			return seen[p], rp.EntriesPerPrefix
		}
	}
	return 0, 0
}

type nroute struct {
	Dst    int    `json:"dst"`
	Nh     int    `json:"nh"`
	Src    string `json:"src"`
	Hops   int    `json:"hops"`
	Delay  int    `json:"delay"`
	Relays []int  `json:"relays"`
	Exp    string `json:"exp"`
	Pfx    int    `json:"pfx"`
	Limit  int    `json:"limit"`
}

// pathDelay: the delay of a route as its hops say it - the sum of the hop delays (each at least the minimum hop
// delay), saturating at 65534. Computed here, not read from the entry: the table sorts by what IT computed.
func pathDelay(hops []m.SwitchHop, stored uint16) int {
	if len(hops) == 0 {
		return int(stored)
	}
	sum := 0
	for _, h := range hops {
		if h.Delay < m.MinHopDelay {
			sum += int(m.MinHopDelay)
		} else {
			sum += int(h.Delay)
		}
	}
	if sum > 65534 {
		sum = 65534
	}
	return sum
}

func (n *nestedCfg) project(e *m.RoutingTableEntry, seen map[netip.Prefix]int) nroute {
	hopsN := 1
	if len(e.Path.Hops) > 1 {
		hopsN = len(e.Path.Hops) - 1
	}
	r := nroute{Dst: n.id(e.DstIP), Nh: n.id(e.NextHop), Hops: hopsN, Delay: pathDelay(e.Path.Hops, e.Path.TotalDelay), Relays: []int{}, Exp: "fresh", Src: "gossip"}
	if e.Source == m.RouteSourcePeer {
		r.Src = "peer"
	}
	if len(e.Path.Hops) > 2 {
		for _, h := range e.Path.Hops[1 : len(e.Path.Hops)-1] {
			r.Relays = append(r.Relays, n.id(h.Router))
		}
	}
	if e.Source != m.RouteSourcePeer && !e.Expires.After(time.Now()) {
		r.Exp = "old"
	}
	r.Pfx, r.Limit = n.prefixOf(e.DstIP, seen)
	return r
}

func (n *nestedCfg) snapshot(rt *m.RoutingTable, seen map[netip.Prefix]int) (after []nroute, lookups []map[string]any) {
	ents := rt.VerifEntries()
	after = make([]nroute, 0, len(ents))
	for i := range ents {
		after = append(after, n.project(&ents[i], seen))
	}
	for i, a := range n.univ {
		rte, isdst := rt.LookupNearest(a)
		lk := map[string]any{"a": i + 1, "found": rte != nil, "isdst": isdst, "dst": -1, "nh": -1, "hops": -1, "delay": -1, "src": ""}
		if rte != nil {
			p := n.project(rte, seen)
			lk["dst"], lk["nh"], lk["hops"], lk["delay"], lk["src"] = p.Dst, p.Nh, p.Hops, p.Delay, p.Src
		}
		lookups = append(lookups, lk)
	}
	return
}

func (n *nestedCfg) entry(rng *rand.Rand, dst int, peers []int) (m.RoutingTableEntry, nroute) {
	d := n.univ[dst-1]
	for _, p := range peers {
		if p == dst && rng.Intn(2) == 0 {
			return m.RoutingTableEntry{DstIP: d, NextHop: d, Source: m.RouteSourcePeer}, nroute{Dst: dst, Nh: dst, Src: "peer", Hops: 1, Relays: []int{}, Exp: "fresh"}
		}
	}
	// a gossip route over one or two relays; the next hop is the first relay
	var relays []int
	for len(relays) < 1+rng.Intn(2) {
		r := peers[rng.Intn(len(peers))]
		if r != dst && (len(relays) == 0 || relays[0] != r) {
			relays = append(relays, r)
		}
	}
	first := uint16(rng.Intn(3) * 50)
	slow := uint16(0)
	if rng.Intn(5) == 0 {
		// hops that report seconds, not milliseconds: sums around and beyond what 16 bits hold
		slow = []uint16{15000, 22000, 30000, 33000, 65000}[rng.Intn(5)]
	}
	hops := []m.SwitchHop{{Router: n.me, Delay: first, ForwardLabel: m.SwitchLabel(10 + relays[0])}}
	for i, x := range relays {
		hops = append(hops, m.SwitchHop{Router: n.univ[x-1], Delay: slow, ForwardLabel: m.SwitchLabel(20 + i), ReturnLabel: m.SwitchLabel(30 + i)})
	}
	hops = append(hops, m.SwitchHop{Router: d, Delay: slow, ReturnLabel: 40})
	// one gossip route in eight carries a switch path the table must refuse (its blocks cannot be built): a return
	// label on the first hop, a forward label on the last, or labels beyond 255 bytes - "not added" then means that
	// the table is exactly what it was
	switch rng.Intn(24) {
	case 0:
		hops[0].ReturnLabel = m.SwitchLabel(1 + rng.Intn(200))
	case 1:
		hops[len(hops)-1].ForwardLabel = m.SwitchLabel(1 + rng.Intn(200))
	case 2:
		long := []m.SwitchHop{hops[0]}
		for i := 0; i < 140; i++ {
			long = append(long, m.SwitchHop{Router: n.univ[relays[0]-1], ForwardLabel: m.SwitchLabel(20000 + i), ReturnLabel: m.SwitchLabel(30000 + i)})
		}
		hops = append(long, hops[len(hops)-1])
	}
	e := m.RoutingTableEntry{DstIP: d, NextHop: n.univ[relays[0]-1], Source: m.RouteSourceGossip, Expires: time.Now().Add(2 * time.Hour), Path: m.SwitchPath{Hops: hops}}
	return e, nroute{Dst: dst, Nh: relays[0], Src: "gossip", Hops: len(relays) + 1, Delay: int(first), Relays: relays, Exp: "fresh"}
}

func nestedStage(c *vf.Ctx) {
	rng := rand.New(rand.NewSource(c.Seed + 77))
	var events []any
	type hist struct {
		start int
		desc  string
		cfg   *nestedCfg
	}
	var hists []hist
	// calls of the table's read-only methods between the operations (readers.go) and the configurations derived from
	// router addresses draw from PRNGs of their own: the histories of the hand-made configuration stay what they were
	rrng := rand.New(rand.NewSource(c.Seed + 7711))
	crng := rand.New(rand.NewSource(c.Seed + 7712))
	nhand, nreads, nderived, nfirst := c.Pick(60, 1500), 0, 0, 0
	nh := nhand + c.Pick(60, 1500)
	for k := 0; k < nh; k++ {
		lims := [][3]int{{4, 3, 2}, {2, 2, 1}, {6, 4, 3}}[k%3]
		n := newNested(lims[0], lims[1], lims[2])
		if k >= nhand {
			// the second half: routable prefixes as the router derives them from its address
			if k%4 == 3 {
				lims = [3]int{} // the router's own limits
			}
			var err error
			if n, err = newNestedFrom(crng, lims); err != nil {
				c.Broken("T nested: %v", err)
				break
			}
			nderived++
			if n.firstOfRegion {
				nfirst++
			}
		}
		withReaders := k%3 != 0 && len(readers.names) > 0
		readUniv := append(append([]netip.Addr{}, n.univ...), n.me)
		rt := m.NewRoutingTable(m.RoutingTableConfig{RoutablePrefixes: n.prefixes, RouterIP: n.me})
		seen := map[netip.Prefix]int{}
		hists = append(hists, hist{len(events), fmt.Sprintf("%s; limits own/region/continent %v", n.desc, lims), n})
		events = append(events, map[string]any{"ev": "reset", "after": []nroute{}, "lookups": []any{}})
		// direct peers: some in the own prefix, some in the own region, one far away
		peers := []int{1, 5, 9, 13, 18}
		var ops []string
		steps := 15 + rng.Intn(c.Pick(45, 90))
		for i := 0; i < steps; i++ {
			ev := map[string]any{}
			switch x := rng.Intn(20); {
			case x < 14:
				dst := 1 + rng.Intn(len(n.univ))
				if rng.Intn(3) == 0 { // fill the own region on both sides of the own prefix
					dst = 5 + rng.Intn(8)
				}
				e, r := n.entry(rng, dst, peers)
				added, err := rt.AddRoute(e)
				if len(e.Path.Hops) > 1 {
					r.Hops, r.Delay = len(e.Path.Hops)-1, pathDelay(e.Path.Hops, 0)
				}
				ev["ev"], ev["route"], ev["added"] = "add", r, added && err == nil
				ops = append(ops, fmt.Sprintf("add(%d via %d %s)", r.Dst, r.Nh, r.Src))
			case x < 15:
				p := peers[rng.Intn(len(peers))]
				rt.RemoveNextHop(n.univ[p-1])
				ev["ev"], ev["peer"] = "rmnh", p
				ops = append(ops, fmt.Sprintf("rmnh(%d)", p))
			case x < 16:
				p := peers[rng.Intn(len(peers))]
				rt.RemoveDisconnected(n.univ[p-1], nil)
				ev["ev"], ev["router"] = "rmdis", p
				ops = append(ops, fmt.Sprintf("rmdis(%d)", p))
			case x < 19:
				rt.Clean()
				ev["ev"] = "clean"
				ops = append(ops, "clean")
			default:
				rt.VerifAge(2 * time.Hour)
				ev["ev"] = "age"
				ops = append(ops, "age")
			}
			c.Eval(1)
			ev["after"], ev["lookups"] = n.snapshot(rt, seen)
			ev["ops"] = len(ops)
			events = append(events, ev)
			// somebody opens the dashboard's table page, the router looks a route up: a call of an exported read-only
			// method on the live table is an operation of the history like the others
			for r := 0; withReaders && r < 2 && rrng.Intn(4) == 0; r++ {
				fn, seed := pickReader(rrng)
				call, err := callReader(rt, fn, seed, readUniv)
				if err != nil {
					c.Fatal("T nested: %v", err)
				}
				ops = append(ops, call)
				rev := map[string]any{"ev": "read", "fn": fn, "call": call, "ops": len(ops)}
				c.Eval(1)
				rev["after"], rev["lookups"] = n.snapshot(rt, seen)
				events = append(events, rev)
				nreads++
			}
		}
		c.Distinct(fmt.Sprintf("nested|%d|%v", k, lims))
		hists[len(hists)-1].desc += fmt.Sprintf("; operations %v", ops)
	}
	for len(events) > 0 {
		rejectAt, inv, res, err := c.TraceCheck("RoutingTableNested_Trace", "RoutingTableNested_Trace.cfg", events, vf.TLCOpts{Timeout: 30 * time.Minute, Heap: "8g"})
		if err != nil {
			c.Fatal("T nested: %v", err)
		}
		c.AddModel(res.Distinct, res.Generated)
		if rejectAt <= 0 && inv == "" {
			break
		}
		ev := events[rejectAt-1].(map[string]any)
		hi := 0
		for i, h := range hists {
			if h.start < rejectAt {
				hi = i
			}
		}
		desc := hists[hi].desc
		nops, _ := ev["ops"].(int)
		if ev["ev"] == "read" && rejectAt >= 2 {
			prev := events[rejectAt-2].(map[string]any)
			c.Violation(vf.Key("nested", "read", ev["fn"]), fmt.Sprintf("nested routable prefixes: the read-only call %v on the live table (operation %d of the history, between the additions, removals and cleanups) does not leave the table as the property needs it: %s (RoutingTableNested_Trace line %d; %s)",
				ev["call"], nops, explainRead(hists[hi].cfg, prev, ev), rejectAt, firstN(desc, 500)),
				map[string]any{"history": desc, "event": ev, "before": prev["after"]}, nil)
		} else {
			c.Violation(vf.Key("nested", ev["ev"]), fmt.Sprintf("nested routable prefixes (%s): after operation %d (%v) the real table violates C11 (RoutingTableNested_Trace line %d): table %v", firstN(desc, 600), nops, ev["ev"], rejectAt, ev["after"]),
				map[string]any{"history": desc, "event": ev}, nil)
		}
		// carry on behind the history that failed
		next := len(events)
		for _, h := range hists {
			if h.start >= rejectAt {
				next = h.start
				break
			}
		}
		var nh2 []hist
		for _, h := range hists {
			if h.start >= next {
				nh2 = append(nh2, hist{h.start - next, h.desc, h.cfg})
			}
		}
		events, hists = events[next:], nh2
		if c.NViolations() > 4 {
			break
		}
	}
	c.AddTraces(nh)
	c.Stage("T-nested", map[string]any{"histories": nh, "universe": 24, "prefix_levels": 3, "hand_made_configuration": nhand,
		"configurations_derived_from_router_addresses": nderived, "of_them_own_prefix_first_of_its_region_kept_at_router_limits": nfirst, "reader_calls": nreads, "reader_calls_that_changed_the_order_only": readOrderDrift})
	c.Logf("T nested: %d histories (%d on routable prefixes derived from random router addresses), %d calls of read-only methods between the operations; order of the entries changed by a reader (all stages): %d", nh, nderived, nreads, readOrderDrift)
}

// explainRead names what TLC rejected behind a reader call (the verdict is TLC's: ReadOnly, P1 ... of
// RoutingTableNested_Trace): routes that came or went, and lookups that are not exact.
func explainRead(n *nestedCfg, prev, ev map[string]any) string {
	addr := func(id int) string {
		if id >= 1 && id <= len(n.univ) {
			return n.univ[id-1].String()
		}
		if id == 0 {
			return n.me.String()
		}
		return fmt.Sprintf("#%d", id)
	}
	var out []string
	before, _ := prev["after"].([]nroute)
	after, _ := ev["after"].([]nroute)
	cnt := map[string]int{}
	for _, r := range before {
		cnt[fmt.Sprint(r)]++
	}
	for _, r := range after {
		cnt[fmt.Sprint(r)]--
	}
	gone, came := 0, 0
	for _, v := range cnt {
		if v > 0 {
			gone += v
		} else {
			came -= v
		}
	}
	if gone+came > 0 {
		out = append(out, fmt.Sprintf("%d route(s) disappeared and %d appeared (table of %d routes before, %d after)", gone, came, len(before), len(after)))
	}
	lks, _ := ev["lookups"].([]map[string]any)
	bad := 0
	for _, lk := range lks {
		a, _ := lk["a"].(int)
		have, best := 0, nroute{}
		for _, r := range after {
			if r.Dst != a {
				continue
			}
			if have == 0 || (r.Src == "peer" && best.Src != "peer") || (best.Src != "peer" && (r.Hops < best.Hops || (r.Hops == best.Hops && r.Delay < best.Delay))) {
				best = r
			}
			have++
		}
		if have == 0 {
			continue
		}
		d, _ := lk["dst"].(int)
		exact := lk["found"] == true && lk["isdst"] == true && d == a
		if exact && lk["hops"] == best.Hops && lk["delay"] == best.Delay && (best.Src != "peer" || lk["src"] == "peer") {
			continue
		}
		bad++
		if bad > 3 {
			continue
		}
		if !exact {
			out = append(out, fmt.Sprintf("LookupNearest(%s) now returns a route to %s with isDestination=%v although the table holds %d route(s) to %s (best: %s route, %d hop(s), next hop %s)",
				addr(a), addr(d), lk["isdst"], have, addr(a), best.Src, best.Hops, addr(best.Nh)))
		} else {
			out = append(out, fmt.Sprintf("LookupNearest(%s) now returns the %v route with %v hop(s), delay %v although the table holds a %s route with %d hop(s), delay %d",
				addr(a), lk["src"], lk["hops"], lk["delay"], best.Src, best.Hops, best.Delay))
		}
	}
	if bad > 3 {
		out = append(out, fmt.Sprintf("... %d lookups of addresses that have routes are not exact", bad))
	}
	if len(out) == 0 {
		return "a clause of the property does not hold behind it"
	}
	return strings.Join(out, "; ")
}

func firstN(s string, n int) string {
	if len(s) > n {
		return s[:n] + "..."
	}
	return s
}
