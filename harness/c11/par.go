// Stage T-par of C11: the table is used by several workers at once in a running router - the announce handlers add
// (mostly re-announce) routes, peering removes next hops, the router looks routes up, and the cleaner worker runs
// Clean. The other stages call the table from one goroutine; here the same clauses are judged on CONCURRENT episodes.
//
// A long-lived table holds a big background of routes in routing prefixes of their own (so that Clean takes
// milliseconds) and the small watched universe of the model in two routing prefixes. In every episode 1-3 writer
// goroutines re-announce the routes they own with changing delays (the number of entries stays the same), optionally a
// churn goroutine takes direct peers down and up (RemoveNextHop of one, AddRoute of another: the number of entries
// stays the same after each pair) and a reader looks watched addresses up, all while another goroutine runs Clean one
// to three times; the writers stop when the cleaner has finished. Episodes are preceded by sequential operations
// (ageing, cleanups, removals), which are ordinary events of the trace.
//
// Nothing inside the table is observed while an episode runs. After ALL goroutines have finished the watched part of
// the table and the lookups are projected as after every sequential operation, and the episode becomes one "par" event
// of RoutingTable_Trace: the last write of every route with what AddRoute reported, the removals, the lookups seen on
// the way, each with its goroutine and its position in that goroutine's program. TLC judges it at property level
// (ParAdded, ParRemoved, ParPeers, ParExpired, ParDuring next to P1, P4, P5 and LookupOK): a result that NO sequential
// order of the calls explains is the violation; where some order lets a route go, nothing is demanded.
package main

import (
	"fmt"
	"math/rand"
	"net/netip"
	"runtime"
	"sort"
	"sync"
	"sync/atomic"
	"time"

	"github.com/mycoria/mycoria/m"

	"verifharness/internal/vf"
)

const (
	parLimit    = 16 // Limit of RoutingTable_TracePar.cfg
	parUniverse = 12 // watched addresses 1..12: 1-3 in routing prefix 1, 4-12 in routing prefix 2
	parCfg      = "RoutingTable_TracePar.cfg"
)

var parPool = []int{5, 6, 7, 8, 9, 10, 11, 12} // direct peers that come and go

type parLast struct {
	Route route `json:"route"`
	Added bool  `json:"added"`
	G     int   `json:"g"`
	K     int   `json:"k"`
}

type parRm struct {
	Peer int `json:"peer"`
	G    int `json:"g"`
	K    int `json:"k"`
}

type parLk struct {
	A     int  `json:"a"`
	Found bool `json:"found"`
	Isdst bool `json:"isdst"`
	Dst   int  `json:"dst"`
}

func parWatched(a netip.Addr) bool {
	b := a.As16()
	if b[0] != 0xfd || (b[1] != 0x10 && b[1] != 0x20) || b[15] < 1 || b[15] > parUniverse {
		return false
	}
	return a == addrOf(int(b[15]))
}

// parEntry builds the entry of a watched route with any delay >= 5 per hop record (the first hop carries the rest).
func parEntry(r route) m.RoutingTableEntry {
	e := m.RoutingTableEntry{DstIP: addrOf(r.Dst), NextHop: addrOf(r.Nh)}
	if r.Src == "peer" {
		e.Source = m.RouteSourcePeer
	} else {
		e.Source = m.RouteSourceGossip
		e.Expires = time.Now().Add(2 * time.Hour)
	}
	if r.Plen == 0 {
		return e
	}
	n := len(r.Relays) + 2
	hops := []m.SwitchHop{{Router: me, Delay: uint16(r.Delay - 5*(n-1)), ForwardLabel: m.SwitchLabel(10 + r.Nh)}}
	for i, x := range r.Relays {
		hops = append(hops, m.SwitchHop{Router: addrOf(x), ForwardLabel: m.SwitchLabel(20 + i), ReturnLabel: m.SwitchLabel(30 + i)})
	}
	hops = append(hops, m.SwitchHop{Router: addrOf(r.Dst), ReturnLabel: 40})
	e.Path = m.SwitchPath{Hops: hops}
	return e
}

// parSnapshot projects the watched part of the table and the lookups of every watched address.
func parSnapshot(rt *m.RoutingTable) (after []route, lookups []map[string]any) {
	ents := rt.VerifEntries()
	after = make([]route, 0, 32)
	for i := range ents {
		if parWatched(ents[i].DstIP) {
			after = append(after, project(&ents[i]))
		}
	}
	for _, fn := range []string{"nearest", "route"} {
		for d := 1; d <= parUniverse; d++ {
			var rte *m.RoutingTableEntry
			var isdst bool
			if fn == "nearest" {
				rte, isdst = rt.LookupNearest(addrOf(d))
			} else {
				rte, isdst = rt.LookupNearestRoute(addrOf(d))
			}
			lk := map[string]any{"fn": fn, "a": d, "found": rte != nil, "isdst": isdst, "dst": -1, "nh": -1, "hops": -1, "delay": -1, "src": ""}
			if rte != nil {
				p := project(rte)
				lk["dst"], lk["nh"], lk["hops"], lk["delay"], lk["src"] = p.Dst, p.Nh, p.Hops, p.Delay, p.Src
			}
			lookups = append(lookups, lk)
		}
	}
	return
}

// ---- the background ----

func parFillerAddr(rng *rand.Rand) netip.Addr {
	var b [16]byte
	rng.Read(b[:])
	b[0] = 0xfd
	b[1] = byte(0x30 + 0x10*rng.Intn(5) + rng.Intn(16)) // fd30::/12 .. fd7f::/12, never a watched routing prefix
	return netip.AddrFrom16(b)
}

func parFillerRelay(k int) netip.Addr {
	return netip.MustParseAddr(fmt.Sprintf("fd7f:ffff::%x", 1+k))
}

func parFiller(rng *rand.Rand, dst netip.Addr, relay int, ttl time.Duration) m.RoutingTableEntry {
	hops := []m.SwitchHop{{Router: me, Delay: uint16(5 + rng.Intn(300)), ForwardLabel: m.SwitchLabel(100 + relay)}}
	hops = append(hops, m.SwitchHop{Router: parFillerRelay(relay), Delay: uint16(rng.Intn(100)), ForwardLabel: 21, ReturnLabel: 31})
	if rng.Intn(3) == 0 {
		hops = append(hops, m.SwitchHop{Router: parFillerRelay(60 + rng.Intn(20)), Delay: uint16(rng.Intn(100)), ForwardLabel: 22, ReturnLabel: 32})
	}
	hops = append(hops, m.SwitchHop{Router: dst, ReturnLabel: 40})
	return m.RoutingTableEntry{DstIP: dst, NextHop: parFillerRelay(relay), Source: m.RouteSourceGossip,
		Expires: time.Now().Add(ttl), Path: m.SwitchPath{Hops: hops}}
}

func newParTable(rng *rand.Rand, dsts int) (*m.RoutingTable, error) {
	rt := m.NewRoutingTable(m.RoutingTableConfig{
		RoutablePrefixes: []m.RoutablePrefix{
			{BasePrefix: netip.MustParsePrefix("fd10::/12"), RoutingBits: m.ContinentPrefixBits, EntryTTL: time.Hour, EntriesPerPrefix: parLimit},
			{BasePrefix: netip.MustParsePrefix("fd20::/12"), RoutingBits: m.ContinentPrefixBits, EntryTTL: time.Hour, EntriesPerPrefix: parLimit},
			// the background: regions with room for everything, expiry as given
			{BasePrefix: m.RoutingAddressPrefix, RoutingBits: 16, EntriesPerPrefix: 1 << 20},
		},
		RouterIP: me,
	})
	for i := 0; i < dsts; i++ {
		dst := parFillerAddr(rng)
		first := rng.Intn(50)
		for j := 0; j < 1+rng.Intn(3); j++ {
			if added, err := rt.AddRoute(parFiller(rng, dst, first+j, 5000*time.Hour)); err != nil || !added {
				return nil, fmt.Errorf("background route refused: added=%v err=%v", added, err)
			}
		}
	}
	return rt, nil
}

// ---- the watched routes ----

// parCatalogue: the route keys of one table. Destinations 1, 2 and 4 may also be direct peers, so they get two
// gossip keys (a destination keeps three routes without asking), destination 3 three; one destination in four gets one
// key more - then nothing is demanded of its routes, but the "replace the third-best" path is in the episodes too.
func parCatalogue(rng *rand.Rand) (keys []route) {
	relays := []int{1, 2, 4}
	for d := 1; d <= 4; d++ {
		var cand [][]int
		for _, a := range relays {
			if a == d {
				continue
			}
			cand = append(cand, []int{a})
			for _, b := range relays {
				if b != d && b != a {
					cand = append(cand, []int{a, b})
				}
			}
		}
		rng.Shuffle(len(cand), func(i, j int) { cand[i], cand[j] = cand[j], cand[i] })
		n := 2
		if d == 3 {
			n = 3
		}
		if rng.Intn(4) == 0 {
			n++
		}
		for _, rel := range cand[:n] {
			keys = append(keys, route{Dst: d, Nh: rel[0], Src: "gossip", Hops: len(rel) + 1, Relays: rel, Plen: len(rel) + 2, Exp: "fresh"})
		}
		if d != 3 {
			keys = append(keys, route{Dst: d, Nh: d, Src: "peer", Hops: 1, Relays: []int{}, Exp: "fresh"})
		}
	}
	return keys
}

// parVary: one announcement of a key - the same route with another delay (a direct peer is announced with or without
// a path).
func parVary(k route, rng *rand.Rand) route {
	r := k
	if r.Src == "peer" {
		if rng.Intn(3) == 0 {
			r.Plen, r.Delay = 0, 0
		} else {
			r.Plen, r.Delay = 2, 10+rng.Intn(400)
		}
		return r
	}
	r.Delay = 5*(len(r.Relays)+2) + rng.Intn(400)
	return r
}

func parKeySig(r route) string {
	if r.Src == "peer" {
		return fmt.Sprintf("%d:peer", r.Dst)
	}
	return fmt.Sprintf("%d:via%v", r.Dst, r.Relays)
}

// ---- one episode ----

type parEpisode struct {
	writers [][]route // the keys every writer owns
	churn   bool
	reader  bool
	cleans  int
	seed    int64
}

type parStats struct {
	tables, episodes, calls, overlapped, cleans, lost int
	cleanTotal                                        time.Duration
	entries                                           int
}

// parRun runs one episode on the table and returns its event. up/down: the direct peers of the pool that are / are not
// in the table; the churn goroutine is the only one that touches them.
func parRun(c *vf.Ctx, rt *m.RoutingTable, ep parEpisode, up, down *[]int, st *parStats) (map[string]any, string) {
	var (
		done     atomic.Bool
		cleaning atomic.Int32
		started  atomic.Int32
		wg       sync.WaitGroup
	)
	type result struct {
		last       []parLast
		rms        map[int]parRm
		during     []parLk
		calls      int
		overlapped int
	}
	nw := len(ep.writers)
	res := make([]result, nw+2)
	wait := nw
	if ep.churn {
		wait++
	}

	for w := 0; w < nw; w++ {
		wg.Add(1)
		go func(g int, keys []route, r *result) {
			defer wg.Done()
			rng := rand.New(rand.NewSource(ep.seed + int64(g)))
			r.last = make([]parLast, len(keys))
			for i := 0; ; i++ {
				j := i % len(keys)
				rte := parVary(keys[j], rng)
				e := parEntry(rte)
				c0 := cleaning.Load()
				added, err := rt.AddRoute(e)
				c1 := cleaning.Load()
				r.calls++
				if c0 > 0 || c1 > 0 {
					r.overlapped++
				}
				r.last[j] = parLast{Route: rte, Added: added && err == nil, G: g, K: r.calls}
				if i == 0 {
					started.Add(1)
				}
				if (done.Load() && i >= len(keys)-1) || i > 20_000_000 {
					return
				}
			}
		}(w+1, ep.writers[w], &res[w])
	}

	if ep.churn {
		wg.Add(1)
		go func(g int, r *result) {
			defer wg.Done()
			rng := rand.New(rand.NewSource(ep.seed + 100))
			lastOf := map[int]parLast{}
			r.rms = map[int]parRm{}
			take := func(l *[]int) int {
				i := rng.Intn(len(*l))
				p := (*l)[i]
				*l = append((*l)[:i], (*l)[i+1:]...)
				return p
			}
			for i := 0; ; i++ {
				// one pair: a direct peer goes, another one comes (in either order)
				var goes, comes int
				removeFirst := rng.Intn(2) == 0
				if len(*up) == 0 {
					removeFirst = false
				} else if len(*down) == 0 {
					removeFirst = true
				}
				for step := 0; step < 2; step++ {
					c0 := cleaning.Load()
					if (step == 0) == removeFirst {
						goes = take(up)
						rt.RemoveNextHop(addrOf(goes))
						r.calls++
						r.rms[goes] = parRm{Peer: goes, G: g, K: r.calls}
						*down = append(*down, goes)
					} else {
						comes = take(down)
						rte := route{Dst: comes, Nh: comes, Src: "peer", Hops: 1, Relays: []int{}, Exp: "fresh"}
						added, err := rt.AddRoute(parEntry(rte))
						r.calls++
						lastOf[comes] = parLast{Route: rte, Added: added && err == nil, G: g, K: r.calls}
						*up = append(*up, comes)
					}
					if c0 > 0 || cleaning.Load() > 0 {
						r.overlapped++
					}
				}
				if i == 0 {
					started.Add(1)
				}
				if done.Load() || i > 5_000_000 {
					break
				}
			}
			ids := make([]int, 0, len(lastOf))
			for p := range lastOf {
				ids = append(ids, p)
			}
			sort.Ints(ids)
			for _, p := range ids {
				r.last = append(r.last, lastOf[p])
			}
		}(nw+1, &res[nw])
	}

	if ep.reader {
		wg.Add(1)
		go func(r *result) {
			defer wg.Done()
			rng := rand.New(rand.NewSource(ep.seed + 200))
			odd := 0
			for i := 0; !done.Load() && i < 50_000_000; i++ {
				a := 1 + rng.Intn(parUniverse)
				var rte *m.RoutingTableEntry
				var isdst bool
				if i%2 == 0 {
					rte, isdst = rt.LookupNearest(addrOf(a))
				} else {
					rte, isdst = rt.LookupNearestRoute(addrOf(a))
				}
				lk := parLk{A: a, Found: rte != nil, Isdst: isdst, Dst: -1}
				if rte != nil {
					lk.Dst = intOf(rte.DstIP)
					if !parWatched(rte.DstIP) {
						lk.Dst = 0
					}
				}
				r.calls++
				// keep a thin sample, and the lookups that did not name their address (TLC decides whether they had to)
				switch {
				case i%97 == 0 && len(r.during) < 60:
					r.during = append(r.during, lk)
				case !(lk.Found && lk.Isdst && lk.Dst == a) && odd < 20 && rng.Intn(8) == 0:
					odd++
					r.during = append(r.during, lk)
				}
				runtime.Gosched()
			}
		}(&res[nw+1])
	}

	// the cleaner
	wg.Add(1)
	var cleanTime time.Duration
	go func() {
		defer wg.Done()
		rng := rand.New(rand.NewSource(ep.seed + 300))
		deadline := time.Now().Add(20 * time.Second)
		for started.Load() < int32(wait) && time.Now().Before(deadline) {
			runtime.Gosched()
		}
		for i := 0; i < ep.cleans; i++ {
			for j := rng.Intn(200); j > 0; j-- {
				runtime.Gosched()
			}
			t0 := time.Now()
			cleaning.Add(1)
			rt.Clean()
			cleaning.Add(-1)
			cleanTime += time.Since(t0)
		}
		done.Store(true)
	}()

	fin := make(chan struct{})
	go func() { wg.Wait(); close(fin) }()
	select {
	case <-fin:
	case <-time.After(3 * time.Minute):
		c.Fatal("T-par: a concurrent episode did not come to an end within 3 minutes")
	}

	// everything has returned: the event
	lasts := make([]parLast, 0, 24)
	rms := make([]parRm, 0, 8)
	during := make([]parLk, 0, 80)
	calls, over := 0, 0
	desc := ""
	for i := range res {
		lasts = append(lasts, res[i].last...)
		ids := make([]int, 0, len(res[i].rms))
		for p := range res[i].rms {
			ids = append(ids, p)
		}
		sort.Ints(ids)
		for _, p := range ids {
			rms = append(rms, res[i].rms[p])
		}
		during = append(during, res[i].during...)
		calls += res[i].calls
		over += res[i].overlapped
	}
	for w, keys := range ep.writers {
		desc += fmt.Sprintf("writer %d re-announces", w+1)
		for _, k := range keys {
			desc += " " + parKeySig(k)
		}
		desc += fmt.Sprintf(" (%d calls); ", res[w].calls)
	}
	if ep.churn {
		desc += fmt.Sprintf("goroutine %d takes direct peers down and up (%d calls); ", nw+1, res[nw].calls)
	}
	if ep.reader {
		desc += fmt.Sprintf("a reader looks addresses up (%d calls); ", res[nw+1].calls)
	}
	desc += fmt.Sprintf("meanwhile Clean runs %d time(s), %.1f ms each", ep.cleans, cleanTime.Seconds()*1000/float64(ep.cleans))
	c.Eval(calls + ep.cleans)
	st.episodes++
	st.calls += calls
	st.overlapped += over
	st.cleans += ep.cleans
	st.cleanTotal += cleanTime

	ev := map[string]any{"ev": "par", "last": lasts, "removals": rms, "cleans": ep.cleans, "during": during}
	ev["after"], ev["lookups"] = parSnapshot(rt)
	return ev, desc
}

// ---- one table: sequential operations and episodes ----

type parHist struct {
	seed    int64
	entries int
	start   int
	descs   []string // one per event behind the reset
}

func parTable(c *vf.Ctx, seed int64, dsts, episodes int, st *parStats) (events []any, descs []string, err error) {
	rng := rand.New(rand.NewSource(seed))
	rt, err := newParTable(rng, dsts)
	if err != nil {
		return nil, nil, err
	}
	st.tables++
	st.entries = len(rt.VerifEntries())
	events = append(events, map[string]any{"ev": "reset", "after": []route{}, "lookups": []any{}})
	descs = append(descs, "new table")
	seq := func(a act) {
		events = append(events, execWith(c, rt, a, parEntry, parSnapshot))
		switch a.Name {
		case "add":
			descs = append(descs, "add "+parKeySig(a.Route))
		case "rmnh":
			descs = append(descs, fmt.Sprintf("RemoveNextHop(%d)", a.Peer))
		default:
			descs = append(descs, a.Name)
		}
	}
	keys := parCatalogue(rng)
	for _, k := range keys {
		seq(act{Name: "add", Route: parVary(k, rng)})
	}
	pool := append([]int{}, parPool...)
	rng.Shuffle(len(pool), func(i, j int) { pool[i], pool[j] = pool[j], pool[i] })
	up, down := append([]int{}, pool[:4]...), append([]int{}, pool[4:]...)
	for _, p := range up {
		seq(act{Name: "add", Route: route{Dst: p, Nh: p, Src: "peer", Hops: 1, Relays: []int{}, Exp: "fresh"}})
	}

	for e := 0; e < episodes; e++ {
		// what happened since the last episode
		switch rng.Intn(8) {
		case 0, 1, 2:
			seq(act{Name: "age"}) // routes not re-announced in time are due; the writers refresh theirs during the cleanup
		case 3:
			seq(act{Name: "clean"})
		case 4:
			seq(act{Name: "rmnh", Peer: []int{1, 2, 4}[rng.Intn(3)]})
		case 5:
			for _, k := range keys {
				if rng.Intn(2) == 0 {
					seq(act{Name: "add", Route: parVary(k, rng)})
				}
			}
		}
		// short-lived background routes: due after the next ageing, so that cleanups have something to remove
		for i := 30 + rng.Intn(100); i > 0; i-- {
			if added, err := rt.AddRoute(parFiller(rng, parFillerAddr(rng), rng.Intn(50), 30*time.Minute)); err != nil || !added {
				return nil, nil, fmt.Errorf("background route refused: added=%v err=%v", added, err)
			}
		}

		ep := parEpisode{cleans: 1 + rng.Intn(3), churn: rng.Intn(3) == 0, reader: rng.Intn(2) == 0, seed: rng.Int63()}
		ep.writers = make([][]route, 1+rng.Intn(3))
		for _, k := range keys {
			if w := rng.Intn(len(ep.writers) + 1); w < len(ep.writers) { // one key in 2-4 rests
				ep.writers[w] = append(ep.writers[w], k)
			}
		}
		for w := 0; w < len(ep.writers); w++ {
			if len(ep.writers[w]) == 0 {
				ep.writers = append(ep.writers[:w], ep.writers[w+1:]...)
				w--
			}
		}
		if len(ep.writers) == 0 {
			ep.writers = [][]route{{keys[rng.Intn(len(keys))]}}
		}
		ev, desc := parRun(c, rt, ep, &up, &down, st)
		events = append(events, ev)
		descs = append(descs, "concurrently: "+desc)
		c.Distinct(fmt.Sprintf("par|%d|%d", seed, e))
	}
	return events, descs, nil
}

func parStage(c *vf.Ctx) {
	rng := rand.New(rand.NewSource(c.Seed + 1111))
	tables := c.Pick(3, 16)
	episodes := c.Pick(10, 30)
	var (
		events []any
		hists  []parHist
		st     parStats
	)
	for t := 0; t < tables; t++ {
		seed := rng.Int63()
		dsts := c.Pick(9000, 14000) + rng.Intn(6000)
		ev, descs, err := parTable(c, seed, dsts, episodes, &st)
		if err != nil {
			c.Broken("T-par: %v", err)
			return
		}
		hists = append(hists, parHist{seed: seed, entries: st.entries, start: len(events), descs: descs})
		events = append(events, ev...)
	}
	c.AddTraces(tables)
	stage := map[string]any{"tables": st.tables, "background_entries": st.entries, "episodes": st.episodes, "calls": st.calls,
		"calls_overlapping_a_cleanup": st.overlapped, "cleanups": st.cleans}
	if st.cleans > 0 {
		stage["cleanup_ms"] = st.cleanTotal.Seconds() * 1000 / float64(st.cleans)
	}
	c.Stage("T-par", stage)
	c.Logf("T par: %d episodes on %d tables (last one %d entries): %d concurrent calls, %d of them overlapping one of %d cleanups (%.1f ms each)",
		st.episodes, st.tables, st.entries, st.calls, st.overlapped, st.cleans, st.cleanTotal.Seconds()*1000/float64(max(st.cleans, 1)))
	if st.overlapped == 0 {
		c.Broken("T-par: vacuous, no call overlapped a cleanup")
	}

	off := 0 // index in the full list of the first event still to be validated
	for len(events) > off {
		rejectAt, inv, res, err := c.TraceCheck("RoutingTable_Trace", parCfg, events[off:], vf.TLCOpts{Timeout: 20 * time.Minute, Heap: "4g"})
		if err != nil {
			c.Fatal("T par: %v", err)
		}
		c.AddModel(res.Distinct, res.Generated)
		if rejectAt <= 0 && inv == "" {
			c.Logf("T par: %d events validated in %.1fs", len(events)-off, res.Wall.Seconds())
			break
		}
		idx := off + rejectAt - 1
		hi := sort.Search(len(hists), func(i int) bool { return hists[i].start > idx }) - 1
		if hi < 0 || idx >= len(events) {
			c.Broken("T par: cannot locate rejected line %d", rejectAt)
			return
		}
		h := hists[hi]
		ev, _ := events[idx].(map[string]any)
		what := inv
		if what == "" {
			what = "event-not-explained"
		}
		before := ""
		for i := max(h.start+1, idx-3); i < idx; i++ {
			before += h.descs[i-h.start] + "; "
		}
		text := fmt.Sprintf("table with %d background entries, event %d of its history (before it: %s) %s - %s (%s of RoutingTable_Trace, line %d)",
			h.entries, idx-h.start, firstN(before, 300), firstN(h.descs[idx-h.start], 700), parExplain(what, ev), what, rejectAt)
		seed := h.seed
		c.Violation(vf.Key("par", what, ev["ev"]), text, map[string]any{"table_seed": seed, "event": ev, "history": h.descs[:idx-h.start+1]},
			func() bool {
				// the interleaving is the scheduler's: the history of this table is run again, up to three times
				for try := 0; try < 3; try++ {
					var st2 parStats
					ev2, _, err := parTable(c, seed, c.Pick(9000, 14000)+3000, episodes, &st2)
					if err != nil {
						return false
					}
					r2, inv2, _, err := c.TraceCheck("RoutingTable_Trace", parCfg, ev2, vf.TLCOpts{Timeout: 10 * time.Minute, Heap: "4g"})
					if err == nil && (r2 > 0 || inv2 != "") && inv2 == inv {
						return true
					}
				}
				return false
			})
		// carry on behind the table that failed
		if hi+1 >= len(hists) || c.NViolations() > 3 {
			break
		}
		off = hists[hi+1].start
	}
}

// parExplain names what the rejected event shows (the verdict is TLC's; this only reads the event).
func parExplain(inv string, ev map[string]any) string {
	after, _ := ev["after"].([]route)
	switch inv {
	case "ParAdded":
		lasts, _ := ev["last"].([]parLast)
		rms, _ := ev["removals"].([]parRm)
		s, n := "", 0
		for _, w := range lasts {
			if !w.Added {
				continue
			}
			gone := false
			for _, r := range rms {
				if r.Peer == w.Route.Nh && !(r.G == w.G && r.K < w.K) {
					gone = true
				}
			}
			present := false
			var holds []string
			for _, e := range after {
				if fmt.Sprint(e) == fmt.Sprint(w.Route) {
					present = true
				}
				if e.Dst == w.Route.Dst && e.Src == w.Route.Src && fmt.Sprint(e.Relays) == fmt.Sprint(w.Route.Relays) {
					holds = append(holds, fmt.Sprintf("delay %d (%s)", e.Delay, e.Exp))
				}
			}
			if present || gone {
				continue
			}
			n++
			if n <= 3 {
				s += fmt.Sprintf("the last AddRoute of route %s (goroutine %d, its call %d) had delay %d and reported added, nothing removed it afterwards, yet when all calls had returned the table held for this route: %v; ",
					parKeySig(w.Route), w.G, w.K, w.Route.Delay, holds)
			}
		}
		return fmt.Sprintf("'added' does not mean present after concurrent use: %s%d such route(s)", s, n)
	case "ParRemoved":
		rms, _ := ev["removals"].([]parRm)
		for _, r := range rms {
			for _, e := range after {
				if e.Nh == r.Peer {
					return fmt.Sprintf("next hop %d was removed (goroutine %d, its call %d) and not added again afterwards, yet the table still holds the route %v", r.Peer, r.G, r.K, e)
				}
			}
		}
	case "ParPeers":
		return "a direct-peer route that no removal named is gone after the episode"
	case "ParExpired":
		for _, e := range after {
			if e.Src != "peer" && e.Exp != "fresh" {
				return fmt.Sprintf("the expired route %v survived the cleanups of the episode", e)
			}
		}
	case "ParDuring":
		return "a lookup made while the episode ran did not name an address that had a route all the way through"
	}
	return "the table after the episode violates " + inv
}
