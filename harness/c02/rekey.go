// C02, stage T-rekey: histories in which two routers set up their encryption
// keys MORE THAN ONCE.
//
// Every other stage of this driver seals and unseals on sessions that were
// keyed exactly once on each side by the same call sequence (world.KeyExchange
// re-keys BOTH sessions in place, so whatever a key set-up leaves behind is
// left behind on both sides alike and cancels out). Real routers get there
// differently: the hello client keys a NEW encryption session and installs it,
// the hello server re-keys the session it already has IN PLACE, the peering
// handshake installs new sessions on both sides; a router may have lost its
// session (restart with the same identity, session cleaned up, keys dropped
// after a "no keys" error) while its partner kept its own, with everything the
// old keys had seen.
//
// A history is a sequence of "lives". Each life: some side(s) lose their
// session in one of these ways, a key exchange is run in one of the real
// styles with either router as the client, then traffic of all three classes
// flows in both directions - duplicated, reordered, dropped, altered, given to
// wrong sessions, and frames still in flight from the life before arrive under
// keys that are gone. Two kinds of histories:
//   - "party": two identities with their own state.State; the key exchange
//     calls are made by the driver in the order ping_hello.go / peering make them
//   - "hello": two complete router stacks joined by a virtual link; the real
//     HelloPingHandler runs the exchange (Send, request and response through
//     the real switch handler and router worker)
//
// The outcome of every real Unseal is written as one event and the whole is
// judged by TLC against FrameSeal_Trace - the oracle of stage T, with one more
// event: {"ev":"rekey","h":H} (the receiving session H has new keys; the
// frames under the new keys are new frames) and the field "stale" (frame of a
// life before). The Go side never decides; it only names what TLC rejected.
package main

import (
	"bytes"
	"errors"
	"fmt"
	"math/rand"
	"net/netip"
	"strings"
	"time"

	"github.com/mycoria/mycoria/config"
	"github.com/mycoria/mycoria/frame"
	"github.com/mycoria/mycoria/m"
	"github.com/mycoria/mycoria/state"

	"verifharness/internal/mesh"
	"verifharness/internal/vf"
	"verifharness/internal/world"
)

// rkSide is one router as far as sealing and unsealing go.
type rkSide struct {
	name string
	id   *m.Address
	st   *state.State
	bld  *frame.Builder
	node *world.Node // hello kind only
	// fixedMargins: the builder belongs to a router stack whose link writer needs its margins
	fixedMargins bool
}

func (s *rkSide) ip() netip.Addr { return s.id.IP }

// session returns s's session for peer, as the router looks it up for every frame.
func (s *rkSide) session(peer *rkSide) (*state.Session, error) {
	pub := peer.id.PublicAddress
	if err := s.st.AddRouter(&pub); err != nil {
		return nil, fmt.Errorf("%s: add router %s: %w", s.name, peer.name, err)
	}
	ss := s.st.GetSession(peer.ip())
	if ss == nil {
		return nil, fmt.Errorf("%s has no session for %s", s.name, peer.name)
	}
	return ss, nil
}

func newPartySide(name string, id *m.Address) *rkSide {
	p := world.NewParty(id, config.Store{})
	return &rkSide{name: name, id: id, st: p.St, bld: frame.NewFrameBuilder()}
}

type rkFrame struct {
	wire    []byte
	payload []byte
	mt      frame.MessageType
	seq     uint64 // relative to the first frame of its flow under its keys
	sw, apx int
	life    int
}

// rkFlow is one direction x class.
type rkFlow struct {
	from, to string
	cls      string
	base     uint64
	baseSet  bool
	sent     int       // frames sealed under the current keys
	late     []rkFrame // sealed under the current keys, not (successfully) delivered yet
	stale    []rkFrame // sealed under keys that have been replaced since
}

type rkHist struct {
	kind   string // party | hello
	idx    int
	seed   int64
	rng    *rand.Rand
	sides  map[string]*rkSide // A, B, X (X = a third router; party kind only)
	ms     *mesh.Mesh
	flows  []*rkFlow
	rels   []string
	events []any
	notes  []string // one per event: what it was, in words
	lives  []string // one per life: how the keys came about
	lifeAt []int    // index of the first event of each life
	life   int
	err    error // set-up failure: the history cannot be judged
	nUns   int
}

var (
	rkMargins = [][2]int{{0, 0}, {12, 16}, {100, 100}}
	rkRegions = []string{"ver", "ttl", "flow", "rate", "type", "nonce", "seq", "src", "dst", "swlen", "sw", "msglen", "msg", "auth", "apx"}
	rkIDs     []*m.Address
)

// hid names a receiving session. The histories are validated one after the other and each begins by resetting
// its sessions, so the names are reused (TLC's state stays small: 24 sessions, not 24 per history).
func (h *rkHist) hid(fl *rkFlow, rel string) string {
	return fmt.Sprintf("k-%s%s-%s-%s", fl.from, fl.to, fl.cls, rel)
}

func (h *rkHist) fail(format string, a ...any) {
	if h.err == nil {
		h.err = fmt.Errorf("history %d (%s, seed %d), life %d: %s", h.idx, h.kind, h.seed, h.life, fmt.Sprintf(format, a...))
	}
}

func (h *rkHist) randBytes(n int) []byte {
	b := make([]byte, n)
	h.rng.Read(b)
	return b
}

// runRekeyHistory executes one history from scratch. It is a function of (kind, idx, seed) up to key material
// and the clock.
func runRekeyHistory(kind string, idx int, seed int64, thorough bool) *rkHist {
	h := &rkHist{kind: kind, idx: idx, seed: seed, rng: rand.New(rand.NewSource(seed)), sides: map[string]*rkSide{}}
	switch kind {
	case "party":
		for len(rkIDs) < 3 {
			rkIDs = append(rkIDs, world.NewPrivacyIdentity())
		}
		h.sides["A"] = newPartySide("A", rkIDs[0])
		h.sides["B"] = newPartySide("B", rkIDs[1])
		h.sides["X"] = newPartySide("X", rkIDs[2])
		h.rels = []string{"correct", "correct", "correct", "correct", "correct", "otherSender", "otherReceiver", "reflected"}
	case "hello":
		ms, err := mesh.New(2, []mesh.Edge{{A: 1, B: 2, LA: 11, LB: 12}}, mesh.Opts{})
		if err != nil {
			h.fail("mesh: %v", err)
			return h
		}
		h.ms = ms
		for i, name := range []string{"A", "B"} {
			n := ms.Node(i + 1)
			h.sides[name] = &rkSide{name: name, id: n.ID, st: n.St, bld: n.Builder, node: n, fixedMargins: true}
		}
		h.rels = []string{"correct", "correct", "correct", "correct", "correct", "correct", "reflected"}
	default:
		panic(kind)
	}
	for _, d := range [][2]string{{"A", "B"}, {"B", "A"}} {
		for _, cls := range []string{"signed", "prio", "enc"} {
			fl := &rkFlow{from: d[0], to: d[1], cls: cls}
			h.flows = append(h.flows, fl)
			for _, rel := range []string{"correct", "otherSender", "otherReceiver", "reflected"} {
				h.events = append(h.events, map[string]any{"ev": "reset", "h": h.hid(fl, rel)})
				h.notes = append(h.notes, "new history")
			}
		}
	}
	nLives := 2 + h.rng.Intn(3)
	for h.life = 0; h.life < nLives && h.err == nil; h.life++ {
		h.newKeys()
		if h.err != nil {
			break
		}
		rounds := 3 + h.rng.Intn(6)
		for r := 0; r < rounds && h.err == nil; r++ {
			h.traffic(thorough)
		}
	}
	return h
}

// thirdParty (re-)establishes the keys of s with X (X's sessions only ever serve as WRONG sessions).
func (h *rkHist) thirdParty(s *rkSide) {
	x := h.sides["X"]
	if x == nil {
		return
	}
	if err := h.exchange(s, x, "inplace"); err != nil {
		h.fail("keys %s-X: %v", s.name, err)
	}
}

// exchange runs one key exchange between cli and srv the way `style` names:
//
//	hello    client keys a NEW EncryptionSession and installs it when the exchange is complete;
//	         the server re-keys the session it has, in place (router/ping_hello.go)
//	inplace  both re-key the session they have, in place
//	install  both key a new EncryptionSession and install it (peering/init.go)
func (h *rkHist) exchange(cli, srv *rkSide, style string) error {
	cs, err := cli.session(srv)
	if err != nil {
		return err
	}
	ss, err := srv.session(cli)
	if err != nil {
		return err
	}
	var ce, se *state.EncryptionSession
	switch style {
	case "hello", "hello+cleanup":
		ce, se = state.NewEncryptionSession(), ss.Encryption()
	case "inplace":
		ce, se = cs.Encryption(), ss.Encryption()
	case "install":
		ce, se = state.NewEncryptionSession(), state.NewEncryptionSession()
	default:
		panic(style)
	}
	kx, kxt, err := ce.InitKeyClientStart()
	if err != nil {
		return fmt.Errorf("client start: %w", err)
	}
	rkx, rkxt, err := se.InitKeyServer(kx, kxt)
	if err != nil {
		return fmt.Errorf("server: %w", err)
	}
	if err := ce.InitKeyClientComplete(rkx, rkxt); err != nil {
		return fmt.Errorf("client complete: %w", err)
	}
	ce.InitCleanup()
	switch style {
	case "hello":
		cs.SetEncryptionSession(ce) // the hello server does not clean up its exchange keys
	case "hello+cleanup":
		cs.SetEncryptionSession(ce)
		se.InitCleanup()
	case "inplace":
		se.InitCleanup()
	case "install":
		se.InitCleanup()
		if err := cli.st.SetEncryptionSession(srv.ip(), ce); err != nil {
			return err
		}
		if err := srv.st.SetEncryptionSession(cli.ip(), se); err != nil {
			return err
		}
	}
	return nil
}

// newKeys starts a life: sessions are lost (not in the first life), then the two routers run a key exchange.
func (h *rkHist) newKeys() {
	a, b := h.sides["A"], h.sides["B"]
	var story []string
	restarted := map[string]bool{}
	if h.life > 0 {
		// who loses its session, and how
		losers := [][]string{{}, {"A"}, {"B"}, {"A"}, {"B"}, {"A", "B"}}[h.rng.Intn(6)]
		for _, name := range losers {
			s, peer := h.sides[name], a
			if name == "A" {
				peer = b
			}
			how := h.rng.Intn(2)
			if h.kind == "hello" {
				how = 1
			}
			switch how {
			case 0:
				// restart: same identity, empty state, new frame builder
				ns := newPartySide(name, s.id)
				h.sides[name] = ns
				restarted[name] = true
				h.thirdParty(ns)
				story = append(story, name+" restarted (same identity, empty state)")
			case 1:
				// only the encryption session goes (what the "no keys" error handler does; the cleaner drops the whole
				// idle session)
				if _, err := s.session(peer); err != nil {
					h.fail("%v", err)
					return
				}
				if err := s.st.SetEncryptionSession(peer.ip(), nil); err != nil {
					h.fail("drop keys at %s: %v", name, err)
					return
				}
				story = append(story, name+" dropped its encryption session for "+peer.name)
			}
		}
		if len(losers) == 0 {
			story = append(story, "both kept their sessions")
		}
		a, b = h.sides["A"], h.sides["B"]
	} else if h.kind == "party" {
		h.thirdParty(a)
		h.thirdParty(b)
	}
	cli, srv := a, b
	if h.rng.Intn(2) == 0 {
		cli, srv = b, a
	}
	switch h.kind {
	case "party":
		style := []string{"hello", "hello", "hello", "hello+cleanup", "inplace", "install"}[h.rng.Intn(6)]
		if err := h.exchange(cli, srv, style); err != nil {
			h.fail("key exchange (%s, client %s): %v", style, cli.name, err)
			return
		}
		story = append(story, map[string]string{
			"hello":         fmt.Sprintf("hello exchange started by %s: %s installs a new encryption session, %s re-keys the one it has in place", cli.name, cli.name, srv.name),
			"hello+cleanup": fmt.Sprintf("hello exchange started by %s: %s installs a new encryption session, %s re-keys the one it has in place", cli.name, cli.name, srv.name),
			"inplace":       fmt.Sprintf("key exchange started by %s: both re-key the encryption session they have in place", cli.name),
			"install":       fmt.Sprintf("key exchange started by %s: both install a new encryption session", cli.name),
		}[style])
	case "hello":
		// the cool-down of the exchange before has passed
		cli.node.Rt.HelloPing.VerifExpire(srv.ip())
		srv.node.Rt.HelloPing.VerifExpire(cli.ip())
		if _, err := cli.node.Rt.HelloPing.Send(srv.ip()); err != nil {
			h.fail("hello ping %s -> %s: %v", cli.name, srv.name, err)
			return
		}
		h.ms.W.RunUntilQuiet(nil, 50)
		for _, p := range [][2]*rkSide{{cli, srv}, {srv, cli}} {
			ss, err := p[0].session(p[1])
			if err != nil {
				h.fail("%v", err)
				return
			}
			if !ss.Encryption().IsSetUp() {
				h.fail("after the hello exchange %s -> %s, %s has no keys for %s (panics: %v, lost: %v)", cli.name, srv.name, p[0].name, p[1].name, h.ms.W.Panics, h.ms.W.Lost)
				return
			}
		}
		story = append(story, fmt.Sprintf("real hello ping sent by %s, request and response handled by the routers", cli.name))
	}
	h.lives = append(h.lives, strings.Join(story, "; "))
	h.lifeAt = append(h.lifeAt, len(h.events))
	// what this means for the receiving sessions
	for _, fl := range h.flows {
		if fl.cls == "signed" {
			// signing needs no key exchange; a receiver that restarted has a new session that remembers nothing
			if restarted[fl.to] {
				h.events = append(h.events, map[string]any{"ev": "reset", "h": h.hid(fl, "correct")})
				h.notes = append(h.notes, fl.to+" restarted")
			}
			fl.late = nil
			continue
		}
		if h.life > 0 {
			h.events = append(h.events, map[string]any{"ev": "rekey", "h": h.hid(fl, "correct")})
			h.notes = append(h.notes, "new keys")
		}
		fl.stale = append(fl.stale, fl.late...)
		if len(fl.stale) > 8 {
			fl.stale = fl.stale[len(fl.stale)-8:]
		}
		fl.late, fl.baseSet, fl.sent = nil, false, 0
	}
}

func (h *rkHist) seal(fl *rkFlow) (rkFrame, bool) {
	from, to := h.sides[fl.from], h.sides[fl.to]
	mt := typesOf[fl.cls][h.rng.Intn(len(typesOf[fl.cls]))]
	payload := h.randBytes(1 + h.rng.Intn(300))
	var sw, apx []byte
	if h.rng.Intn(2) == 0 {
		sw = h.randBytes(1 + h.rng.Intn(20))
	}
	if h.rng.Intn(2) == 0 {
		apx = h.randBytes(1 + h.rng.Intn(100))
	}
	mg := rkMargins[h.rng.Intn(3)]
	ttl, flow, setHop := uint8(1+h.rng.Intn(255)), uint8(h.rng.Intn(256)), h.rng.Intn(2) == 0
	ss, err := from.session(to)
	if err != nil {
		h.fail("%v", err)
		return rkFrame{}, false
	}
	if !from.fixedMargins {
		from.bld.SetFrameMargins(mg[0], mg[1])
	}
	f, err := from.bld.NewFrameV1(from.ip(), to.ip(), mt, sw, payload, apx)
	if err != nil {
		h.fail("build %s frame: %v", mt, err)
		return rkFrame{}, false
	}
	if setHop {
		f.SetTTL(ttl)
		f.SetFlowControl(flow)
	}
	if err := f.Seal(ss); err != nil {
		f.ReturnToPool()
		h.fail("%s cannot seal a %s frame for %s: %v", from.name, mt, to.name, err)
		return rkFrame{}, false
	}
	raw, err := f.FrameDataWithMargins(0, 0)
	if err != nil {
		f.ReturnToPool()
		h.fail("serialise: %v", err)
		return rkFrame{}, false
	}
	wire := append([]byte(nil), raw...)
	var seq uint64
	if mt.IsEncrypted() {
		seq = uint64(f.SequenceNum())
	} else {
		seq = uint64(f.SequenceTime().UnixMilli())
	}
	f.ReturnToPool()
	if !fl.baseSet {
		fl.base, fl.baseSet = seq-1, true
	}
	if seq <= fl.base {
		// the sender's numbering went backwards under one set of keys: nothing the trace can express
		h.fail("%s numbered a %s frame %d after it had started at %d", from.name, mt, seq, fl.base+1)
		return rkFrame{}, false
	}
	fl.sent++
	if fl.cls == "signed" {
		time.Sleep(time.Millisecond) // the stamps do not run ahead of the clock
	}
	return rkFrame{wire: wire, payload: payload, mt: mt, seq: seq - fl.base, sw: len(sw), apx: len(apx), life: h.life}, true
}

// deliver hands one (possibly altered) copy of p to the session `rel` names and records the outcome.
func (h *rkHist) deliver(fl *rkFlow, p rkFrame, rel string, nmut int, stale bool) (ok bool) {
	from, to := h.sides[fl.from], h.sides[fl.to]
	x := h.sides["X"]
	var at, about *rkSide
	switch rel {
	case "correct":
		at, about = to, from
	case "otherSender":
		at, about = to, x
	case "otherReceiver":
		at, about = x, from
	case "reflected":
		at, about = from, to
	}
	ss, err := at.session(about)
	if err != nil {
		h.fail("%v", err)
		return false
	}
	authLen := 64
	if p.mt.IsEncrypted() {
		authLen = 16
	}
	data := append([]byte(nil), p.wire...)
	for k := 0; k < nmut; k++ {
		r := rkRegions[h.rng.Intn(len(rkRegions))]
		lo, hi := region(r, p.sw, len(p.payload), authLen, p.apx)
		if hi <= lo {
			continue
		}
		data[lo+h.rng.Intn(hi-lo)] ^= 1 << h.rng.Intn(8)
	}
	mut := []string{}
	for _, r := range rkRegions {
		lo, hi := region(r, p.sw, len(p.payload), authLen, p.apx)
		if hi > lo && !bytes.Equal(data[lo:hi], p.wire[lo:hi]) {
			mut = append(mut, r)
		}
	}
	var same, dup bool
	var uerr error
	panicked, pv, _ := vf.NoPanic(func() {
		f, err := at.bld.ParseFrame(data, nil, 0)
		if err != nil {
			uerr = fmt.Errorf("parse: %w", err)
			return
		}
		uerr = f.Unseal(ss)
		switch {
		case uerr == nil:
			ok = true
		case (f.MessageType() == frame.RouterHopPing || f.MessageType() == frame.RouterHopPingDeprecated) && errors.Is(uerr, state.ErrImmediateDuplicateFrame):
			dup = true // the ping parser hands it on all the same
		default:
			return
		}
		same = bytes.Equal(f.MessageData(), p.payload)
	})
	h.nUns++
	h.events = append(h.events, map[string]any{"ev": "unseal", "h": h.hid(fl, rel), "cls": fl.cls, "mut": mut, "rel": rel,
		"seq": int(p.seq), "ok": ok && !panicked, "dup": dup && !panicked, "same": same, "stale": stale,
		"clear": p.mt.IsEncrypted() && clearOnWire(p.wire, p.payload), "panic": panicked})
	what := "untouched"
	if len(mut) > 0 {
		what = "altered in " + strings.Join(mut, ",")
	}
	under := fmt.Sprintf("frame %d of %d that %s has sealed for %s under the current keys", p.seq, fl.sent, fl.from, fl.to)
	if fl.cls == "signed" {
		under = fmt.Sprintf("signed by %s for %s, stamp +%d ms", fl.from, fl.to, p.seq)
	}
	if stale {
		under = fmt.Sprintf("frame %d that %s sealed for %s in life %d, under keys that have been replaced since", p.seq, fl.from, fl.to, p.life+1)
	}
	res := "unsealed"
	switch {
	case panicked:
		res = fmt.Sprintf("PANIC %v", pv)
	case uerr != nil:
		res = fmt.Sprintf("refused: %v", uerr)
	case !same:
		res = "unsealed to a DIFFERENT payload"
	}
	h.notes = append(h.notes, fmt.Sprintf("%s frame (%s), %s, given to %s's session for %s: %s", p.mt, under, what, at.name, about.name, res))
	return ok && !panicked
}

// traffic is one round: a batch of frames of one flow is sealed and delivered, with the usual trouble on the way.
func (h *rkHist) traffic(thorough bool) {
	fl := h.flows[[]int{0, 1, 1, 2, 2, 3, 4, 4, 5, 5}[h.rng.Intn(10)]]
	// frames of the life before that were still on their way arrive now
	if len(fl.stale) > 0 && h.rng.Intn(3) == 0 {
		for k, ns := 0, 1+h.rng.Intn(2); k < ns && h.err == nil; k++ {
			h.deliver(fl, fl.stale[h.rng.Intn(len(fl.stale))], "correct", 0, true)
		}
	}
	n := 1 + h.rng.Intn(14)
	switch {
	case fl.cls == "signed":
		n = 1 + h.rng.Intn(4)
	case h.rng.Intn(8) == 0:
		n = 60 + h.rng.Intn(40) // longer than the replay window is wide
	}
	var batch []rkFrame
	for i := 0; i < n; i++ {
		p, ok := h.seal(fl)
		if !ok {
			return
		}
		batch = append(batch, p)
	}
	// each frame 0..3 times, locally shuffled; a late frame of an earlier round now and then
	var order []int
	for i := range batch {
		for j := 0; j < []int{1, 1, 1, 1, 1, 0, 2, 3}[h.rng.Intn(8)]; j++ {
			order = append(order, i)
		}
	}
	for i := range order {
		j := i + h.rng.Intn(5) - 2
		if j >= 0 && j < len(order) {
			order[i], order[j] = order[j], order[i]
		}
	}
	done := make([]bool, len(batch))
	for _, i := range order {
		if h.err != nil {
			return
		}
		if len(fl.late) > 0 && h.rng.Intn(12) == 0 {
			k := h.rng.Intn(len(fl.late))
			if h.deliver(fl, fl.late[k], "correct", 0, false) {
				fl.late = append(fl.late[:k:k], fl.late[k+1:]...)
			}
		}
		rel := h.rels[h.rng.Intn(len(h.rels))]
		if h.deliver(fl, batch[i], rel, []int{0, 0, 0, 0, 1, 1, 2}[h.rng.Intn(7)], false) && rel == "correct" {
			done[i] = true
		}
	}
	for i, p := range batch {
		if !done[i] {
			fl.late = append(fl.late, p)
		}
	}
	if len(fl.late) > 8 {
		fl.late = fl.late[len(fl.late)-8:]
	}
}

// stageRekey runs the histories and has TLC judge them.
func stageRekey(c *vf.Ctx) {
	type span struct {
		h        *rkHist
		from, to int // events[from:to] belong to h
	}
	var events []any
	var spans []span
	nUns, nLives := 0, 0
	run := func(kind string, n int) {
		for i := 0; i < n; i++ {
			idx := len(spans)
			h := runRekeyHistory(kind, idx, c.Seed*1_000_003+int64(idx)*7919+int64(len(kind)), c.Thorough())
			if h.err != nil {
				c.Broken("T-rekey: %v", h.err)
				continue
			}
			spans = append(spans, span{h, len(events), len(events) + len(h.events)})
			events = append(events, h.events...)
			nUns += h.nUns
			nLives += len(h.lives)
			c.Distinct(fmt.Sprintf("rekey|%s|%s", kind, strings.Join(h.lives, "|")))
			if i == 0 {
				c.Sample(map[string]any{"rekey_history": kind, "lives": h.lives, "events": len(h.events)})
			}
		}
	}
	run("party", c.Pick(120, 1500))
	run("hello", c.Pick(30, 300))
	c.Eval(nUns)
	if len(spans) == 0 {
		c.Broken("T-rekey: no history could be executed")
		return
	}
	rejectAt, inv, tres, err := c.TraceCheck("FrameSeal_Trace", "FrameSeal_Trace.cfg", events, vf.TLCOpts{Timeout: 20 * time.Minute})
	if err != nil {
		c.Broken("T-rekey: %v", err)
		return
	}
	c.AddTraces(len(spans))
	c.AddModel(tres.Distinct, tres.Generated)
	c.Stage("T-rekey", map[string]any{"histories": len(spans), "lives": nLives, "events": len(events), "unseals": nUns, "wall_s": tres.Wall.Seconds()})
	c.Logf("T-rekey: %d histories (%d key exchanges), %d events validated", len(spans), nLives, len(events))
	if rejectAt <= 0 && inv == "" {
		return
	}
	if rejectAt <= 0 || rejectAt > len(events) {
		c.Broken("T-rekey: FrameSeal_Trace rejected the trace (%s) at a line that cannot be mapped back: %d", inv, rejectAt)
		return
	}
	var sp span
	for _, s := range spans {
		if rejectAt-1 >= s.from && rejectAt-1 < s.to {
			sp = s
		}
	}
	h, at := sp.h, rejectAt-1-sp.from
	ev, _ := h.events[at].(map[string]any)
	// the life the event belongs to = number of "new keys" points before it
	life := 0
	for i, first := range h.lifeAt {
		if at >= first && i < len(h.lives) {
			life = i
		}
	}
	var story []string
	for i := 0; i <= life; i++ {
		story = append(story, fmt.Sprintf("life %d: %s", i+1, h.lives[i]))
	}
	rule := "a frame that is not allowed to unseal there did"
	if ev["ok"] == false && ev["dup"] == false {
		rule = "nothing protected was changed, it is the session of the right two routers with the keys in force, the frame was never delivered before and is within the window - it has to unseal to the original payload"
	} else if ev["ok"] == true && ev["same"] == false {
		rule = "delivered payload differs from the sealed one"
	}
	what := fmt.Sprintf("key set-up history (%s) - %s. Then: %s. Not allowed by FrameSeal_Trace (%s)", h.kind, strings.Join(story, ". "), h.notes[at], rule)
	kind, idx, seed, thorough := h.kind, h.idx, h.seed, c.Thorough()
	c.Violation(vf.Key("rekey", ev["cls"], ev["rel"], fmt.Sprint(ev["mut"]), ev["ok"], ev["stale"]), what,
		map[string]any{"kind": kind, "history": idx, "history_seed": seed, "lives": h.lives[:life+1], "event": ev, "event_index": at, "said": h.notes[at]},
		func() bool {
			// the same history again, from scratch: the same event must come out the same way
			g := runRekeyHistory(kind, idx, seed, thorough)
			if g.err != nil || at >= len(g.events) {
				return false
			}
			e2, _ := g.events[at].(map[string]any)
			for _, k := range []string{"ev", "h", "cls", "rel", "ok", "dup", "same", "stale"} {
				if fmt.Sprint(e2[k]) != fmt.Sprint(ev[k]) {
					return false
				}
			}
			return fmt.Sprint(e2["mut"]) == fmt.Sprint(ev["mut"]) && (ev["cls"] == "signed" || e2["seq"] == ev["seq"])
		})
}
