// C02 - sealed frames. Stage M: TLC on FrameSeal enumerates every case
// (class x switch block x appendix x mutated region x transit x session
// relation) and checks that the code's inputs to signature/AEAD agree with
// the protected-region rule. Stage R: each case is expanded over message
// types, payload/switch/appendix sizes, margins and over the bytes and bits
// of the mutated region (offsets from the driver's own layout table) and run
// on real sessions of three routers. Stage T: streams with live sequence
// state are validated by FrameSeal_Trace (rule composed with the window).
// Stage T-rekey (rekey.go): the same oracle over histories in which the two
// routers set up their keys several times, in the ways the router does it.
// Stage T-wrap (wrap.go): the same oracle over frames that several goroutines
// seal for one session at the same moment, across the wrap of the out sequence.
package main

import (
	"bytes"
	"encoding/json"
	"errors"
	"fmt"
	"math/rand"
	"time"

	"github.com/mycoria/mycoria/config"
	"github.com/mycoria/mycoria/frame"
	"github.com/mycoria/mycoria/state"

	"verifharness/internal/vf"
	"verifharness/internal/world"
)

type act struct {
	Name    string `json:"name"`
	Cls     string `json:"cls"`
	Sw      bool   `json:"sw"`
	Apx     bool   `json:"apx"`
	Mut     string `json:"mut"`
	Transit bool   `json:"transit"`
	Rel     string `json:"rel"`
	OK      bool   `json:"ok"`
	PropOK  bool   `json:"propok"`
}

var typesOf = map[string][]frame.MessageType{
	"signed": {frame.RouterPing, frame.RouterHopPing, frame.RouterHopPingDeprecated},
	"prio":   {frame.RouterCtrl, frame.SessionCtrl},
	"enc":    {frame.NetworkTraffic, frame.SessionData},
}

// region returns the byte range [from,to) of a region in a serialised frame
// (the driver's own layout table of the V1 format).
func region(name string, swLen, msgLen, authLen, apxLen int) (int, int) {
	sw0 := 49
	ml0 := sw0 + swLen
	m0 := ml0 + 2
	a0 := m0 + msgLen
	x0 := a0 + authLen
	switch name {
	case "ver":
		return 0, 1
	case "ttl":
		return 1, 2
	case "flow":
		return 2, 3
	case "rate":
		return 3, 4
	case "type":
		return 4, 5
	case "nonce":
		return 5, 8
	case "seq":
		return 8, 16
	case "src":
		return 16, 32
	case "dst":
		return 32, 48
	case "swlen":
		return 48, 49
	case "sw":
		return sw0, ml0
	case "msglen":
		return ml0, m0
	case "msg":
		return m0, a0
	case "auth":
		return a0, x0
	case "apx":
		return x0, x0 + apxLen
	}
	panic("region " + name)
}

type trio struct {
	a, b, c    *world.Party
	ab, ba     *state.Session // a's session for b, b's for a
	ac, ca     *state.Session
	bc, cb     *state.Session
	bldA, bldR *frame.Builder
	rng        *rand.Rand
}

func newTrio(seed int64) *trio {
	t := &trio{rng: rand.New(rand.NewSource(seed))}
	t.a = world.NewParty(world.NewPrivacyIdentity(), config.Store{})
	t.b = world.NewParty(world.NewPrivacyIdentity(), config.Store{})
	t.c = world.NewParty(world.NewPrivacyIdentity(), config.Store{})
	t.rekey()
	t.bldA, t.bldR = frame.NewFrameBuilder(), frame.NewFrameBuilder()
	return t
}

func (t *trio) rekey() {
	t.ab, t.ba, _, _ = world.KeyExchange(t.a, t.b, false)
	t.ac, t.ca, _, _ = world.KeyExchange(t.a, t.c, false)
	t.bc, t.cb, _, _ = world.KeyExchange(t.b, t.c, false)
}

func (t *trio) randBytes(n int) []byte {
	b := make([]byte, n)
	t.rng.Read(b)
	return b
}

// sealed builds and seals a frame from a to b and returns its serialisation.
func (t *trio) sealed(mt frame.MessageType, payload, sw, apx []byte, margins [2]int) ([]byte, uint64) {
	t.bldA.SetFrameMargins(margins[0], margins[1])
	f, err := t.bldA.NewFrameV1(t.a.ID.IP, t.b.ID.IP, mt, sw, payload, apx)
	if err != nil {
		panic(err)
	}
	if t.rng.Intn(2) == 0 {
		// the sender may have set the hop fields before it seals (a forwarding switch does so afterwards): TTL and
		// flow-control flags are outside the seal whenever they are set
		f.SetTTL(uint8(1 + t.rng.Intn(255)))
		f.SetFlowControl(uint8(t.rng.Intn(256)))
	}
	if err := f.Seal(t.ab); err != nil {
		panic(err)
	}
	raw, err := f.FrameDataWithMargins(0, 0)
	if err != nil {
		panic(err)
	}
	out := append([]byte(nil), raw...)
	var seq uint64
	if mt.IsEncrypted() {
		seq = uint64(f.SequenceNum())
	} else {
		seq = uint64(f.SequenceTime().UnixMilli())
	}
	f.ReturnToPool()
	return out, seq
}

// sealedRate is like sealed, but first lets A receive `recv` frames of the
// same priority class from B (so that the receive rate A reports in the frame
// is recv/64) - or, for the signed class, presets the receive rate byte.
func (t *trio) sealedRate(mt frame.MessageType, payload []byte, recv int, signedRate uint8) []byte {
	if mt.IsEncrypted() {
		back := frame.NetworkTraffic
		if mt.IsPriority() {
			back = frame.RouterCtrl
		}
		for i := 0; i < recv; i++ {
			f, err := t.bldR.NewFrameV1(t.b.ID.IP, t.a.ID.IP, back, nil, []byte("filler"), nil)
			if err != nil {
				panic(err)
			}
			if err := f.Seal(t.ba); err != nil {
				panic(err)
			}
			raw, _ := f.FrameDataWithMargins(0, 0)
			g, err := t.bldA.ParseFrame(append([]byte(nil), raw...), nil, 0)
			f.ReturnToPool()
			if err != nil {
				panic(err)
			}
			if err := g.Unseal(t.ab); err != nil {
				panic(fmt.Sprintf("filler frame %d did not unseal: %v", i, err))
			}
		}
	}
	t.bldA.SetFrameMargins(12, 16)
	f, err := t.bldA.NewFrameV1(t.a.ID.IP, t.b.ID.IP, mt, nil, payload, nil)
	if err != nil {
		panic(err)
	}
	if !mt.IsEncrypted() {
		f.SetRecvRate(signedRate)
	}
	if err := f.Seal(t.ab); err != nil {
		panic(err)
	}
	raw, _ := f.FrameDataWithMargins(0, 0)
	out := append([]byte(nil), raw...)
	f.ReturnToPool()
	return out
}

func (t *trio) sessionFor(rel string) *state.Session {
	switch rel {
	case "correct":
		return t.ba
	case "otherSender":
		return t.bc
	case "otherReceiver":
		return t.ca
	case "reflected":
		return t.ab
	}
	panic(rel)
}

// unseal parses data and unseals it with the session of rel. It reports
// success and whether the delivered payload equals the original.
func (t *trio) unseal(data []byte, rel string, payload []byte) (ok, same, panicked bool, perr any) {
	buf := append([]byte(nil), data...)
	panicked, perr, _ = vf.NoPanic(func() {
		f, err := t.bldR.ParseFrame(buf, nil, 0)
		if err != nil {
			return
		}
		if err := f.Unseal(t.sessionFor(rel)); err != nil {
			return
		}
		ok = true
		same = bytes.Equal(f.MessageData(), payload)
	})
	return
}

// unsealDup is unseal as the router's ping parser sees it: a hop ping whose Unseal fails with "immediate duplicate"
// is handed on to its handler all the same (announcements reach a router once per peer) - dup reports that.
func (t *trio) unsealDup(data []byte, rel string, payload []byte) (ok, same, dup, panicked bool) {
	buf := append([]byte(nil), data...)
	panicked, _, _ = vf.NoPanic(func() {
		f, err := t.bldR.ParseFrame(buf, nil, 0)
		if err != nil {
			return
		}
		err = f.Unseal(t.sessionFor(rel))
		switch {
		case err == nil:
			ok = true
		case (f.MessageType() == frame.RouterHopPing || f.MessageType() == frame.RouterHopPingDeprecated) && errors.Is(err, state.ErrImmediateDuplicateFrame):
			dup = true
		default:
			return
		}
		same = bytes.Equal(f.MessageData(), payload)
	})
	return
}

func clearOnWire(wire, payload []byte) bool {
	if len(payload) < 8 {
		return false
	}
	for i := 0; i+8 <= len(payload); i += 8 {
		if bytes.Contains(wire, payload[i:i+8]) {
			return true
		}
	}
	return false
}

func main() { vf.Main("C02", "model_checking", run) }

func run(c *vf.Ctx) {
	c.Rule("M: TLC enumerates all 1536 cases (3 classes x switch block y/n x appendix y/n x 15 regions+none x transit y/n x 4 session relations) and checks signature/AEAD inputs against the protected-region rule. R: each case expanded over the class's message types, payload sizes {1,2,45,599,600,601,1599,5099,9599,9999,10000}, switch blocks {1,2,127,255}, appendices {1,64,9999,10000}, margins {(0,0),(12,16),(100,100)} and over bytes x bits of the mutated region (quick: first/last/random byte, bits 0,7,random; thorough: every byte x every bit up to 700-byte frames, 600 sampled bytes x 8 bits beyond), real sessions of three routers. T: streams with duplicates/reordering validated by FrameSeal_Trace. T-rekey: histories of 2-4 key set-ups between the same two routers (a side restarted / dropped its encryption session / kept it; hello style = client installs a new session and the server re-keys in place, both in place, both install; either router as client; also run by the real HelloPingHandler on two router stacks), traffic of all classes both ways after each, frames of the life before arriving late; same trace specification with the event rekey. T-wrap: rounds in which 2..32 goroutines, released together, seal frames of the encrypted classes (some rounds: priority frames among them) for ONE session while its regular out sequence wraps and the out key rolls over (counter moved next to the wrap with the session's test helper, receiver's window at the sender's counter); every frame delivered untouched, once, in the order of the numbers, a replay now and then; same trace specification (schedule-dependent: the interleaving is made likely, not forced). distinct = distinct (case, message type, sizes, byte offset, bit)")
	c.Assume("Ed25519 / ChaCha20-Poly1305 unforgeable (also tested: every flipped MAC/signature bit must fail)", "layout offsets are the driver's own table of the V1 format")

	mc, err := c.TLC("FrameSeal", "FrameSeal_MC.cfg", vf.TLCOpts{Workers: 1, Coverage: true, Timeout: 5 * time.Minute})
	if err != nil {
		c.Fatal("M: %v", err)
	}
	if mc.Violated != "" {
		c.Broken("M: %s violated in the model", mc.Violated)
	}
	if len(mc.Edges) < 1536 {
		c.Broken("M: vacuous: only %d cases enumerated", len(mc.Edges))
	}
	c.AddModel(mc.Distinct, mc.Generated)
	c.Stage("M", map[string]any{"distinct": mc.Distinct, "cases": len(mc.Edges)})

	t := newTrio(c.Seed)
	paySizes := []int{1, 2, 45, 599, 600, 601, 1599, 5099, 9599, 9999, 10000}
	swSizes := []int{1, 2, 127, 255}
	apxSizes := []int{1, 64, 9999, 10000}
	margins := [][2]int{{0, 0}, {12, 16}, {100, 100}}
	nCases := 0
	for ci, e := range mc.Edges {
		var a act
		if err := json.Unmarshal(e.Act, &a); err != nil || a.Name != "case" {
			continue
		}
		nCases++
		// concretisations of this case
		nConc := c.Pick(4, 8)
		for k := 0; k < nConc; k++ {
			mt := typesOf[a.Cls][(ci+k)%len(typesOf[a.Cls])]
			pl := paySizes[(ci*7+k*3)%len(paySizes)]
			if c.Thorough() && k == 0 {
				pl = []int{1, 45, 599}[ci%3] // small frame: every byte and bit
			}
			var sw, apx []byte
			if a.Sw {
				sw = t.randBytes(swSizes[(ci+k)%len(swSizes)])
			}
			if a.Apx {
				apx = t.randBytes(apxSizes[(ci+k)%len(apxSizes)])
			}
			payload := t.randBytes(pl)
			mg := margins[(ci+k)%3]
			wire, _ := t.sealed(mt, payload, sw, apx, mg)
			authLen := 64
			if mt.IsEncrypted() {
				authLen = 16
			}
			if mt.IsEncrypted() && clearOnWire(wire, payload) {
				c.Violation(vf.Key("clear", a.Cls), fmt.Sprintf("%s frame carries its payload in clear", mt), map[string]any{"type": mt.String(), "payload_len": pl}, nil)
			}
			// which (offset, bit) pairs to flip
			type flip struct{ off, bit int }
			var flips []flip
			if a.Mut == "none" {
				flips = []flip{{-1, 0}}
			} else {
				from, to := region(a.Mut, len(sw), len(payload), authLen, len(apx))
				n := to - from
				var offs []int
				switch {
				case c.Thorough() && (len(wire) <= 700 || n <= 600):
					for o := from; o < to; o++ {
						offs = append(offs, o)
					}
				case c.Thorough():
					offs = []int{from, to - 1}
					for j := 0; j < 600; j++ {
						offs = append(offs, from+t.rng.Intn(n))
					}
				default:
					offs = []int{from, to - 1, from + t.rng.Intn(n)}
				}
				for _, o := range offs {
					if c.Thorough() {
						for b := 0; b < 8; b++ {
							flips = append(flips, flip{o, b})
						}
					} else {
						flips = append(flips, flip{o, 0}, flip{o, 7}, flip{o, t.rng.Intn(8)})
					}
				}
			}
			for fi, fl := range flips {
				if fi > 0 && a.PropOK {
					// a frame that unsealed is consumed by the replay window: seal a fresh one
					wire, _ = t.sealed(mt, payload, sw, apx, mg)
				}
				data := append([]byte(nil), wire...)
				if fl.off >= 0 {
					data[fl.off] ^= 1 << fl.bit
				}
				if a.Transit {
					data[1] = byte(1 + t.rng.Intn(255)) // TTL
					data[2] ^= byte(1 + t.rng.Intn(7))  // flow flags
					if len(apx) > 0 {
						x0, _ := region("apx", len(sw), len(payload), authLen, len(apx))
						data[x0+t.rng.Intn(len(apx))] ^= 0xff
					}
				}
				ok, same, panicked, perr := t.unseal(data, a.Rel, payload)
				c.Eval(1)
				c.Distinct(fmt.Sprintf("%d|%s|%d|%d|%d|%d|%d", ci, mt, pl, len(sw), len(apx), fl.off, fl.bit))
				desc := map[string]any{"case": a, "type": mt.String(), "payload": pl, "switch": len(sw), "appendix": len(apx), "margins": mg, "offset": fl.off, "bit": fl.bit}
				if panicked {
					c.Violation(vf.Key("panic", a.Cls, a.Mut), fmt.Sprintf("unsealing panicked: %v", perr), desc, nil)
					continue
				}
				switch {
				case ok && !a.PropOK:
					c.Violation(vf.Key("accepted", a.Cls, a.Mut, a.Rel), fmt.Sprintf("%s frame with region %q altered (offset %d bit %d), session %s: unsealed although the rule forbids it", mt, a.Mut, fl.off, fl.bit, a.Rel), desc, nil)
				case !ok && a.PropOK:
					c.Violation(vf.Key("rejected", a.Cls, a.Mut, a.Rel), fmt.Sprintf("%s frame, region %q altered (offset %d bit %d), transit=%v, session %s: failed to unseal although nothing protected changed", mt, a.Mut, fl.off, fl.bit, a.Transit, a.Rel), desc, nil)
				case ok && !same:
					c.Violation(vf.Key("payload", a.Cls, a.Mut), fmt.Sprintf("%s frame unsealed to a different payload", mt), desc, nil)
				}
			}
			if ci < 2 && k == 0 {
				c.Sample(map[string]any{"case": a, "type": mt.String(), "payload": pl, "flips": len(flips)})
			}
		}
	}
	c.Stage("R", map[string]any{"cases": nCases})
	c.Logf("R: %d cases executed", nCases)

	// ---- R (values): every value of the single-byte header fields, for frames sealed with
	// different receive rates (the receive-rate byte reflects how full the sender's window is)
	nval := 0
	for cls, mts := range typesOf {
		for _, mt := range mts {
			for _, recv := range []int{0, 1, 32, 63, 64} {
				t.rekey()
				payload := t.randBytes(40)
				wire := t.sealedRate(mt, payload, recv, uint8(recv*100/64))
				c.Distinct(fmt.Sprintf("values|%s|%d|rate=%d", mt, recv, wire[3]))
				for _, fld := range []struct {
					name string
					off  int
					prot bool
				}{{"ver", 0, true}, {"rate", 3, true}, {"type", 4, true}, {"swlen", 48, true}, {"ttl", 1, false}, {"flow", 2, false}} {
					for v := 0; v < 256; v++ {
						if byte(v) == wire[fld.off] {
							continue
						}
						if !fld.prot {
							// must stay valid: a frame that unsealed is consumed, seal a fresh one
							wire = t.sealedRate(mt, payload, 0, wire[3])
						}
						data := append([]byte(nil), wire...)
						data[fld.off] = byte(v)
						ok, same, panicked, perr := t.unseal(data, "correct", payload)
						c.Eval(1)
						nval++
						desc := map[string]any{"class": cls, "type": mt.String(), "field": fld.name, "sealed_value": wire[fld.off], "delivered_value": v, "frames_received_before_sealing": recv}
						switch {
						case panicked:
							c.Violation(vf.Key("panic", cls, fld.name), fmt.Sprintf("unsealing panicked: %v", perr), desc, nil)
						case fld.prot && ok:
							c.Violation(vf.Key("accepted", cls, fld.name, "correct"), fmt.Sprintf("%s frame sealed with %s=%d unsealed after the byte was replaced by %d", mt, fld.name, wire[fld.off], v), desc, nil)
						case !fld.prot && (!ok || !same):
							c.Violation(vf.Key("rejected", cls, fld.name, "correct"), fmt.Sprintf("%s frame failed to unseal after only %s was changed to %d", mt, fld.name, v), desc, nil)
						}
					}
				}
			}
		}
	}
	c.Stage("R-values", map[string]any{"unseals": nval})
	c.Logf("R values: %d unseals", nval)

	// ---- R appendix: the appendix is unprotected - replacing it on a SEALED frame (as a relay does with
	// SetAppendixData), also with one that no longer fits the frame's buffer, never invalidates the frame
	napx := 0
	for _, mt := range []frame.MessageType{frame.RouterHopPing, frame.RouterPing, frame.NetworkTraffic, frame.SessionCtrl} {
		for _, m := range margins {
			for _, ps := range []int{1, 45, 599, 1500} {
				for _, grow := range []int{0, 1, 100, 300, 440, 520, 560, 1000, 1560, 4000, 5060, 9000, 9560, 10000} {
					if !c.Thorough() && napx%3 != int(c.Seed%3) && grow != 520 && grow != 1560 {
						napx++
						continue
					}
					napx++
					t.rekey()
					payload := t.randBytes(ps)
					t.bldA.SetFrameMargins(m[0], m[1])
					f, err := t.bldA.NewFrameV1(t.a.ID.IP, t.b.ID.IP, mt, nil, payload, t.randBytes(t.rng.Intn(40)))
					if err != nil {
						continue
					}
					if err := f.Seal(t.ab); err != nil {
						f.ReturnToPool()
						continue
					}
					newApx := t.randBytes(grow)
					serr := f.SetAppendixData(newApx)
					var wire []byte
					if raw, err := f.FrameDataWithMargins(0, 0); err == nil {
						wire = append([]byte(nil), raw...)
					}
					f.ReturnToPool()
					c.Eval(1)
					if serr != nil {
						continue // the builder may refuse an appendix (size limit): nothing was changed
					}
					ok, same, panicked, _ := t.unseal(wire, "correct", payload)
					c.Distinct(fmt.Sprintf("apxgrow|%s|%v|%d|%d", mt, m, ps, grow))
					if !ok || !same || panicked {
						c.Violation(vf.Key("appendix-replaced", mt.Class(), "invalidated"),
							fmt.Sprintf("%s frame (payload %d bytes, margins %v): after the appendix of the sealed frame was replaced by one of %d bytes the receiver rejects the frame (accepted=%v payload intact=%v panic=%v) - only the unprotected appendix changed", mt, ps, m, grow, ok, same, panicked),
							map[string]any{"type": mt.String(), "payload": ps, "margins": m, "appendix": grow}, nil)
					}
				}
			}
		}
	}
	c.Stage("R-appendix", map[string]any{"cases": napx})
	c.Logf("R appendix: %d cases", napx)

	// ---- T ----
	var events []any
	traces := 0
	regionsAll := []string{"ver", "ttl", "flow", "rate", "type", "nonce", "seq", "src", "dst", "swlen", "sw", "msglen", "msg", "auth", "apx"}
	rels := []string{"correct", "correct", "correct", "otherSender", "otherReceiver", "reflected"}
	for s := 0; s < c.Pick(150, 1500); s++ {
		t.rekey()
		// fresh signing sequence as well: new parties every 10 streams
		if s%10 == 0 {
			t = newTrio(c.Seed + int64(s) + 1)
		}
		hid := func(rel string) string { return fmt.Sprintf("s%d-%s", s, rel) }
		for _, r := range []string{"correct", "otherSender", "otherReceiver", "reflected"} {
			events = append(events, map[string]any{"ev": "reset", "h": hid(r)})
		}
		traces++
		type sent struct {
			wire    []byte
			payload []byte
			mt      frame.MessageType
			seq     uint64
			sw, apx int
		}
		var pool []sent
		cls := []string{"signed", "prio", "enc"}[s%3]
		n := 5 + t.rng.Intn(25)
		var base uint64
		baseSet := false
		for i := 0; i < n; i++ {
			mt := typesOf[cls][t.rng.Intn(len(typesOf[cls]))]
			payload := t.randBytes(1 + t.rng.Intn(300))
			var sw, apx []byte
			if t.rng.Intn(2) == 0 {
				sw = t.randBytes(1 + t.rng.Intn(20))
			}
			if t.rng.Intn(2) == 0 {
				apx = t.randBytes(1 + t.rng.Intn(100))
			}
			wire, seq := t.sealed(mt, payload, sw, apx, margins[t.rng.Intn(3)])
			if !baseSet {
				base, baseSet = seq-1, true
			}
			pool = append(pool, sent{wire, payload, mt, seq - base, len(sw), len(apx)})
			if cls == "signed" {
				time.Sleep(time.Millisecond)
			}
		}
		// deliveries: each frame 0..3 times, shuffled locally, sometimes altered / to other sessions
		var order []int
		for i := range pool {
			for j := 0; j < []int{1, 1, 2, 3}[t.rng.Intn(4)]; j++ {
				order = append(order, i)
			}
		}
		for i := range order {
			j := i + t.rng.Intn(5) - 2
			if j >= 0 && j < len(order) {
				order[i], order[j] = order[j], order[i]
			}
		}
		for _, i := range order {
			p := pool[i]
			rel := rels[t.rng.Intn(len(rels))]
			authLen := 64
			if p.mt.IsEncrypted() {
				authLen = 16
			}
			data := append([]byte(nil), p.wire...)
			mut := []string{}
			for k := 0; k < []int{0, 0, 1, 1, 2}[t.rng.Intn(5)]; k++ {
				r := regionsAll[t.rng.Intn(len(regionsAll))]
				from, to := region(r, p.sw, len(p.payload), authLen, p.apx)
				if to <= from {
					continue
				}
				data[from+t.rng.Intn(to-from)] ^= 1 << t.rng.Intn(8)
			}
			// the regions that really differ now (two flips of one bit cancel)
			for _, r := range regionsAll {
				from, to := region(r, p.sw, len(p.payload), authLen, p.apx)
				if to > from && !bytes.Equal(data[from:to], p.wire[from:to]) {
					mut = append(mut, r)
				}
			}
			ok, same, dup, panicked := t.unsealDup(data, rel, p.payload)
			c.Eval(1)
			events = append(events, map[string]any{"ev": "unseal", "h": hid(rel), "cls": cls, "mut": mut, "rel": rel,
				"seq": int(p.seq), "ok": ok && !panicked, "dup": dup && !panicked, "same": same, "clear": p.mt.IsEncrypted() && clearOnWire(p.wire, p.payload), "panic": panicked})
		}
	}
	// a burst: one router seals signed frames for another as fast as it can (tens of thousands: the time stamps, one
	// millisecond apart at least, run more than a minute ahead of the clock); the first, some in between and the last
	// ones are delivered, untouched and in order
	{
		t = newTrio(c.Seed + 77)
		events = append(events, map[string]any{"ev": "reset", "h": "burst"})
		traces++
		type kept struct {
			wire, payload []byte
			seq           uint64
		}
		var keep []kept
		var base uint64
		n, ahead := 0, time.Duration(0)
		for ; n < 200000 && ahead < 62*time.Second; n++ {
			payload := t.randBytes(1 + t.rng.Intn(40))
			wire, seq := t.sealed(frame.RouterPing, payload, nil, nil, margins[0])
			if n == 0 {
				base = seq - 1
			}
			ahead = time.Until(time.UnixMilli(int64(seq)))
			if n < 3 || n%10000 == 0 || ahead > 59*time.Second {
				keep = append(keep, kept{wire, payload, seq - base})
			}
		}
		for i := 0; i < 5; i++ {
			payload := t.randBytes(1 + t.rng.Intn(40))
			wire, seq := t.sealed(frame.RouterPing, payload, nil, nil, margins[0])
			keep = append(keep, kept{wire, payload, seq - base})
		}
		if len(keep) > 60 {
			keep = append(keep[:30], keep[len(keep)-30:]...)
		}
		for _, k := range keep {
			ok, same, dup, panicked := t.unsealDup(k.wire, "correct", k.payload)
			c.Eval(1)
			events = append(events, map[string]any{"ev": "unseal", "h": "burst", "cls": "signed", "mut": []string{}, "rel": "correct",
				"seq": int(k.seq), "ok": ok && !panicked, "dup": dup && !panicked, "same": same, "clear": false, "panic": panicked})
		}
		c.Extra("burst", map[string]any{"sealed": n + 5, "stamps_ahead_of_the_clock_s": ahead.Seconds(), "delivered": len(keep)})
		c.Logf("T: burst of %d signed frames, stamps %.1f s ahead of the clock, %d delivered", n+5, ahead.Seconds(), len(keep))
	}
	rejectAt, inv, tres, err := c.TraceCheck("FrameSeal_Trace", "FrameSeal_Trace.cfg", events, vf.TLCOpts{Timeout: 20 * time.Minute})
	if err != nil {
		c.Fatal("T: %v", err)
	}
	c.AddTraces(traces)
	c.AddModel(tres.Distinct, tres.Generated)
	c.Stage("T", map[string]any{"streams": traces, "events": len(events), "wall_s": tres.Wall.Seconds()})
	if rejectAt > 0 || inv != "" {
		ev := events[rejectAt-1].(map[string]any)
		c.Violation(vf.Key("trace", ev["cls"], ev["rel"], fmt.Sprint(ev["mut"]), ev["ok"]), fmt.Sprintf("stream event %v is not allowed by FrameSeal_Trace (line %d)", ev, rejectAt), ev, nil)
	}
	c.Logf("T: %d events in %d streams validated", len(events), traces)

	// ---- T-rekey: histories with more than one key set-up between the same two routers (rekey.go) ----
	stageRekey(c)

	// ---- T-wrap: several goroutines sealing for one session at the moment its out sequence wraps (wrap.go) ----
	stageWrap(c)
}
