// C02, stage T-wrap: the round trip under SEVERAL sealers at the same moment.
//
// Every other stage of this driver seals on one goroutine: one frame is
// numbered, keyed and encrypted before the next one is begun, so whatever a
// sealer reads of its session it reads in one piece. A router does not work
// like that - it runs one tun handler per CPU, all of them sealing for the
// same session of the same remote router - and there is one point in the
// life of an encryption session where a sealer has to read two things that
// change together: the regular sequence number wraps (0xFFFF_FFFF -> 1) and
// the out key rolls over. The receiver decides by the NUMBER which key a
// frame belongs to, so "a frame sealed by A for B unseals at B to exactly
// the original payload" needs number and key to be drawn as one step, also
// when 2..32 goroutines draw at once.
//
// A round: A's regular out counter is moved right before the wrap (the
// history "A has sent 2^32 - d frames to B", made with the session's
// exported test helper), B has seen A's newest frame (one frame sealed and
// delivered: B's window stands where the sender's counter does), then g
// goroutines are released together and seal real frames of the encrypted
// classes for B - in some rounds a few priority frames among them (their
// numbering restarts with the new key) -, with yields sprinkled in so that
// the sealers do not run in lockstep. Without a hook inside Out the
// interleaving cannot be forced; it is made likely (many sealers right at the
// wrap, many rounds). All frames are then delivered to B UNTOUCHED, ONCE and
// IN THE ORDER OF THEIR NUMBERS (numbers before the wrap first; a priority
// frame numbered before the restart of its sequence before everything
// numbered after; the first frame after the wrap is a regular one, as it is
// the one that tells B about the new key). Now and then a frame is delivered
// a second time afterwards (a replay: never to be delivered).
//
// The outcome of every real Unseal is written as one event and TLC judges the
// whole against FrameSeal_Trace - the oracle of stages T and T-rekey; no new
// event is needed: "seq" is the position of the frame in the sender's
// numbering of its class (the wrap skips 0, priority numbers continue their
// count across the restart), so the rule "untouched, right session, fresh,
// not behind the window => unseals, to the original payload" says exactly
// what the property says for these frames. The Go side never decides; when
// TLC has rejected a line it only names what happened (by trying the two
// keys on the frame).
package main

import (
	"bytes"
	"fmt"
	"math/rand"
	"runtime"
	"sort"
	"strings"
	"sync"
	"sync/atomic"
	"time"

	"golang.org/x/crypto/chacha20poly1305"

	"github.com/mycoria/mycoria/config"
	"github.com/mycoria/mycoria/frame"
	"github.com/mycoria/mycoria/state"

	"verifharness/internal/vf"
	"verifharness/internal/world"
)

// wrFrame is one frame a sealer produced in the concurrent phase.
type wrFrame struct {
	mt      frame.MessageType
	prio    bool
	payload []byte
	sw, apx int
	wire    []byte
	seq     uint32
	worker  int
	newGen  bool // numbered after the wrap (regular) / after the restart of the priority sequence
	pos     int  // position in the sender's numbering of its class, 1 = first frame of the round's history
	// delivered: unsealed to the original payload when it was delivered the first time
	delivered bool
	err       error
}

// wrPair is two routers with keys for each other, reused for some rounds (a session lives through many wraps).
type wrPair struct {
	a, b       *world.Party
	ab, ba     *state.Session
	bldA, bldB *frame.Builder
	ha         *state.EncryptionSessionTestHelper
}

func newWrPair() *wrPair {
	p := &wrPair{}
	p.a = world.NewParty(world.NewPrivacyIdentity(), config.Store{})
	p.b = world.NewParty(world.NewPrivacyIdentity(), config.Store{})
	p.ab, p.ba, _, _ = world.KeyExchange(p.a, p.b, false)
	p.bldA, p.bldB = frame.NewFrameBuilder(), frame.NewFrameBuilder()
	p.ha = &state.EncryptionSessionTestHelper{EncryptionSession: p.ab.Encryption()}
	return p
}

// wrRound is what a round was and what came out of it.
type wrRound struct {
	idx        int
	g, per     int
	before     int    // frames of the concurrent phase that are numbered before the wrap
	start      uint32 // number of the frame B saw last before the sealers were released
	prioStart  uint32 // same for the priority sequence (0: no priority frames in this round)
	gate       string
	prebuilt   bool
	lookup     bool
	frames     []*wrFrame // in delivery order
	k0, k1     []byte     // A's out key before / after the round
	from, to   int        // events[from:to]
	notes      []string   // one per event
	frameOf    []*wrFrame // one per event (nil: reset)
	unsealErrs []error    // one per event
}

const (
	wrHReg  = "w-regl"
	wrHPrio = "w-prio"
)

// deliver gives one untouched copy of fr to B's session for A and records the outcome as an event.
func (p *wrPair) deliver(r *wrRound, events *[]any, fr *wrFrame, again bool) {
	var ok, same bool
	var uerr error
	data := append([]byte(nil), fr.wire...)
	panicked, pv, _ := vf.NoPanic(func() {
		f, err := p.bldB.ParseFrame(data, nil, 0)
		if err != nil {
			uerr = fmt.Errorf("parse: %w", err)
			return
		}
		if uerr = f.Unseal(p.ba); uerr != nil {
			return
		}
		ok = true
		same = bytes.Equal(f.MessageData(), fr.payload)
	})
	h, cls := wrHReg, "enc"
	if fr.prio {
		h, cls = wrHPrio, "prio"
	}
	*events = append(*events, map[string]any{"ev": "unseal", "h": h, "cls": cls, "mut": []string{}, "rel": "correct",
		"seq": fr.pos, "ok": ok && !panicked, "dup": false, "same": same, "clear": clearOnWire(fr.wire, fr.payload), "panic": panicked})
	res := "unsealed to the original payload"
	switch {
	case panicked:
		res = fmt.Sprintf("PANIC %v", pv)
	case uerr != nil:
		res = fmt.Sprintf("refused: %v", uerr)
	case !same:
		res = "unsealed to a DIFFERENT payload"
	}
	what := "delivered untouched, in the order of the numbers"
	if again {
		what = "delivered a second time"
	}
	if !again {
		fr.delivered = ok && same && !panicked
	}
	by := fmt.Sprintf("sealed by sealer %d of %d", fr.worker+1, r.g)
	if fr.worker < 0 {
		by = "sealed alone, before the others started"
	}
	r.notes = append(r.notes, fmt.Sprintf("%s frame number %#x (%s), %s: %s", fr.mt, fr.seq, by, what, res))
	r.frameOf = append(r.frameOf, fr)
	r.unsealErrs = append(r.unsealErrs, uerr)
}

// runWrapRound executes one round on p and appends its events. A non-nil error means the round could not be set
// up or its frames could not be put in an order (nothing to judge).
func runWrapRound(p *wrPair, idx int, rng *rand.Rand, events *[]any) (*wrRound, error) {
	r := &wrRound{idx: idx, from: len(*events)}
	ncpu := runtime.GOMAXPROCS(0)
	r.g = []int{2, 2, 3, 4, 4, 6, 8, 8, ncpu, ncpu, 2 * ncpu}[rng.Intn(11)]
	if r.g < 2 {
		r.g = 2
	}
	if r.g > 32 {
		r.g = 32
	}
	r.per = 1 + rng.Intn(4)
	for r.g*r.per > 48 {
		r.per-- // what matters happens around the wrap; long tails only cost time
	}
	total := r.g * r.per
	r.gate = []string{"spin", "spin", "chan"}[rng.Intn(3)]
	r.prebuilt = rng.Intn(4) != 0
	r.lookup = rng.Intn(3) == 0
	withPrio := rng.Intn(3) == 0

	addPre := func(note string) {
		r.notes = append(r.notes, note)
		r.frameOf = append(r.frameOf, nil)
		r.unsealErrs = append(r.unsealErrs, nil)
	}
	*events = append(*events, map[string]any{"ev": "reset", "h": wrHReg}, map[string]any{"ev": "reset", "h": wrHPrio})
	addPre("new round")
	addPre("new round")

	mkFrame := func(w int, prio bool) *wrFrame {
		fr := &wrFrame{worker: w, prio: prio}
		if prio {
			fr.mt = typesOf["prio"][rng.Intn(2)]
		} else {
			fr.mt = typesOf["enc"][rng.Intn(2)]
		}
		n := 1 + rng.Intn(120)
		switch rng.Intn(12) {
		case 0:
			n = 600 + rng.Intn(900)
		case 1:
			n = 1 + rng.Intn(8)
		}
		fr.payload = make([]byte, n)
		rng.Read(fr.payload)
		if rng.Intn(4) == 0 {
			fr.sw = 1 + rng.Intn(12)
		}
		if rng.Intn(4) == 0 {
			fr.apx = 1 + rng.Intn(40)
		}
		return fr
	}
	plan := make([][]*wrFrame, r.g)
	yield := make([][]bool, r.g)
	nPrio := 0
	for w := 0; w < r.g; w++ {
		for k := 0; k < r.per; k++ {
			prio := withPrio && rng.Intn(5) == 0 && nPrio < total/3
			if prio {
				nPrio++
			}
			plan[w] = append(plan[w], mkFrame(w, prio))
			yield[w] = append(yield[w], rng.Intn(5) == 0)
		}
	}
	// how many of the regular frames are numbered before the wrap: mostly so few that the wrap falls into the moment
	// in which every sealer is busy with its first frame; sometimes anywhere (also: only the very last frame wraps).
	// At least one frame wraps in every round: the next round's history begins behind this one's.
	nReg := total - nPrio
	switch rng.Intn(6) {
	case 0:
		r.before = rng.Intn(nReg)
	case 1:
		r.before = 0
	default:
		r.before = 1 + rng.Intn(r.g)
		if r.before >= nReg {
			r.before = nReg - 1
		}
	}

	// ---- the history so far: A has numbered its frames up to `start`, B has seen that frame
	r.start = 0xFFFF_FFFF - uint32(r.before)
	p.ha.ReglSetOut(r.start - 1)
	build := func(fr *wrFrame, seed int64) (*frame.FrameV1, error) {
		var sw, apx []byte
		if fr.sw > 0 {
			sw = bytes.Repeat([]byte{byte(seed)}, fr.sw)
		}
		if fr.apx > 0 {
			apx = bytes.Repeat([]byte{byte(seed >> 8)}, fr.apx)
		}
		return p.bldA.NewFrameV1(p.a.ID.IP, p.b.ID.IP, fr.mt, sw, fr.payload, apx)
	}
	seal := func(fr *wrFrame, f *frame.FrameV1, ss *state.Session) {
		if err := f.Seal(ss); err != nil {
			fr.err = err
			f.ReturnToPool()
			return
		}
		raw, err := f.FrameDataWithMargins(0, 0)
		if err != nil {
			fr.err = fmt.Errorf("serialise: %w", err)
			f.ReturnToPool()
			return
		}
		fr.wire = append([]byte(nil), raw...)
		fr.seq = f.SequenceNum()
		f.ReturnToPool()
	}
	mg := rkMargins[rng.Intn(3)]
	p.bldA.SetFrameMargins(mg[0], mg[1])
	pre := func(prio bool) (*wrFrame, error) {
		fr := mkFrame(-1, prio)
		f, err := build(fr, 1)
		if err != nil {
			return nil, fmt.Errorf("build: %w", err)
		}
		seal(fr, f, p.ab)
		if fr.err != nil {
			return nil, fmt.Errorf("A cannot seal a %s frame for B: %w", fr.mt, fr.err)
		}
		return fr, nil
	}
	fr0, err := pre(false)
	if err != nil {
		return r, err
	}
	if fr0.seq != r.start {
		return r, fmt.Errorf("the frame before the concurrent phase was numbered %#x, %#x expected", fr0.seq, r.start)
	}
	fr0.pos = 1
	p.deliver(r, events, fr0, false)
	r.notes[len(r.notes)-1] = "the frame B saw last before the sealers were released: " + r.notes[len(r.notes)-1]
	if withPrio {
		// the priority sequence has a history of its own: far enough from 1 that the numbers before and after its
		// restart cannot be mistaken for each other
		r.prioStart = uint32(1000 + rng.Intn(100000))
		p.ha.PrioSetOut(r.prioStart - 1)
		fp, err := pre(true)
		if err != nil {
			return r, err
		}
		if fp.seq != r.prioStart {
			return r, fmt.Errorf("the priority frame before the concurrent phase was numbered %#x, %#x expected", fp.seq, r.prioStart)
		}
		fp.pos = 1
		p.deliver(r, events, fp, false)
	}
	r.k0 = append([]byte(nil), p.ha.OutKey()...)

	// ---- the concurrent phase
	var (
		wg      sync.WaitGroup
		ready   atomic.Int32
		goFlag  atomic.Bool
		gateCh  = make(chan struct{})
		bseed   = rng.Int63()
		peerIP  = p.b.ID.IP
		lookupS = p.a.St
	)
	for w := 0; w < r.g; w++ {
		wg.Add(1)
		go func(w int) {
			defer wg.Done()
			var built []*frame.FrameV1
			if r.prebuilt {
				for k, fr := range plan[w] {
					f, err := build(fr, bseed+int64(w*7+k))
					if err != nil {
						fr.err = fmt.Errorf("build: %w", err)
					}
					built = append(built, f)
				}
			}
			ready.Add(1)
			if r.gate == "chan" {
				<-gateCh
			} else {
				for !goFlag.Load() {
					runtime.Gosched()
				}
			}
			for k, fr := range plan[w] {
				if fr.err != nil {
					continue
				}
				if yield[w][k] {
					runtime.Gosched() // the sealers do not run in lockstep
				}
				var f *frame.FrameV1
				if r.prebuilt {
					f = built[k]
				} else {
					var err error
					if f, err = build(fr, bseed+int64(w*7+k)); err != nil {
						fr.err = fmt.Errorf("build: %w", err)
						continue
					}
				}
				ss := p.ab
				if r.lookup {
					// as the router's workers do for every packet
					if ss = lookupS.GetSession(peerIP); ss == nil {
						fr.err = fmt.Errorf("A has no session for B")
						f.ReturnToPool()
						continue
					}
				}
				seal(fr, f, ss)
			}
		}(w)
	}
	for int(ready.Load()) < r.g {
		runtime.Gosched()
	}
	goFlag.Store(true)
	close(gateCh)
	wg.Wait()
	r.k1 = append([]byte(nil), p.ha.OutKey()...)

	// ---- put the frames in the order of their numbers
	var oldReg, newReg, oldPrio, newPrio []*wrFrame
	for w := range plan {
		for _, fr := range plan[w] {
			if fr.err != nil {
				return r, fmt.Errorf("sealer %d: %s frame: %w", w+1, fr.mt, fr.err)
			}
			switch {
			case fr.prio && fr.seq > r.prioStart:
				fr.pos = int(fr.seq-r.prioStart) + 1
				oldPrio = append(oldPrio, fr)
			case fr.prio:
				fr.newGen = true
				newPrio = append(newPrio, fr)
			case fr.seq > r.start:
				fr.pos = int(fr.seq-r.start) + 1
				oldReg = append(oldReg, fr)
			default:
				fr.newGen = true
				fr.pos = r.before + 1 + int(fr.seq) // the wrap skips 0
				newReg = append(newReg, fr)
			}
		}
	}
	bySeq := func(s []*wrFrame) {
		sort.SliceStable(s, func(i, j int) bool { return s[i].seq < s[j].seq })
	}
	bySeq(oldReg)
	bySeq(newReg)
	bySeq(oldPrio)
	bySeq(newPrio)
	for _, fr := range newPrio {
		// the count goes on across the restart: after the last number used before it
		fr.pos = 1 + total + int(fr.seq)
	}
	merge := func(x, y []*wrFrame) []*wrFrame {
		var out []*wrFrame
		for len(x) > 0 || len(y) > 0 {
			if len(y) == 0 || (len(x) > 0 && rng.Intn(len(x)+len(y)) < len(x)) {
				out, x = append(out, x[0]), x[1:]
			} else {
				out, y = append(out, y[0]), y[1:]
			}
		}
		return out
	}
	r.frames = merge(oldReg, oldPrio)
	if len(newReg) > 0 {
		r.frames = append(r.frames, newReg[0])
		r.frames = append(r.frames, merge(newReg[1:], newPrio)...)
	} else {
		// the round was laid out so that at least one regular frame is numbered after the wrap
		return r, fmt.Errorf("no regular frame was numbered after the wrap (%d regular frames sealed, %d expected before the wrap)", len(oldReg), r.before)
	}
	for _, fr := range r.frames {
		p.deliver(r, events, fr, false)
	}
	// a replay now and then: the frames around the wrap are the interesting ones
	if rng.Intn(4) == 0 && len(r.frames) > 0 {
		k := rng.Intn(len(r.frames))
		if rng.Intn(2) == 0 && len(oldReg) > 0 {
			k = len(oldReg) + len(oldPrio) - 1
		}
		p.deliver(r, events, r.frames[k], true)
	}
	r.to = len(*events)
	return r, nil
}

// keyOf tells which of A's two out keys opens fr: 0 = the key before the round, 1 = the key after it, -1 = neither.
func (r *wrRound) keyOf(fr *wrFrame) int {
	if fr == nil || len(fr.wire) < 49 {
		return -1
	}
	d := append([]byte(nil), fr.wire...)
	d[1], d[2] = 0, 0
	mi := 49 + int(d[48])
	if mi+2 > len(d) {
		return -1
	}
	ml := int(d[mi])<<8 | int(d[mi+1])
	if mi+2+ml+16 > len(d) {
		return -1
	}
	for ki, k := range [][]byte{r.k0, r.k1} {
		c, err := chacha20poly1305.New(k)
		if err != nil {
			continue
		}
		if _, err := c.Open(nil, d[4:16], d[mi+2:mi+2+ml+16], d[:mi+2]); err == nil {
			return ki
		}
	}
	return -1
}

func (r *wrRound) describe() string {
	s := fmt.Sprintf("%d goroutines sealing %d frame(s) each for the same session at the same moment (released by %s, frames built %s, session %s), A's regular out sequence at %#x when they start",
		r.g, r.per, map[string]string{"spin": "a flag they spin on", "chan": "a closed channel"}[r.gate],
		map[bool]string{true: "beforehand", false: "by the sealers"}[r.prebuilt],
		map[bool]string{true: "looked up in A's state for every frame", false: "held by the sealers"}[r.lookup], r.start)
	if r.prioStart > 0 {
		s += fmt.Sprintf(", priority sequence at %#x", r.prioStart)
	}
	return s
}

// stageWrap runs the rounds and has TLC judge them.
func stageWrap(c *vf.Ctx) {
	rng := rand.New(rand.NewSource(c.Seed*7_000_003 + 0xC02))
	nRounds := c.Pick(wrQuickRounds, wrQuickRounds*6)
	budget := time.Duration(c.Pick(14, 240)) * time.Second
	t0 := time.Now()
	var events []any
	var rounds []*wrRound
	var p *wrPair
	nFrames, nWrapped, nPrioRounds := 0, 0, 0
	for i := 0; i < nRounds; i++ {
		if i%1000 == 999 && time.Since(t0) > budget {
			c.Logf("T-wrap: time budget of the stage used up after %d of %d rounds", i, nRounds)
			break
		}
		if p == nil || rng.Intn(40) == 0 {
			var perr any
			if panicked, pv, _ := vf.NoPanic(func() { p = newWrPair() }); panicked {
				perr = pv
			}
			if perr != nil {
				c.Broken("T-wrap: two routers with keys for each other could not be set up: %v", perr)
				return
			}
		}
		mark := len(events)
		r, err := runWrapRound(p, i, rng, &events)
		if err != nil {
			// nothing the property speaks about: a frame that could not be built / sealed / numbered
			c.Broken("T-wrap: round %d (%s): %v", i, r.describe(), err)
			events = events[:mark]
			p = nil
			continue
		}
		rounds = append(rounds, r)
		nFrames += len(r.frames)
		for _, fr := range r.frames {
			if fr.newGen && !fr.prio {
				nWrapped++
				break
			}
		}
		if r.prioStart > 0 {
			nPrioRounds++
		}
		c.Distinct(fmt.Sprintf("wrap|g%d|per%d|before%d|%s|%v|%v|%v", r.g, r.per, r.before, r.gate, r.prebuilt, r.lookup, r.prioStart > 0))
		if len(rounds) == 1 {
			c.Sample(map[string]any{"wrap_round": r.describe(), "frames": len(r.frames)})
		}
		// the trace keeps what TLC needs; of the frames only those are kept that may have to be named afterwards
		for _, fr := range r.frames {
			fr.payload = nil
			if fr.delivered {
				fr.wire = nil
			}
		}
	}
	c.Eval(len(events))
	if len(rounds) == 0 {
		c.Broken("T-wrap: no round could be executed")
		return
	}
	if nWrapped*10 < len(rounds)*9 {
		c.Broken("T-wrap: vacuous: the regular sequence wrapped in %d of %d rounds only", nWrapped, len(rounds))
	}
	sealWall := time.Since(t0)
	rejectAt, inv, tres, err := c.TraceCheck("FrameSeal_Trace", "FrameSeal_Trace.cfg", events, vf.TLCOpts{Timeout: 20 * time.Minute})
	if err != nil {
		c.Broken("T-wrap: %v", err)
		return
	}
	c.AddTraces(len(rounds))
	c.AddModel(tres.Distinct, tres.Generated)
	c.Stage("T-wrap", map[string]any{"rounds": len(rounds), "rounds_with_priority_frames": nPrioRounds, "frames_sealed_concurrently": nFrames,
		"events": len(events), "sealing_wall_s": sealWall.Seconds(), "wall_s": tres.Wall.Seconds(), "cpus": runtime.GOMAXPROCS(0)})
	c.Logf("T-wrap: %d rounds of 2..%d concurrent sealers across the wrap of the out sequence (%d frames, %d rounds with priority frames), %d events validated", len(rounds), 2*runtime.GOMAXPROCS(0), nFrames, nPrioRounds, len(events))
	if rejectAt <= 0 && inv == "" {
		return
	}
	if rejectAt <= 0 || rejectAt > len(events) {
		c.Broken("T-wrap: FrameSeal_Trace rejected the trace (%s) at a line that cannot be mapped back: %d", inv, rejectAt)
		return
	}
	var r *wrRound
	for _, x := range rounds {
		if rejectAt-1 >= x.from && rejectAt-1 < x.to {
			r = x
		}
	}
	if r == nil {
		c.Broken("T-wrap: FrameSeal_Trace rejected line %d, which belongs to no round", rejectAt)
		return
	}
	at := rejectAt - 1 - r.from
	ev, _ := events[rejectAt-1].(map[string]any)
	fr := r.frameOf[at]
	rule := "a frame that is not allowed to unseal there did"
	kind := "accepted"
	if ev["ok"] == false {
		rule = "nothing was changed, it is B's session for A with the keys in force, the frame was never delivered before and every frame with a smaller number was delivered before it - it has to unseal to the original payload"
		kind = "rejected"
	} else if ev["same"] == false {
		rule = "delivered payload differs from the sealed one"
		kind = "payload"
	}
	// name what happened: which of A's keys does the frame open under?
	side, naming := "", ""
	if fr != nil {
		side = "before-wrap"
		if fr.newGen {
			side = "after-wrap"
		}
		switch k := r.keyOf(fr); {
		case bytes.Equal(r.k0, r.k1):
		case k == 1 && !fr.newGen:
			naming = fmt.Sprintf(" The frame carries number %#x, which belongs BEFORE the %s, but it is encrypted under A's out key AFTER the roll-over: number and key were not drawn in one step.", fr.seq, map[bool]string{false: "wrap", true: "restart of the priority sequence"}[fr.prio])
		case k == 0 && fr.newGen:
			naming = fmt.Sprintf(" The frame carries number %#x, which belongs AFTER the %s, but it is encrypted under A's out key from BEFORE the roll-over: number and key were not drawn in one step.", fr.seq, map[bool]string{false: "wrap", true: "restart of the priority sequence"}[fr.prio])
		case k == -1:
			naming = " The frame opens under neither of A's two out keys of this round."
		}
	}
	var nums []string
	for _, x := range r.frames {
		nums = append(nums, fmt.Sprintf("%#x", x.seq))
	}
	what := fmt.Sprintf("concurrent sealing across the wrap of the out sequence: %s. All %d frames were delivered to B untouched, once, in the order of their numbers. Then: %s. Not allowed by FrameSeal_Trace (%s).%s (schedule-dependent: round %d of %d)",
		r.describe(), len(r.frames), r.notes[at], rule, naming, r.idx+1, len(rounds))
	c.Violation(vf.Key("wrap", ev["cls"], kind, side), what,
		map[string]any{"round": r.idx, "goroutines": r.g, "frames_per_goroutine": r.per, "start": r.start, "prio_start": r.prioStart, "gate": r.gate,
			"prebuilt": r.prebuilt, "lookup": r.lookup, "delivery_order": strings.Join(nums, " "), "event": ev, "event_index": at, "said": r.notes[at],
			"unseal_error": fmt.Sprint(r.unsealErrs[at]), "schedule_dependent": true}, nil)
}

// wrQuickRounds is the number of rounds of the quick tier.
const wrQuickRounds = 4500
