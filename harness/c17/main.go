// C17 - frame copies and buffer reuse. Stage M: TLC on FramePool. Stage R:
// every transition of the dumped graph and TLC simulation walks (5 tiers) are
// executed on a real frame.Builder with sizes at the pooled-buffer tier
// boundaries; stage T: after every operation every live frame is read back
// (bytes, accessors, link, buffer identity) and the recorded trace is judged
// by TLC (FramePool_Trace: NoSharing, Isolation, CloneEqual, NoRemnant,
// ContentOK, FailedIsNoop, NoPanic).
package main

import (
	"bytes"
	"encoding/json"
	"fmt"
	"hash/fnv"
	"math/rand"
	"net"
	"net/netip"
	"time"
	"unsafe"

	"github.com/mycoria/mycoria/frame"
	"github.com/mycoria/mycoria/m"
	"github.com/mycoria/mycoria/peering"

	"verifharness/internal/vf"
)

var tierSizes = []int{600, 1600, 5100, 9600, 65675}

type linkStub struct{ id int }

func (l *linkStub) String() string                              { return fmt.Sprintf("stub%d", l.id) }
func (l *linkStub) Peer() netip.Addr                            { return netip.MustParseAddr("fd10::99") }
func (l *linkStub) SwitchLabel() m.SwitchLabel                  { return m.SwitchLabel(l.id) }
func (l *linkStub) PeeringURL() *m.PeeringURL                   { return nil }
func (l *linkStub) Outgoing() bool                              { return false }
func (l *linkStub) SendPriority(f frame.Frame) error            { return nil }
func (l *linkStub) Send(f frame.Frame) error                    { return nil }
func (l *linkStub) LocalAddr() net.Addr                         { return nil }
func (l *linkStub) RemoteAddr() net.Addr                        { return nil }
func (l *linkStub) Latency() uint16                             { return 1 }
func (l *linkStub) FlowControlIndicator() frame.FlowControlFlag { return 0 }
func (l *linkStub) IsClosing() bool                             { return false }

var links = map[int]*linkStub{1: {1}, 2: {2}}

type act struct {
	Name string `json:"name"`
	S    int    `json:"s"`
	C    int    `json:"c"`
	T    int    `json:"t"`
	K    int    `json:"k"`
	Mode string `json:"mode"`
	Z    int    `json:"z,omitempty"` // position of the frame's size in its pool class (0 = drawn by the walk's PRNG)
}

const (
	zHi   = 1 // the largest size of the class
	zLo   = 2 // the smallest
	zHi1  = 3 // one below the largest
	zRand = 4 // somewhere inside
	zLo1  = 5 // one above the smallest
)

// shadow is what the driver knows a live frame must look like.
type shadow struct {
	f      frame.Frame
	src    netip.Addr
	dst    netip.Addr
	mt     frame.MessageType
	sw     []byte
	msg    []byte
	apx    []byte
	nonce  [3]byte
	auth   []byte // the signature / MAC block (the driver fills it as a sealer would)
	psOff  int
	isNew  bool // built by NewFrameV1/Reply on a pooled buffer: remainder of the buffer must be zero
	capHnt int  // capacity of the pooled buffer, learnt from the real frame
	// reader-born frames (reader.go)
	rdr      bool // born in the real link reader
	capBirth int  // the pool class the reader's buffer request was served from (0 once the frame has left that buffer)
	ownTail  int  // bytes right behind the frame that are the frame's own link-layer trailer, not a remnant
}

// layout is the driver's own serialisation of the V1 frame format.
func (s *shadow) layout() []byte {
	auth := 64
	if s.mt.IsEncrypted() {
		auth = 16
	}
	out := make([]byte, 0, 51+len(s.sw)+len(s.msg)+auth+len(s.apx))
	out = append(out, 1, 32, 0, 0, byte(s.mt), s.nonce[0], s.nonce[1], s.nonce[2])
	out = append(out, make([]byte, 8)...)
	a := s.src.As16()
	out = append(out, a[:]...)
	a = s.dst.As16()
	out = append(out, a[:]...)
	out = append(out, byte(len(s.sw)))
	out = append(out, s.sw...)
	out = append(out, byte(len(s.msg)>>8), byte(len(s.msg)))
	out = append(out, s.msg...)
	if len(s.auth) == auth {
		out = append(out, s.auth...)
	} else {
		out = append(out, make([]byte, auth)...)
	}
	out = append(out, s.apx...)
	return out
}

// stampAuth fills the frame's signature / MAC block with random bytes, as sealing would, and remembers them.
func (w *world) stampAuth(sh *shadow) {
	n := 64
	if sh.mt.IsEncrypted() {
		n = 16
	}
	d, err := sh.f.FrameDataWithMargins(0, 0)
	off := 49 + len(sh.sw) + 2 + len(sh.msg)
	if err != nil || off+n > len(d) {
		return
	}
	sh.auth = w.randBytes(n)
	copy(d[off:off+n], sh.auth)
}

// refusedNew asks the builder for a frame it must refuse (the error path of NewFrameV1): it must leave nothing
// behind in the pool that a later frame could inherit.
func (w *world) refusedNew() {
	switch w.rng.Intn(3) {
	case 0:
		_, _ = w.b.NewFrameV1(addr(w), addr(w), frame.RouterPing, nil, nil, nil) // empty message
	case 1:
		_, _ = w.b.NewFrameV1(addr(w), addr(w), frame.RouterPing, nil, make([]byte, 10001), nil)
	default:
		_, _ = w.b.NewFrameV1(addr(w), addr(w), frame.RouterPing, make([]byte, 300), []byte{1}, nil)
	}
}

// refusedParse does what a link reader does with a malformed frame: it takes a pooled buffer, lets the builder parse
// a version-1 frame whose switch-block or message length points beyond the data (refused), and - being the owner
// of the buffer - hands the buffer back. Nothing of this may be inherited by, or shared between, later frames.
func (w *world) refusedParse() {
	n := []int{68, 90, 120, 400, 599, 1400, 5000}[w.rng.Intn(7)]
	raw := w.randBytes(n)
	raw[0] = 1 // version
	raw[4] = byte(mts[w.rng.Intn(len(mts))])
	switch w.rng.Intn(3) {
	case 0:
		raw[48] = byte(n) // switch block reaches beyond the data (n >= 68 > remaining)
		if n > 255 {
			raw[48] = 255
			raw[49+255], raw[49+255+1] = 0xff, 0xff
		}
	case 1:
		raw[48] = 0
		raw[49], raw[50] = 0xff, 0xff // message beyond the data
	default:
		raw[48] = 0
		raw[49], raw[50] = byte((n-51-8)>>8), byte(n-51-8) // no room for the authentication block
	}
	ps := w.b.GetPooledSlice(12 + n + 16)
	if ps == nil {
		return
	}
	copy(ps[12:], raw)
	if f, err := w.b.ParseFrame(ps[12:12+n], ps[:cap(ps)], 12); err == nil {
		f.ReturnToPool() // accepted after all: the frame owns the buffer now
		return
	}
	w.b.ReturnPooledSlice(ps)
}

type world struct {
	c      *vf.Ctx
	b      *frame.Builder
	rng    *rand.Rand
	slots  map[int]*shadow
	nslots int
	bufIDs map[uintptr]int
	events []any
	tmap   []int // abstract tier -> index into tierSizes
	margin [2]int
	ops    []act
	start  int
	rd     *readerSrc // reader-born frames: the builder is the receiving router's
	dead   bool       // the set-up stopped delivering: the rest of the walk is not executed
}

var mts = []frame.MessageType{frame.RouterPing, frame.RouterCtrl, frame.RouterHopPing, frame.NetworkTraffic, frame.SessionCtrl, frame.SessionData, frame.RouterHopPingDeprecated}

func (w *world) randBytes(n int) []byte {
	b := make([]byte, n)
	w.rng.Read(b)
	for i := range b {
		if b[i] == 0 {
			b[i] = 0x5a // no zero bytes: remnants and zeroed areas stay distinguishable
		}
	}
	return b
}

// sizesFor picks switch/message/appendix sizes so that the pooled buffer a
// frame of this type needs lands in concrete tier ti, at a boundary.
func (w *world) sizesFor(mt frame.MessageType, ti int) (sw, msg, apx int) {
	return w.sizesForZ(mt, ti, 0)
}

// sizesForZ: as sizesFor, with the position inside the class given by z (0 = drawn here).
func (w *world) sizesForZ(mt frame.MessageType, ti int, z int) (sw, msg, apx int) {
	auth := 64
	if mt.IsEncrypted() {
		auth = 16
	}
	lo := 1
	if ti > 0 {
		lo = tierSizes[ti-1] + 1
	}
	hi := tierSizes[ti]
	if hi > 20300 {
		hi = 20300 // message and appendix are limited to 10000 bytes each
	}
	var total int
	if z == 0 {
		z = []int{zHi, zLo, zHi1, zRand}[w.rng.Intn(4)]
	}
	switch z {
	case zHi:
		total = hi
	case zLo:
		total = lo
	case zHi1:
		total = hi - 1
	case zLo1:
		total = lo + 1
	default:
		total = lo + w.rng.Intn(hi-lo+1)
	}
	fixed := w.margin[0] + 51 + auth + w.margin[1]
	if total < fixed+1 {
		total = fixed + 1
	}
	rest := total - fixed
	sw = []int{0, 0, 1, 2, 127, 255}[w.rng.Intn(6)]
	if sw > rest-1 {
		sw = 0
	}
	rest -= sw
	if rest <= 10000 && w.rng.Intn(2) == 0 {
		return sw, rest, 0
	}
	msg = rest / 2
	if msg < 1 {
		msg = 1
	}
	if msg > 10000 {
		msg = 10000
	}
	apx = rest - msg
	if apx > 10000 {
		apx = 10000
	}
	return
}

func addr(w *world) netip.Addr {
	var a [16]byte
	w.rng.Read(a[:])
	a[0] = 0xfd
	return netip.AddrFrom16(a)
}

func (w *world) bufID(sh *shadow) int {
	data, err := sh.f.FrameDataWithMargins(sh.psOff, 0)
	if err != nil || len(data) == 0 {
		return -1
	}
	p := uintptr(unsafe.Pointer(unsafe.SliceData(data)))
	id, ok := w.bufIDs[p]
	if !ok {
		id = len(w.bufIDs) + 1
		w.bufIDs[p] = id
	}
	return id
}

func linkID(l frame.LinkAccessor) int {
	if l == nil {
		return 0
	}
	if s, ok := l.(*linkStub); ok {
		return s.id
	}
	if id, ok := realLinkIDs[l]; ok {
		return id
	}
	return 99
}

// observe reads every slot back from the real frames.
func (w *world) observe() []map[string]any {
	out := make([]map[string]any, w.nslots)
	for i := 1; i <= w.nslots; i++ {
		sh := w.slots[i]
		if sh == nil {
			out[i-1] = map[string]any{"live": false, "digest": 0, "link": 0, "buf": 0, "ok": true}
			continue
		}
		data, err := sh.f.FrameDataWithMargins(0, 0)
		ok := err == nil
		why := "" // names the first thing that is not as it must be (diagnostics only; the verdict is `ok`)
		bad := func(format string, a ...any) {
			ok = false
			if why == "" {
				why = fmt.Sprintf(format, a...)
			}
		}
		if err != nil {
			bad("the frame's bytes are not available: FrameDataWithMargins(0,0): %v", err)
		}
		h := fnv.New32a()
		if ok {
			want := sh.layout()
			h.Write(data)
			if !bytes.Equal(data, want) {
				bad("%s", diffText("the frame's bytes", data, want))
			}
			if sh.f.SrcIP() != sh.src || sh.f.DstIP() != sh.dst || sh.f.MessageType() != sh.mt ||
				!bytes.Equal(sh.f.SwitchBlock(), sh.sw) || !bytes.Equal(sh.f.MessageData(), sh.msg) ||
				!bytes.Equal(sh.f.AppendixData(), sh.apx) || sh.f.TTL() != 32 {
				bad("an accessor (addresses, type, switch block, message, appendix, TTL) does not show what was put in; %s", diffText("AppendixData()", sh.f.AppendixData(), sh.apx))
			}
			fmt.Fprintf(h, "|%s|%s|%d|%d|%d", sh.f.SrcIP(), sh.f.DstIP(), len(sh.f.MessageData()), len(sh.f.AppendixData()), len(sh.f.SwitchBlock()))
			if sh.isNew && sh.capHnt > 0 {
				rest := sh.capHnt - sh.psOff - len(data)
				if tail, err := sh.f.FrameDataWithMargins(sh.psOff, rest); err == nil {
					lo, hi := sh.psOff, sh.psOff+len(data)
					if sh.rdr {
						lo, hi = 0, hi+sh.ownTail // the link frame around the frame is the frame's own, not a remnant
					}
					for j, x := range tail {
						inFrame := j >= lo && j < hi
						if !inFrame && x != 0 {
							bad("byte %d of the recycled buffer, outside the frame, is %#x: a remnant of an earlier frame", j, x)
							break
						}
					}
				}
			}
			if w.rd != nil {
				// The walk runs on a router's builder whose margins are at least the link layer's: whatever was done to a
				// frame, the link writer must still get it with the margins it asks for (it seals in place).
				wm, err := sh.f.FrameDataWithMargins(peering.FrameOffset, peering.FrameOverhead)
				switch {
				case err != nil:
					bad("the link writer cannot have the frame: FrameDataWithMargins(%d,%d): %v", peering.FrameOffset, peering.FrameOverhead, err)
				case len(wm) != peering.FrameOffset+len(data)+peering.FrameOverhead || !bytes.Equal(wm[peering.FrameOffset:peering.FrameOffset+len(data)], data):
					bad("FrameDataWithMargins(%d,%d) does not enclose the frame's bytes", peering.FrameOffset, peering.FrameOverhead)
				}
			}
		}
		buf := w.bufID(sh)
		if buf < 0 {
			buf = -i // no buffer identity to be had: not "the same buffer" as another frame's
		}
		out[i-1] = map[string]any{"live": true, "digest": int(h.Sum32() >> 1), "link": linkID(sh.f.RecvLink()), "buf": buf, "ok": ok}
		if why != "" {
			out[i-1]["why"] = why
		}
	}
	return out
}

// diffText says where two byte strings part.
func diffText(what string, got, want []byte) string {
	if len(got) != len(want) {
		return fmt.Sprintf("%s: %d bytes, want %d", what, len(got), len(want))
	}
	for i := range got {
		if got[i] != want[i] {
			zeros := 0
			for _, x := range got[i:] {
				if x == 0 {
					zeros++
				}
			}
			return fmt.Sprintf("%s (%d bytes) differ from what was put in from byte %d on: got %#x want %#x; %d zero bytes from there to the end", what, len(got), i, got[i], want[i], zeros)
		}
	}
	return what + ": equal"
}

func (w *world) capOf(sh *shadow) int {
	// learn the capacity of the pooled buffer: the largest overhead that is accepted
	data, _ := sh.f.FrameDataWithMargins(0, 0)
	for _, ts := range tierSizes {
		if ts < sh.psOff+len(data) {
			continue
		}
		if _, err := sh.f.FrameDataWithMargins(sh.psOff, ts-sh.psOff-len(data)); err == nil {
			return ts
		}
	}
	return 0
}

func (w *world) exec(a act) {
	if w.dead {
		return
	}
	ev := map[string]any{"op": a.Name, "s": a.S, "c": a.C, "err": false, "panic": false}
	w.c.Eval(1)
	w.ops = append(w.ops, a)
	panicked, pv, _ := vf.NoPanic(func() {
		switch a.Name {
		case "new":
			if w.rng.Intn(4) == 0 {
				w.refusedParse()
			}
			mt := mts[w.rng.Intn(len(mts))]
			sw, msg, apx := w.sizesFor(mt, w.tmap[a.T-1])
			sh := &shadow{src: addr(w), dst: addr(w), mt: mt, sw: w.randBytes(sw), msg: w.randBytes(msg), apx: w.randBytes(apx), psOff: w.margin[0], isNew: true}
			f, err := w.b.NewFrameV1(sh.src, sh.dst, mt, sh.sw, sh.msg, sh.apx)
			if err != nil {
				ev["err"] = true
				ev["errtext"] = err.Error()
				return
			}
			sh.f = f
			d, _ := f.FrameDataWithMargins(0, 0)
			copy(sh.nonce[:], d[5:8])
			sh.capHnt = w.capOf(sh)
			w.stampAuth(sh)
			w.slots[a.S] = sh
		case "parse":
			if w.rng.Intn(3) == 0 {
				w.refusedNew()
			}
			if w.rng.Intn(3) == 0 {
				w.refusedParse()
			}
			mt := mts[w.rng.Intn(len(mts))]
			old := w.margin
			w.margin = [2]int{12, 16}
			sw, msg, apx := w.sizesFor(mt, w.tmap[a.T-1])
			w.margin = old
			sh := &shadow{src: addr(w), dst: addr(w), mt: mt, sw: w.randBytes(sw), msg: w.randBytes(msg), apx: w.randBytes(apx), psOff: 12}
			copy(sh.nonce[:], w.randBytes(3))
			if mt.IsEncrypted() {
				sh.auth = w.randBytes(16)
			} else {
				sh.auth = w.randBytes(64)
			}
			raw := sh.layout()
			ps := w.b.GetPooledSlice(12 + len(raw) + 16) // as the link reader does
			copy(ps[12:], raw)
			f, err := w.b.ParseFrame(ps[12:12+len(raw)], ps[:cap(ps)], 12)
			if err != nil {
				ev["err"] = true
				ev["errtext"] = err.Error()
				return
			}
			sh.f = f
			w.slots[a.S] = sh
		case "read":
			w.execRead(a, ev)
		case "setlink":
			w.slots[a.S].f.SetRecvLink(links[a.K])
		case "clone":
			src := w.slots[a.S]
			c := src.f.Clone()
			cp := *src
			cp.f = c
			cp.sw = append([]byte(nil), src.sw...)
			cp.msg = append([]byte(nil), src.msg...)
			cp.apx = append([]byte(nil), src.apx...)
			cp.auth = append([]byte(nil), src.auth...)
			w.slots[a.C] = &cp
		case "reply":
			sh := w.slots[a.S]
			sw, msg, apx := w.sizesFor(sh.mt, w.tmap[a.T-1])
			nsw, nmsg, napx := w.randBytes(sw), w.randBytes(msg), w.randBytes(apx)
			if err := sh.f.Reply(nsw, nmsg, napx); err != nil {
				ev["err"] = true
				ev["errtext"] = err.Error()
				return
			}
			sh.src, sh.dst = sh.dst, sh.src
			sh.sw, sh.msg, sh.apx = nsw, nmsg, napx
			sh.psOff = w.margin[0]
			d, _ := sh.f.FrameDataWithMargins(0, 0)
			copy(sh.nonce[:], d[5:8])
			sh.isNew = false // a reply keeps its own earlier bytes beyond the new end; not a released frame's
			sh.capBirth, sh.ownTail = 0, 0
			sh.capHnt = w.capOf(sh)
			sh.auth = nil
			w.stampAuth(sh)
		case "setapx":
			sh := w.slots[a.S]
			d, _ := sh.f.FrameDataWithMargins(0, 0)
			capacity := w.capOf(sh)
			if capacity < sh.capBirth {
				// The frame does not let its buffer be seen up to the end. It still sits in the buffer the link reader
				// obtained, and the driver knows which pool class served that request: the sizes are chosen by that.
				// (Only a choice of sizes: every appendix up to the protocol limit must be accepted wherever it lands.)
				capacity = sh.capBirth
			}
			room := capacity - sh.psOff - (len(d) - len(sh.apx))
			if w.rd != nil {
				room -= w.margin[1] // the builder keeps its overhead margin free behind the frame
			}
			var n int
			switch a.Mode {
			case "fits":
				n = room
				if n > 10000 {
					n = 10000
				}
				if w.rd != nil && n > len(sh.apx) && w.rng.Intn(3) == 0 {
					// a handler that adds a little to what arrived (1..40 bytes more than the present appendix)
					if m := len(sh.apx) + 1 + w.rng.Intn(40); m < n {
						n = m
					}
				} else if n > 1 && w.rng.Intn(2) == 0 {
					n = 1 + w.rng.Intn(n)
				}
				if n < 1 {
					n = 0
				}
			case "grow":
				n = room + 1 + w.rng.Intn(50)
				if w.rng.Intn(3) == 0 {
					n = 10000 // the protocol limit
				}
				if n > 10000 {
					n = 10000
				}
				if n < 1 {
					n = 1
				}
			default:
				n = 10001 + w.rng.Intn(100)
			}
			napx := w.randBytes(n)
			if err := sh.f.SetAppendixData(napx); err != nil {
				ev["err"] = true
				ev["errtext"] = err.Error()
				return
			}
			sh.apx = napx
			sh.isNew = false // bytes beyond a shortened appendix are the frame's own earlier bytes
			if n > room {
				sh.capBirth = 0 // the frame has moved to another buffer
			}
		case "mutate":
			sh := w.slots[a.S]
			if w.rng.Intn(3) == 0 {
				// first a reply that is REFUSED because no buffer of the pool can hold it: the frame keeps its buffer, and
				// nobody else gets it. (A reply that is refused for its message length alone - 10001..65000 bytes - has
				// moved the frame to a bigger buffer by then and its old content is gone: the property is silent on that.)
				big := []int{66000, 70000, 200000}[w.rng.Intn(3)]
				if err := sh.f.Reply(nil, make([]byte, big), nil); err == nil {
					ev["err"] = true
					ev["errtext"] = fmt.Sprintf("a reply with a message of %d bytes was not refused", big)
					return
				}
				if w.rng.Intn(2) == 0 {
					w.refusedNew() // and something else is built and dropped in between
				}
			}
			md := sh.f.MessageData()
			nb := w.randBytes(len(md))
			copy(md, nb)
			sh.msg = nb
		case "release":
			w.slots[a.S].f.ReturnToPool()
			delete(w.slots, a.S)
		default:
			panic("unknown op " + a.Name)
		}
	})
	if panicked {
		ev["panic"] = true
		ev["panictext"] = fmt.Sprint(pv)
	}
	ev["frames"] = w.observe()
	w.events = append(w.events, ev)
}

type batch struct {
	events []any
	hists  [][2]int // start index in events, number of ops
	ops    [][]act
	cfgs   []string
}

func runSeq(c *vf.Ctx, b *batch, ops []act, nslots int, tmap []int, margin [2]int, seed int64) {
	runSeqOn(c, b, ops, nslots, tmap, margin, seed, nil)
}

// runSeqOn: with rd the sequence runs on the builder of rd's receiving router (shared by all sequences and by the
// router's link readers) and "read" operations give birth to frames in those readers.
func runSeqOn(c *vf.Ctx, b *batch, ops []act, nslots int, tmap []int, margin [2]int, seed int64, rd *readerSrc) {
	w := &world{c: c, b: frame.NewFrameBuilder(), rng: rand.New(rand.NewSource(seed)), slots: map[int]*shadow{}, nslots: nslots,
		bufIDs: map[uintptr]int{}, tmap: tmap, margin: margin, rd: rd}
	if rd != nil {
		w.b = rd.b.Builder
	}
	w.b.SetFrameMargins(margin[0], margin[1])
	frames := make([]map[string]any, nslots)
	for i := range frames {
		frames[i] = map[string]any{"live": false, "digest": 0, "link": 0, "buf": 0, "ok": true}
	}
	w.events = append(w.events, map[string]any{"op": "reset", "s": 0, "c": 0, "err": false, "panic": false, "frames": frames})
	for _, a := range ops {
		w.exec(a)
	}
	// release what is left, so that buffers recycle into the next sequence of this builder
	if w.dead {
		return // the set-up broke under this walk: nothing of it is judged
	}
	b.hists = append(b.hists, [2]int{len(b.events), len(ops)})
	b.ops = append(b.ops, ops)
	b.cfgs = append(b.cfgs, fmt.Sprintf("tiers=%v margins=%v seed=%d", tmap, margin, seed))
	b.events = append(b.events, w.events...)
}

func sig(ops []act) string {
	s := ""
	for _, a := range ops {
		if a.Z != 0 {
			s += fmt.Sprintf("%s(%d,%d,%d,%s,z%d);", a.Name, a.S, a.C+a.K, a.T, a.Mode, a.Z)
			continue
		}
		s += fmt.Sprintf("%s(%d,%d,%d,%s);", a.Name, a.S, a.C+a.K, a.T, a.Mode)
	}
	return s
}

func (b *batch) validate(c *vf.Ctx, label string) {
	rejectAt, inv, res, err := c.TraceCheck("FramePool_Trace", "FramePool_Trace.cfg", b.events, vf.TLCOpts{Timeout: 40 * time.Minute, Heap: "10g"})
	if err != nil {
		c.Fatal("T %s: %v", label, err)
	}
	c.AddTraces(len(b.hists))
	c.AddModel(res.Distinct, res.Generated)
	c.Stage("T/"+label, map[string]any{"histories": len(b.hists), "events": len(b.events), "wall_s": res.Wall.Seconds()})
	c.Logf("T %s: %d events / %d histories validated in %.1fs", label, len(b.events), len(b.hists), res.Wall.Seconds())
	if rejectAt <= 0 && inv == "" {
		return
	}
	idx := rejectAt - 1
	hi := -1
	for i, h := range b.hists {
		if h[0] <= idx {
			hi = i
		}
	}
	if hi < 0 {
		c.Broken("cannot locate line %d", rejectAt)
		return
	}
	upto := idx - b.hists[hi][0]
	ops := b.ops[hi]
	if upto < len(ops) {
		ops = ops[:upto]
	}
	what := inv
	if what == "" {
		what = "event-not-explained"
	}
	last := "reset"
	if len(ops) > 0 {
		last = ops[len(ops)-1].Name
	}
	whys := ""
	if ev, ok := b.events[idx].(map[string]any); ok {
		if frs, ok := ev["frames"].([]map[string]any); ok {
			for i, fr := range frs {
				if y, ok := fr["why"].(string); ok && y != "" {
					whys += fmt.Sprintf(" [frame %d: %s]", i+1, y)
				}
			}
		}
	}
	c.Violation(vf.Key(what, last), fmt.Sprintf("after %s [%s] the real frames violate %s of FramePool_Trace (line %d of %s):%s %v", sig(ops), b.cfgs[hi], what, rejectAt, label, whys, b.events[idx]),
		map[string]any{"ops": ops, "config": b.cfgs[hi], "failing_event": b.events[idx]}, nil)
}

var tierMaps = [][]int{{0, 1, 2, 3, 4}, {1, 2, 3, 4, 4}, {2, 3, 4, 4, 4}, {0, 2, 4, 4, 4}, {3, 4, 4, 4, 4}}
var margins = [][2]int{{12, 16}, {0, 0}, {100, 100}}

func main() { vf.Main("C17", "model_checking", run) }

func run(c *vf.Ctx) {
	c.Rule("M: TLC exhaustive over sequences of <= 4 (thorough 5) operations new/parse/setlink/clone/reply/set-appendix/mutate/release on 3 frame structs, 4 buffers, 3 tiers. R: every transition of the <=4-operation graph on 2 structs (quick: seeded sample) and TLC -simulate walks over 5 tiers executed on a real frame.Builder, abstract tiers mapped onto the real pool classes 600/1600/5100/9600/65675 with sizes at min / max / max-1 of the class, margins (12,16)/(0,0)/(100,100), all 7 message types; R-reader: the same operations on frames BORN IN THE REAL LINK READER - two routers hold a real encrypted link (real set-up, reader and writer workers) to a third, a 'read' sends a frame of a size at a pool-class boundary (min / min+1 / max-1 / max of the size on the wire) and takes the frame object the reader hands to the frame handler; every edge of the <=4-operation reader graph (quick: sample), TLC -simulate walks of NextSimR and a boundary sweep (read, replace the appendix in place / across a class / up to the limit, clone, live on) run on the receiving router's builder; every live frame must also be available with the link writer's margins. T: the recorded observations judged by TLC. distinct = distinct (operation sequence, tier map, margins)")
	c.Assume("buffer identity is taken from the address of the pooled slice; bytes are compared with the driver's own layout of the inputs", "sync.Pool recycling is exercised by release/allocate cycles on one goroutine but not forced")

	cfg := "FramePool_MC4.cfg"
	if c.Thorough() {
		cfg = "FramePool_MC.cfg"
	}
	mc, err := c.TLC("FramePool", cfg, vf.TLCOpts{Workers: 16, Coverage: !c.Thorough(), Timeout: 60 * time.Minute, Heap: "24g"})
	if err != nil {
		c.Fatal("M: %v", err)
	}
	if mc.Violated != "" {
		c.Broken("M: %s violated in the model", mc.Violated)
	}
	if !c.Thorough() {
		for _, a := range []string{"New", "Parse", "SetLink", "Clone", "Reply", "SetAppendix", "Mutate", "Release"} {
			if mc.Coverage[a] == 0 {
				c.Broken("M: vacuous, action %s never taken", a)
			}
		}
	}
	c.AddModel(mc.Distinct, mc.Generated)
	c.Stage("M/"+cfg, map[string]any{"distinct": mc.Distinct, "generated": mc.Generated, "wall_s": mc.Wall.Seconds()})
	c.Logf("M: %d distinct", mc.Distinct)

	// R (a)
	d, err := c.TLC("FramePool", "FramePool_Dump.cfg", vf.TLCOpts{Workers: 1, Timeout: 20 * time.Minute})
	if err != nil {
		c.Fatal("R dump: %v", err)
	}
	d.Inits = []string{d.Edges[0].From}
	g := vf.BuildGraph(d)
	paths := g.CoverPaths(0)
	total := len(paths)
	if !c.Thorough() && len(paths) > 1500 {
		c.Rand.Shuffle(len(paths), func(i, j int) { paths[i], paths[j] = paths[j], paths[i] })
		paths = paths[:1500]
	}
	b := &batch{}
	for pi, p := range paths {
		ops := make([]act, len(p))
		for i, ei := range p {
			_ = json.Unmarshal(g.Edges[ei].Act, &ops[i])
		}
		tm := tierMaps[pi%len(tierMaps)]
		mg := margins[pi%len(margins)]
		runSeq(c, b, ops, 2, tm, mg, c.Seed+int64(pi))
		c.Distinct(fmt.Sprintf("%s|%v|%v", sig(ops), tm, mg))
		if pi < 2 {
			c.Sample(map[string]any{"kind": "graph path", "ops": sig(ops), "tiers": tm, "margins": mg})
		}
	}
	c.Stage("R-graph", map[string]any{"edges": len(g.Edges), "cover_paths": total, "executed": len(paths)})
	c.Logf("R: %d edges, %d paths, %d executed", len(g.Edges), total, len(paths))
	b.validate(c, "graph")

	// R (b)
	sim, err := c.TLC("FramePool", "FramePool_Sim.cfg", vf.TLCOpts{Workers: 1, Simulate: fmt.Sprintf("num=%d", c.Pick(200, 4000)), Depth: 60, Seed: c.Seed, Timeout: 30 * time.Minute})
	if err != nil {
		c.Fatal("R sim: %v", err)
	}
	if sim.Violated != "" {
		c.Broken("R sim: %s violated in the model", sim.Violated)
	}
	b2 := &batch{}
	var cur []act
	lastI := 0
	n := 0
	flush := func() {
		if len(cur) > 0 {
			mg := margins[n%len(margins)]
			runSeq(c, b2, cur, 3, tierMaps[0], mg, c.Seed+int64(n))
			c.Distinct(fmt.Sprintf("%s|%v", sig(cur), mg))
			if n == 0 {
				c.Sample(map[string]any{"kind": "simulation walk", "ops": sig(cur)})
			}
			n++
			cur = nil
		}
	}
	for _, l := range sim.Lines {
		var st struct {
			I int `json:"i"`
			A act `json:"a"`
		}
		if json.Unmarshal([]byte(l), &st) != nil {
			continue
		}
		if st.I == lastI {
			continue // alternative buffer choice of the same step
		}
		if st.I == 1 {
			flush()
		}
		lastI = st.I
		cur = append(cur, st.A)
	}
	flush()
	c.AddModel(sim.Generated, sim.Generated)
	b2.validate(c, "sim")

	// R (c) frames born in the real link reader
	readerStage(c)
}

// walksOf splits the steps TLC's simulator printed (DumpStep) into walks.
func walksOf(lines []string) [][]act {
	var walks [][]act
	var cur []act
	lastI := 0
	for _, l := range lines {
		var st struct {
			I int `json:"i"`
			A act `json:"a"`
		}
		if json.Unmarshal([]byte(l), &st) != nil {
			continue
		}
		if st.I == lastI {
			continue // alternative buffer choice of the same step
		}
		if st.I == 1 && len(cur) > 0 {
			walks = append(walks, cur)
			cur = nil
		}
		lastI = st.I
		cur = append(cur, st.A)
	}
	if len(cur) > 0 {
		walks = append(walks, cur)
	}
	return walks
}
