// C17, reader-born frames. In a router no frame a handler works on comes from NewFrameV1 or from a ParseFrame the
// caller controls: it is born in the LINK READER (peering/link.go readFrame), which takes a pooled buffer of the
// router's builder by the length announced on the wire, reads into it, unseals in place, lets the builder parse in
// place and stamps the frame with the link. How the reader slices that buffer is part of how "a frame of any size"
// comes to be. This stage gives the FramePool walks such frames: two sender routers hold a real encrypted link
// (peering.LinkBase, real set-up, real reader and writer workers) to one receiving router; a "read" operation sends
// a frame of a size at a pool-class boundary over one of the links and takes the frame OBJECT the receiver's reader
// hands to its frame handler. Everything else of the walk (clone, appendix in place / across a class / up to the
// protocol limit, reply, mutate, release, new and parsed frames in between) runs on the receiver's builder - the
// shared builder - and is judged by the same FramePool_Trace.
package main

import (
	"encoding/json"
	"errors"
	"fmt"
	"math/rand"
	"time"

	"github.com/mycoria/mycoria/frame"
	"github.com/mycoria/mycoria/peering"

	"verifharness/internal/linkworld"
	"verifharness/internal/mesh"
	"verifharness/internal/vf"
	rworld "verifharness/internal/world"
)

type readerLink struct {
	id   int // identity of the link in the trace (11, 12)
	from *rworld.Node
	out  peering.Link // the sender's end
	in   peering.Link // the receiver's end: what RecvLink() of a frame read from it must be
	px   *linkworld.Proxy
	sent int
}

type readerSrc struct {
	b      *rworld.Node
	links  []*readerLink
	stray  int
	reads  int
	broken string
}

// realLinkIDs names the receiving ends of the real links in the trace.
var realLinkIDs = map[frame.LinkAccessor]int{}

// newReaderSrc sets up the receiving router and its links. An error means the stage cannot run (broken, no verdict).
func newReaderSrc() (*readerSrc, error) {
	rworld.InstallLogCapture()
	w := rworld.NewWorld()
	ids := mesh.Identities(3)
	r := &readerSrc{b: w.NewNode("B", rworld.NodeOpts{ID: ids[0]})}
	for i := 1; i <= 2; i++ {
		a := w.NewNode(fmt.Sprintf("A%d", i), rworld.NodeOpts{ID: ids[i]})
		res := linkworld.Connect(a, r.b, nil, 300*time.Millisecond)
		if res.LinkA == nil || res.LinkB == nil {
			// once more: a set-up can time out on a loaded machine
			res = linkworld.Connect(a, r.b, nil, 2*time.Second)
		}
		if res.LinkA == nil || res.LinkB == nil {
			return nil, fmt.Errorf("link set-up A%d-B failed: %v / %v (timed out: %v)", i, res.ErrA, res.ErrB, res.TimedOut)
		}
		rl := &readerLink{id: 10 + i, from: a, out: res.LinkA, in: res.LinkB, px: res.Proxy}
		realLinkIDs[frame.LinkAccessor(res.LinkB)] = rl.id
		r.links = append(r.links, rl)
	}
	return r, nil
}

func (r *readerSrc) close() {
	for _, l := range r.links {
		l.px.Close()
	}
}

// fetch sends the frame `raw` over the link and returns the frame the receiver's link reader made of it.
func (r *readerSrc) fetch(rl *readerLink, raw []byte) (frame.Frame, error) {
	// nothing else travels on these links; should something arrive all the same it is not ours
	for {
		select {
		case f := <-r.b.Sw.Input():
			r.stray++
			f.ReturnToPool()
			continue
		default:
		}
		break
	}
	sb := rl.from.Builder
	ps := sb.GetPooledSlice(peering.FrameOffset + len(raw) + peering.FrameOverhead)
	if ps == nil {
		return nil, fmt.Errorf("no pooled buffer for a frame of %d bytes at the sender", len(raw))
	}
	copy(ps[peering.FrameOffset:], raw)
	out, err := sb.ParseFrame(ps[peering.FrameOffset:peering.FrameOffset+len(raw)], ps[:cap(ps)], peering.FrameOffset)
	if err != nil {
		sb.ReturnPooledSlice(ps)
		return nil, fmt.Errorf("the sender cannot parse its own frame: %w", err)
	}
	if rl.out.IsClosing() || rl.in.IsClosing() {
		out.ReturnToPool()
		return nil, errors.New("the link has closed")
	}
	if err := rl.out.Send(out); err != nil {
		return nil, fmt.Errorf("send: %w", err)
	}
	rl.sent++
	if rl.sent%256 == 0 {
		rl.px.Forget()
	}
	select {
	case f := <-r.b.Sw.Input():
		r.reads++
		return f, nil
	case <-time.After(10 * time.Second):
		return nil, fmt.Errorf("a frame of %d bytes sent over link %d did not reach the receiver's frame handler within 10 s", len(raw), rl.id)
	}
}

// classOf is the pool class a buffer request of n bytes is served from (0 = none).
func classOf(n int) int {
	for _, ts := range tierSizes {
		if n <= ts {
			return ts
		}
	}
	return 0
}

// execRead is the operation "read": the frame of slot a.S is born in the link reader of link a.K.
func (w *world) execRead(a act, ev map[string]any) {
	rl := w.rd.links[(a.K+1)%len(w.rd.links)]
	ev["k"] = rl.id
	if w.rng.Intn(4) == 0 {
		w.refusedParse()
	}
	if w.rng.Intn(6) == 0 {
		w.refusedNew()
	}
	mt := mts[w.rng.Intn(len(mts))]
	old := w.margin
	w.margin = [2]int{peering.FrameOffset, peering.FrameOverhead} // the size on the wire decides the pool class
	sw, msg, apx := w.sizesForZ(mt, w.tmap[a.T-1], a.Z)
	w.margin = old
	sh := &shadow{src: addr(w), dst: addr(w), mt: mt, sw: w.randBytes(sw), msg: w.randBytes(msg), apx: w.randBytes(apx),
		psOff: peering.FrameOffset, rdr: true}
	copy(sh.nonce[:], w.randBytes(3))
	if mt.IsEncrypted() {
		sh.auth = w.randBytes(16)
	} else {
		sh.auth = w.randBytes(64)
	}
	raw := sh.layout()
	f, err := w.rd.fetch(rl, raw)
	if err != nil {
		// the set-up does not deliver: no verdict from this walk
		w.rd.broken = err.Error()
		w.dead = true
		ev["err"] = true
		ev["errtext"] = err.Error()
		return
	}
	sh.f = f
	sh.capBirth = classOf(peering.FrameOffset + len(raw) + peering.FrameOverhead)
	sh.ownTail = peering.FrameOverhead
	sh.isNew = true // beyond the link frame the reader's buffer must be as the pool gave it: zero
	sh.capHnt = w.capOf(sh)
	w.slots[a.S] = sh
}

// readerWalks builds the histories of the stage: (1) every edge of the reader graph, (2) TLC's simulation walks of
// NextSimR, (3) a sweep over every class boundary where the frame is read, its appendix replaced and the result
// cloned, followed by a random tail.
func readerStage(c *vf.Ctx) {
	rd, err := newReaderSrc()
	if err != nil {
		c.Broken("R reader: %v", err)
		return
	}
	defer rd.close()
	rmargins := [][2]int{{peering.FrameOffset, peering.FrameOverhead}, {100, 100}, {peering.FrameOffset, peering.FrameOverhead}}
	b := &batch{}
	n := 0
	run := func(ops []act, nslots int, tm []int, kind string) {
		mg := rmargins[n%len(rmargins)]
		// what is left goes back to the pools (observed like every other operation), so that the next walk recycles it
		live := map[int]bool{}
		for _, a := range ops {
			switch a.Name {
			case "new", "parse", "read":
				live[a.S] = true
			case "clone":
				live[a.C] = true
			case "release":
				delete(live, a.S)
			}
		}
		ops = append([]act(nil), ops...)
		for s := 1; s <= nslots; s++ {
			if live[s] {
				ops = append(ops, act{Name: "release", S: s})
			}
		}
		runSeqOn(c, b, ops, nslots, tm, mg, c.Seed+int64(7919*n), rd)
		c.Distinct(fmt.Sprintf("reader|%s|%v|%v", sig(ops), tm, mg))
		if n < 2 || (kind == "sweep" && n%97 == 0) {
			c.Sample(map[string]any{"kind": "reader " + kind, "ops": sig(ops), "tiers": tm, "margins": mg})
		}
		n++
	}

	// (1) the reader graph
	d, err := c.TLC("FramePool", "FramePool_DumpR.cfg", vf.TLCOpts{Workers: 1, Timeout: 20 * time.Minute})
	if err != nil {
		c.Fatal("R reader dump: %v", err)
	}
	if d.Violated != "" || len(d.Edges) == 0 {
		c.Broken("R reader dump: %s violated in the model / %d edges", d.Violated, len(d.Edges))
		return
	}
	d.Inits = []string{d.Edges[0].From}
	g := vf.BuildGraph(d)
	paths := g.CoverPaths(0)
	total := len(paths)
	if lim := c.Pick(400, 1<<30); len(paths) > lim {
		c.Rand.Shuffle(len(paths), func(i, j int) { paths[i], paths[j] = paths[j], paths[i] })
		paths = paths[:lim]
	}
	for pi, p := range paths {
		ops := make([]act, len(p))
		for i, ei := range p {
			if err := json.Unmarshal(g.Edges[ei].Act, &ops[i]); err != nil {
				c.Fatal("R reader dump: %v", err)
			}
		}
		run(ops, 2, tierMaps[pi%len(tierMaps)], "graph")
		if rd.broken != "" {
			break
		}
	}
	c.AddModel(d.Distinct, d.Generated)
	nGraph := n

	// (2) simulation walks
	sim, err := c.TLC("FramePool", "FramePool_SimRead.cfg", vf.TLCOpts{Workers: 1, Simulate: fmt.Sprintf("num=%d", c.Pick(150, 3000)), Depth: 40, Seed: c.Seed + 17, Timeout: 30 * time.Minute})
	if err != nil {
		c.Fatal("R reader sim: %v", err)
	}
	if sim.Violated != "" {
		c.Broken("R reader sim: %s violated in the model", sim.Violated)
	}
	for _, walk := range walksOf(sim.Lines) {
		if rd.broken != "" {
			break
		}
		run(walk, 3, tierMaps[0], "sim")
	}
	c.AddModel(sim.Generated, sim.Generated)
	nSim := n - nGraph

	// (3) the boundary sweep
	rng := rand.New(rand.NewSource(c.Seed*1000003 + 17))
	for rep := 0; rep < c.Pick(3, 40) && rd.broken == ""; rep++ {
		for ti := 1; ti <= len(tierSizes); ti++ {
			for _, z := range []int{zHi, zLo, zHi1, zLo1, zRand} {
				run(sweepWalk(rng, ti, z), 3, tierMaps[0], "sweep")
			}
		}
	}
	nSweep := n - nGraph - nSim
	c.Stage("R-reader", map[string]any{"graph_edges": len(g.Edges), "graph_cover_paths": total, "graph_executed": nGraph, "sim_walks": nSim,
		"sweep_walks": nSweep, "frames_read_off_real_links": rd.reads, "stray_frames": rd.stray})
	c.Logf("R reader: %d graph paths (of %d), %d simulation walks, %d sweep walks; %d frames born in the real link reader", nGraph, total, nSim, nSweep, rd.reads)
	if rd.broken != "" {
		c.Broken("R reader: the links stopped delivering: %s", rd.broken)
		return
	}
	if rd.reads == 0 {
		c.Broken("R reader: vacuous, no frame was read")
		return
	}
	b.validate(c, "reader")
}

// sweepWalk: a frame of the given class / position in the class is read, (sometimes re-linked,) its appendix is
// replaced, it is cloned; then the original and the clone live on for a few random operations.
func sweepWalk(rng *rand.Rand, ti, z int) []act {
	modes := []string{"fits", "fits", "grow", "grow", "toobig"}
	ops := []act{{Name: "read", S: 1, T: ti, K: 1 + rng.Intn(2), Z: z}}
	if rng.Intn(4) == 0 {
		ops = append(ops, act{Name: "setlink", S: 1, K: 1 + rng.Intn(2)})
	}
	if rng.Intn(5) > 0 {
		ops = append(ops, act{Name: "setapx", S: 1, Mode: modes[rng.Intn(4)]})
	}
	ops = append(ops, act{Name: "clone", S: 1, C: 2})
	live := map[int]bool{1: true, 2: true}
	pick := func() int {
		for {
			s := 1 + rng.Intn(3)
			if live[s] {
				return s
			}
		}
	}
	free := func() int {
		for s := 1; s <= 3; s++ {
			if !live[s] {
				return s
			}
		}
		return 0
	}
	for i, k := 0, 3+rng.Intn(6); i < k && len(live) > 0; i++ {
		s := pick()
		switch rng.Intn(10) {
		case 0, 1, 2:
			ops = append(ops, act{Name: "setapx", S: s, Mode: modes[rng.Intn(len(modes))]})
		case 3, 4:
			if c := free(); c != 0 {
				ops = append(ops, act{Name: "clone", S: s, C: c})
				live[c] = true
			} else {
				ops = append(ops, act{Name: "mutate", S: s})
			}
		case 5:
			ops = append(ops, act{Name: "mutate", S: s})
		case 6:
			ops = append(ops, act{Name: "reply", S: s, T: 1 + rng.Intn(len(tierSizes))})
		case 7:
			ops = append(ops, act{Name: "release", S: s})
			delete(live, s)
		case 8:
			if c := free(); c != 0 {
				ops = append(ops, act{Name: "read", S: c, T: 1 + rng.Intn(len(tierSizes)), K: 1 + rng.Intn(2), Z: []int{0, zHi, zLo}[rng.Intn(3)]})
				live[c] = true
			}
		default:
			ops = append(ops, act{Name: "setlink", S: s, K: 1 + rng.Intn(2)})
		}
	}
	return ops
}
