// C06 - traffic policy. Stage M: TLC on TrafficPolicy enumerates
// configuration x packet (x established flow) with the verdict the property
// allows. Stage R: every configuration is rendered, parsed by the real parser
// and installed in a real router with a tun stand-in and four peers with real
// sessions; real IPv6 packets sealed by the named sender (or another router,
// or nobody) go through the real router worker, local packets through the
// real tun handler. Stage T: the observed verdicts (frame on the tun channel,
// frames emitted to the mesh, CheckInboundTrafficPolicy over protocols 0..255)
// are judged by TLC (TrafficPolicy_Trace).
// Stage R also executes the ICMPv6 cases of the model (CaseIcmp): well-formed ICMPv6 messages - error types 1..4 and
// others - that QUOTE a packet: the port of a configured service, a packet the local host really sent, a connection of
// the sender that was admitted or refused before. They are judged by the same trace specification as ICMPv6 packets.
// Stage D (history.go): delivery histories of one flow - recorded genuine frames delivered again, frames held back.
package main

import (
	"encoding/json"
	"fmt"
	"math/rand"
	"net/netip"
	"sort"
	"time"

	"github.com/mycoria/mycoria/config"
	"github.com/mycoria/mycoria/frame"
	"github.com/mycoria/mycoria/mgr"

	"verifharness/internal/conntrack"
	"verifharness/internal/mesh"
	"verifharness/internal/vf"
	"verifharness/internal/world"
)

type svc struct {
	Scheme string `json:"scheme"`
	Port   int    `json:"port"`
	Access string `json:"access"`
}

type act struct {
	Name    string `json:"name"`
	Svcs    []svc  `json:"svcs"`
	Isolate bool   `json:"isolate"`
	Who     string `json:"who"`
	Proto   int    `json:"proto"`
	Dport   int    `json:"dport"`
	Variant string `json:"variant"`
	Flow    bool   `json:"flow"`
	Friends string `json:"friends"`
	ToTun   bool   `json:"totun"`
	SrcIsMe bool   `json:"srcisme"`
	Dst     string `json:"dst"`
	ToMesh  bool   `json:"tomesh"`
	// ICMPv6 messages that quote a packet (name "icmp")
	Kind string `json:"kind"`
	What string `json:"what"`
	Hist string `json:"hist"`
}

var names = map[string]int{"me": 1, "f1": 2, "f2": 3, "o1": 4, "o2": 5}

func storeFor(svcs []svc, isolate bool, friends ...string) config.Store {
	ids := mesh.Identities(5)
	ip := func(n string) string { return ids[names[n]-1].IP.String() }
	st := config.Store{}
	st.Router.Listen = []string{"tcp:47369"}
	st.Router.Isolate = isolate
	st.FriendConfigs = []config.FriendConfig{{Name: "alice", IP: ip("f1")}, {Name: "bob", IP: ip("f2")}}
	if len(friends) > 0 && friends[0] == "none" {
		st.FriendConfigs = nil
	}
	for i, s := range svcs {
		url := s.Scheme + "://"
		if s.Port != 0 {
			url += fmt.Sprintf(":%d", s.Port)
		}
		sc := config.ServiceConfig{Name: fmt.Sprintf("svc%d", i+1), URL: url}
		switch s.Access {
		case "public":
			sc.Public = true
		case "friends":
			sc.Friends = true
		case "for-f1-name":
			sc.For = []string{"alice"}
		case "for-f2-ip":
			sc.For = []string{ip("f2")}
		case "for-o1-ip":
			sc.For = []string{ip("o1")}
		}
		st.ServiceConfigs = append(st.ServiceConfigs, sc)
	}
	return st
}

type scene struct {
	// wrap, when set, rewrites the inner packet of the next inbound case (extension headers in front of the transport header)
	wrap func(pk []byte) []byte
	// sport, when set, is the source port of the next inbound case (40000 otherwise)
	sport int
	ms    *mesh.Mesh
	me   *world.Node
}

func newScene(svcs []svc, isolate bool, friends string) (*scene, error) {
	// the configuration must go through the real (non-test) parser first
	st := storeFor(svcs, isolate, friends)
	st.Router.Address = mesh.Identities(5)[0].Store()
	if _, err := st.Parse(); err != nil {
		return nil, err
	}
	edges := []mesh.Edge{{A: 1, B: 2, LA: 21, LB: 12}, {A: 1, B: 3, LA: 31, LB: 13}, {A: 1, B: 4, LA: 41, LB: 14}, {A: 1, B: 5, LA: 51, LB: 15}}
	ms, err := mesh.New(5, edges, mesh.Opts{WithTun: func(i int) bool { return i == 1 }, Cfg: func(i int) config.Store {
		if i == 1 {
			return storeFor(svcs, isolate, friends)
		}
		return config.Store{}
	}})
	if err != nil {
		return nil, err
	}
	s := &scene{ms: ms, me: ms.Node(1)}
	for n := 2; n <= 5; n++ {
		x := ms.Node(n)
		sv, sx := s.me.St.GetSession(x.ID.IP), x.St.GetSession(s.me.ID.IP)
		kx, kxt, _ := sx.Encryption().InitKeyClientStart()
		rk, rkt, _ := sv.Encryption().InitKeyServer(kx, kxt)
		_ = sx.Encryption().InitKeyClientComplete(rk, rkt)
	}
	return s, nil
}

func packet(src, dst netip.Addr, proto int, sport, dport int) []byte {
	p := make([]byte, 64)
	p[0] = 6 << 4
	p[5] = 24
	p[6] = byte(proto)
	p[7] = 64
	a, b := src.As16(), dst.As16()
	copy(p[8:24], a[:])
	copy(p[24:40], b[:])
	p[40], p[41] = byte(sport>>8), byte(sport)
	p[42], p[43] = byte(dport>>8), byte(dport)
	return p
}

func (s *scene) node(n string) *world.Node { return s.ms.Node(names[n]) }

// inbound builds, seals and delivers an inbound packet; returns whether it reached the tun channel.
func (s *scene) inbound(a act) (toTun, panicked bool) {
	sender := s.node(a.Who)
	if a.Flow {
		// the local host opens the flow first
		sp, dp := a.Dport, 40000
		if a.Proto != 6 && a.Proto != 17 {
			sp, dp = 0, 0
		}
		_ = world.WorkerCtx(func(w *mgr.WorkerCtx) {
			pk := packet(s.me.ID.IP, sender.ID.IP, a.Proto, sp, dp)
			// handleTunPacket returns the packet buffer to the pool: hand it a pooled one
			buf := s.me.Builder.GetPooledSlice(len(pk))
			copy(buf, pk)
			s.me.Rt.VerifHandleTunPacket(w, buf[:len(pk)])
		})
		s.ms.W.Inflight = nil
	}
	innerSrc, innerDst := sender.ID.IP, s.me.ID.IP
	switch a.Variant {
	case "inner-src-differs":
		other := "f1"
		if a.Who == "f1" {
			other = "f2"
		}
		innerSrc = s.node(other).ID.IP
		if nPrior++; nPrior%2 == 0 {
			// the router the packet CLAIMS to come from has sent that very packet itself a moment ago (sealed by its own
			// session): whatever the local router remembers about that connection, the next frame is judged by the
			// session that unseals it
			on := s.node(other)
			gp := packet(on.ID.IP, s.me.ID.IP, a.Proto, 40000, a.Dport)
			if gf, err := on.Builder.NewFrameV1(on.ID.IP, s.me.ID.IP, frame.NetworkTraffic, nil, gp, nil); err == nil {
				if gf.Seal(on.St.GetSession(s.me.ID.IP)) == nil {
					raw, _ := gf.FrameDataWithMargins(0, 0)
					_, _ = s.ms.W.DeliverRaw(on, s.me, append([]byte(nil), raw...))
				}
				gf.ReturnToPool()
			}
			for drained := false; !drained; {
				select {
				case <-s.me.Tun.SendFrame:
				default:
					drained = true
				}
			}
			s.ms.W.Inflight = nil
		}
	case "inner-dst-differs":
		innerDst = netip.MustParseAddr("fd00::2")
	}
	sp := 40000
	if s.sport != 0 {
		sp = s.sport
	}
	pk := packet(innerSrc, innerDst, a.Proto, sp, a.Dport)
	if s.wrap != nil {
		pk = s.wrap(pk)
	}
	sealer := sender
	if a.Variant == "sealed-by-other" {
		other := "o2"
		if a.Who == "o2" {
			other = "o1"
		}
		sealer = s.node(other)
	}
	f, err := sealer.Builder.NewFrameV1(sender.ID.IP, s.me.ID.IP, frame.NetworkTraffic, nil, pk, nil)
	if err != nil {
		panic(err)
	}
	if a.Variant != "unsealed" {
		if err := f.Seal(sealer.St.GetSession(s.me.ID.IP)); err != nil {
			panic(err)
		}
	}
	raw, _ := f.FrameDataWithMargins(0, 0)
	data := append([]byte(nil), raw...)
	f.ReturnToPool()
	res, _ := s.ms.W.DeliverRaw(sender, s.me, data)
	for _, h := range res {
		if h.Panic {
			panicked = true
		}
	}
	for {
		select {
		case fr := <-s.me.Tun.SendFrame:
			toTun = true
			_ = fr
			continue
		default:
		}
		break
	}
	s.ms.W.Inflight = nil
	return
}

func (s *scene) outbound(a act) (toMesh bool) {
	src := s.me.ID.IP
	if !a.SrcIsMe {
		src = s.node("f2").ID.IP
	}
	var dst netip.Addr
	switch a.Dst {
	case "f1", "o1":
		dst = s.node(a.Dst).ID.IP
	case "internal":
		dst = netip.MustParseAddr("fd00::2")
	case "non-mycoria":
		dst = netip.MustParseAddr("2001:db8::1")
	case "multicast":
		dst = netip.MustParseAddr("ff02::1")
	}
	s.ms.W.Inflight = nil
	_ = world.WorkerCtx(func(w *mgr.WorkerCtx) {
		pk := packet(src, dst, a.Proto, 40001, 80)
		buf := s.me.Builder.GetPooledSlice(len(pk))
		copy(buf, pk)
		s.me.Rt.VerifHandleTunPacket(w, buf[:len(pk)])
	})
	toMesh = s.ms.W.NInflight() > 0
	s.ms.W.Inflight = nil
	// drain ICMP answers to the local interface
	for len(s.me.Tun.SendRaw) > 0 {
		<-s.me.Tun.SendRaw
	}
	return
}

func cfgKey(svcs []svc, isolate bool, friends string) string {
	return fmt.Sprintf("%v|%v|%s", svcs, isolate, friends)
}

func main() { vf.Main("C06", "model_checking", run) }

var nExt, nPrior int

func run(c *vf.Ctx) {
	c.Rule("M: TLC enumerates 265 configurations (none, every single service over 6 schemes x 4 ports x 5 access rules, 144 two-service combinations) x genuine packets (4 senders x 4 protocols x 5 ports), not-what-they-claim variants, established flows with and without isolation, ICMPv6 messages that quote a packet (error/other types x what the quote spells x what happened on the quoted connection before), outbound packets (source, 5 destination kinds, isolation): 18k cases with the allowed verdict. R: every configuration the real parser accepts installed in a real router; quick executes a seeded sample of the packet cases per configuration, thorough all; CheckInboundTrafficPolicy is also swept over protocols 0..255 x ports {0,1,p-1,p,p+1,65535}. D: delivery histories of one flow per kind of admission (public / friends / listed service, established return flow, refused senders as a control) on a real router - recorded genuine frames delivered again at once, inside the 64-frame window, behind it and hundreds behind, frames held back, fresh frames in between; a frame handed on before is never handed on again, fresh frames keep being judged by the policy alone. T: observed verdicts judged by TLC. distinct = distinct (configuration, packet case)")
	c.Assume("a packet of a flow the local host opened (mirrored 5-tuple, cached outbound verdict 'allowed') is admitted without a service - the established-flow reading of the property (DESIGN C06)", "IPv6 extension headers are not parsed by the code; ports are bytes 40..44")

	mc, err := c.TLC("TrafficPolicy", "TrafficPolicy_MC.cfg", vf.TLCOpts{Workers: 1, Timeout: 10 * time.Minute, Heap: "8g"})
	if err != nil {
		c.Fatal("M: %v", err)
	}
	if mc.Violated != "" {
		c.Broken("M: %s violated in the model", mc.Violated)
	}
	c.AddModel(mc.Distinct, mc.Generated)
	byCfg := map[string][]act{}
	byCfgIcmp := map[string][]act{} // ICMPv6 messages quoting a packet: sampled and executed apart from the packet cases
	cfgOf := map[string]act{}
	var order []string
	var templates []act
	nbad := 0
	for _, e := range mc.Edges {
		var a act
		if json.Unmarshal(e.Act, &a) != nil {
			continue
		}
		if a.Name == "badcfg" {
			nbad++
			if _, err := storeForParse(a.Svcs); err == nil {
				c.Extra("parser_accepts_config_the_spec_calls_invalid", fmt.Sprint(a.Svcs))
			}
			continue
		}
		if a.Friends == "" {
			a.Friends = "both"
		}
		k := cfgKey(a.Svcs, a.Isolate, a.Friends)
		if _, ok := cfgOf[k]; !ok {
			order = append(order, k)
			cfgOf[k] = a
		}
		if a.Name == "icmp" {
			byCfgIcmp[k] = append(byCfgIcmp[k], a)
			continue
		}
		byCfg[k] = append(byCfg[k], a)
		if a.Name == "in" && a.Variant == "ok" {
			templates = append(templates, a) // genuine packets: the templates of the delivery histories (stage D)
		}
	}
	sort.Strings(order)
	// configurations that only the ICMPv6 cases use come last: the order (and with it the seeded sample) of the others stays what it was
	sort.SliceStable(order, func(i, j int) bool { return len(byCfg[order[i]]) > 0 && len(byCfg[order[j]]) == 0 })
	c.Stage("M", map[string]any{"cases": len(mc.Edges), "configurations": len(order), "invalid_configurations": nbad})
	c.Logf("M: %d cases, %d configurations", len(mc.Edges), len(order))

	rng := rand.New(rand.NewSource(c.Seed))
	rngIcmp := rand.New(rand.NewSource(c.Seed*7919 + 58)) // a stream of its own: the sample of the packet cases stays what it was
	nIcmp, nIcmpToTun := 0, 0
	var tIcmp time.Duration
	var events []any
	nWide := 0
	skipped := 0
	for ci, k := range order {
		cases := byCfg[k]
		a0 := cfgOf[k]
		if !c.Thorough() && len(cases) > 24 {
			rng.Shuffle(len(cases), func(i, j int) { cases[i], cases[j] = cases[j], cases[i] })
			cases = cases[:24]
		}
		// one scene per configuration; flow cases get their own scene (they create connection state)
		var s *scene
		fresh := func() *scene {
			sc, err := newScene(a0.Svcs, a0.Isolate, a0.Friends)
			if err != nil {
				return nil
			}
			return sc
		}
		s = fresh()
		if s == nil {
			skipped++
			c.Extra("parser_rejects_config_the_spec_calls_valid", fmt.Sprint(a0.Svcs))
			continue
		}
		// direct policy sweep for this configuration
		for _, sv := range a0.Svcs {
			p := sv.Port
			if p == 0 {
				p = map[string]int{"http": 80, "https": 443}[sv.Scheme]
			}
			ports := []int{0, 1, p - 1, p, p + 1, 65535}
			protos := []int{6, 17, 58, 47}
			if c.Thorough() || ci%16 == 0 {
				protos = nil
				for x := 0; x < 256; x++ {
					protos = append(protos, x)
				}
			}
			for _, who := range []string{"f1", "f2", "o1", "o2"} {
				for _, pr := range protos {
					for _, po := range ports {
						if po < 0 || po > 65535 {
							continue
						}
						al := s.me.Cfg.CheckInboundTrafficPolicy(uint8(pr), uint16(po), s.node(who).ID.IP)
						c.Eval(1)
						events = append(events, map[string]any{"ev": "policy", "svcs": a0.Svcs, "who": who, "proto": pr, "port": po, "allowed": al, "friends": a0.Friends})
					}
				}
			}
			// default deny over the port space: every port that shares its low or its high byte with the service's port
			// (thorough: all 65536 for four protocols; every 16th configuration: all 256 protocols on the byte-sharing ports). Only ADMITTED pairs are handed
			// to TLC - each must be justified by a service; the ports around p above cover the other direction.
			var wide []int
			if c.Thorough() && ci%16 != 0 {
				for x := 0; x < 65536; x++ {
					wide = append(wide, x)
				}
			} else {
				for x := 0; x < 256; x++ {
					wide = append(wide, (p&0xFF00)|x, (x<<8)|(p&0xFF))
				}
			}
			for _, who := range []string{"f1", "o1"} {
				for _, pr := range protos {
					for _, po := range wide {
						al := s.me.Cfg.CheckInboundTrafficPolicy(uint8(pr), uint16(po), s.node(who).ID.IP)
						nWide++
						if al {
							events = append(events, map[string]any{"ev": "policy", "svcs": a0.Svcs, "who": who, "proto": pr, "port": po, "allowed": al, "friends": a0.Friends})
						}
					}
				}
			}
		}
		for _, a := range cases {
			switch a.Name {
			case "in":
				sc := s
				if a.Flow {
					sc = fresh()
				}
				toTun, panicked := sc.inbound(a)
				c.Eval(1)
				events = append(events, map[string]any{"ev": "in", "svcs": a.Svcs, "isolate": a.Isolate, "who": a.Who, "proto": a.Proto, "dport": a.Dport,
					"variant": a.Variant, "flow": a.Flow, "friends": a.Friends, "totun": toTun, "panic": panicked})
				if a.Variant == "ok" && !a.Flow && (a.Proto == 6 || a.Proto == 17) && (c.Thorough() || nExt%3 == 0) {
					// the same packet with IPv6 extension headers in front of its transport header: whatever the router
					// makes of them, the packet may only reach the interface if a service admits ITS protocol and ITS port
					for _, hl := range []int{0, 1, 254, 255} {
						decoy := 80
						for _, sv := range a.Svcs {
							if sv.Port != 0 && sv.Port != a.Dport {
								decoy = sv.Port
							}
						}
						if decoy == a.Dport {
							decoy = 443
						}
						nh := []int{0, 43, 60}[(nExt+hl)%3]
						depth := 1 + (nExt+hl)%2
						sc.wrap = func(pk []byte) []byte {
							out := append([]byte(nil), pk[:40]...)
							next := int(pk[6])
							body := pk[40:]
							var chain []byte
							for d := 0; d < depth; d++ {
								eh := make([]byte, (hl+1)*8)
								eh[0] = byte(next) // the innermost header written first names the transport protocol
								eh[1] = byte(hl)
								eh[2], eh[3] = byte(decoy>>8), byte(decoy) // option bytes that look like a port of another service
								chain = append(eh, chain...)
								next = nh
							}
							out[6] = byte(nh)
							out = append(out, chain...)
							out = append(out, body...)
							out[4], out[5] = byte((len(out)-40)>>8), byte(len(out)-40)
							return out
						}
						tt, pp := sc.inbound(a)
						sc.wrap = nil
						c.Eval(1)
						events = append(events, map[string]any{"ev": "in", "svcs": a.Svcs, "isolate": a.Isolate, "who": a.Who, "proto": a.Proto, "dport": a.Dport,
							"variant": "exthdr", "flow": false, "friends": a.Friends, "totun": tt, "panic": pp, "exthdr": fmt.Sprintf("next header %d x%d, hdr ext len %d, option bytes spell port %d", nh, depth, hl, decoy)})
					}
				}
				nExt++
			case "out":
				toMesh := fresh().outbound(a)
				c.Eval(1)
				events = append(events, map[string]any{"ev": "out", "isolate": a.Isolate, "srcisme": a.SrcIsMe, "dst": a.Dst, "proto": a.Proto, "tomesh": toMesh})
			}
			c.Distinct(fmt.Sprintf("%s|%v", k, a))
		}
		// ICMPv6 messages that quote a packet: error types and others, quoting a service's port, a packet the local
		// host sent, a connection of the sender that was admitted or refused, or something made up
		icases := byCfgIcmp[k]
		reps := c.Pick(1, 3) // concretisations per case
		tI := time.Now()
		if n := c.Pick(16, len(icases)); len(icases) > n {
			rngIcmp.Shuffle(len(icases), func(i, j int) { icases[i], icases[j] = icases[j], icases[i] })
			icases = icases[:n]
		}
		for _, a := range icases {
			for r := 0; r < reps; r++ {
				q := concretise(rngIcmp, a)
				sc := s
				if a.Hist != "made-up" {
					if sc = fresh(); sc == nil {
						c.Broken("R: the configuration %v was accepted a moment ago and is refused now", a0.Svcs)
					}
				}
				toTun, panicked, pinged := sc.icmpCase(a, q)
				c.Eval(1)
				nIcmp++
				if toTun {
					nIcmpToTun++
				}
				events = append(events, map[string]any{"ev": "in", "svcs": a.Svcs, "isolate": a.Isolate, "who": a.Who, "proto": 58, "dport": 0,
					"variant": "icmp-quote", "flow": pinged, "friends": a.Friends, "totun": toTun, "panic": panicked,
					"kind": a.Kind, "what": a.What, "hist": a.Hist, "icmp": q.String()})
			}
			c.Distinct(fmt.Sprintf("%s|%v", k, a))
		}
		tIcmp += time.Since(tI)
		if ci == 3 && len(cases) > 0 {
			c.Sample(map[string]any{"configuration": a0.Svcs, "isolate": a0.Isolate, "cases": len(cases), "example": cases[0]})
		}
	}
	if len(a0svcsNone) == 0 {
	}
	c.Eval(nWide)
	c.Extra("wide_port_sweep_calls", nWide)
	if nIcmp == 0 || nIcmpToTun == 0 || nIcmpToTun == nIcmp {
		// the ICMPv6 messages must both reach the interface (icmp6/ping6 services, the local host pinged first) and be
		// refused, or the stage has judged nothing
		c.Broken("R: %d ICMPv6 messages quoting a packet executed, %d handed to the interface - the stage is vacuous", nIcmp, nIcmpToTun)
	}
	c.Extra("icmp_quote_messages", map[string]int{"executed": nIcmp, "handed_to_interface": nIcmpToTun, "ms": int(tIcmp.Milliseconds())})
	c.Logf("R: %d ICMPv6 messages quoting a packet, %d handed to the interface (%.1fs)", nIcmp, nIcmpToTun, tIcmp.Seconds())
	c.Stage("R", map[string]any{"configurations": len(order), "skipped_parser_rejected": skipped, "events": len(events), "icmp_quote_messages": nIcmp})
	c.Logf("R: %d configurations, %d observations", len(order), len(events))

	// ---- D: delivery histories of one admitted flow - recorded genuine frames delivered again at once, inside the
	// window, after the sender has moved on by more than the window; frames held back; fresh frames in between. The
	// events go to the same judge, behind the others (a rejection there leaves TLC only the histories to look at again).
	tD := time.Now()
	hevents := deliveryHistories(c, templates)
	events = append(events, hevents...)
	c.Stage("D", map[string]any{"events": len(hevents), "ms": time.Since(tD).Milliseconds()})

	for len(events) > 0 {
		rejectAt, inv, tres, err := c.TraceCheck("TrafficPolicy_Trace", "TrafficPolicy_Trace.cfg", events, vf.TLCOpts{Timeout: 30 * time.Minute, Heap: "12g"})
		if err != nil {
			c.Fatal("T: %v", err)
		}
		c.AddModel(tres.Distinct, tres.Generated)
		if rejectAt <= 0 && inv == "" {
			c.AddTraces(len(events))
			break
		}
		ev := events[rejectAt-1].(map[string]any)
		var key, what string
		var reproduce func() bool
		switch ev["ev"] {
		case "in":
			if ev["panic"] == true {
				key, what = vf.Key("panic", ev["variant"]), "the router worker panicked"
			} else if ev["variant"] == "history" && ev["totun"] == true && ev["handed"] == true {
				where := "inside the 64-frame window"
				if b, _ := ev["behind"].(int); b > 64 {
					where = "after the sender had moved on by more than the 64-frame window"
				} else if b == 0 {
					where = "at once"
				}
				key = vf.Key("history", "handed-on-again", where)
				what = fmt.Sprintf("a recorded genuine traffic frame of an admitted sender, delivered again %s (%v frames behind the newest one delivered), was handed to the local interface a second time: the frame had been delivered and its packet handed on before, the session's replay protection refuses it - it did not come in a frame that unsealed under the sender's session, whatever its content", where, ev["behind"])
				reproduce = func() bool { return reproduceHistory(templates, ev) }
			} else if ev["variant"] == "history" && ev["totun"] == true {
				key, what = vf.Key("history", "admitted", ev["flow"], ev["again"] != 0, ev["late"]), "in a delivery history a packet was handed to the local interface although the policy forbids it"
				reproduce = func() bool { return reproduceHistory(templates, ev) }
			} else if ev["variant"] == "history" {
				key, what = vf.Key("history", "dropped", ev["flow"]), "in a delivery history a fresh frame (sealed after every frame delivered so far, never delivered before) of a sender a service (or an established flow) admits was dropped"
				reproduce = func() bool { return reproduceHistory(templates, ev) }
			} else if ev["totun"] == true && ev["variant"] == "icmp-quote" {
				key, what = vf.Key("admitted", ev["variant"], ev["kind"], ev["hist"]), "an ICMPv6 message was handed to the local interface although no icmp6/ping6 service admits its sender and the local host never sent it an ICMPv6 packet (what the message quotes - the port of a tcp/udp service, a packet the local host sent, an admitted connection - is the sender's choice and admits nothing: a tcp service admits TCP, a udp service UDP)"
			} else if ev["totun"] == true {
				key, what = vf.Key("admitted", ev["variant"], ev["flow"]), "the packet was handed to the local interface although the policy forbids it"
			} else {
				key, what = vf.Key("dropped", ev["variant"], ev["flow"]), "the packet was dropped although a service (or an established flow) admits it"
			}
		case "out":
			if ev["tomesh"] == true {
				key, what = vf.Key("leaked", ev["dst"]), "the local packet entered the mesh although it must not"
			} else {
				key, what = vf.Key("blocked", ev["dst"]), "the local packet was not sent although it is allowed"
			}
		case "policy":
			key, what = vf.Key("policy", schemeOf(ev), ev["allowed"]), "CheckInboundTrafficPolicy disagrees with the documented meaning of the service"
		}
		c.Violation(key, fmt.Sprintf("%s: %v", what, ev), ev, reproduce)
		events = events[rejectAt:]
		if ev["variant"] == "history" {
			// one report per class of delivery: a defect in this path is hit by every history, and every rejection costs
			// a run of TLC
			sig := func(e map[string]any) string {
				b, _ := e["behind"].(int)
				a, _ := e["again"].(int)
				return fmt.Sprint(e["totun"], e["handed"], a > 0, e["late"], e["panic"], b > 64, b == 0)
			}
			rest := events[:0:0]
			for _, x := range events {
				if e, ok := x.(map[string]any); ok && e["variant"] == "history" && sig(e) == sig(ev) {
					continue
				}
				rest = append(rest, x)
			}
			events = rest
		}
		if ev["variant"] == "icmp-quote" {
			// one report per class of ICMPv6 message: TLC is not asked again about the messages of a class that has been
			// reported (a defect in this path is hit by hundreds of them, and every rejection costs a run of TLC)
			sig := func(e map[string]any) string {
				return fmt.Sprint(e["variant"], e["totun"], e["flow"], e["kind"], e["hist"], e["panic"])
			}
			rest := events[:0:0]
			for _, x := range events {
				if e, ok := x.(map[string]any); ok && e["variant"] == "icmp-quote" && sig(e) == sig(ev) {
					continue
				}
				rest = append(rest, x)
			}
			events = rest
		}
		if c.NViolations() > 6 {
			break
		}
	}
	c.Logf("T done")

	// ---- the policy over HISTORIES of one router (ConnTrack.tla): verdicts cached per 5-tuple, error pings of any
	// router about any other, time, the cleaner, hello exchanges - whatever happened before, what the policy forbids is
	// not let through
	conntrack.Run(c, true)
}

var a0svcsNone []svc

func schemeOf(ev map[string]any) string {
	if s, ok := ev["svcs"].([]svc); ok && len(s) > 0 {
		return s[0].Scheme
	}
	return "?"
}

func storeForParse(svcs []svc) (*config.Config, error) {
	st := storeFor(svcs, false)
	st.Router.Address = mesh.Identities(5)[0].Store()
	return st.Parse()
}
