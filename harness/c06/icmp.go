// ICMPv6 messages that quote a packet (CaseIcmp of TrafficPolicy.tla).
//
// The packet cases of the model are concretised by packet(): 64 bytes, the transport header reduced to the two port
// fields. An ICMPv6 packet built that way is no ICMPv6 message anybody would recognise (type 156, nothing behind it).
// Real ICMPv6 error messages (destination unreachable, packet too big, time exceeded, parameter problem) carry the
// packet they complain about, and a firewall that tries to be helpful attributes them to "the connection they report
// on". The quoted bytes are the sender's choice, so this file builds such messages: well-formed (length fields and
// checksum right), quoting the protocol and port of a configured service, a packet the local host really sent to the
// sender, a connection of the sender the router has admitted or refused before - and neighbours of these (other
// ICMPv6 types, quotes with the addresses the other way round or naming a third router, quotes cut short).
// What is observed is the same as for every inbound case (a frame on the tun channel) and the judge is the same
// (TrafficPolicy_Trace: an ICMPv6 packet from `who`, protocol 58, no port).
package main

import (
	"fmt"
	"math/rand"
	"net/netip"

	"github.com/mycoria/mycoria/mgr"

	"verifharness/internal/world"
)

// svcKeys gives the protocols and the port a service opens by the documented meaning of its scheme. It is used ONLY to
// choose what a quote spells (the key of a service, or a key no service has), never for a verdict.
func svcKeys(sv svc) (protos []int, port int) {
	port = sv.Port
	switch sv.Scheme {
	case "tcp":
		return []int{6}, port
	case "udp":
		return []int{17}, port
	case "http":
		if port == 0 {
			port = 80
		}
		return []int{6, 17}, port
	case "https":
		if port == 0 {
			port = 443
		}
		return []int{6, 17}, port
	case "icmp6", "ping6":
		return []int{58}, 0
	}
	return nil, port
}

// quoteCase is one concrete ICMPv6 message of an abstract case.
type quoteCase struct {
	typ, code int
	word      uint32 // bytes 4..8 of the ICMPv6 header: MTU (type 2), pointer (type 4), unused otherwise
	qproto    int    // protocol of the quoted packet
	lport     int    // port of the quoted connection on the local host's side
	rport     int    // port on the sender's side
	dir       string // whose addresses the quoted header carries, in which order
	third     string // the third router of the directions that name one
	total     int    // length of the whole IPv6 packet
	fill      int64  // seed of the bytes behind the quoted ports
}

func (q quoteCase) String() string {
	return fmt.Sprintf("ICMPv6 type %d code %d, %d bytes, quoting protocol %d local port %d remote port %d, quoted addresses %s%s",
		q.typ, q.code, q.total, q.qproto, q.lport, q.rport, q.dir, map[bool]string{true: " (" + q.third + ")", false: ""}[q.third != ""])
}

var infoTypes = []int{0, 5, 6, 100, 101, 127, 128, 129, 130, 133, 134, 135, 136, 137, 200, 255}

func concretise(rng *rand.Rand, a act) quoteCase {
	q := quoteCase{code: rng.Intn(8), fill: rng.Int63()}
	if a.Kind == "error" {
		q.typ = 1 + rng.Intn(4)
	} else if rng.Intn(3) == 0 {
		q.typ = 5 + rng.Intn(251)
	} else {
		q.typ = infoTypes[rng.Intn(len(infoTypes))]
	}
	switch q.typ {
	case 2:
		q.word = uint32([]int{1280, 1400, 576, 0}[rng.Intn(4)])
	case 4:
		q.word = uint32(rng.Intn(64))
	}
	// what the quote spells
	served := map[[2]int]bool{}
	for _, sv := range a.Svcs {
		pr, po := svcKeys(sv)
		for _, p := range pr {
			served[[2]int{p, po}] = true
		}
	}
	switch a.What {
	case "svc1", "svc2":
		sv := a.Svcs[map[string]int{"svc1": 0, "svc2": 1}[a.What]]
		pr, po := svcKeys(sv)
		q.qproto, q.lport = pr[rng.Intn(len(pr))], po
	default: // a protocol/port pair no service has
		q.qproto, q.lport = 6, 39999
		for try := 0; try < 64; try++ {
			var pr, po int
			if len(a.Svcs) > 0 && rng.Intn(5) < 2 {
				// the port of a service under another protocol
				_, po = svcKeys(a.Svcs[rng.Intn(len(a.Svcs))])
				pr = []int{6, 17, 58, 47, 132}[rng.Intn(5)]
			} else {
				pr = []int{6, 17, 6, 17, 58, 47, rng.Intn(256)}[rng.Intn(7)]
				po = []int{1, 53, 80, 443, 8080, 1024 + rng.Intn(60000)}[rng.Intn(6)]
			}
			if pr != 6 && pr != 17 {
				po = 0
			}
			if !served[[2]int{pr, po}] {
				q.qproto, q.lport = pr, po
				break
			}
		}
	}
	if q.qproto == 6 || q.qproto == 17 {
		q.rport = 1024 + rng.Intn(64000)
	} else {
		q.lport, q.rport = 0, 0
	}
	// whose addresses the quoted header carries: mostly what a genuine error message about a packet of the local host
	// would carry, sometimes the other way round or with a third router
	others := []string{}
	for _, n := range []string{"f1", "f2", "o1", "o2"} {
		if n != a.Who {
			others = append(others, n)
		}
	}
	switch r := rng.Intn(100); {
	case r < 64:
		q.dir = "mine-to-sender"
	case r < 76:
		q.dir = "sender-to-mine"
	case r < 88:
		q.dir, q.third = "mine-to-third", others[rng.Intn(len(others))]
	default:
		q.dir, q.third = "third-to-mine", others[rng.Intn(len(others))]
	}
	// length: mostly the quoted header and at least the ports; sometimes cut short
	if rng.Intn(100) < 82 {
		q.total = []int{92, 92, 96, 100, 108, 128, 200, 576, 1232, 1280}[rng.Intn(10)]
	} else {
		q.total = []int{48, 56, 64, 88, 90, 91}[rng.Intn(6)]
	}
	return q
}

// quoted builds the first n bytes of the packet the message claims to report on.
func (s *scene) quoted(a act, q quoteCase, n int) []byte {
	me, snd := s.me.ID.IP, s.node(a.Who).ID.IP
	var qp []byte
	switch q.dir {
	case "mine-to-sender":
		qp = packet(me, snd, q.qproto, q.lport, q.rport)
	case "sender-to-mine":
		qp = packet(snd, me, q.qproto, q.rport, q.lport)
	case "mine-to-third":
		qp = packet(me, s.node(q.third).ID.IP, q.qproto, q.lport, q.rport)
	default:
		qp = packet(s.node(q.third).ID.IP, me, q.qproto, q.rport, q.lport)
	}
	if q.qproto == 58 {
		qp[40], qp[41] = 128, 0 // an echo request
	}
	fr := rand.New(rand.NewSource(q.fill))
	for i := 44; i < len(qp); i++ {
		qp[i] = byte(fr.Intn(256))
	}
	for len(qp) < n {
		qp = append(qp, byte(fr.Intn(256)))
	}
	orig := 1240 // payload length of the packet that is said to have been too big / unreachable
	if q.typ != 2 {
		orig = 24 + fr.Intn(1200)
	}
	qp[4], qp[5] = byte(orig>>8), byte(orig)
	return qp[:n]
}

// icmpMessage builds the IPv6 packet src -> dst carrying the ICMPv6 message of q around the quoted bytes.
func icmpMessage(src, dst netip.Addr, q quoteCase, quoted []byte) []byte {
	p := make([]byte, 48+len(quoted))
	p[0] = 6 << 4
	p[4], p[5] = byte((len(p)-40)>>8), byte(len(p)-40)
	p[6] = 58
	p[7] = 64
	a, b := src.As16(), dst.As16()
	copy(p[8:24], a[:])
	copy(p[24:40], b[:])
	p[40], p[41] = byte(q.typ), byte(q.code)
	p[44], p[45], p[46], p[47] = byte(q.word>>24), byte(q.word>>16), byte(q.word>>8), byte(q.word)
	copy(p[48:], quoted)
	// checksum over the pseudo header (addresses, upper-layer length, next header 58) and the message
	var sum uint32
	add := func(bs []byte) {
		for i := 0; i+1 < len(bs); i += 2 {
			sum += uint32(bs[i])<<8 | uint32(bs[i+1])
		}
		if len(bs)%2 == 1 {
			sum += uint32(bs[len(bs)-1]) << 8
		}
	}
	add(p[8:40])
	sum += uint32(len(p) - 40)
	sum += 58
	add(p[40:])
	for sum>>16 != 0 {
		sum = sum&0xFFFF + sum>>16
	}
	ck := ^uint16(sum)
	p[42], p[43] = byte(ck>>8), byte(ck)
	return p
}

// icmpCase plays the history of the case, then lets the sender deliver the message (correctly sealed by its own
// session, inner addresses equal to the frame's). pinged reports whether the local host had sent an ICMPv6 packet to
// the sender before - the one history that, by the established-flow reading, admits ICMPv6 from it without a service.
func (s *scene) icmpCase(a act, q quoteCase) (toTun, panicked, pinged bool) {
	sender := s.node(a.Who)
	switch a.Hist {
	case "opened":
		// the local host really sent the packet the message will quote
		_ = world.WorkerCtx(func(w *mgr.WorkerCtx) {
			pk := packet(s.me.ID.IP, sender.ID.IP, q.qproto, q.lport, q.rport)
			if q.qproto == 58 {
				pk[40], pk[41] = 128, 0
				pinged = true
			}
			buf := s.me.Builder.GetPooledSlice(len(pk))
			copy(buf, pk)
			s.me.Rt.VerifHandleTunPacket(w, buf[:len(pk)])
		})
		s.ms.W.Inflight = nil
		for len(s.me.Tun.SendRaw) > 0 {
			<-s.me.Tun.SendRaw
		}
	case "seen":
		// the sender really sent the packet the quote mirrors; the router admitted or refused it as the policy says
		s.sport = q.rport
		_, p := s.inbound(act{Who: a.Who, Proto: q.qproto, Dport: q.lport, Variant: "ok"})
		s.sport = 0
		panicked = panicked || p
	case "pinged":
		pinged = true
	}
	n := q.total - 48
	if n < 0 {
		n = 0
	}
	qb := s.quoted(a, q, n)
	s.wrap = func(pk []byte) []byte {
		src, _ := netip.AddrFromSlice(pk[8:24])
		dst, _ := netip.AddrFromSlice(pk[24:40])
		return icmpMessage(src, dst, q, qb)
	}
	t, p := s.inbound(act{Who: a.Who, Proto: 58, Dport: 0, Variant: "ok", Flow: a.Hist == "pinged"})
	s.wrap = nil
	return t, panicked || p, pinged
}
