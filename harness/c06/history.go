// Delivery histories of ONE admitted flow (stage D).
//
// Every inbound frame of the packet cases is fresh: sealed, delivered once, in the order it was sealed. The first clause
// of the property - a packet is handed to the local interface "only if it came in a frame that unsealed under the
// sender's session" - is only exercised there by frames nobody or somebody else sealed. A frame also fails to unseal
// when the replay protection of the session refuses it: the recorded wire bytes of a genuine traffic frame of an
// admitted sender delivered a second time - at once, within the 64-frame window, or after the sender has moved on by
// more than the window / by hundreds of frames (when the receiver can no longer tell whether it has seen the number
// before). Its content is valid and decryptable, the policy admits it - and it must not reach the interface again.
//
// This stage takes genuine packet cases of the model (CaseIn, variant "ok": configuration x sender x protocol x port,
// with and without a flow the local host opened) as templates, one per kind of admission (public / friends / listed
// service, established return flow, and refused senders as a control), and plays a delivery history per template on
// a real router: bursts of fresh frames (some held back and released later: reordering inside and far behind the
// window), recorded frames delivered again at chosen distances (0, 1..64, around the edge of the window, beyond,
// hundreds behind, the very first frame, a frame that was replayed before; over the sender's link or another
// neighbour's), interleaved with fresh frames. Every delivery is an event of variant "history" for the same judge
// (TrafficPolicy_Trace): the policy verdict of the case as before, plus `handed` (an earlier delivery of this very
// frame was handed to the interface), `again` (number of earlier deliveries) and `late` (a frame sealed after it had
// been delivered before it).
package main

import (
	"bytes"
	"fmt"
	"math/rand"

	"github.com/mycoria/mycoria/frame"
	"github.com/mycoria/mycoria/mgr"

	"verifharness/internal/vf"
	"verifharness/internal/world"
)

// histLabel names the kind of admission a template stands for. It is used ONLY to spread the histories over the kinds
// (and to name them for the reader), never for a verdict.
func histLabel(a act) string {
	if a.Flow {
		if a.Isolate {
			return "flow-isolate"
		}
		return "flow"
	}
	if !a.ToTun {
		return "refused"
	}
	ep := a.Dport
	if a.Proto != 6 && a.Proto != 17 {
		ep = 0
	}
	for _, sv := range a.Svcs {
		pr, po := svcKeys(sv)
		for _, p := range pr {
			if p == a.Proto && po == ep {
				return sv.Access
			}
		}
	}
	return "other"
}

var histLabels = []string{"public", "friends", "for-f1-name", "for-f2-ip", "for-o1-ip", "flow", "flow-isolate", "refused"}

type hframe struct {
	data       []byte // the sealed frame as it went over the wire
	pk         []byte // the packet inside
	deliveries int
	handed     bool
	replayed   bool
}

// sealTraffic seals pk as a traffic frame of sender for the local router and returns the wire bytes.
func (s *scene) sealTraffic(sender *world.Node, pk []byte) ([]byte, error) {
	f, err := sender.Builder.NewFrameV1(sender.ID.IP, s.me.ID.IP, frame.NetworkTraffic, nil, pk, nil)
	if err != nil {
		return nil, err
	}
	defer f.ReturnToPool()
	if err := f.Seal(sender.St.GetSession(s.me.ID.IP)); err != nil {
		return nil, err
	}
	raw, err := f.FrameDataWithMargins(0, 0)
	if err != nil {
		return nil, err
	}
	return append([]byte(nil), raw...), nil
}

// deliverBytes delivers wire bytes to the local router over its link from `via` through the real switch handler and
// router worker; reports what reached the tun channel.
func (s *scene) deliverBytes(via *world.Node, data []byte) (toTun bool, got []byte, panicked bool, herr string, err error) {
	res, err := s.ms.W.DeliverRaw(via, s.me, data)
	for _, h := range res {
		if h.Panic {
			panicked = true
		}
		if e := h.HandlerErr(); e != "" {
			herr = e
		}
	}
	for {
		select {
		case fr := <-s.me.Tun.SendFrame:
			toTun = true
			got = append([]byte(nil), fr.MessageData()...)
			continue
		default:
		}
		break
	}
	s.ms.W.Inflight = nil
	return
}

// openFlow lets the local host send the first packet of a flow to sender (local port lport, remote port rport).
func (s *scene) openFlow(sender *world.Node, proto, lport, rport int) {
	if proto != 6 && proto != 17 {
		lport, rport = 0, 0
	}
	_ = world.WorkerCtx(func(w *mgr.WorkerCtx) {
		pk := packet(s.me.ID.IP, sender.ID.IP, proto, lport, rport)
		buf := s.me.Builder.GetPooledSlice(len(pk))
		copy(buf, pk)
		s.me.Rt.VerifHandleTunPacket(w, buf[:len(pk)])
	})
	s.ms.W.Inflight = nil
	for len(s.me.Tun.SendRaw) > 0 {
		<-s.me.Tun.SendRaw
	}
}

type histStats struct {
	histories, deliveries, handed         int
	again0, again1, again64, againBeyond  int // redeliveries of a frame handed on before: at once, 1..64 behind, more than 64 behind
	againFar, lateInside, lateBeyond      int
	freshAfterReplay, freshAfterReplayHOn int
	byLabel                               map[string]int
}

// runHistory plays one delivery history of template t (deterministic in hseed) and returns its events.
func runHistory(t act, label string, hseed int64, budget int, st *histStats) (evs []any, err error) {
	rng := rand.New(rand.NewSource(hseed))
	svcs := t.Svcs
	if svcs == nil {
		svcs = []svc{}
	}
	s, err := newScene(svcs, t.Isolate, t.Friends)
	if err != nil {
		return nil, fmt.Errorf("the configuration %v of a model case is refused: %w", svcs, err)
	}
	sender := s.node(t.Who)
	// remote ports of the flow(s): a few, so that the connection cache is hit and missed
	rports := []int{40000}
	for n := rng.Intn(3); n > 0; n-- {
		rports = append(rports, 1024+rng.Intn(64000))
	}
	if t.Flow {
		for _, rp := range rports {
			s.openFlow(sender, t.Proto, t.Dport, rp)
		}
	}
	others := []*world.Node{}
	for _, n := range []string{"f1", "f2", "o1", "o2"} {
		if n != t.Who {
			others = append(others, s.node(n))
		}
	}

	var frames []*hframe
	newest := -1 // the last-sealed frame that has been delivered
	var held []int
	sawReplay := false

	deliver := func(idx int, via *world.Node, note string) {
		if err != nil {
			return
		}
		f := frames[idx]
		toTun, got, panicked, herr, derr := s.deliverBytes(via, f.data)
		if derr != nil {
			err = fmt.Errorf("delivery of frame %d failed: %w", idx, derr)
			return
		}
		behind := 0
		if newest > idx {
			behind = newest - idx
		}
		ev := map[string]any{"ev": "in", "svcs": svcs, "isolate": t.Isolate, "who": t.Who, "proto": t.Proto, "dport": t.Dport,
			"variant": "history", "flow": t.Flow, "friends": t.Friends, "totun": toTun, "panic": panicked,
			"again": f.deliveries, "handed": f.handed, "late": idx < newest, "behind": behind,
			"admission": label, "hseed": fmt.Sprint(hseed), "step": len(evs), "frame": idx, "sealed": len(frames),
			"via": via.Name, "note": note, "router": herr, "budget": budget}
		if toTun && !bytes.Equal(got, f.pk) {
			ev["other_bytes"] = true // for the reader; the property does not speak about the bytes
		}
		evs = append(evs, ev)
		if st != nil {
			st.deliveries++
			if toTun {
				st.handed++
			}
			switch {
			case f.deliveries > 0 && f.handed:
				switch {
				case behind == 0:
					st.again0++
				case behind <= 64:
					st.again1++
				default:
					st.againBeyond++
					if behind > 200 {
						st.againFar++
					}
				}
				if behind == 64 || behind == 65 {
					st.again64++
				}
			case f.deliveries == 0 && idx < newest && behind <= 64:
				st.lateInside++
			case f.deliveries == 0 && idx < newest:
				st.lateBeyond++
			case f.deliveries == 0 && sawReplay:
				st.freshAfterReplay++
				if toTun {
					st.freshAfterReplayHOn++
				}
			}
		}
		if f.deliveries > 0 {
			sawReplay = true
			f.replayed = true
		}
		f.deliveries++
		if toTun {
			f.handed = true
		}
		if idx > newest {
			newest = idx
		}
		for i, h := range held {
			if h == idx {
				held = append(held[:i:i], held[i+1:]...)
				break
			}
		}
	}
	fresh := func(hold bool, note string) {
		if err != nil {
			return
		}
		idx := len(frames)
		rp := rports[rng.Intn(len(rports))]
		if !t.Flow && rng.Intn(12) == 0 {
			rp = 1024 + rng.Intn(64000) // a connection the router has not seen
		}
		pk := packet(sender.ID.IP, s.me.ID.IP, t.Proto, rp, t.Dport)
		pk[44], pk[45], pk[46], pk[47] = byte(idx>>24), byte(idx>>16), byte(idx>>8), byte(idx)
		for i := 48; i < len(pk); i++ {
			pk[i] = byte(rng.Intn(256))
		}
		data, serr := s.sealTraffic(sender, pk)
		if serr != nil {
			err = fmt.Errorf("sealing frame %d failed: %w", idx, serr)
			return
		}
		frames = append(frames, &hframe{data: data, pk: pk})
		if hold {
			held = append(held, idx)
			return
		}
		deliver(idx, sender, note)
	}
	// pickTarget chooses a recorded frame by its distance behind the newest delivered one
	pickTarget := func() (int, string) {
		var d int
		var note string
		switch c := rng.Intn(12); {
		case c < 2:
			d, note = 0, "the newest frame again"
		case c < 4:
			d, note = 1+rng.Intn(64), "a frame inside the window again"
		case c < 6:
			d, note = 62+rng.Intn(6), "a frame at the edge of the window again"
		case c < 8:
			d = 65
			if newest > 65 {
				d += rng.Intn(newest - 64)
			}
			note = "a frame behind the window again"
		case c < 9:
			d, note = newest-rng.Intn(3), "one of the first frames again"
		case c < 10:
			d, note = 200+rng.Intn(400), "a frame hundreds behind again"
		default:
			var rep []int
			for i, f := range frames {
				if f.replayed {
					rep = append(rep, i)
				}
			}
			if len(rep) > 0 {
				return rep[rng.Intn(len(rep))], "a frame that was delivered twice before, once more"
			}
			d, note = rng.Intn(newest+1), "some recorded frame again"
		}
		idx := newest - d
		if idx < 0 {
			idx = 0
		}
		if idx > newest {
			idx = newest
		}
		return idx, note
	}
	redeliver := func() {
		if newest < 0 || err != nil {
			return
		}
		idx, note := pickTarget()
		via := sender
		if rng.Intn(4) == 0 {
			via = others[rng.Intn(len(others))]
			note += " (arriving over the link of another neighbour)"
		}
		if frames[idx].deliveries == 0 {
			note = "a frame that was held back"
			via = sender
		}
		deliver(idx, via, note)
		if rng.Intn(3) == 0 {
			deliver(idx, via, note+", and again")
		}
	}
	release := func() {
		if len(held) == 0 || err != nil {
			return
		}
		deliver(held[rng.Intn(len(held))], sender, "a frame that was held back")
	}

	bursts := []int{1, 2, 3, 5, 8, 13, 30, 62, 63, 64, 65, 66, 67, 70, 90, 130, 200, 300}
	holdP := []float64{0, 0, 0.03, 0.1, 0.25}[rng.Intn(5)]
	nph := 2 + rng.Intn(3)
	for ph := 0; ph < nph && len(frames) < budget && err == nil; ph++ {
		n := bursts[rng.Intn(len(bursts))]
		if ph == 1 && len(frames) < 70 && rng.Intn(4) != 0 {
			n = 66 + rng.Intn(200) // most histories move on by more than the window
		}
		for i := 0; i < n && len(frames) < budget && err == nil; i++ {
			fresh(rng.Float64() < holdP, "fresh")
			if rng.Intn(40) == 0 {
				release()
			}
			if rng.Intn(50) == 0 {
				redeliver()
			}
		}
		for k := 1 + rng.Intn(6); k > 0 && err == nil; k-- {
			redeliver()
			if rng.Intn(2) == 0 {
				fresh(false, "fresh, after recorded frames were delivered again")
			}
		}
	}
	// the frames still held back arrive in the end (inside the window or far behind), then the first, a random and the
	// newest frame once more, and a fresh one
	for len(held) > 0 && err == nil {
		release()
	}
	if newest >= 0 && err == nil {
		deliver(0, sender, "the first frame again, in the end")
		deliver(rng.Intn(newest+1), sender, "some recorded frame again, in the end")
		deliver(newest, sender, "the newest frame again, in the end")
		fresh(false, "fresh, in the end")
	}
	if st != nil {
		st.histories++
		st.byLabel[label]++
	}
	return evs, err
}

// deliveryHistories runs stage D and returns its events.
func deliveryHistories(c *vf.Ctx, templates []act) []any {
	buckets := map[string][]act{}
	for _, a := range templates {
		l := histLabel(a)
		buckets[l] = append(buckets[l], a)
	}
	for _, l := range histLabels {
		if len(buckets[l]) == 0 {
			c.Broken("D: the model has no genuine packet case of kind %q to build a delivery history from", l)
			return nil
		}
	}
	rng := rand.New(rand.NewSource(c.Seed*104729 + 606)) // a stream of its own
	st := &histStats{byLabel: map[string]int{}}
	n := c.Pick(120, 1200)
	budget := c.Pick(450, 1500)
	var events []any
	for h := 0; h < n; h++ {
		label := histLabels[h%len(histLabels)]
		if label == "refused" && h%(3*len(histLabels)) != len(histLabels)-1 {
			label = histLabels[rng.Intn(5)] // refused senders are a control: every third round
		}
		b := buckets[label]
		t := b[rng.Intn(len(b))]
		hseed := rng.Int63n(1 << 40)
		evs, err := runHistory(t, label, hseed, budget, st)
		if err != nil {
			c.Broken("D: history %d (%s, seed %d): %v", h, label, hseed, err)
			return nil
		}
		events = append(events, evs...)
		c.Eval(len(evs))
		c.Distinct(fmt.Sprintf("history|%s|%v|%d", label, t, hseed))
		if h == 0 && len(evs) > 0 {
			c.Sample(map[string]any{"delivery_history": label, "template": t, "deliveries": len(evs), "last": evs[len(evs)-1]})
		}
	}
	c.Extra("delivery_histories", map[string]any{"histories": st.histories, "deliveries": st.deliveries, "handed_to_interface": st.handed,
		"handed_frame_again_at_once": st.again0, "handed_frame_again_inside_window": st.again1, "handed_frame_again_at_window_edge": st.again64,
		"handed_frame_again_behind_window": st.againBeyond, "handed_frame_again_hundreds_behind": st.againFar,
		"held_back_inside_window": st.lateInside, "held_back_behind_window": st.lateBeyond,
		"fresh_after_redelivery": st.freshAfterReplay, "fresh_after_redelivery_handed": st.freshAfterReplayHOn, "by_admission": st.byLabel})
	c.Logf("D: %d delivery histories, %d deliveries (%d handed to the interface); frames handed on before delivered again: %d at once, %d inside the window, %d behind it (%d by hundreds); held back: %d inside, %d behind; fresh after a redelivery: %d (%d handed on)",
		st.histories, st.deliveries, st.handed, st.again0, st.again1, st.againBeyond, st.againFar, st.lateInside, st.lateBeyond, st.freshAfterReplay, st.freshAfterReplayHOn)
	if st.again0 == 0 || st.again1 == 0 || st.againBeyond == 0 || st.againFar == 0 || st.lateInside == 0 || st.freshAfterReplayHOn == 0 {
		c.Broken("D: the delivery histories lack a kind of delivery (see the counts above) - the stage is vacuous")
	}
	return events
}

// reproduceHistory plays the history of a rejected event again and reports whether the same delivery has the same outcome.
func reproduceHistory(templates []act, ev map[string]any) bool {
	var hseed int64
	if _, err := fmt.Sscan(fmt.Sprint(ev["hseed"]), &hseed); err != nil {
		return false
	}
	step, _ := ev["step"].(int)
	budget, _ := ev["budget"].(int)
	for _, t := range templates {
		if t.Who != ev["who"] || t.Proto != ev["proto"] || t.Dport != ev["dport"] || t.Flow != ev["flow"] || t.Isolate != ev["isolate"] ||
			t.Friends != ev["friends"] || fmt.Sprint(t.Svcs) != fmt.Sprint(ev["svcs"]) {
			continue
		}
		evs, err := runHistory(t, fmt.Sprint(ev["admission"]), hseed, budget, nil)
		if err != nil || step >= len(evs) {
			return false
		}
		e := evs[step].(map[string]any)
		return e["totun"] == ev["totun"] && e["frame"] == ev["frame"] && e["again"] == ev["again"] && e["handed"] == ev["handed"] && e["panic"] == ev["panic"]
	}
	return false
}
