// probe: PingPong retry with a pong arriving between getActive and setActive
package main

import (
	"fmt"

	"github.com/mycoria/mycoria/m"

	"verifharness/internal/mesh"
	"verifharness/internal/world"
)

func main() {
	world.InstallLogCapture()
	ms, err := mesh.New(2, []mesh.Edge{{A: 1, B: 2, LA: m.SwitchLabel(5), LB: m.SwitchLabel(6)}}, mesh.Opts{})
	if err != nil {
		panic(err)
	}
	for i := 1; i <= 2; i++ {
		ms.Announce(i, true)
	}
	ms.W.RunUntilQuiet(func(k int) int { return 0 }, 10000)
	A, B := ms.Node(1), ms.Node(2)
	// ping 1
	_, id, err := A.Rt.PingPong.Send(B.ID.IP, true, 0)
	fmt.Println("send1", id, err, ms.W.NInflight())
	// deliver ping 1 to B -> pong 1 in flight (held back)
	fl := ms.W.Take(0)
	_, err = ms.W.Deliver(fl)
	fmt.Println("deliver ping1", err, ms.W.NInflight())
	pong1 := ms.W.Take(0)
	// retry with the same id; while the request is handed to the link, pong 1 arrives
	done := false
	ms.W.OnSend = func(f *world.Flight) {
		if done || f.From != A {
			return
		}
		done = true
		_, e := ms.W.Deliver(pong1)
		fmt.Println("  pong1 delivered inside Send:", e)
	}
	n2, id2, err := A.Rt.PingPong.Send(B.ID.IP, true, id)
	ms.W.OnSend = nil
	fmt.Println("send2", id2, err, ms.W.NInflight())
	select {
	case <-n2:
		fmt.Println("notify of retry already closed")
	default:
	}
	// deliver ping 2 to B, then pong 2 to A
	fl = ms.W.Take(0)
	_, err = ms.W.Deliver(fl)
	fmt.Println("deliver ping2", err, ms.W.NInflight())
	fl = ms.W.Take(0)
	res, err := ms.W.Deliver(fl)
	fmt.Println("deliver pong2", err, res)
	fmt.Println("panics:", ms.W.Panics)
}
