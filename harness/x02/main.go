// x02 explores ConnTrack - the connection tracking of one router - beyond the listed properties (see
// internal/conntrack). Observations only.
package main

import (
	"verifharness/internal/conntrack"
	"verifharness/internal/vf"
)

func main() { vf.Main("X02", "model_checking", func(c *vf.Ctx) { conntrack.Run(c, false) }) }
