// Package mesh builds honest meshes of real router stacks over virtual links
// and decodes announcement frames for the drivers of C08, C09 and C10.
package mesh

import (
	"fmt"
	"net/netip"
	"sort"
	"sync"
	"time"

	"github.com/fxamacker/cbor/v2"

	"github.com/mycoria/mycoria/config"
	"github.com/mycoria/mycoria/frame"
	"github.com/mycoria/mycoria/m"
	"github.com/mycoria/mycoria/router"
	"github.com/mycoria/mycoria/storage"

	"verifharness/internal/world"
)

// Edge is an undirected link between nodes A and B (1-based ids) with the
// switch label each end uses for it.
type Edge struct {
	A, B   int
	LA, LB m.SwitchLabel
}

// Mesh is a world whose node i+1 is Nodes[i]; identities are sorted so that
// the order of node ids equals the order of addresses (the routing table
// breaks ties by relay address).
type Mesh struct {
	W     *world.World
	Nodes []*world.Node
	Edges []Edge
	idOf  map[netip.Addr]int
}

var (
	poolMu sync.Mutex
	pool   []*m.Address
)

// Identities returns n pooled routable identities in ascending address order.
func Identities(n int) []*m.Address {
	poolMu.Lock()
	defer poolMu.Unlock()
	for len(pool) < n {
		pool = append(pool, world.NewIdentity(world.EuropePrefix))
	}
	ids := append([]*m.Address(nil), pool[:n]...)
	sort.Slice(ids, func(i, j int) bool { return ids[i].IP.Compare(ids[j].IP) < 0 })
	return ids
}

// Opts configures a mesh.
type Opts struct {
	Cfg     func(i int) config.Store // per node config (1-based id); nil = empty
	Latency uint16
	WithTun func(i int) bool            // give node i a tun stand-in (traffic handling on)
	Extra   int                         // additional, unconnected nodes appended after the n mesh nodes
	IDs     []*m.Address                // identities of the nodes (default: the pooled identities of one continent)
	Store   func(i int) storage.Storage // router storage of node i (nil, or a nil result = the in-memory storage of /repo)
}

// New builds a mesh of n nodes with the given edges.
func New(n int, edges []Edge, o Opts) (*Mesh, error) {
	world.InstallLogCapture()
	ms := &Mesh{W: world.NewWorld(), Edges: edges, idOf: map[netip.Addr]int{}}
	ids := o.IDs
	if len(ids) < n+o.Extra {
		ids = Identities(n + o.Extra)
	}
	for i := 0; i < n+o.Extra; i++ {
		var cfg config.Store
		if o.Cfg != nil {
			cfg = o.Cfg(i + 1)
		}
		var st storage.Storage
		if o.Store != nil {
			st = o.Store(i + 1)
		}
		nd := ms.W.NewNode(fmt.Sprintf("n%d", i+1), world.NodeOpts{Cfg: cfg, ID: ids[i], WithTun: o.WithTun != nil && o.WithTun(i+1), Store: st})
		ms.Nodes = append(ms.Nodes, nd)
		ms.idOf[nd.ID.IP] = i + 1
	}
	lat := o.Latency
	if lat == 0 {
		lat = 5
	}
	// the labels of one router's links must differ (AddLink refuses a label that is in use): bump duplicates
	used := map[int]map[m.SwitchLabel]bool{}
	take := func(n int, l m.SwitchLabel) m.SwitchLabel {
		if used[n] == nil {
			used[n] = map[m.SwitchLabel]bool{}
		}
		for used[n][l] || l == 0 {
			l++
		}
		used[n][l] = true
		return l
	}
	edges = append([]Edge(nil), edges...)
	for i := range edges {
		edges[i].LA = take(edges[i].A, edges[i].LA)
		edges[i].LB = take(edges[i].B, edges[i].LB)
	}
	ms.Edges = edges
	for _, e := range edges {
		if _, _, err := ms.W.Connect(ms.Nodes[e.A-1], ms.Nodes[e.B-1], e.LA, e.LB, lat); err != nil {
			return nil, err
		}
	}
	return ms, nil
}

// ID returns the node id (1-based) of an address, 0 if unknown.
func (ms *Mesh) ID(a netip.Addr) int { return ms.idOf[a] }

// Node returns node id (1-based).
func (ms *Mesh) Node(id int) *world.Node { return ms.Nodes[id-1] }

// Ann is a decoded announcement frame.
type Ann struct {
	Origin  int
	Stamp   int64 // sequence time in ms
	Hops    []int // forwarder ids, outermost (most recent) first
	Records []router.AnnouncePingAttachment
	RawRecs [][]byte // record bytes incl. signature, outermost first
	Msg     router.AnnouncePingMsg
	TTL     uint8
	IsAnn   bool
	Type    frame.MessageType
	PingTyp string
}

// Decode parses a serialised frame; IsAnn is false for anything that is not
// an announcement.
func (ms *Mesh) Decode(data []byte) (a Ann, err error) {
	b := frame.NewFrameBuilder()
	f, err := b.ParseFrame(append([]byte(nil), data...), nil, 0)
	if err != nil {
		return a, err
	}
	a.Type = f.MessageType()
	a.TTL = f.TTL()
	a.Origin = ms.ID(f.SrcIP())
	md := f.MessageData()
	if f.MessageType().IsEncrypted() || len(md) < 3 || len(md) < 2+int(md[1]) {
		return a, nil
	}
	var hdr router.PingHeader
	if cbor.Unmarshal(md[2:2+int(md[1])], &hdr) != nil {
		return a, nil
	}
	a.PingTyp = hdr.PingType
	if hdr.PingType != "announce" {
		return a, nil
	}
	a.IsAnn = true
	a.Stamp = f.SequenceTime().UnixMilli()
	_ = cbor.Unmarshal(md[2+int(md[1]):], &a.Msg)
	apx := f.AppendixData()
	for i := 0; i < 120 && len(apx) > 64; i++ {
		var at router.AnnouncePingAttachment
		if cbor.Unmarshal(apx[:len(apx)-64], &at) != nil {
			break
		}
		a.Records = append(a.Records, at)
		a.RawRecs = append(a.RawRecs, append([]byte(nil), apx...))
		a.Hops = append(a.Hops, ms.ID(at.Router.IP))
		apx = at.NextAttachment
	}
	return a, nil
}

// AnnounceAll lets node id send one announcement per link (what the router's
// announce worker does every interval), spaced so that the raw-signed
// timestamps differ. It returns the stamps in sending order.
func (ms *Mesh) Announce(id int, perLink bool) {
	n := ms.Node(id)
	links := n.Peer.GetLinks()
	for i, l := range links {
		if i > 0 && !perLink {
			break
		}
		time.Sleep(2 * time.Millisecond)
		_ = n.Rt.AnnouncePing.Send(l.Peer())
	}
}

// Route is the projection of one routing table entry.
type Route struct {
	Dst    int   `json:"dst"`
	Nh     int   `json:"nh"`
	Path   []int `json:"path"`   // routers from this node to dst (empty for a link-only peer route)
	Labels []int `json:"labels"` // forward labels of path[0..n-2]
	Walk   []int `json:"walk"`   // routers visited when the labels are followed through the real label lookups
	Peer   bool  `json:"peer"`
}

// Table projects the routing table of node id.
func (ms *Mesh) Table(id int) []Route {
	var out []Route
	for _, e := range ms.Node(id).RoutingTable().VerifEntries() {
		r := Route{Dst: ms.ID(e.DstIP), Nh: ms.ID(e.NextHop), Peer: e.Source == m.RouteSourcePeer, Path: []int{}, Labels: []int{}}
		for i, h := range e.Path.Hops {
			r.Path = append(r.Path, ms.ID(h.Router))
			if i < len(e.Path.Hops)-1 {
				r.Labels = append(r.Labels, int(h.ForwardLabel))
			}
		}
		// follow the forward labels over the real links
		r.Walk = []int{id}
		cur := ms.Node(id)
		for _, lb := range r.Labels {
			l := cur.Peer.GetLinkByLabel(m.SwitchLabel(lb))
			if l == nil {
				break
			}
			nx := ms.W.NodeByIP(l.Peer())
			if nx == nil {
				break
			}
			r.Walk = append(r.Walk, ms.ID(nx.ID.IP))
			cur = nx
		}
		out = append(out, r)
	}
	return out
}

// Topo returns the topology event of this mesh for trace specs.
func (ms *Mesh) Topo() map[string]any {
	links := []map[string]any{}
	for _, e := range ms.Edges {
		links = append(links, map[string]any{"a": e.A, "b": e.B, "la": int(e.LA), "lb": int(e.LB)})
	}
	stubs := []int{}
	for i, n := range ms.Nodes {
		if n.Cfg.Router.Stub {
			stubs = append(stubs, i+1)
		}
	}
	return map[string]any{"ev": "topo", "n": len(ms.Nodes), "links": links, "stubs": stubs}
}
