// x02 explores ConnTrack - the connection tracking of one router (router/connections.go, the policy half of
// router/tun.go and router/traffic.go, router/ping_error.go) - beyond the listed properties.
//
// M: TLC checks ConnTrack exhaustively on two small shapes x isolation on/off (PolicyHolds, EntriesSound,
// ErrScoped, OnlyNamed, NeverBetter) and refutes three questions (Q1 DeniedOnlyByDst, Q2 Recovers, Q3
// OutFollowsPolicy); each counterexample is a behaviour of the MODEL only until it is executed.
// R: simulation walks over seven 5-tuples and the three counterexamples are executed on a real router stack:
// local packets through handleTunPacket, packets from the mesh sealed by the real remote router, error pings
// produced by the real ErrorPingHandler of the sending router, time moved with the VerifAge hook, the real cleaner.
// T: after every step the real table (verdict, age class, direction flag per 5-tuple) is logged and TLC
// validates the log against ConnTrack_Trace (the unlogged cool-down state is inferred).
// Run(c, false) is the exploration X02: observations only, nothing decides a listed property.
// Run(c, true) is a stage of C06: the same behaviours (with hello exchanges in between) are executed and what the
// local host and the mesh SAW - a local packet entering the mesh, a packet handed to the local interface - is judged
// by TLC against the traffic policy over the whole history (ConnTrackPolicy_Trace); the table-level validation
// (ConnTrack_Trace) is reported as implementation-level drift there.
package conntrack

import (
	"fmt"
	"math/rand"
	"net/netip"
	"path/filepath"
	"sort"
	"time"

	"github.com/mycoria/mycoria/config"
	"github.com/mycoria/mycoria/frame"
	"github.com/mycoria/mycoria/mgr"

	"verifharness/internal/mesh"
	"verifharness/internal/vf"
	"verifharness/internal/world"
)

type key struct {
	R   int
	S   string
	LP  int
	Dir string
}

var outKeys = []key{{1, "t80", 1, "out"}, {1, "t80", 2, "out"}, {1, "t81", 1, "out"}, {1, "ic", 0, "out"}, {2, "t80", 1, "out"}}
var inKeys = []key{{1, "t80", 0, "in"}, {2, "t81", 0, "in"}}

func svcProtoPort(s string) (proto, port int) {
	switch s {
	case "t80":
		return 6, 80
	case "t81":
		return 6, 81
	}
	return 58, 0
}

type scene struct {
	ms      *mesh.Mesh
	me      *world.Node
	isolate bool
	helloN  int
}

// node index of remote r: remote 1 = node 2, remote 2 = node 3
func (s *scene) remote(r int) *world.Node { return s.ms.Node(r + 1) }

func newScene(isolate bool) (*scene, error) {
	ids := mesh.Identities(3)
	st := config.Store{}
	st.Router.Listen = []string{"tcp:47369"}
	st.Router.Isolate = isolate
	st.FriendConfigs = []config.FriendConfig{{Name: "bob", IP: ids[2].IP.String()}} // remote 2 is the friend
	st.ServiceConfigs = []config.ServiceConfig{{Name: "web", URL: "tcp://:80", Public: true}}
	st.Router.Address = ids[0].Store()
	if _, err := st.Parse(); err != nil {
		return nil, err
	}
	st.Router.Address = config.Store{}.Router.Address
	edges := []mesh.Edge{{A: 1, B: 2, LA: 21, LB: 12}, {A: 1, B: 3, LA: 31, LB: 13}, {A: 2, B: 3, LA: 32, LB: 23}}
	ms, err := mesh.New(3, edges, mesh.Opts{WithTun: func(i int) bool { return i == 1 }, Cfg: func(i int) config.Store {
		if i == 1 {
			return st
		}
		return config.Store{}
	}})
	if err != nil {
		return nil, err
	}
	s := &scene{ms: ms, me: ms.Node(1), isolate: isolate}
	for n := 2; n <= 3; n++ {
		x := ms.Node(n)
		sv, sx := s.me.St.GetSession(x.ID.IP), x.St.GetSession(s.me.ID.IP)
		kx, kxt, _ := sx.Encryption().InitKeyClientStart()
		rk, rkt, _ := sv.Encryption().InitKeyServer(kx, kxt)
		_ = sx.Encryption().InitKeyClientComplete(rk, rkt)
	}
	return s, nil
}

func packet(src, dst netip.Addr, proto int, sport, dport int) []byte {
	p := make([]byte, 64)
	p[0] = 6 << 4
	p[5] = 24
	p[6] = byte(proto)
	p[7] = 64
	a, b := src.As16(), dst.As16()
	copy(p[8:24], a[:])
	copy(p[24:40], b[:])
	p[40], p[41] = byte(sport>>8), byte(sport)
	p[42], p[43] = byte(dport>>8), byte(dport)
	return p
}

func (s *scene) drainTun() (frames, raws int) {
	for {
		select {
		case <-s.me.Tun.SendFrame:
			frames++
			continue
		case <-s.me.Tun.SendRaw:
			raws++
			continue
		default:
		}
		return
	}
}

// out: the local host sends one packet on 5-tuple k. Returns whether a frame left for the mesh and whether an ICMP error came back.
func (s *scene) out(k key) (toMesh bool, icmp bool) {
	proto, port := svcProtoPort(k.S)
	sport := 0
	if proto != 58 {
		sport = 40000 + k.LP
	}
	s.ms.W.Inflight = nil
	_ = world.WorkerCtx(func(w *mgr.WorkerCtx) {
		pk := packet(s.me.ID.IP, s.remote(k.R).ID.IP, proto, sport, port)
		buf := s.me.Builder.GetPooledSlice(len(pk))
		copy(buf, pk)
		s.me.Rt.VerifHandleTunPacket(w, buf[:len(pk)])
	})
	toMesh = s.ms.W.NInflight() > 0
	s.ms.W.Inflight = nil // the network loses it: what comes back is an action of its own
	_, raws := s.drainTun()
	return toMesh, raws > 0
}

// in: remote k.R sends a packet: to a local service port (Dir "in") or mirroring the outbound 5-tuple k (Dir "out").
func (s *scene) in(k key) (toTun bool) {
	sender := s.remote(k.R)
	proto, port := svcProtoPort(k.S)
	sport, dport := 50000, port
	if k.Dir == "out" {
		sport, dport = port, 40000+k.LP
	}
	if proto == 58 {
		sport, dport = 0, 0
	}
	pk := packet(sender.ID.IP, s.me.ID.IP, proto, sport, dport)
	f, err := sender.Builder.NewFrameV1(sender.ID.IP, s.me.ID.IP, frame.NetworkTraffic, nil, pk, nil)
	if err != nil {
		panic(err)
	}
	if err := f.Seal(sender.St.GetSession(s.me.ID.IP)); err != nil {
		panic(err)
	}
	raw, _ := f.FrameDataWithMargins(0, 0)
	data := append([]byte(nil), raw...)
	f.ReturnToPool()
	_, _ = s.ms.W.DeliverRaw(sender, s.me, data)
	frames, _ := s.drainTun()
	s.ms.W.Inflight = nil // the access-denied ping the router may answer with is not delivered
	return frames > 0
}

// errPing: router `from` produces a real error ping about router r / service sv and it is delivered.
func (s *scene) errPing(from int, code string, r int, sv string) error {
	snd := s.remote(from)
	snd.Rt.VerifAge(11 * time.Second) // the sender's own 10 s cool-down per code is not the subject
	s.ms.W.Inflight = nil
	proto, port := svcProtoPort(sv)
	about := s.remote(r).ID.IP
	var err error
	switch code {
	case "unreachable":
		err = snd.Rt.ErrorPing.SendUnreachable(s.me.ID.IP, about)
	case "denied":
		err = snd.Rt.ErrorPing.SendAccessDenied(s.me.ID.IP, about, uint8(proto), uint16(port))
	case "rejected":
		err = snd.Rt.ErrorPing.SendRejected(s.me.ID.IP, about, uint8(proto), uint16(port))
	}
	if err != nil {
		return err
	}
	n := 0
	for s.ms.W.NInflight() > 0 {
		fl := s.ms.W.Take(0)
		if fl.To == s.me {
			if _, derr := s.ms.W.Deliver(fl); derr != nil {
				return fmt.Errorf("deliver: %w", derr)
			}
			n++
		}
	}
	if n == 0 {
		return fmt.Errorf("no error ping left router %d", from)
	}
	return nil
}

// hello: a complete end-to-end key set-up between this router and remote r, started by either side.
func (s *scene) hello(r int) error {
	x := s.remote(r)
	a, b := s.me, x
	if s.helloN++; s.helloN%2 == 0 {
		a, b = x, s.me
	}
	s.ms.W.Inflight = nil
	a.Rt.HelloPing.VerifExpire(b.ID.IP)
	b.Rt.HelloPing.VerifExpire(a.ID.IP)
	time.Sleep(2 * time.Millisecond)
	if _, err := a.Rt.HelloPing.Send(b.ID.IP); err != nil {
		return err
	}
	for k := 0; k < 20 && s.ms.W.NInflight() > 0; k++ {
		fl := s.ms.W.Take(0)
		if (fl.From == a && fl.To == b) || (fl.From == b && fl.To == a) {
			if _, err := s.ms.W.Deliver(fl); err != nil {
				return fmt.Errorf("deliver: %w", err)
			}
		}
	}
	sa, sb := a.St.GetSession(b.ID.IP), b.St.GetSession(a.ID.IP)
	if sa == nil || sb == nil || !sa.Encryption().IsSetUp() || !sb.Encryption().IsSetUp() {
		return fmt.Errorf("hello exchange with remote %d did not complete", r)
	}
	return nil
}

func ageClass(sec int64) int {
	switch {
	case sec <= 2:
		return 0
	case sec <= 9:
		return 1
	case sec <= 599:
		return 2
	}
	return 3
}

// table projects the real connection states onto the model's keys.
func (s *scene) table() ([]map[string]any, []string) {
	var out []map[string]any
	var foreign []string
	me := s.me.ID.IP
	for _, e := range s.me.Rt.VerifConnStates() {
		r := 0
		for i := 1; i <= 2; i++ {
			if e.RemoteIP == s.remote(i).ID.IP {
				r = i
			}
		}
		k := key{R: r}
		ok := r != 0 && e.LocalIP == me
		switch {
		case e.Protocol == 58 && e.LocalPort == 0 && e.RemotePort == 0:
			k.S, k.LP, k.Dir = "ic", 0, "out"
		case e.Protocol == 6 && (e.RemotePort == 80 || e.RemotePort == 81) && (e.LocalPort == 40001 || e.LocalPort == 40002):
			k.S, k.LP, k.Dir = fmt.Sprintf("t%d", e.RemotePort), int(e.LocalPort)-40000, "out"
		case e.Protocol == 6 && e.RemotePort == 50000 && (e.LocalPort == 80 || e.LocalPort == 81):
			k.S, k.LP, k.Dir = fmt.Sprintf("t%d", e.LocalPort), 0, "in"
		default:
			ok = false
		}
		if !ok {
			foreign = append(foreign, fmt.Sprintf("%+v", e))
			continue
		}
		st := map[string]string{"allowed": "allowed", "unreachable": "unreachable", "prohibited": "prohibited", "access denied": "denied", "rejected": "rejected"}[e.Status]
		if st == "" {
			st = "?" + e.Status
		}
		out = append(out, map[string]any{"r": k.R, "s": k.S, "lp": k.LP, "dir": k.Dir, "st": st, "age": ageClass(e.AgeSeconds), "inb": e.Inbound})
	}
	sort.Slice(out, func(i, j int) bool { return fmt.Sprint(out[i]) < fmt.Sprint(out[j]) })
	return out, foreign
}

func toInt(v any) int {
	switch x := v.(type) {
	case float64:
		return int(x)
	case int:
		return x
	case int64:
		return int(x)
	}
	return 0
}

type step struct {
	Name string
	K    key
	From int
	Code string
}

func stepOf(a map[string]any) (step, bool) {
	name, _ := a["name"].(string)
	st := step{Name: name}
	switch name {
	case "out":
		st.K = key{toInt(a["r"]), a["s"].(string), toInt(a["lp"]), "out"}
	case "in":
		st.K = key{toInt(a["r"]), a["s"].(string), toInt(a["lp"]), a["dir"].(string)}
	case "err":
		st.From, st.Code = toInt(a["from"]), a["code"].(string)
		st.K = key{R: toInt(a["r"]), S: a["s"].(string)}
	case "hello":
		st.K = key{R: toInt(a["r"])}
	case "tick", "jump", "clean", "heal":
	default:
		return st, false
	}
	return st, true
}

func (st step) String() string {
	switch st.Name {
	case "out", "in":
		return fmt.Sprintf("%s(%d,%s,%d,%s)", st.Name, st.K.R, st.K.S, st.K.LP, st.K.Dir)
	case "err":
		return fmt.Sprintf("err(from %d: %s about %d/%s)", st.From, st.Code, st.K.R, st.K.S)
	case "hello":
		return fmt.Sprintf("hello(%d)", st.K.R)
	}
	return st.Name
}

// exec runs one behaviour on a fresh scene and appends its events.
func exec(c *vf.Ctx, isolate bool, steps []step, events *[]any) (verdicts []string, err error) {
	s, err := newScene(isolate)
	if err != nil {
		return nil, err
	}
	*events = append(*events, map[string]any{"ev": "reset", "isolated": isolate})
	for _, st := range steps {
		ev := map[string]any{"ev": st.Name}
		verdict := ""
		switch st.Name {
		case "out":
			toMesh, icmp := s.out(st.K)
			ev["r"], ev["s"], ev["lp"], ev["dir"] = st.K.R, st.K.S, st.K.LP, "out"
			ev["tomesh"], ev["icmp"] = toMesh, icmp
			verdict = fmt.Sprintf("tomesh=%v icmp=%v", toMesh, icmp)
		case "in":
			toTun := s.in(st.K)
			ev["r"], ev["s"], ev["lp"], ev["dir"] = st.K.R, st.K.S, st.K.LP, st.K.Dir
			ev["totun"] = toTun
			verdict = fmt.Sprintf("totun=%v", toTun)
		case "err":
			if e := s.errPing(st.From, st.Code, st.K.R, st.K.S); e != nil {
				return verdicts, fmt.Errorf("%s: %w", st, e)
			}
			ev["from"], ev["code"], ev["r"], ev["s"] = st.From, st.Code, st.K.R, st.K.S
		case "hello":
			if e := s.hello(st.K.R); e != nil {
				return verdicts, fmt.Errorf("%s: %w", st, e)
			}
			ev["r"] = st.K.R
		case "tick":
			s.me.Rt.VerifAge(6 * time.Second)
		case "jump":
			s.me.Rt.VerifAge(601 * time.Second)
		case "clean":
			s.me.Rt.VerifCleanConnStates()
		case "heal":
		}
		tbl, foreign := s.table()
		if len(foreign) > 0 {
			return verdicts, fmt.Errorf("%s: entries outside the model's keys: %v", st, foreign)
		}
		ev["table"] = tbl
		if tbl == nil {
			ev["table"] = []map[string]any{}
		}
		*events = append(*events, ev)
		verdicts = append(verdicts, verdict)
		c.Eval(1)
	}
	if len(s.ms.W.Panics) > 0 {
		return verdicts, fmt.Errorf("worker panic: %v", s.ms.W.Panics[0])
	}
	return verdicts, nil
}

// Run executes the stage; policyVerdicts: see the package comment.
func Run(c *vf.Ctx, policyVerdicts bool) {
	if !policyVerdicts {
		c.Rule("M: TLC exhaustive on ConnTrack, shapes A (3 five-tuples of one remote) and B (2 remotes + a service), isolation off/on: PolicyHolds, EntriesSound, ErrScoped, OnlyNamed, NeverBetter; Q1 DeniedOnlyByDst, Q2 Recovers (liveness under fairness), Q3 OutFollowsPolicy must be refuted. R: simulation walks over 7 five-tuples, 2 error senders, 3 codes (quick 60 / thorough 1500 walks of depth 40) and the three counterexamples executed on a real router; T: the real table after every step validated by TLC against ConnTrack_Trace. Observations only.")
		c.Assume("time is moved with the VerifAge hook (entries' last-seen, the error handler's cool-down stamps); a tick is 6 s, a jump 601 s", "frames the router sends into the mesh are dropped by the network: what comes back is an action of its own")
	}

	for _, cfg := range []string{"ConnTrack_MC_A_FALSE.cfg", "ConnTrack_MC_A_TRUE.cfg", "ConnTrack_MC_B_FALSE.cfg", "ConnTrack_MC_B_TRUE.cfg"} {
		res, err := c.TLC("ConnTrack_MC", cfg, vf.TLCOpts{Workers: 12, Timeout: 20 * time.Minute, Heap: "8g"})
		if err != nil {
			c.Fatal("M %s: %v", cfg, err)
		}
		c.AddModel(res.Distinct, res.Generated)
		if res.Violated != "" {
			if policyVerdicts {
				c.Broken("%s: the ConnTrack model itself violates %s", cfg, res.Violated)
			} else {
				c.Violation("model/"+res.Violated, cfg+": the ConnTrack model itself violates "+res.Violated, res.ErrTrace, nil)
			}
		}
		c.Logf("M %s: %d distinct states", cfg, res.Distinct)
	}

	var events []any
	type beh struct {
		name    string
		isolate bool
		steps   []step
	}
	var behs []beh
	// the three refuted questions: their counterexamples become behaviours to execute
	questions := map[string]string{"Q1": "DeniedOnlyByDst", "Q2": "Recovers", "Q3": "OutFollowsPolicy"}
	for _, q := range []string{"Q1", "Q2", "Q3"} {
		res, err := c.TLC("ConnTrack_MC", "ConnTrack_"+q+".cfg", vf.TLCOpts{Workers: 4, Timeout: 20 * time.Minute, Heap: "8g"})
		if err != nil {
			c.Fatal("%s: %v", q, err)
		}
		if res.Violated == "" {
			c.Broken("%s (%s) was expected to be refuted by TLC and was not", q, questions[q])
			continue
		}
		var steps []step
		for _, txt := range res.ErrTrace {
			st, err := vf.ParseState(txt, "act")
			if err != nil {
				continue
			}
			a, _ := st["act"].(map[string]any)
			if sp, ok := stepOf(a); ok {
				steps = append(steps, sp)
			}
		}
		if q == "Q2" {
			// the lasso: repeat the loop part a few more times (the counterexample's suffix from the heal on)
			hi := 0
			for i, sp := range steps {
				if sp.Name == "heal" {
					hi = i
				}
			}
			loop := append([]step(nil), steps[hi+1:]...)
			for i := 0; i < 5; i++ {
				steps = append(steps, loop...)
			}
		}
		behs = append(behs, beh{name: q, steps: steps})
		c.Logf("%s refuted by TLC (%s): %d steps", q, questions[q], len(steps))
	}

	nWalks := c.Pick(60, 1500)
	for _, iso := range []bool{false, true} {
		base := filepath.Join(c.Work, fmt.Sprintf("w%v", iso))
		cfg := "ConnTrack_Sim_FALSE.cfg"
		if iso {
			cfg = "ConnTrack_Sim_TRUE.cfg"
		}
		if _, err := c.TLC("ConnTrack_MC", cfg, vf.TLCOpts{Workers: 1, Simulate: fmt.Sprintf("file=%s,num=%d", base, nWalks/2), Depth: 40, Seed: c.Seed, Timeout: 10 * time.Minute}); err != nil {
			c.Fatal("simulation: %v", err)
		}
		for wi := 0; wi < nWalks/2; wi++ {
			states, err := vf.SimWalk(fmt.Sprintf("%s_0_%d", base, wi), "act")
			if err != nil || len(states) < 2 {
				continue
			}
			var steps []step
			for _, st := range states[1:] {
				a, _ := st["act"].(map[string]any)
				if sp, ok := stepOf(a); ok {
					steps = append(steps, sp)
				}
			}
			behs = append(behs, beh{name: fmt.Sprintf("walk%d", wi), isolate: iso, steps: steps})
		}
	}

	rng := rand.New(rand.NewSource(c.Seed))
	_ = rng
	nsteps := 0
	for _, b := range behs {
		verdicts, err := exec(c, b.isolate, b.steps, &events)
		if err != nil {
			c.Fatal("R %s: %v", b.name, err)
		}
		nsteps += len(b.steps)
		c.Distinct(fmt.Sprintf("%s|%v", b.name, b.isolate))
		var hist []string
		for i, sp := range b.steps {
			hist = append(hist, sp.String()+" "+verdicts[i])
		}
		switch b.name {
		case "Q1":
			// did the flow to router 1 end up denied because of router 2's ping?
			last := events[len(events)-1].(map[string]any)
			for _, e := range last["table"].([]map[string]any) {
				if e["r"] == 1 && e["st"] == "denied" {
					if !policyVerdicts {
						c.Violation("Q1-denied-by-third-party", fmt.Sprintf("real router: an access-denied error ping from router 2 about router 1's service marked the local flow to router 1 as denied by the remote: %v", hist), map[string]any{"steps": hist}, nil)
					}
				}
			}
		case "Q2":
			// the flow keeps being refused in the loop although nobody sends errors any more
			refused := 0
			heal := 0
			for i, sp := range b.steps {
				if sp.Name == "heal" {
					heal = i
				}
			}
			for i, sp := range b.steps {
				if i > heal && sp.Name == "out" && sp.K.S == "ic" && verdicts[i] == "tomesh=false icmp=true" {
					refused++
				}
			}
			if refused >= 5 {
				if !policyVerdicts {
					c.Violation("Q2-sticky-unreachable", fmt.Sprintf("real router: after the last error ping the flow that keeps sending was refused %d more times (every tick, with the cleaner running) and never recovered: %v", refused, hist[:min(len(hist), 16)]), map[string]any{"steps": hist}, nil)
				}
			}
		case "Q3":
			lastOut := -1
			for i, sp := range b.steps {
				if sp.Name == "out" {
					lastOut = i
				}
			}
			if lastOut >= 0 && verdicts[lastOut] == "tomesh=false icmp=true" {
				if !policyVerdicts {
					c.Violation("Q3-inbound-blocks-outbound", fmt.Sprintf("real router: with no error ping at all, a packet FROM the remote host on the mirrored 5-tuple made the local host's own packet be refused as denied by the remote: %v", hist), map[string]any{"steps": hist}, nil)
				}
			}
		}
	}
	c.Stage("R", map[string]any{"behaviours": len(behs), "steps": nsteps})
	c.Logf("R: %d behaviours, %d steps executed", len(behs), nsteps)

	if policyVerdicts {
		// ---- the policy over whole histories: what the local host and the mesh saw, judged by TLC
		evs := events
		off := 0
		for len(evs) > 0 {
			rejectAt, inv, pres, err := c.TraceCheck("ConnTrackPolicy_Trace", "ConnTrackPolicy_Trace.cfg", evs, vf.TLCOpts{Timeout: 20 * time.Minute, Heap: "8g"})
			if err != nil {
				c.Fatal("T policy: %v", err)
			}
			c.AddModel(pres.Distinct, pres.Generated)
			if rejectAt <= 0 && inv == "" {
				break
			}
			lo := rejectAt - 1
			for lo > 0 && evs[lo].(map[string]any)["ev"] != "reset" {
				lo--
			}
			ev := evs[rejectAt-1].(map[string]any)
			var hist []string
			for _, e := range evs[lo:rejectAt] {
				m := e.(map[string]any)
				hist = append(hist, fmt.Sprintf("%v(%v,%v,%v,%v%v%v)", m["ev"], m["r"], m["s"], m["lp"], m["dir"], m["from"], m["code"]))
			}
			what := "a local packet entered the mesh although the router is isolated and the destination is no friend"
			if ev["ev"] == "in" {
				what = "a packet from the mesh was handed to the local interface although no service admits it and the local host never opened that flow"
			}
			c.Violation(vf.Key("history", ev["ev"], ev["r"], ev["s"], ev["dir"]), fmt.Sprintf("%s, after this history on one router (isolated=%v): %v", what, evs[lo].(map[string]any)["isolated"], hist),
				map[string]any{"events": evs[lo:rejectAt]}, nil)
			// carry on behind that behaviour
			nx := rejectAt
			for nx < len(evs) && evs[nx].(map[string]any)["ev"] != "reset" {
				nx++
			}
			evs = evs[nx:]
			off += nx
			if c.NViolations() > 4 {
				break
			}
		}
		c.Stage("T-history-policy", map[string]any{"events": len(events), "behaviours": len(behs)})
	}
	rejectAt, inv, tres, err := c.TraceCheck("ConnTrack_Trace", "ConnTrack_Trace.cfg", events, vf.TLCOpts{Timeout: 30 * time.Minute, Heap: "8g"})
	if err != nil {
		c.Fatal("T: %v", err)
	}
	c.AddTraces(len(behs))
	c.AddModel(tres.Distinct, tres.Generated)
	c.Stage("T-conntrack", map[string]any{"events": len(events), "wall_s": tres.Wall.Seconds()})
	if rejectAt > 0 || inv != "" {
		lo := rejectAt - 1
		for lo > 0 && events[lo].(map[string]any)["ev"] != "reset" {
			lo--
		}
		if policyVerdicts {
			// implementation level here: the table differs from the model's; the policy was judged above
			c.Extra("conntrack_table_drift", fmt.Sprintf("step %d of a behaviour (%s): %v", rejectAt-lo-1, inv, events[rejectAt-1]))
		} else {
			c.Violation(vf.Key("trace-mismatch"), fmt.Sprintf("the real router's table after step %d of a behaviour is not what ConnTrack allows (%s): %v", rejectAt-lo-1, inv, events[rejectAt-1]),
				map[string]any{"events": events[lo:rejectAt]}, nil)
		}
	}
	c.Logf("T: %d events validated", len(events))
}
