package world

import (
	"context"
	"fmt"
	"log/slog"
	"sync"
)

// capture is a slog handler that remembers, per manager name ("module"
// attribute), the error text of "failed to handle frame" records, so that the
// driver can observe the error the real router worker logged for a frame.
type capture struct {
	mu    *sync.Mutex
	store *map[string][]string
	attrs []slog.Attr
}

var (
	capMu    sync.Mutex
	capStore = map[string][]string{}
	capOnce  sync.Once
)

// LogSink, when set before the first record, also receives every record (manager name, text) at the moment it is
// logged - for drivers that need log records in order with their own events.
var LogSink func(module, line string)

// InstallLogCapture installs the capturing handler as slog default (once).
func InstallLogCapture() {
	capOnce.Do(func() {
		slog.SetDefault(slog.New(&capture{mu: &capMu, store: &capStore}))
	})
}

func (c *capture) Enabled(context.Context, slog.Level) bool { return true }

func (c *capture) WithAttrs(attrs []slog.Attr) slog.Handler {
	n := *c
	n.attrs = append(append([]slog.Attr{}, c.attrs...), attrs...)
	return &n
}

func (c *capture) WithGroup(string) slog.Handler { return c }

func (c *capture) Handle(_ context.Context, r slog.Record) error {
	module := ""
	for _, a := range c.attrs {
		if a.Key == "module" {
			module = a.Value.String()
		}
	}
	if module == "" {
		return nil
	}
	line := r.Message
	r.Attrs(func(a slog.Attr) bool {
		if a.Key == "err" {
			line += ": " + fmt.Sprint(a.Value.Any())
		}
		return true
	})
	if sink := LogSink; sink != nil {
		sink(module, line)
	}
	c.mu.Lock()
	if len((*c.store)[module]) < 64 {
		(*c.store)[module] = append((*c.store)[module], line)
	}
	c.mu.Unlock()
	return nil
}

// takeLogs returns and forgets the records of a manager name.
func takeLogs(module string) []string {
	capMu.Lock()
	defer capMu.Unlock()
	l := capStore[module]
	delete(capStore, module)
	return l
}
