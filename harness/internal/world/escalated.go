package world

import "github.com/mycoria/mycoria/frame"

// TakeEscalated removes and returns the frames the node's switch handler has escalated to the router input so far
// (frames the switch kept for this router) WITHOUT running the router worker on them. The caller owns the frames.
func (n *Node) TakeEscalated() []frame.Frame {
	var out []frame.Frame
	for {
		select {
		case f := <-n.swUp:
			out = append(out, f)
		default:
			return out
		}
	}
}
