package world

import (
	"errors"
	"fmt"
	"sync"
	"time"

	"github.com/mycoria/mycoria/frame"
	"github.com/mycoria/mycoria/mgr"
	"github.com/mycoria/mycoria/peering"
)

// AtOnce is what DeliverAtOnce observed.
type AtOnce struct {
	Up     int      // frames the switch handed to the router
	Panics int      // router workers that ended in a (recovered) panic
	Logs   []string // everything the workers of this batch logged ("failed to handle frame: <err>" ...), in no order
}

// Refusals returns the "failed to handle frame" records of the batch (which frame a record belongs to is not known:
// use them for notes and counts, not for verdicts about a single frame).
func (a AtOnce) Refusals() []string {
	var out []string
	for _, l := range a.Logs {
		if len(l) >= 22 && l[:22] == "failed to handle frame" {
			out = append(out, l)
		}
	}
	return out
}

// DeliverAtOnce hands several frames to ONE receiver the way a started router sees a burst: every frame passes the
// switch handler; then as many real router frame workers as frames were escalated are started under one manager and
// are all waiting for input (Router.Start runs one frame worker per CPU, all reading the same input channel); only
// then the frames are put on the router's input, all at the same moment. Unlike DeliverConcurrent no worker is
// stopped before every frame has been taken, so k frames are worked on by k workers at once.
func (w *World) DeliverAtOnce(fls []*Flight) (res AtOnce, err error) {
	if len(fls) == 0 {
		return res, nil
	}
	to := fls[0].To
	var up []frame.Frame
	for _, fl := range fls {
		if fl.To != to {
			return res, errors.New("DeliverAtOnce: flights for different receivers")
		}
		recvLink := to.links[fl.From.ID.IP]
		if recvLink == nil || recvLink.closing {
			continue
		}
		n := len(fl.Data)
		ps := to.Builder.GetPooledSlice(peering.FrameOffset + n + peering.FrameOverhead)
		if ps == nil {
			continue
		}
		copy(ps[peering.FrameOffset:], fl.Data)
		f, perr := to.Builder.ParseFrame(ps[peering.FrameOffset:peering.FrameOffset+n], ps[:cap(ps)], peering.FrameOffset)
		if perr != nil {
			continue
		}
		f.SetRecvLink(recvLink)
		if panicked, pv := catch(func() { _ = to.Sw.VerifHandleFrame(f) }); panicked {
			w.notePanic(fmt.Sprintf("switch of %s: %v", to.Name, pv))
		}
		for more := true; more; {
			select {
			case f := <-to.swUp:
				up = append(up, f)
			default:
				more = false
			}
		}
	}
	res.Up = len(up)
	if len(up) == 0 {
		return res, nil
	}
	workerSeq.Lock()
	workerSeq.n++
	name := fmt.Sprintf("verif-router-%s-atonce-%d", to.Name, workerSeq.n)
	workerSeq.Unlock()
	defer takeLogs(name)
	mg := mgr.New(name)
	done := make(chan error, len(up))
	for range up {
		go func() { done <- mg.Do("router", to.Rt.VerifFrameWorker()) }()
	}
	time.Sleep(200 * time.Microsecond) // the workers reach their input
	start := make(chan struct{})
	var wg sync.WaitGroup
	var mu sync.Mutex
	for _, f := range up {
		wg.Add(1)
		go func(f frame.Frame) {
			defer wg.Done()
			<-start
			select {
			case to.Rt.Input() <- f:
			case <-time.After(20 * time.Second):
				mu.Lock()
				err = errors.New("DeliverAtOnce: no router worker took the frame")
				mu.Unlock()
			}
		}(f)
	}
	close(start)
	wg.Wait()
	mg.Cancel() // every frame has been taken: a worker finishes the frame it has and ends
	for range up {
		select {
		case werr := <-done:
			if errors.Is(werr, mgr.ErrWorkerPanic) {
				res.Panics++
				w.notePanic(fmt.Sprintf("router worker of %s: %v", to.Name, werr))
			}
		case <-time.After(30 * time.Second):
			mu.Lock()
			if err == nil {
				err = errors.New("DeliverAtOnce: a router worker stalled")
			}
			mu.Unlock()
			res.Logs = takeLogs(name)
			return res, err
		}
	}
	res.Logs = takeLogs(name)
	return res, err
}
