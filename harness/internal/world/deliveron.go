package world

import (
	"errors"
	"fmt"
	"time"

	"github.com/mycoria/mycoria/frame"
	"github.com/mycoria/mycoria/mgr"
	"github.com/mycoria/mycoria/peering"
)

// DeliverRawOn is DeliverRaw for drivers that handle frames on SEVERAL goroutines while the receiver's links change:
// the receive link is named by the caller, and nothing of the node's driver-side bookkeeping (links, Handled) is read
// or written, so it may be called concurrently. The bytes are parsed as the link reader parses them, the frame passes
// the real switch handler and - when the switch escalated a frame - the real router worker, both under the world's
// time limits (a handler that does not come back is an error "... stalled", as in DeliverRaw). h is nil when the
// switch consumed or dropped the frame.
//
// All callers share the node's switch->router channel and the router's input channel (as the workers of a running
// router do): the frame a caller's worker handles, and therefore the Logs of h, may belong to another caller's frame
// of the same moment. Every escalated frame is handled by exactly one of them.
func (w *World) DeliverRawOn(recvLink frame.LinkAccessor, to *Node, data []byte) (h *Handled, err error) {
	if recvLink == nil {
		return nil, ErrNoLink
	}
	n := len(data)
	ps := to.Builder.GetPooledSlice(peering.FrameOffset + n + peering.FrameOverhead)
	if ps == nil {
		return nil, errors.New("frame too big for any pooled slice")
	}
	copy(ps[peering.FrameOffset:], data)
	f, err := to.Builder.ParseFrame(ps[peering.FrameOffset:peering.FrameOffset+n], ps[:cap(ps)], peering.FrameOffset)
	if err != nil {
		return nil, fmt.Errorf("parse: %w", err)
	}
	f.SetRecvLink(recvLink)

	// switch worker
	type swRet struct {
		err      error
		panicked bool
		pv       any
	}
	swDone := make(chan swRet, 1)
	go func() {
		var r swRet
		r.panicked, r.pv = catch(func() { r.err = to.Sw.VerifHandleFrame(f) })
		swDone <- r
	}()
	select {
	case r := <-swDone:
		if r.panicked {
			w.notePanic(fmt.Sprintf("switch of %s: %v", to.Name, r.pv))
			return nil, fmt.Errorf("switch panic: %v", r.pv)
		}
		if r.err != nil {
			return nil, fmt.Errorf("switch: %w", r.err)
		}
	case <-time.After(30 * time.Second):
		return nil, errors.New("switch handler stalled")
	}

	// router worker, for one frame the switch escalated (not necessarily this caller's)
	select {
	case up := <-to.swUp:
		hd := Handled{Src: up.SrcIP(), Dst: up.DstIP(), Type: up.MessageType()}
		hd.Err, hd.Logs = to.runRouterWorker(up)
		if hd.Err != nil && errors.Is(hd.Err, mgr.ErrWorkerPanic) {
			hd.Panic = true
			w.notePanic(fmt.Sprintf("router worker of %s: %v", to.Name, hd.Err))
		}
		return &hd, nil
	default:
		return nil, nil
	}
}
