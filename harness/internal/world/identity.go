// Package world builds real mycoria objects (identities, states, sessions,
// router stacks, virtual links) for the drivers.
package world

import (
	"context"
	"fmt"
	"net/netip"

	"github.com/mycoria/mycoria/config"
	"github.com/mycoria/mycoria/m"
	"github.com/mycoria/mycoria/state"
	"github.com/mycoria/mycoria/storage"
)

// EuropePrefix is a geo-marked routable /12 used for test identities.
var EuropePrefix = netip.MustParsePrefix("fd10::/12")

// NewIdentity mines a fresh routable identity inside prefix (a few thousand
// Ed25519 key generations for a /12).
func NewIdentity(prefix netip.Prefix) *m.Address {
	addr, _, err := m.GenerateRoutableAddress(context.Background(), []netip.Prefix{prefix}, nil, 0)
	if err != nil {
		panic(fmt.Sprintf("generate identity in %s: %v", prefix, err))
	}
	return addr
}

// NewPrivacyIdentity mines a privacy (fd80::/9) identity.
func NewPrivacyIdentity() *m.Address {
	addr, _, err := m.GeneratePrivacyAddress(context.Background())
	if err != nil {
		panic(err)
	}
	return addr
}

// Party is a minimal "instance" (identity + config + state) sufficient for
// sessions, sealing and unsealing.
type Party struct {
	ID    *m.Address
	Cfg   *config.Config
	St    *state.State
	Store storage.Storage
}

// Identity implements the state package's instance interface.
func (p *Party) Identity() *m.Address { return p.ID }

// Config implements the state package's instance interface.
func (p *Party) Config() *config.Config { return p.Cfg }

// NewParty creates a party with a fresh identity.
func NewParty(id *m.Address, cfg config.Store) *Party {
	p := &Party{ID: id}
	cfg.Router.Address = id.Store()
	p.Cfg = config.MakeTestConfig(cfg)
	p.Store = storage.NewMemStorage()
	p.St = state.New(p, p.Store)
	return p
}

// SessionWith returns p's session for q, adding q as a known router first.
func (p *Party) SessionWith(q *Party) *state.Session {
	pub := q.ID.PublicAddress
	if err := p.St.AddRouter(&pub); err != nil {
		panic(err)
	}
	s := p.St.GetSession(q.ID.IP)
	if s == nil {
		panic("no session")
	}
	return s
}

// KeyExchange performs the X25519 exchange between a (client) and b (server)
// on their sessions for each other and returns both sessions. When link is
// true the derived link-layer sessions are returned as well.
func KeyExchange(a, b *Party, link bool) (sa, sb *state.Session, la, lb *state.EncryptionSession) {
	sa, sb = a.SessionWith(b), b.SessionWith(a)
	kx, kxt, err := sa.Encryption().InitKeyClientStart()
	if err != nil {
		panic(err)
	}
	rkx, rkxt, err := sb.Encryption().InitKeyServer(kx, kxt)
	if err != nil {
		panic(err)
	}
	if err := sa.Encryption().InitKeyClientComplete(rkx, rkxt); err != nil {
		panic(err)
	}
	if link {
		la, err = sa.Encryption().DeriveSessionFromKX(true, "link layer crypt")
		if err != nil {
			panic(err)
		}
		lb, err = sb.Encryption().DeriveSessionFromKX(false, "link layer crypt")
		if err != nil {
			panic(err)
		}
	}
	sa.Encryption().InitCleanup()
	sb.Encryption().InitCleanup()
	return
}
