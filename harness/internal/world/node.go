package world

import (
	"errors"
	"fmt"
	"net"
	"net/netip"
	"sync"
	"sync/atomic"
	"time"

	"github.com/mycoria/mycoria/api/dns"
	"github.com/mycoria/mycoria/api/httpapi"
	"github.com/mycoria/mycoria/api/netstack"
	"github.com/mycoria/mycoria/config"
	"github.com/mycoria/mycoria/frame"
	"github.com/mycoria/mycoria/m"
	"github.com/mycoria/mycoria/mgr"
	"github.com/mycoria/mycoria/peering"
	"github.com/mycoria/mycoria/router"
	"github.com/mycoria/mycoria/state"
	"github.com/mycoria/mycoria/storage"
	"github.com/mycoria/mycoria/switchr"
	"github.com/mycoria/mycoria/tun"
)

// Node is one complete router stack (identity, config, state, frame builder,
// routing table, router, switch, peering) assembled from the real packages
// without starting their timer-driven workers.
type Node struct {
	// OnRoutingTable, when set, runs whenever the router asks its instance for the routing table - e.g. from
	// peering.AddLink / RemoveLink just before they touch the table: a scheduling point for drivers.
	OnRoutingTable atomic.Pointer[func()]

	W    *World
	Idx  int
	Name string

	ID      *m.Address
	Cfg     *config.Config
	Builder *frame.Builder
	Store   storage.Storage
	St      *state.State
	Tun     *tun.Device

	Peer *peering.Peering
	Sw   *switchr.Switch
	Rt   *router.Router

	swUp chan frame.Frame // switch -> router (the driver's own buffered channel)

	mu    sync.Mutex
	links map[netip.Addr]*VLink

	// Upper records frames that reached this node's router worker (by kind).
	Handled []Handled
}

// Handled is a record of one frame given to a node's router worker.
type Handled struct {
	Src, Dst netip.Addr
	Type     frame.MessageType
	Err      error // panic of the worker (mgr.ErrWorkerPanic) or driver-level failure
	Panic    bool
	Logs     []string // what the real worker logged for this frame ("failed to handle frame: <err>" ...)
}

// HandlerErr returns the error text the router worker logged for the frame ("" = handled without error).
func (h Handled) HandlerErr() string {
	for _, l := range h.Logs {
		if len(l) >= 22 && l[:22] == "failed to handle frame" {
			return l
		}
	}
	return ""
}

// inst.Ance implementation.

// Version returns the version.
func (n *Node) Version() string { return "v0.0.0-verif" }

// Config returns the config.
func (n *Node) Config() *config.Config { return n.Cfg }

// Identity returns the identity.
func (n *Node) Identity() *m.Address { return n.ID }

// FrameBuilder returns the frame builder.
func (n *Node) FrameBuilder() *frame.Builder { return n.Builder }

// State returns the state manager.
func (n *Node) State() *state.State { return n.St }

// TunDevice returns the tun device stand-in (channels only) or nil.
func (n *Node) TunDevice() *tun.Device { return n.Tun }

// NetStack returns nil.
func (n *Node) NetStack() *netstack.NetStack { return nil }

// API returns nil.
func (n *Node) API() *httpapi.API { return nil }

// DNS returns nil.
func (n *Node) DNS() *dns.Server { return nil }

// Peering returns the peering manager.
func (n *Node) Peering() *peering.Peering { return n.Peer }

// Switch returns the switch.
func (n *Node) Switch() *switchr.Switch { return n.Sw }

// Router returns the router.
func (n *Node) Router() *router.Router { return n.Rt }

// RoutingTable returns the routing table.
func (n *Node) RoutingTable() *m.RoutingTable {
	if f := n.OnRoutingTable.Load(); f != nil {
		(*f)()
	}
	return n.Rt.Table()
}

// NodeOpts configures a node.
type NodeOpts struct {
	Cfg     config.Store
	ID      *m.Address // nil = mine a fresh routable identity
	WithTun bool       // give the node a tun stand-in and enable traffic handling
	Prefix  netip.Prefix
	Store   storage.Storage // router storage of the node (nil = the in-memory storage of /repo)
}

// NewNode assembles a router stack.
func (w *World) NewNode(name string, o NodeOpts) *Node {
	id := o.ID
	if id == nil {
		p := o.Prefix
		if !p.IsValid() {
			p = EuropePrefix
		}
		id = NewIdentity(p)
	}
	cfg := o.Cfg
	cfg.Router.Address = id.Store()
	if !o.WithTun {
		cfg.System.DisableTun = true
	}
	n := &Node{W: w, Idx: len(w.Nodes), Name: name, ID: id, links: map[netip.Addr]*VLink{}}
	n.Cfg = config.MakeTestConfig(cfg)
	n.Builder = frame.NewFrameBuilder()
	n.Builder.SetFrameMargins(peering.FrameOffset, peering.FrameOverhead)
	n.Store = storage.NewMemStorage()
	if o.Store != nil {
		n.Store = o.Store
	}
	n.St = state.New(n, n.Store)
	if o.WithTun {
		n.Tun = &tun.Device{
			RecvRaw:   make(chan []byte, 1000),
			SendRaw:   make(chan []byte, 1000),
			SendFrame: make(chan frame.Frame, 1000),
		}
	}
	var err error
	n.Rt, err = router.New(n, router.Config{})
	if err != nil {
		panic(fmt.Sprintf("router.New: %v", err))
	}
	n.swUp = make(chan frame.Frame, 4096)
	n.Sw = switchr.New(n, n.swUp)
	n.Peer = peering.New(n, n.Sw.Input())
	n.Peer.PeeringEvents = mgr.NewEventMgr[*peering.EventPeering]("peering", n.Peer.Manager())
	w.Nodes = append(w.Nodes, n)
	w.byIP[id.IP] = n
	return n
}

// World is a set of nodes joined by virtual links; frames in flight are held
// by the driver, which decides what is delivered next.
type World struct {
	Nodes []*Node
	byIP  map[netip.Addr]*Node

	mu       sync.Mutex
	Inflight []*Flight
	seq      int

	// OnSend, when set, observes every frame that crosses a virtual link.
	OnSend func(fl *Flight)
	// MimicReader makes delivery allocate the receive buffer from the pool by
	// size exactly as the real link reader does (default true).
	NoMimicReader bool

	Panics []string
	// Lost lists frames the (virtual) link writer could not send.
	Lost []string
}

// NewWorld returns an empty world.
func NewWorld() *World {
	return &World{byIP: map[netip.Addr]*Node{}}
}

// NodeByIP returns the node with that identity.
func (w *World) NodeByIP(ip netip.Addr) *Node { return w.byIP[ip] }

// Flight is one frame in flight on a virtual link.
type Flight struct {
	ID       int
	From, To *Node
	Data     []byte // serialised frame (no margins)
	Prio     bool
}

// VLink is a virtual link: it implements peering.Link / frame.LinkAccessor and
// puts every frame sent over it into the world's in-flight pool.
type VLink struct {
	owner   *Node
	peer    *Node
	label   m.SwitchLabel
	latency uint16
	lite    bool
	closing bool
	started time.Time

	// Knobs of a test double (X03): what BytesIn reports, a send the link refuses, a callback when the link is
	// closed (it gets the caller's log function, as the real link runs it).
	BytesInFn func() uint64
	SendHook  func(prio bool) error
	OnClose   func(log func())
}

var _ peering.Link = &VLink{}

func (l *VLink) String() string { return fmt.Sprintf("vlink %s->%s", l.owner.Name, l.peer.Name) }

// Peer returns the peer's address.
func (l *VLink) Peer() netip.Addr { return l.peer.ID.IP }

// SwitchLabel returns the label.
func (l *VLink) SwitchLabel() m.SwitchLabel { return l.label }

// GeoMark returns "".
func (l *VLink) GeoMark() string { return "" }

// PeeringURL returns nil.
func (l *VLink) PeeringURL() *m.PeeringURL { return nil }

// Outgoing returns false.
func (l *VLink) Outgoing() bool { return l.owner.Idx < l.peer.Idx }

// Lite returns whether the peer is lite.
func (l *VLink) Lite() bool { return l.lite }

// SendPriority enqueues a priority frame.
func (l *VLink) SendPriority(f frame.Frame) error { return l.send(f, true) }

// Send enqueues a frame.
func (l *VLink) Send(f frame.Frame) error { return l.send(f, false) }

func (l *VLink) send(f frame.Frame, prio bool) error {
	if l.SendHook != nil {
		if err := l.SendHook(prio); err != nil {
			return err // the caller keeps the frame, as with the real link
		}
	}
	// What the real link writer does: take the frame with the link-frame margins
	// (it fails - and the frame is lost - when the buffer has no room for them),
	// serialise, then release the frame.
	withMargins, err := f.FrameDataWithMargins(peering.FrameOffset, peering.FrameOverhead)
	if err != nil {
		l.owner.W.noteLost(fmt.Sprintf("%s -> %s: %v", l.owner.Name, l.peer.Name, err))
		f.ReturnToPool()
		return nil // the real Send only enqueues; the writer worker logs the error
	}
	raw := withMargins[peering.FrameOffset : len(withMargins)-peering.FrameOverhead]
	data := append([]byte(nil), raw...)
	f.ReturnToPool()
	w := l.owner.W
	w.mu.Lock()
	w.seq++
	fl := &Flight{ID: w.seq, From: l.owner, To: l.peer, Data: data, Prio: prio}
	w.Inflight = append(w.Inflight, fl)
	cb := w.OnSend
	w.mu.Unlock()
	if cb != nil {
		cb(fl)
	}
	return nil
}

// LocalAddr returns a dummy address.
func (l *VLink) LocalAddr() net.Addr { return &net.UnixAddr{Name: l.owner.Name} }

// RemoteAddr returns a dummy address.
func (l *VLink) RemoteAddr() net.Addr { return &net.UnixAddr{Name: l.peer.Name} }

// Started returns the creation time.
func (l *VLink) Started() time.Time { return l.started }

// Uptime returns the uptime.
func (l *VLink) Uptime() time.Duration { return time.Since(l.started) }

// Latency returns the configured latency.
func (l *VLink) Latency() uint16 { return l.latency }

// AddMeasuredLatency is ignored.
func (l *VLink) AddMeasuredLatency(time.Duration) {}

// BytesIn returns 0 (or what the test double says).
func (l *VLink) BytesIn() uint64 {
	if l.BytesInFn != nil {
		return l.BytesInFn()
	}
	return 0
}

// BytesOut returns 0.
func (l *VLink) BytesOut() uint64 { return 0 }

// FlowControlIndicator returns "increase".
func (l *VLink) FlowControlIndicator() frame.FlowControlFlag {
	return frame.FlowControlFlagIncreaseFlow
}

// IsClosing returns whether the link was closed.
func (l *VLink) IsClosing() bool { return l.closing }

// SetClosing marks the link as closing without removing it (somebody else is closing it).
func (l *VLink) SetClosing() { l.closing = true }

// Close removes the link.
func (l *VLink) Close(log func()) {
	if l.closing {
		return
	}
	l.closing = true
	if l.OnClose != nil {
		l.OnClose(log)
	}
	l.owner.Peer.RemoveLink(l)
}

// Connect joins a and b with a pair of virtual links using the given labels
// (label at a for the link to b, label at b for the link to a). The routers
// know each other afterwards (as after a peering handshake).
func (w *World) Connect(a, b *Node, labelAtA, labelAtB m.SwitchLabel, latency uint16) (*VLink, *VLink, error) {
	pa, pb := a.ID.PublicAddress, b.ID.PublicAddress
	if err := a.St.AddRouter(&pb); err != nil {
		return nil, nil, err
	}
	if err := b.St.AddRouter(&pa); err != nil {
		return nil, nil, err
	}
	la := &VLink{owner: a, peer: b, label: labelAtA, latency: latency, lite: b.Cfg.Router.Lite, started: time.Now()}
	lb := &VLink{owner: b, peer: a, label: labelAtB, latency: latency, lite: a.Cfg.Router.Lite, started: time.Now()}
	if err := a.Peer.AddLink(la); err != nil {
		return nil, nil, fmt.Errorf("AddLink at %s: %w", a.Name, err)
	}
	if err := b.Peer.AddLink(lb); err != nil {
		return nil, nil, fmt.Errorf("AddLink at %s: %w", b.Name, err)
	}
	a.links[b.ID.IP] = la
	b.links[a.ID.IP] = lb
	return la, lb, nil
}

// LinkTo returns n's virtual link to peer.
func (n *Node) LinkTo(peer *Node) *VLink { return n.links[peer.ID.IP] }

// Take removes and returns the in-flight frame at index i.
func (w *World) Take(i int) *Flight {
	w.mu.Lock()
	defer w.mu.Unlock()
	fl := w.Inflight[i]
	w.Inflight = append(w.Inflight[:i:i], w.Inflight[i+1:]...)
	return fl
}

// Duplicate puts a second copy of a frame in flight and returns it.
func (w *World) Duplicate(fl *Flight) *Flight {
	w.mu.Lock()
	defer w.mu.Unlock()
	w.seq++
	cp := &Flight{ID: w.seq, From: fl.From, To: fl.To, Data: append([]byte(nil), fl.Data...), Prio: fl.Prio}
	w.Inflight = append(w.Inflight, cp)
	return cp
}

// Lock / Unlock give a driver exclusive access to Inflight.
func (w *World) Lock()   { w.mu.Lock() }
func (w *World) Unlock() { w.mu.Unlock() }

// NInflight returns the number of frames in flight.
func (w *World) NInflight() int {
	w.mu.Lock()
	defer w.mu.Unlock()
	return len(w.Inflight)
}

// ErrNoLink is returned when a frame arrives for which the receiver has no link.
var ErrNoLink = errors.New("receiver has no link to sender")

// Deliver hands a frame to its receiver the way the link reader, the switch
// worker and the router worker do. It returns what happened at the router
// level (nil when the switch consumed or dropped the frame).
func (w *World) Deliver(fl *Flight) (res []Handled, err error) {
	return w.DeliverRaw(fl.From, fl.To, fl.Data)
}

// DeliverRaw delivers arbitrary bytes as a frame arriving at `to` over its link from `from`.
func (w *World) DeliverRaw(from, to *Node, data []byte) (res []Handled, err error) {
	recvLink := to.links[from.ID.IP]
	if recvLink == nil || recvLink.closing {
		return nil, ErrNoLink
	}
	// Link reader: pooled buffer by size, frame at the link-frame offset.
	var f frame.Frame
	n := len(data)
	if w.NoMimicReader {
		buf := make([]byte, n)
		copy(buf, data)
		f, err = to.Builder.ParseFrame(buf, nil, 0)
	} else {
		ps := to.Builder.GetPooledSlice(peering.FrameOffset + n + peering.FrameOverhead)
		if ps == nil {
			return nil, errors.New("frame too big for any pooled slice")
		}
		copy(ps[peering.FrameOffset:], data)
		f, err = to.Builder.ParseFrame(ps[peering.FrameOffset:peering.FrameOffset+n], ps[:cap(ps)], peering.FrameOffset)
	}
	if err != nil {
		return nil, fmt.Errorf("parse: %w", err)
	}
	f.SetRecvLink(recvLink)
	return w.Inject(to, f)
}

// DeliverConcurrent hands several frames to ONE receiver the way a router with several workers sees them: each
// frame passes the switch handler, then all frames the switch escalated are handled by as many real router workers
// at the same time (Router.Start runs one frame worker per CPU).
func (w *World) DeliverConcurrent(fls []*Flight) {
	if len(fls) == 0 {
		return
	}
	to := fls[0].To
	for _, fl := range fls {
		if fl.To != to {
			panic("DeliverConcurrent: flights for different receivers")
		}
		recvLink := to.links[fl.From.ID.IP]
		if recvLink == nil || recvLink.closing {
			continue
		}
		n := len(fl.Data)
		ps := to.Builder.GetPooledSlice(peering.FrameOffset + n + peering.FrameOverhead)
		if ps == nil {
			continue
		}
		copy(ps[peering.FrameOffset:], fl.Data)
		f, err := to.Builder.ParseFrame(ps[peering.FrameOffset:peering.FrameOffset+n], ps[:cap(ps)], peering.FrameOffset)
		if err != nil {
			continue
		}
		f.SetRecvLink(recvLink)
		if panicked, pv := catch(func() { _ = to.Sw.VerifHandleFrame(f) }); panicked {
			w.notePanic(fmt.Sprintf("switch of %s: %v", to.Name, pv))
		}
	}
	var up []frame.Frame
	for {
		select {
		case f := <-to.swUp:
			up = append(up, f)
			continue
		default:
		}
		break
	}
	var wg sync.WaitGroup
	for _, f := range up {
		wg.Add(1)
		go func(f frame.Frame) {
			defer wg.Done()
			if err, _ := to.runRouterWorker(f); err != nil && errors.Is(err, mgr.ErrWorkerPanic) {
				w.notePanic(fmt.Sprintf("router worker of %s: %v", to.Name, err))
			}
		}(f)
	}
	wg.Wait()
}

// DeliverConcurrentStaggered is DeliverConcurrent with arrival moments: every frame passes the switch handler, then
// the real router worker that is given frame i is started offsets[i] after a common starting moment (a missing
// offset counts as 0), so that frames are handled at the same time but not from the same instant. It returns one
// Handled per frame the switch escalated, in the order of fls. With several workers at work any worker takes any
// frame of the batch, so the Logs of an entry may belong to another frame of the same batch: use them for notes, not
// for verdicts.
func (w *World) DeliverConcurrentStaggered(fls []*Flight, offsets []time.Duration) []Handled {
	if len(fls) == 0 {
		return nil
	}
	to := fls[0].To
	type job struct {
		f   frame.Frame
		off time.Duration
	}
	var jobs []job
	for i, fl := range fls {
		if fl.To != to {
			panic("DeliverConcurrentStaggered: flights for different receivers")
		}
		recvLink := to.links[fl.From.ID.IP]
		if recvLink == nil || recvLink.closing {
			continue
		}
		n := len(fl.Data)
		ps := to.Builder.GetPooledSlice(peering.FrameOffset + n + peering.FrameOverhead)
		if ps == nil {
			continue
		}
		copy(ps[peering.FrameOffset:], fl.Data)
		f, err := to.Builder.ParseFrame(ps[peering.FrameOffset:peering.FrameOffset+n], ps[:cap(ps)], peering.FrameOffset)
		if err != nil {
			continue
		}
		f.SetRecvLink(recvLink)
		if panicked, pv := catch(func() { _ = to.Sw.VerifHandleFrame(f) }); panicked {
			w.notePanic(fmt.Sprintf("switch of %s: %v", to.Name, pv))
		}
		var off time.Duration
		if i < len(offsets) {
			off = offsets[i]
		}
		for more := true; more; {
			select {
			case up := <-to.swUp:
				jobs = append(jobs, job{up, off})
			default:
				more = false
			}
		}
	}
	out := make([]Handled, len(jobs))
	var wg sync.WaitGroup
	start := time.Now().Add(300 * time.Microsecond)
	for i, j := range jobs {
		wg.Add(1)
		go func(i int, j job) {
			defer wg.Done()
			h := Handled{Src: j.f.SrcIP(), Dst: j.f.DstIP(), Type: j.f.MessageType()}
			target := start.Add(j.off)
			if d := time.Until(target) - 100*time.Microsecond; d > 0 {
				time.Sleep(d)
			}
			for time.Now().Before(target) { //nolint:revive // the last moments are waited out busily: sleeping is too coarse
			}
			h.Err, h.Logs = to.runRouterWorker(j.f)
			if h.Err != nil && errors.Is(h.Err, mgr.ErrWorkerPanic) {
				h.Panic = true
				w.notePanic(fmt.Sprintf("router worker of %s: %v", to.Name, h.Err))
			}
			out[i] = h
		}(i, j)
	}
	wg.Wait()
	return out
}

// Inject runs the switch handler and then the router worker on a parsed frame.
func (w *World) Inject(to *Node, f frame.Frame) (res []Handled, err error) {
	// Switch worker.
	var swErr error
	panicked, pv := catch(func() { swErr = to.Sw.VerifHandleFrame(f) })
	if panicked {
		w.notePanic(fmt.Sprintf("switch of %s: %v", to.Name, pv))
		return nil, fmt.Errorf("switch panic: %v", pv)
	}
	if swErr != nil {
		return nil, fmt.Errorf("switch: %w", swErr)
	}
	return to.DrainRouter(), nil
}

// DrainRouter runs the real router worker on every frame the switch escalated.
func (n *Node) DrainRouter() []Handled {
	var out []Handled
	for {
		select {
		case f := <-n.swUp:
			h := Handled{Src: f.SrcIP(), Dst: f.DstIP(), Type: f.MessageType()}
			var logs []string
			h.Err, logs = n.runRouterWorker(f)
			h.Logs = logs
			if h.Err != nil && errors.Is(h.Err, mgr.ErrWorkerPanic) {
				h.Panic = true
				n.W.notePanic(fmt.Sprintf("router worker of %s: %v", n.Name, h.Err))
			}
			n.Handled = append(n.Handled, h)
			out = append(out, h)
		default:
			return out
		}
	}
}

// RunRouterWorker runs the router's real frame worker function under a
// throw-away manager for exactly one frame and returns the worker's error
// (mgr.ErrWorkerPanic for a recovered panic).
func (n *Node) RunRouterWorker(f frame.Frame) error {
	err, _ := n.runRouterWorker(f)
	return err
}

var workerSeq struct {
	sync.Mutex
	n int
}

func (n *Node) runRouterWorker(f frame.Frame) (error, []string) {
	workerSeq.Lock()
	workerSeq.n++
	name := fmt.Sprintf("verif-router-%s-%d", n.Name, workerSeq.n)
	workerSeq.Unlock()
	defer takeLogs(name)
	err := n.runRouterWorkerNamed(f, name)
	return err, takeLogs(name)
}

func (n *Node) runRouterWorkerNamed(f frame.Frame, name string) error {
	mg := mgr.New(name)
	done := make(chan error, 1)
	go func() { done <- mg.Do("router", n.Rt.VerifFrameWorker()) }()
	select {
	case n.Rt.Input() <- f:
	case err := <-done:
		return fmt.Errorf("router worker ended before taking the frame: %w", err)
	case <-time.After(10 * time.Second):
		mg.Cancel()
		return errors.New("router worker did not take the frame")
	}
	mg.Cancel()
	select {
	case err := <-done:
		if errors.Is(err, mgr.ErrWorkerPanic) {
			return err
		}
		return nil
	case <-time.After(30 * time.Second):
		return errors.New("router worker stalled")
	}
}

func (w *World) noteLost(s string) {
	w.mu.Lock()
	w.Lost = append(w.Lost, s)
	w.mu.Unlock()
}

func (w *World) notePanic(s string) {
	w.mu.Lock()
	w.Panics = append(w.Panics, s)
	w.mu.Unlock()
}

func catch(fn func()) (panicked bool, val any) {
	defer func() {
		if r := recover(); r != nil {
			panicked, val = true, r
		}
	}()
	fn()
	return
}

// RunUntilQuiet delivers in-flight frames, choosing the next one with pick
// (nil = FIFO), until nothing is in flight or max deliveries were made.
func (w *World) RunUntilQuiet(pick func(n int) int, max int) (delivered int) {
	for delivered < max {
		n := w.NInflight()
		if n == 0 {
			return
		}
		i := 0
		if pick != nil {
			i = pick(n)
		}
		fl := w.Take(i)
		_, _ = w.Deliver(fl)
		delivered++
	}
	return
}

// WorkerCtx runs fn with a real worker context (for hooks that need one).
func WorkerCtx(fn func(w *mgr.WorkerCtx)) error {
	mg := mgr.New("verif-ctx")
	return mg.Do("verif", func(w *mgr.WorkerCtx) error {
		fn(w)
		return nil
	})
}
