// Package vf is the shared framework of the mycoria verification harness:
// tiers and seeds, scratch space, evidence files, known findings, violation
// reporting and exit codes. Every per-property driver is a main package that
// calls vf.Main.
package vf

import (
	"crypto/sha256"
	"encoding/hex"
	"encoding/json"
	"flag"
	"fmt"
	"io"
	"log/slog"
	"math/rand"
	"os"
	"os/exec"
	"path/filepath"
	"runtime/debug"
	"sort"
	"strconv"
	"strings"
	"sync"
	"time"
)

// VerifRoot is the framework root.
var VerifRoot = func() string {
	if v := os.Getenv("VERIF_ROOT"); v != "" {
		return v
	}
	return "/verif"
}()

// RepoRoot is the working tree of mycoria the harness module is built against: the target of the replace line in
// harness/go.mod (normally /repo; a scratch worktree when a seeded change is tried out side by side).
var RepoRoot = func() string {
	if b, err := os.ReadFile(filepath.Join(VerifRoot, "harness", "go.mod")); err == nil {
		for _, ln := range strings.Split(string(b), "\n") {
			if i := strings.Index(ln, "github.com/mycoria/mycoria => "); i >= 0 && strings.HasPrefix(strings.TrimSpace(ln), "replace") {
				return strings.TrimSpace(ln[i+len("github.com/mycoria/mycoria => "):])
			}
		}
	}
	return "/repo"
}()

// Exit codes.
const (
	ExitOK        = 0
	ExitViolation = 1
	ExitBroken    = 2 // the check itself could not complete; never a verdict
)

// Finding is one entry of known_findings.json.
type Finding struct {
	Property string `json:"property"`
	Key      string `json:"key"`
	Status   string `json:"status"` // open | fixed
	Commit   string `json:"commit,omitempty"`
	What     string `json:"what"`
}

// Ctx is handed to the driver.
type Ctx struct {
	ID    string
	Tier  string // quick | thorough
	Seed  int64
	Rand  *rand.Rand
	Work  string
	Start time.Time

	mu          sync.Mutex
	evals       int64
	distinct    map[string]struct{}
	samples     []any
	states      int64
	transitions int64
	traces      int64
	rule        string
	extra       map[string]any
	assumptions []string
	exhaustive  bool

	findings   []Finding
	violations map[string]string // key -> replay path
	known      map[string]string // key -> what
	broken     []string
	stages     map[string]any
}

// Explore reports whether this driver explores a part of the specification that serves no listed property
// (ids starting with X): it reports observations, writes its evidence under explore/ and always exits 0 or 2.
func (c *Ctx) Explore() bool { return strings.HasPrefix(c.ID, "X") }

// Thorough reports whether the thorough tier is selected.
func (c *Ctx) Thorough() bool { return c.Tier == "thorough" }

// Pick returns q for quick and t for thorough.
func (c *Ctx) Pick(q, t int) int {
	if c.Thorough() {
		return t
	}
	return q
}

// Eval counts n evaluations (executions against the real code).
func (c *Ctx) Eval(n int) {
	c.mu.Lock()
	c.evals += int64(n)
	c.mu.Unlock()
}

// Distinct records a distinct non-trivial case by key.
func (c *Ctx) Distinct(key string) {
	c.mu.Lock()
	if len(c.distinct) < 5_000_000 {
		c.distinct[key] = struct{}{}
	}
	c.mu.Unlock()
}

// Sample stores a sample case (bounded).
func (c *Ctx) Sample(v any) {
	c.mu.Lock()
	if len(c.samples) < 12 {
		c.samples = append(c.samples, v)
	}
	c.mu.Unlock()
}

// AddModel adds states and transitions of a TLC run.
func (c *Ctx) AddModel(states, transitions int64) {
	c.mu.Lock()
	c.states += states
	c.transitions += transitions
	c.mu.Unlock()
}

// AddTraces counts implementation traces validated against the spec (or spec
// behaviours replayed against the implementation).
func (c *Ctx) AddTraces(n int) {
	c.mu.Lock()
	c.traces += int64(n)
	c.mu.Unlock()
}

// Rule sets the enumeration rule text.
func (c *Ctx) Rule(s string) { c.rule = s }

// Assume records an assumption.
func (c *Ctx) Assume(s ...string) { c.assumptions = append(c.assumptions, s...) }

// SetExhaustive marks the run as having enumerated a finite space completely.
func (c *Ctx) SetExhaustive(b bool) { c.exhaustive = b }

// Extra stores an additional coverage key.
func (c *Ctx) Extra(k string, v any) {
	c.mu.Lock()
	c.extra[k] = v
	c.mu.Unlock()
}

// Stage records a per-stage summary in the evidence.
func (c *Ctx) Stage(name string, v any) {
	c.mu.Lock()
	c.stages[name] = v
	c.mu.Unlock()
}

// Logf prints a progress line to stderr.
func (c *Ctx) Logf(format string, a ...any) {
	fmt.Fprintf(os.Stderr, "[%s %6.1fs] %s\n", c.ID, time.Since(c.Start).Seconds(), fmt.Sprintf(format, a...))
}

// Broken records that the check could not complete (exit 2, never a verdict).
func (c *Ctx) Broken(format string, a ...any) {
	msg := fmt.Sprintf(format, a...)
	c.mu.Lock()
	c.broken = append(c.broken, msg)
	c.mu.Unlock()
	fmt.Fprintf(os.Stderr, "[%s] BROKEN: %s\n", c.ID, msg)
}

// Fatal records a broken check and stops immediately.
func (c *Ctx) Fatal(format string, a ...any) {
	c.Broken(format, a...)
	c.finish()
}

// Violation reports that the real code broke the property. key is a canonical
// signature of the failing input / call site / schedule (used to match
// known_findings.json), what is a one-line description, replay is stored as
// JSON under replays/<id>/. reproduce, when non-nil, re-executes the stored
// scenario from scratch; a non-reproducing violation turns the run into exit 2.
func (c *Ctx) Violation(key, what string, replay any, reproduce func() bool) {
	c.mu.Lock()
	if _, dup := c.violations[key]; dup {
		c.mu.Unlock()
		return
	}
	if _, dup := c.known[key]; dup {
		c.mu.Unlock()
		return
	}
	c.mu.Unlock()

	if reproduce != nil {
		ok := false
		func() {
			defer func() {
				if r := recover(); r != nil {
					// A panic of the real code during reproduction is a reproduction
					// only if the driver says so by returning true; treat as not.
					ok = false
				}
			}()
			ok = reproduce()
		}()
		if !ok {
			c.Broken("violation %q (%s) did not reproduce on re-execution; treated as flake", key, what)
			return
		}
	}

	c.mu.Lock()
	defer c.mu.Unlock()
	for _, f := range c.findings {
		if f.Property == c.ID && f.Status == "open" && f.Key == key {
			c.known[key] = f.What
			fmt.Printf("KNOWN-FINDING: property=%s %s [%s]\n", c.ID, f.What, key)
			return
		}
	}
	if c.Explore() {
		// a specification beyond the listed properties: observations, never verdicts on a property
		c.violations[key] = ""
		fmt.Printf("OBSERVATION spec=%s %s [%s]\n", c.ID, what, key)
		return
	}
	sum := sha256.Sum256([]byte(key))
	dir := filepath.Join(VerifRoot, "replays", c.ID)
	_ = os.MkdirAll(dir, 0o755)
	path := filepath.Join(dir, hex.EncodeToString(sum[:6])+".json")
	data, _ := json.MarshalIndent(map[string]any{
		"property": c.ID, "key": key, "what": what, "seed": c.Seed, "tier": c.Tier, "replay": replay,
	}, "", " ")
	_ = os.WriteFile(path, data, 0o644)
	c.violations[key] = path
	fmt.Printf("VIOLATION property=%s replay=%s\n", c.ID, path)
	fmt.Printf("  what: %s [%s]\n", what, key)
}

// NViolations returns the number of unlisted violations so far.
func (c *Ctx) NViolations() int {
	c.mu.Lock()
	defer c.mu.Unlock()
	return len(c.violations)
}

// KeepDefaultLogger lets a driver install its own slog default before Main.
var KeepDefaultLogger bool

// ReplayFile is set when the driver is asked to re-run a stored replay.
var ReplayFile string

// Main runs a driver.
func Main(id, level string, run func(c *Ctx)) {
	tier := flag.String("tier", envOr("VERIF_TIER", "quick"), "quick|thorough")
	flag.StringVar(&ReplayFile, "replay", "", "replay file")
	flag.Parse()
	if GuardFatal && os.Getenv("VERIF_CHILD") == "" {
		guardFatal(id, level, *tier)
		return
	}
	seed := int64(1)
	if v := os.Getenv("VERIF_SEED"); v != "" {
		if n, err := strconv.ParseInt(v, 10, 64); err == nil {
			seed = n
		}
	}
	if *tier != "quick" && *tier != "thorough" {
		fmt.Fprintln(os.Stderr, "bad tier")
		os.Exit(ExitBroken)
	}
	c := &Ctx{
		ID: id, Tier: *tier, Seed: seed, Rand: rand.New(rand.NewSource(seed)),
		Start:      time.Now(),
		distinct:   map[string]struct{}{},
		extra:      map[string]any{},
		violations: map[string]string{},
		known:      map[string]string{},
		stages:     map[string]any{},
	}
	level0 = level
	if os.Getenv("VERIF_LOG") == "" && !KeepDefaultLogger {
		slog.SetDefault(slog.New(slog.NewTextHandler(io.Discard, nil)))
	}
	c.Work = filepath.Join(VerifRoot, ".work", fmt.Sprintf("%s-%d", id, os.Getpid()))
	_ = os.RemoveAll(c.Work)
	if err := os.MkdirAll(c.Work, 0o755); err != nil {
		fmt.Fprintln(os.Stderr, err)
		os.Exit(ExitBroken)
	}
	if data, err := os.ReadFile(filepath.Join(VerifRoot, "known_findings.json")); err == nil {
		var kf struct {
			Findings []Finding `json:"findings"`
		}
		if err := json.Unmarshal(data, &kf); err != nil {
			c.Broken("known_findings.json: %v", err)
		}
		c.findings = kf.Findings
	}
	// time budget: a check that does not come to an end (a changed tree can make every step run into a timeout) is
	// finished with what it has found so far - exit 1 when a violation was reported, exit 2 otherwise
	budget := 15 * time.Minute
	if *tier == "thorough" {
		budget = 5 * time.Hour
	}
	if v := os.Getenv("VERIF_BUDGET_S"); v != "" {
		if n, err := strconv.Atoi(v); err == nil && n > 0 {
			budget = time.Duration(n) * time.Second
		}
	}
	go func() {
		time.Sleep(budget)
		c.Broken("time budget of %s exceeded; finishing with what was found so far", budget)
		c.finish()
	}()
	func() {
		defer func() {
			if r := recover(); r != nil {
				if r == stopToken {
					return
				}
				c.Broken("driver panic: %v\n%s", r, debug.Stack())
			}
		}()
		run(c)
	}()
	c.finish()
}

var level0 string

// GuardFatal (set by a driver before Main) runs the driver in a child process, so that an abort of the Go runtime
// INSIDE the code under test ("fatal error: concurrent map ..." cannot be recovered) is judged instead of killing the
// check: when the goroutine that faulted was executing a function of github.com/mycoria/mycoria, the crash is
// real-code behaviour and reported as a violation of the property (no router survives it); any other death of the
// child stays what it was (exit 2: the check could not complete).
var GuardFatal bool

func guardFatal(id, level, tier string) {
	cmd := exec.Command(os.Args[0], os.Args[1:]...)
	cmd.Env = append(os.Environ(), "VERIF_CHILD=1")
	cmd.Stdout = os.Stdout
	tail := &tailWriter{max: 256 << 10, out: os.Stderr}
	cmd.Stderr = tail
	err := cmd.Run()
	code := 0
	if err != nil {
		code = ExitBroken
		if ee, ok := err.(*exec.ExitError); ok {
			code = ee.ExitCode()
		}
	}
	fn, what, stack := repoFatal(string(tail.buf))
	if fn == "" {
		os.Exit(code)
	}
	seed := int64(1)
	if v := os.Getenv("VERIF_SEED"); v != "" {
		if n, err := strconv.ParseInt(v, 10, 64); err == nil {
			seed = n
		}
	}
	c := &Ctx{ID: id, Tier: tier, Seed: seed, Rand: rand.New(rand.NewSource(seed)), Start: time.Now(),
		distinct: map[string]struct{}{}, extra: map[string]any{}, violations: map[string]string{}, known: map[string]string{}, stages: map[string]any{}}
	level0 = level
	c.Work = filepath.Join(VerifRoot, ".work", fmt.Sprintf("%s-%d", id, os.Getpid()))
	_ = os.MkdirAll(c.Work, 0o755)
	if data, err := os.ReadFile(filepath.Join(VerifRoot, "known_findings.json")); err == nil {
		var kf struct {
			Findings []Finding `json:"findings"`
		}
		if json.Unmarshal(data, &kf) == nil {
			c.findings = kf.Findings
		}
	}
	c.Rule("the driver ran in a child process that the Go runtime aborted inside the code under test")
	c.Eval(1)
	c.Violation(Key("fatal", what, fn), fmt.Sprintf("the Go runtime aborted the process inside the code under test: fatal error: %s in %s (no recover is possible: every router in the process is gone)", what, fn),
		map[string]any{"fatal": what, "function": fn, "stack": stack}, nil)
	c.finish()
}

type tailWriter struct {
	buf []byte
	max int
	out io.Writer
}

func (t *tailWriter) Write(p []byte) (int, error) {
	t.buf = append(t.buf, p...)
	if len(t.buf) > t.max {
		t.buf = t.buf[len(t.buf)-t.max:]
	}
	return t.out.Write(p)
}

// repoFatal finds a runtime abort in a crash dump and returns the first function of the faulting goroutine that is
// not part of the Go runtime / standard library when that function belongs to the repository under test.
func repoFatal(dump string) (fn, what, stack string) {
	i := strings.Index(dump, "fatal error: ")
	if i < 0 {
		return "", "", ""
	}
	rest := dump[i+len("fatal error: "):]
	nl := strings.IndexByte(rest, '\n')
	if nl < 0 {
		return "", "", ""
	}
	what = strings.TrimSpace(rest[:nl])
	j := strings.Index(rest, "[running]:")
	if j < 0 {
		return "", "", ""
	}
	blk := rest[j:]
	if e := strings.Index(blk, "\n\n"); e > 0 {
		blk = blk[:e]
	}
	lines := strings.Split(blk, "\n")[1:]
	for k := 0; k+1 < len(lines); k += 2 {
		f, file := strings.TrimSpace(lines[k]), strings.TrimSpace(lines[k+1])
		if strings.Contains(file, "/golang.org/toolchain@") || strings.Contains(file, "/go/src/") || strings.Contains(file, "/src/runtime/") || strings.HasPrefix(f, "runtime.") || strings.HasPrefix(f, "internal/") {
			continue
		}
		if strings.HasPrefix(f, "github.com/mycoria/mycoria/") {
			if p := strings.LastIndex(f, "("); p > 0 && strings.HasSuffix(f, ")") {
				f = f[:p]
			}
			return strings.TrimPrefix(f, "github.com/mycoria/mycoria/"), what, blk
		}
		return "", "", ""
	}
	return "", "", ""
}

type stop struct{}

var stopToken = &stop{}

func (c *Ctx) finish() {
	wall := time.Since(c.Start).Seconds()
	c.mu.Lock()
	cov := map[string]any{}
	for k, v := range c.extra {
		cov[k] = v
	}
	cov["evaluations"] = c.evals
	cov["distinct_nontrivial"] = len(c.distinct)
	cov["rule"] = c.rule
	samples := c.samples
	if len(samples) == 0 {
		samples = []any{"(no sample recorded)"}
	}
	cov["samples"] = samples
	cov["states"] = c.states
	cov["transitions"] = c.transitions
	cov["traces_validated_against_impl"] = c.traces
	cov["exhaustive"] = c.exhaustive
	cov["stages"] = c.stages
	knownKeys := make([]string, 0, len(c.known))
	for k := range c.known {
		knownKeys = append(knownKeys, k)
	}
	sort.Strings(knownKeys)
	cov["known_findings_seen"] = knownKeys
	if len(c.broken) > 0 {
		cov["broken"] = c.broken
	}
	ev := map[string]any{
		"property_id": c.ID,
		"tier":        c.Tier,
		"seed":        c.Seed,
		"level":       level0,
		"coverage":    cov,
		"assumptions": append([]string{}, c.assumptions...),
		"wall_s":      wall,
		"violations":  len(c.violations),
	}
	nviol := len(c.violations)
	nbroken := len(c.broken)
	c.mu.Unlock()
	data, _ := json.MarshalIndent(ev, "", " ")
	evDir := "evidence"
	if c.Explore() {
		evDir = "explore"
	}
	_ = os.MkdirAll(filepath.Join(VerifRoot, evDir), 0o755)
	_ = os.WriteFile(filepath.Join(VerifRoot, evDir, c.ID+".json"), data, 0o644)
	if os.Getenv("VERIF_KEEP_WORK") == "" {
		_ = os.RemoveAll(c.Work)
	}
	fmt.Fprintf(os.Stderr, "[%s] done in %.1fs: evals=%d distinct=%d states=%d transitions=%d traces=%d violations=%d known=%d broken=%d\n",
		c.ID, wall, c.evals, len(c.distinct), c.states, c.transitions, c.traces, nviol, len(knownKeys), nbroken)
	switch {
	case nviol > 0 && c.Explore():
		os.Exit(ExitOK)
	case nviol > 0:
		os.Exit(ExitViolation)
	case nbroken > 0:
		os.Exit(ExitBroken)
	default:
		os.Exit(ExitOK)
	}
}

func envOr(k, d string) string {
	if v := os.Getenv(k); v != "" {
		return v
	}
	return d
}

// Key builds a canonical key from parts.
func Key(parts ...any) string {
	s := make([]string, len(parts))
	for i, p := range parts {
		s[i] = fmt.Sprint(p)
	}
	return strings.Join(s, "/")
}

// NoPanic runs fn and reports whether it panicked (with the value).
func NoPanic(fn func()) (panicked bool, val any, stack string) {
	defer func() {
		if r := recover(); r != nil {
			panicked, val, stack = true, r, string(debug.Stack())
		}
	}()
	fn()
	return
}
