package vf

import (
	"bufio"
	"bytes"
	"context"
	"encoding/json"
	"fmt"
	"io"
	"os"
	"os/exec"
	"path/filepath"
	"regexp"
	"strconv"
	"strings"
	"time"
)

// Edge is one transition of a dumped state graph: the spec's ACTION_CONSTRAINT
// prints "EDGE <from-json> <act-json> <to-json>" for every transition TLC takes.
type Edge struct {
	From string
	Act  json.RawMessage
	To   string
}

// TLCOpts configures one TLC run.
type TLCOpts struct {
	Workers  int
	Timeout  time.Duration
	Simulate string // e.g. "num=100" -> -simulate num=100
	Depth    int
	Coverage bool
	Files    map[string][]byte // extra files written next to the spec (e.g. trace.ndjson)
	DFS      bool              // depth-first state queue (trace validation with nondeterminism)
	Seed     int64
	NoSeed   bool
	Heap     string // e.g. "8g"
	KeepOut  bool
	Deadlock bool // check for deadlock (off by default: bounded models stop on purpose)
}

// TLCResult is the parsed outcome of a TLC run.
type TLCResult struct {
	Generated int64
	Distinct  int64
	Depth     int
	Completed bool   // ran to completion without error
	Violated  string // name of violated invariant / property / "deadlock" / "postcondition"
	TimedOut  bool
	Output    string
	Edges     []Edge
	Inits     []string
	Lines     []string         // other PrintT lines (unquoted)
	Coverage  map[string]int64 // action name -> states found by it (needs Coverage)
	ErrTrace  []string         // state texts of the error trace, if any
	Wall      time.Duration
}

var (
	reStats    = regexp.MustCompile(`(\d+) states generated, (\d+) distinct states found`)
	reDepth    = regexp.MustCompile(`The depth of the complete state graph search is (\d+)`)
	reInv      = regexp.MustCompile(`Invariant (\S+) is violated`)
	reActProp  = regexp.MustCompile(`Action property (\S+) is violated`)
	reTempProp = regexp.MustCompile(`Temporal propert(ies were|y \w+ was) violated`)
	reCov      = regexp.MustCompile(`^<(\w+) line \d+, col \d+ to line \d+, col \d+ of module \w+>: (\d+):(\d+)`)
	reState    = regexp.MustCompile(`^State (\d+): `)
)

var tlcSeq int

// TLC runs the model checker on spec/<module>.tla with spec/<cfg> in a scratch
// copy of the spec directory.
func (c *Ctx) TLC(module, cfg string, o TLCOpts) (*TLCResult, error) {
	c.mu.Lock()
	tlcSeq++
	n := tlcSeq
	c.mu.Unlock()
	dir := filepath.Join(c.Work, fmt.Sprintf("tlc-%d-%s", n, strings.TrimSuffix(cfg, ".cfg")))
	if err := os.MkdirAll(dir, 0o755); err != nil {
		return nil, err
	}
	specDir := filepath.Join(VerifRoot, "spec")
	ents, err := os.ReadDir(specDir)
	if err != nil {
		return nil, err
	}
	for _, e := range ents {
		if e.IsDir() {
			continue
		}
		if strings.HasSuffix(e.Name(), ".tla") || e.Name() == cfg {
			data, err := os.ReadFile(filepath.Join(specDir, e.Name()))
			if err != nil {
				return nil, err
			}
			if err := os.WriteFile(filepath.Join(dir, e.Name()), data, 0o644); err != nil {
				return nil, err
			}
		}
	}
	for name, data := range o.Files {
		if err := os.WriteFile(filepath.Join(dir, name), data, 0o644); err != nil {
			return nil, err
		}
	}
	if o.Workers <= 0 {
		o.Workers = 1
	}
	if o.Timeout <= 0 {
		o.Timeout = 5 * time.Minute
	}
	heap := o.Heap
	if heap == "" {
		heap = "6g"
	}
	args := []string{"-XX:+UseParallelGC", "-Xmx" + heap, "-Xss64m"}
	if o.DFS {
		args = append(args, "-Dtlc2.tool.queue.IStateQueue=StateDeque")
	}
	args = append(args,
		"-cp", "/opt/veriftools/tla/tla2tools.jar:/opt/veriftools/tla/CommunityModules-deps.jar",
		"tlc2.TLC", "-metadir", filepath.Join(dir, "meta"), "-workers", strconv.Itoa(o.Workers),
		"-config", cfg, "-noGenerateSpecTE",
	)
	if !o.Deadlock {
		args = append(args, "-deadlock") // -deadlock switches deadlock checking OFF
	}
	if o.Simulate != "" {
		args = append(args, "-simulate", o.Simulate)
	}
	if o.Depth > 0 {
		args = append(args, "-depth", strconv.Itoa(o.Depth))
	}
	if o.Coverage {
		args = append(args, "-coverage", "1")
	}
	if !o.NoSeed && o.Simulate != "" {
		args = append(args, "-seed", strconv.FormatInt(o.Seed, 10))
	}
	args = append(args, module+".tla")
	ctx, cancel := context.WithTimeout(context.Background(), o.Timeout)
	defer cancel()
	cmd := exec.CommandContext(ctx, "java", args...)
	cmd.Dir = dir
	cmd.Env = append(os.Environ(), "JAVA_TOOL_OPTIONS=")
	stdout, err := cmd.StdoutPipe()
	if err != nil {
		return nil, err
	}
	cmd.Stderr = cmd.Stdout
	start := time.Now()
	if err := cmd.Start(); err != nil {
		return nil, err
	}
	res := &TLCResult{Coverage: map[string]int64{}}
	var out bytes.Buffer
	rd := bufio.NewReaderSize(stdout, 1<<20)
	inErrTrace := false
	var cur *strings.Builder
	for {
		line, err := rd.ReadString('\n')
		if len(line) > 0 {
			l := strings.TrimRight(line, "\r\n")
			switch {
			case strings.HasPrefix(l, `"EDGE `):
				var s string
				if json.Unmarshal([]byte(l), &s) == nil {
					if e, ok := parseEdge(s); ok {
						res.Edges = append(res.Edges, e)
					}
				}
			case strings.HasPrefix(l, `"INIT `):
				var s string
				if json.Unmarshal([]byte(l), &s) == nil {
					res.Inits = append(res.Inits, strings.TrimPrefix(s, "INIT "))
				}
			case strings.HasPrefix(l, `"OUT `):
				var s string
				if json.Unmarshal([]byte(l), &s) == nil {
					res.Lines = append(res.Lines, strings.TrimPrefix(s, "OUT "))
				}
			default:
				if out.Len() < 4<<20 {
					out.WriteString(l)
					out.WriteByte('\n')
				}
				if m := reStats.FindStringSubmatch(l); m != nil {
					res.Generated, _ = strconv.ParseInt(m[1], 10, 64)
					res.Distinct, _ = strconv.ParseInt(m[2], 10, 64)
				}
				if m := reDepth.FindStringSubmatch(l); m != nil {
					res.Depth, _ = strconv.Atoi(m[1])
				}
				if m := reInv.FindStringSubmatch(l); m != nil && res.Violated == "" {
					res.Violated = m[1]
					inErrTrace = true
				}
				if m := reActProp.FindStringSubmatch(l); m != nil && res.Violated == "" {
					res.Violated = m[1]
					inErrTrace = true
				}
				if reTempProp.MatchString(l) && res.Violated == "" {
					res.Violated = "temporal"
					inErrTrace = true
				}
				if strings.Contains(l, "Deadlock reached") && res.Violated == "" {
					res.Violated = "deadlock"
					inErrTrace = true
				}
				if strings.Contains(l, "Postcondition") && strings.Contains(l, "is false") && res.Violated == "" {
					res.Violated = "postcondition"
				}
				if strings.Contains(l, "Model checking completed. No error has been found.") {
					res.Completed = true
				}
				if strings.HasPrefix(l, "Finished in") && o.Simulate != "" && res.Violated == "" {
					res.Completed = true
				}
				if m := reCov.FindStringSubmatch(l); m != nil {
					v, _ := strconv.ParseInt(m[3], 10, 64)
					res.Coverage[m[1]] += v
				}
				if inErrTrace {
					if reState.MatchString(l) {
						if cur != nil {
							res.ErrTrace = append(res.ErrTrace, cur.String())
						}
						cur = &strings.Builder{}
					} else if cur != nil && l != "" && !strings.HasPrefix(l, "Finished") && !reStats.MatchString(l) {
						cur.WriteString(l)
						cur.WriteByte('\n')
					}
				}
			}
		}
		if err != nil {
			if err != io.EOF {
				break
			}
			break
		}
	}
	if cur != nil {
		res.ErrTrace = append(res.ErrTrace, cur.String())
	}
	werr := cmd.Wait()
	res.Wall = time.Since(start)
	res.Output = out.String()
	if ctx.Err() == context.DeadlineExceeded {
		res.TimedOut = true
	}
	if os.Getenv("VERIF_KEEP_WORK") == "" && !o.KeepOut {
		_ = os.RemoveAll(filepath.Join(dir, "meta"))
	}
	if o.Simulate != "" && werr == nil && res.Violated == "" {
		res.Completed = true
	}
	if !res.Completed && res.Violated == "" && !res.TimedOut {
		return res, fmt.Errorf("tlc %s/%s failed: %v\n%s", module, cfg, werr, tail(res.Output, 3000))
	}
	return res, nil
}

func parseEdge(s string) (Edge, bool) {
	// "EDGE <json> <json> <json>" - the three JSON documents are separated by
	// a TAB so that they can contain spaces.
	parts := strings.Split(strings.TrimPrefix(s, "EDGE "), "\t")
	if len(parts) != 3 {
		return Edge{}, false
	}
	return Edge{From: canon(parts[0]), Act: json.RawMessage(parts[1]), To: canon(parts[2])}, true
}

// canon re-marshals a JSON document with sorted object keys: TLC's ToJson
// prints record fields in construction order, so equal states can differ
// textually.
func canon(s string) string {
	var v any
	if err := json.Unmarshal([]byte(s), &v); err != nil {
		return s
	}
	out, err := json.Marshal(v)
	if err != nil {
		return s
	}
	return string(out)
}

func tail(s string, n int) string {
	if len(s) <= n {
		return s
	}
	return s[len(s)-n:]
}

// Graph is a dumped state graph.
type Graph struct {
	Inits []string
	Out   map[string][]int // state -> indexes into Edges
	Edges []Edge
}

// BuildGraph indexes the edges of a TLC result.
func BuildGraph(res *TLCResult) *Graph {
	g := &Graph{Inits: res.Inits, Out: map[string][]int{}, Edges: res.Edges}
	for i, e := range res.Edges {
		g.Out[e.From] = append(g.Out[e.From], i)
	}
	return g
}

// CoverPaths returns a set of paths (sequences of edge indexes), each starting
// in an initial state, that together traverse every edge reachable from the
// initial states at least once. maxLen bounds the length of a path's greedy
// extension (0 = unbounded). Deterministic for a given graph.
func (g *Graph) CoverPaths(maxLen int) [][]int {
	// BFS tree from the initial states: parent edge of every reachable state.
	parent := map[string]int{}
	seen := map[string]bool{}
	var queue []string
	for _, s := range g.Inits {
		if !seen[s] {
			seen[s] = true
			queue = append(queue, s)
		}
	}
	for len(queue) > 0 {
		s := queue[0]
		queue = queue[1:]
		for _, ei := range g.Out[s] {
			t := g.Edges[ei].To
			if !seen[t] {
				seen[t] = true
				parent[t] = ei
				queue = append(queue, t)
			}
		}
	}
	prefix := func(s string) []int {
		var rev []int
		for {
			ei, ok := parent[s]
			if !ok {
				break
			}
			rev = append(rev, ei)
			s = g.Edges[ei].From
		}
		for i, j := 0, len(rev)-1; i < j; i, j = i+1, j-1 {
			rev[i], rev[j] = rev[j], rev[i]
		}
		return rev
	}
	covered := make([]bool, len(g.Edges))
	var paths [][]int
	for ei := range g.Edges {
		if covered[ei] || !seen[g.Edges[ei].From] {
			continue
		}
		p := prefix(g.Edges[ei].From)
		for _, x := range p {
			covered[x] = true
		}
		p = append(p, ei)
		covered[ei] = true
		// Greedy extension over uncovered edges.
		cur := g.Edges[ei].To
		for maxLen == 0 || len(p) < maxLen {
			next := -1
			for _, oi := range g.Out[cur] {
				if !covered[oi] {
					next = oi
					break
				}
			}
			if next < 0 {
				break
			}
			covered[next] = true
			p = append(p, next)
			cur = g.Edges[next].To
		}
		paths = append(paths, p)
	}
	return paths
}

// NDJSON encodes events one per line.
func NDJSON(events []any) []byte {
	var b bytes.Buffer
	enc := json.NewEncoder(&b)
	for _, e := range events {
		_ = enc.Encode(e)
	}
	return b.Bytes()
}

// TraceCheck validates an ndjson trace against a trace spec. The trace spec
// must (a) read "trace.ndjson", (b) keep its position in variable l, (c) print
// `"OUT REJECT <n>"` from its postcondition when only n-1 lines could be
// matched. It returns the 1-based index of the first line that could not be
// explained (0 = accepted), or the line at which an invariant was violated
// together with the invariant's name.
func (c *Ctx) TraceCheck(module, cfg string, events []any, o TLCOpts) (rejectAt int, inv string, res *TLCResult, err error) {
	if o.Files == nil {
		o.Files = map[string][]byte{}
	}
	o.Files["trace.ndjson"] = NDJSON(events)
	if o.Workers == 0 {
		o.Workers = 1
	}
	res, err = c.TLC(module, cfg, o)
	if err != nil {
		return 0, "", res, err
	}
	if res.TimedOut {
		return 0, "", res, fmt.Errorf("trace validation timed out")
	}
	if res.Violated != "" && res.Violated != "postcondition" {
		// Position = value of l in the last state of the error trace.
		at := 0
		if len(res.ErrTrace) > 0 {
			last := res.ErrTrace[len(res.ErrTrace)-1]
			if m := regexp.MustCompile(`(?m)^/\\ l = (\d+)`).FindStringSubmatch(last); m != nil {
				at, _ = strconv.Atoi(m[1])
				at-- // l points at the next line to consume
			}
		}
		return at, res.Violated, res, nil
	}
	for _, l := range res.Lines {
		if strings.HasPrefix(l, "REJECT ") {
			n, _ := strconv.Atoi(strings.TrimPrefix(l, "REJECT "))
			return n, "", res, nil
		}
	}
	if res.Violated == "postcondition" {
		return -1, "", res, fmt.Errorf("postcondition violated without REJECT line:\n%s", tail(res.Output, 2000))
	}
	return 0, "", res, nil
}
