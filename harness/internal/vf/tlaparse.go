package vf

import (
	"fmt"
	"os"
	"strconv"
	"strings"
)

// ParseTLA parses the text of a TLA+ value as TLC prints it (records, sequences, sets, functions written
// with :> and @@, strings, integers, booleans) into Go values: map[string]any, []any, string, int, bool.
// Sets become []any; functions become map[string]any keyed by the printed domain element.
func ParseTLA(s string) (any, error) {
	p := &tlaParser{s: s}
	v, err := p.value()
	if err != nil {
		return nil, err
	}
	p.ws()
	if p.i != len(p.s) {
		return nil, fmt.Errorf("trailing text at %d: %q", p.i, p.s[p.i:min(len(p.s), p.i+20)])
	}
	return v, nil
}

type tlaParser struct {
	s string
	i int
}

func (p *tlaParser) ws() {
	for p.i < len(p.s) && (p.s[p.i] == ' ' || p.s[p.i] == '\n' || p.s[p.i] == '\t' || p.s[p.i] == '\r') {
		p.i++
	}
}

func (p *tlaParser) lit(t string) bool {
	p.ws()
	if strings.HasPrefix(p.s[p.i:], t) {
		p.i += len(t)
		return true
	}
	return false
}

func (p *tlaParser) value() (any, error) {
	v, err := p.atom()
	if err != nil {
		return nil, err
	}
	// function literal: a :> b @@ c :> d
	if p.lit(":>") {
		out := map[string]any{}
		key := fmt.Sprint(v)
		for {
			val, err := p.atom()
			if err != nil {
				return nil, err
			}
			out[key] = val
			if !p.lit("@@") {
				break
			}
			k, err := p.atom()
			if err != nil {
				return nil, err
			}
			if !p.lit(":>") {
				return nil, fmt.Errorf("expected :> at %d", p.i)
			}
			key = fmt.Sprint(k)
		}
		return out, nil
	}
	return v, nil
}

func (p *tlaParser) list(close string) ([]any, error) {
	var out []any
	if p.lit(close) {
		return []any{}, nil
	}
	for {
		v, err := p.value()
		if err != nil {
			return nil, err
		}
		out = append(out, v)
		if p.lit(",") {
			continue
		}
		if p.lit(close) {
			return out, nil
		}
		return nil, fmt.Errorf("expected , or %s at %d", close, p.i)
	}
}

func (p *tlaParser) atom() (any, error) {
	p.ws()
	if p.i >= len(p.s) {
		return nil, fmt.Errorf("unexpected end")
	}
	switch {
	case p.lit("<<"):
		return p.list(">>")
	case p.lit("{"):
		return p.list("}")
	case p.lit("("):
		v, err := p.value()
		if err != nil {
			return nil, err
		}
		if !p.lit(")") {
			return nil, fmt.Errorf("expected ) at %d", p.i)
		}
		return v, nil
	case p.lit("["):
		out := map[string]any{}
		if p.lit("]") {
			return out, nil
		}
		for {
			p.ws()
			j := p.i
			for j < len(p.s) && (p.s[j] == '_' || p.s[j] >= '0' && p.s[j] <= '9' || p.s[j] >= 'a' && p.s[j] <= 'z' || p.s[j] >= 'A' && p.s[j] <= 'Z') {
				j++
			}
			name := p.s[p.i:j]
			p.i = j
			if !p.lit("|->") {
				return nil, fmt.Errorf("expected |-> at %d", p.i)
			}
			v, err := p.value()
			if err != nil {
				return nil, err
			}
			out[name] = v
			if p.lit(",") {
				continue
			}
			if p.lit("]") {
				return out, nil
			}
			return nil, fmt.Errorf("expected , or ] at %d", p.i)
		}
	case p.s[p.i] == '"':
		j := p.i + 1
		var b strings.Builder
		for j < len(p.s) && p.s[j] != '"' {
			if p.s[j] == '\\' && j+1 < len(p.s) {
				j++
			}
			b.WriteByte(p.s[j])
			j++
		}
		p.i = j + 1
		return b.String(), nil
	case p.lit("TRUE"):
		return true, nil
	case p.lit("FALSE"):
		return false, nil
	default:
		j := p.i
		if p.s[j] == '-' {
			j++
		}
		for j < len(p.s) && p.s[j] >= '0' && p.s[j] <= '9' {
			j++
		}
		if j == p.i {
			return nil, fmt.Errorf("unexpected %q at %d", p.s[p.i], p.i)
		}
		n, _ := strconv.Atoi(p.s[p.i:j])
		p.i = j
		return n, nil
	}
}

// ParseState parses the conjunct list of one printed state ("/\\ name = value" per variable).
func ParseState(text string, vars ...string) (map[string]any, error) {
	st := map[string]any{}
	var cur, name string
	flush := func() {
		if name == "" {
			return
		}
		for _, v := range vars {
			if v == name {
				if val, err := ParseTLA(cur); err == nil {
					st[name] = val
				} else {
					st[name+"_error"] = err.Error()
				}
			}
		}
	}
	for _, l := range strings.Split(text, "\n") {
		if strings.HasPrefix(l, "/\\ ") {
			flush()
			rest := strings.TrimPrefix(l, "/\\ ")
			eq := strings.Index(rest, " = ")
			if eq < 0 {
				name = ""
				continue
			}
			name, cur = rest[:eq], rest[eq+3:]
		} else if name != "" && (strings.HasPrefix(l, " ") || strings.HasPrefix(l, "\t")) {
			cur += "\n" + l // continuation lines of a long value are indented
		} else if strings.TrimSpace(l) != "" {
			flush()
			name = ""
		}
	}
	flush()
	if len(st) == 0 {
		return nil, fmt.Errorf("no variables found")
	}
	return st, nil
}

// SimWalk reads one behaviour file written by `tlc -simulate file=...` and returns, per state, the parsed value of
// the given variables (a missing variable is absent from the map).
func SimWalk(path string, vars ...string) ([]map[string]any, error) {
	data, err := os.ReadFile(path)
	if err != nil {
		return nil, err
	}
	var out []map[string]any
	for _, blk := range strings.Split(string(data), "STATE_")[1:] {
		// conjuncts start with "/\ name = " at the beginning of a line
		st := map[string]any{}
		lines := strings.Split(blk, "\n")
		var cur, name string
		flush := func() {
			if name == "" {
				return
			}
			for _, v := range vars {
				if v == name {
					if val, err := ParseTLA(cur); err == nil {
						st[name] = val
					} else {
						st[name+"_error"] = err.Error()
					}
				}
			}
		}
		for _, l := range lines[1:] {
			if strings.HasPrefix(l, "/\\ ") {
				flush()
				rest := strings.TrimPrefix(l, "/\\ ")
				eq := strings.Index(rest, " = ")
				if eq < 0 {
					name = ""
					continue
				}
				name, cur = rest[:eq], rest[eq+3:]
			} else if name != "" && strings.HasPrefix(l, "\\*") {
				// the comment line that names the action of the NEXT state ends this one
				flush()
				name = ""
			} else if name != "" {
				cur += "\n" + l
			}
		}
		flush()
		out = append(out, st)
	}
	return out, nil
}
