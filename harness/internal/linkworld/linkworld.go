// Package linkworld joins two real router stacks by a REAL link (real
// LinkBase objects, handshake, link encryption, reader and writer workers)
// over in-memory connections that pass through an adversary proxy which
// understands the 2-byte length framing.
package linkworld

import (
	"bytes"
	"errors"
	"fmt"
	"io"
	"net"
	"net/netip"
	"runtime/debug"
	"sync"
	"sync/atomic"
	"time"

	"github.com/mycoria/mycoria/frame"
	"github.com/mycoria/mycoria/m"
	"github.com/mycoria/mycoria/peering"

	"verifharness/internal/world"
)

// Msg is one framed message seen by the proxy.
type Msg struct {
	Dir  string // "A" = sent by A towards B, "B" = sent by B towards A
	Idx  int    // 1-based index in its direction
	Data []byte // complete message including the 2-byte length prefix
}

// Proxy relays framed messages between the two ends and lets a hook rewrite them.
type Proxy struct {
	mu         sync.Mutex
	ends       map[string]net.Conn // proxy-side connection towards A / B
	Transcript map[string][][]byte // what each side SENT (before the hook)
	Delivered  map[string][][]byte // what was written towards the peer of Dir
	// Hook decides what is forwarded instead of msg (nil = forward unchanged).
	// It may block (e.g. to wait for a message of the other direction).
	Hook     func(p *Proxy, msg Msg) [][]byte
	lastAct  time.Time
	closed   bool
	RawBytes map[string][]byte // everything that crossed towards the peer of Dir (for clear-text scans)
}

func peerOf(d string) string {
	if d == "A" {
		return "B"
	}
	return "A"
}

// SetHook installs the hook of a proxy that is already running.
func (p *Proxy) SetHook(h func(p *Proxy, msg Msg) [][]byte) {
	p.mu.Lock()
	p.Hook = h
	p.mu.Unlock()
}

// NDelivered returns how many messages of side dir were written towards its peer.
func (p *Proxy) NDelivered(dir string) int {
	p.mu.Lock()
	defer p.mu.Unlock()
	return len(p.Delivered[dir])
}

// Sent returns the idx-th message side dir sent, waiting up to d for it.
func (p *Proxy) Sent(dir string, idx int, d time.Duration) []byte {
	deadline := time.Now().Add(d)
	for {
		p.mu.Lock()
		if len(p.Transcript[dir]) >= idx {
			out := p.Transcript[dir][idx-1]
			p.mu.Unlock()
			return out
		}
		p.mu.Unlock()
		if time.Now().After(deadline) {
			return nil
		}
		time.Sleep(time.Millisecond)
	}
}

// NSent returns how many messages side dir has sent so far.
func (p *Proxy) NSent(dir string) int {
	p.mu.Lock()
	defer p.mu.Unlock()
	return len(p.Transcript[dir])
}

// Raw returns a copy of everything written towards the peer of dir so far (under the proxy's lock: the proxy's
// goroutines may still be writing).
func (p *Proxy) Raw(dir string) []byte {
	p.mu.Lock()
	defer p.mu.Unlock()
	return append([]byte(nil), p.RawBytes[dir]...)
}

// Inject writes raw bytes towards the peer of dir (as if dir had sent them).
func (p *Proxy) Inject(dir string, data []byte) error {
	p.mu.Lock()
	c := p.ends[peerOf(dir)]
	p.RawBytes[dir] = append(p.RawBytes[dir], data...)
	p.lastAct = time.Now()
	p.mu.Unlock()
	_, err := c.Write(data)
	return err
}

func (p *Proxy) loop(dir string) {
	src := p.ends[dir]
	idx := 0
	for {
		var lb [2]byte
		if _, err := io.ReadFull(src, lb[:]); err != nil {
			p.Close()
			return
		}
		n := int(lb[0])<<8 | int(lb[1])
		if n < 2 {
			p.Close()
			return
		}
		data := make([]byte, n)
		copy(data, lb[:])
		if _, err := io.ReadFull(src, data[2:]); err != nil {
			p.Close()
			return
		}
		idx++
		p.mu.Lock()
		p.Transcript[dir] = append(p.Transcript[dir], data)
		p.lastAct = time.Now()
		hook := p.Hook
		p.mu.Unlock()
		out := [][]byte{data}
		if hook != nil {
			if r := hook(p, Msg{Dir: dir, Idx: idx, Data: data}); r != nil {
				out = r
			}
		}
		for _, o := range out {
			if len(o) == 0 {
				continue
			}
			p.mu.Lock()
			p.Delivered[dir] = append(p.Delivered[dir], o)
			p.mu.Unlock()
			if err := p.Inject(dir, o); err != nil {
				p.Close()
				return
			}
		}
	}
}

// Close closes both proxy-side connections.
func (p *Proxy) Close() {
	p.mu.Lock()
	if p.closed {
		p.mu.Unlock()
		return
	}
	p.closed = true
	ends := p.ends
	p.mu.Unlock()
	for _, c := range ends {
		_ = c.Close()
	}
}

// Forget drops what the proxy has recorded so far (transcripts, delivered messages, raw bytes) - for set-ups that
// carry many thousands of frames and never look at the record.
func (p *Proxy) Forget() {
	p.mu.Lock()
	defer p.mu.Unlock()
	p.Transcript = map[string][][]byte{}
	p.Delivered = map[string][][]byte{}
	p.RawBytes = map[string][]byte{}
}

// Idle returns how long nothing has crossed the proxy.
func (p *Proxy) Idle() time.Duration {
	p.mu.Lock()
	defer p.mu.Unlock()
	return time.Since(p.lastAct)
}

// Result is the outcome of one link set-up.
type Result struct {
	LinkA, LinkB peering.Link
	ErrA, ErrB   error
	Proxy        *Proxy
	TimedOut     bool
}

// RegA reports whether A has a live registered link to B.
func (r *Result) Reg(n, peer *world.Node) bool {
	l := n.Peer.GetLink(peer.ID.IP)
	return l != nil && !l.IsClosing()
}

// Connect runs the real link set-up on both ends (A dials, B listens).
func Connect(a, b *world.Node, hook func(p *Proxy, msg Msg) [][]byte, wait time.Duration) *Result {
	ca, pa := net.Pipe()
	cb, pb := net.Pipe()
	p := &Proxy{ends: map[string]net.Conn{"A": pa, "B": pb}, Transcript: map[string][][]byte{}, Delivered: map[string][][]byte{},
		Hook: hook, lastAct: time.Now(), RawBytes: map[string][]byte{}}
	go p.loop("A")
	go p.loop("B")
	url, err := m.ParsePeeringURL("tcp://127.0.0.1:47369")
	if err != nil {
		panic(err)
	}
	type ret struct {
		l   peering.Link
		err error
	}
	ra, rb := make(chan ret, 1), make(chan ret, 1)
	guarded := func(n *world.Node, conn net.Conn, outgoing bool, out chan ret) {
		defer func() {
			if r := recover(); r != nil {
				Panics.Add(1)
				out <- ret{nil, fmt.Errorf("panic: %v\n%s", r, debug.Stack())}
			}
		}()
		l, err := n.Peer.VerifSetupLink(conn, url, outgoing)
		out <- ret{l, err}
	}
	go guarded(a, ca, true, ra)
	go guarded(b, cb, false, rb)
	res := &Result{Proxy: p}
	var gotA, gotB bool
	for !gotA || !gotB {
		select {
		case r := <-ra:
			res.LinkA, res.ErrA, gotA = r.l, r.err, true
		case r := <-rb:
			res.LinkB, res.ErrB, gotB = r.l, r.err, true
		case <-time.After(20 * time.Millisecond):
			if p.Idle() > wait {
				// somebody waits for a message that will never come: the connection times out
				res.TimedOut = true
				p.Close()
				_ = ca.Close()
				_ = cb.Close()
			}
		}
	}
	return res
}

// Drain reads frames arriving at a node's frame handler channel (the channel
// the link reader delivers to) and keeps a serialised copy of each.
type Drain struct {
	mu     sync.Mutex
	Frames [][]byte
	// Mismatch lists delivered frames whose accessors (what a handler sees: SrcIP, DstIP, MessageType) disagree
	// with the frame's own bytes.
	Mismatch []string
	// Hold: the handler keeps every frame until the next one arrived (at most 1 ms) and compares it again.
	Hold    atomic.Bool
	arrived int
	stop    chan struct{}
	once    sync.Once
}

// StartDrain starts draining n's frame handler channel.
func StartDrain(n *world.Node) *Drain {
	d := &Drain{stop: make(chan struct{})}
	go func() {
		for {
			select {
			case f := <-n.Sw.Input():
				raw, err := f.FrameDataWithMargins(0, 0)
				if err == nil {
					d.mu.Lock()
					d.Frames = append(d.Frames, append([]byte(nil), raw...))
					if len(raw) >= 48 {
						src, _ := netip.AddrFromSlice(raw[16:32])
						dst, _ := netip.AddrFromSlice(raw[32:48])
						if f.SrcIP() != src || f.DstIP() != dst || uint8(f.MessageType()) != raw[4] {
							d.Mismatch = append(d.Mismatch, fmt.Sprintf("handler sees %s -> %s type %d, the bytes say %s -> %s type %d", f.SrcIP(), f.DstIP(), f.MessageType(), src, dst, raw[4]))
						}
					}
					d.arrived++
					mine := d.arrived
					first := d.Frames[len(d.Frames)-1]
					d.mu.Unlock()
					if d.Hold.Load() {
						// a handler works on the frame for a while: until the next frame arrived (at most 1 ms)
						go func() {
							deadline := time.Now().Add(time.Millisecond)
							for time.Now().Before(deadline) {
								d.mu.Lock()
								next := d.arrived > mine
								d.mu.Unlock()
								if next {
									break
								}
								time.Sleep(20 * time.Microsecond)
							}
							time.Sleep(50 * time.Microsecond)
							if again, err := f.FrameDataWithMargins(0, 0); err != nil || !bytes.Equal(again, first) {
								d.mu.Lock()
								d.Mismatch = append(d.Mismatch, "the frame changed while the handler held it")
								d.mu.Unlock()
							}
							f.ReturnToPool()
						}()
						continue
					}
				}
				f.ReturnToPool()
			case <-d.stop:
				return
			}
		}
	}()
	return d
}

// Stop stops the drain.
func (d *Drain) Stop() { d.once.Do(func() { close(d.stop) }) }

// Take returns and forgets the frames received so far.
func (d *Drain) Take() [][]byte {
	d.mu.Lock()
	defer d.mu.Unlock()
	out := d.Frames
	d.Frames = nil
	return out
}

// TakeMismatches returns and forgets the accessor/bytes disagreements seen so far.
func (d *Drain) TakeMismatches() []string {
	d.mu.Lock()
	defer d.mu.Unlock()
	out := d.Mismatch
	d.Mismatch = nil
	return out
}

// Put puts frames back (in front).
func (d *Drain) Put(fr [][]byte) {
	d.mu.Lock()
	defer d.mu.Unlock()
	d.Frames = append(fr, d.Frames...)
}

// WaitN waits until at least n frames arrived or the timeout passed.
func (d *Drain) WaitN(n int, timeout time.Duration) int {
	deadline := time.Now().Add(timeout)
	for {
		d.mu.Lock()
		k := len(d.Frames)
		d.mu.Unlock()
		if k >= n || time.Now().After(deadline) {
			return k
		}
		time.Sleep(time.Millisecond)
	}
}

// SendFrame builds a frame at `from` for `to` and hands it to the link.
func SendFrame(from, to *world.Node, l peering.Link, mt frame.MessageType, payload []byte) ([]byte, error) {
	f, err := from.Builder.NewFrameV1(from.ID.IP, to.ID.IP, mt, nil, payload, nil)
	if err != nil {
		return nil, err
	}
	raw, _ := f.FrameDataWithMargins(0, 0)
	cp := append([]byte(nil), raw...)
	if l == nil {
		return nil, errors.New("no link")
	}
	if mt.IsPriority() {
		return cp, l.SendPriority(f)
	}
	return cp, l.Send(f)
}

// SetupRet is the result of one end's link set-up.
type SetupRet struct {
	Link peering.Link
	Err  error
}

// Pending is a connection whose two set-ups run on their own goroutines.
type Pending struct {
	Proxy        *Proxy
	ConnA, ConnB net.Conn // the connection ends handed to the dialler (A) and the listener (B)
	DoneA, DoneB chan SetupRet
}

// Start begins the real link set-up on both ends (a dials, b listens) and
// returns at once; the results arrive on DoneA / DoneB.
func Start(a, b *world.Node) *Pending {
	ca, pa := net.Pipe()
	cb, pb := net.Pipe()
	p := &Proxy{ends: map[string]net.Conn{"A": pa, "B": pb}, Transcript: map[string][][]byte{}, Delivered: map[string][][]byte{},
		lastAct: time.Now(), RawBytes: map[string][]byte{}}
	go p.loop("A")
	go p.loop("B")
	url, err := m.ParsePeeringURL("tcp://127.0.0.1:47369")
	if err != nil {
		panic(err)
	}
	pd := &Pending{Proxy: p, ConnA: ca, ConnB: cb, DoneA: make(chan SetupRet, 1), DoneB: make(chan SetupRet, 1)}
	setup := func(n *world.Node, conn net.Conn, outgoing bool, done chan SetupRet) {
		// In the router a set-up runs under a manager that recovers panics; here the panic is reported as the
		// set-up's error ("panic: ...") so that the driver can judge it.
		defer func() {
			if r := recover(); r != nil {
				Panics.Add(1)
				done <- SetupRet{nil, fmt.Errorf("panic: %v\n%s", r, debug.Stack())}
			}
		}()
		l, err := n.Peer.VerifSetupLink(conn, url, outgoing)
		done <- SetupRet{l, err}
	}
	go setup(a, ca, true, pd.DoneA)
	go setup(b, cb, false, pd.DoneB)
	return pd
}

// Panics counts set-ups that panicked.
var Panics atomic.Int64
