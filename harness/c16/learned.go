// Stage T-learned of C16: link churn among routers whose ROUTER SUBSYSTEM is alive.
//
// In the other stages the routing tables only ever hold what AddLink / RemoveLink write themselves (the peer routes).
// In a running router the table is also written by the router while links live: a router announces itself over its
// links (router/ping_announce.go: the receiver stores a peer route for a direct announcement, a gossip route whose next
// hop is the link's peer for a forwarded one, and forwards it), and a router that lost a link tells its remaining
// peers with a disconnect ping (router/ping_disconnect.go: every receiver drops all routes that involve the sender -
// the peer route of its own live link to the sender included, until the sender's next direct announcement).
//
// Here the histories of stage T (connect, simultaneous cross-connect, close by manager / by the link object / broken
// connection) are run with these steps between establishment and close, all made by the REAL code: the routers'
// own AnnouncePing.Send / DisconnectPing.Send put the pings on the real links (handshake, link encryption, writer,
// reader), and every frame a link reader delivers goes through the real switch handler and router worker of its
// router (the driver plays the switch worker's loop, one frame at a time, so that it knows when no handler runs).
// The clause "no route whose next hop has no live link" is thereby asked over tables that hold learned routes, at
// the same quiescent points, by the same oracle (LinkRegistry_Trace).
//
// What the driver does NOT demand (see DESIGN 0a.6 for the kind): a disconnect ping leaves a live link without its
// peer route until the peer's next direct announcement - that is the router's doing, not a link event of the
// property; before a record is taken the peers concerned announce themselves (as their timer would), and a record is
// only taken when every live link has its peer route again. A frame that arrives over a link that has closed
// meanwhile is not handled (it would write a route for a peer without link after the close).
package main

import (
	"fmt"
	"math/rand"
	"net/netip"
	"os"
	"strings"
	"sync"
	"sync/atomic"
	"time"

	"github.com/fxamacker/cbor/v2"

	"github.com/mycoria/mycoria/frame"
	"github.com/mycoria/mycoria/m"
	"github.com/mycoria/mycoria/peering"
	"github.com/mycoria/mycoria/router"

	"verifharness/internal/linkworld"
	"verifharness/internal/mesh"
	"verifharness/internal/vf"
	"verifharness/internal/world"
)

type learnedStats struct {
	Rounds           int `json:"rounds"`
	Snapshots        int `json:"snapshots"`
	SkippedSnapshots int `json:"snapshots_skipped"`
	LeftOpen         int `json:"records_not_taken_to_keep_peer_routes_missing"`
	Pings            int `json:"pings_sent"`
	SendErrs         int `json:"ping_send_errors"`
	Handled          int `json:"frames_handled"`
	HandlerErrs      int `json:"handler_errors"`
	LateDropped      int `json:"frames_of_closed_links_not_handled"`
	LearnedSeen      int `json:"learned_routes_in_records"`
	PeerRouteLost    int `json:"live_links_that_lost_their_peer_route"`
	Restores         int `json:"peer_routes_restored_by_announcement"`
	Closes           int `json:"closes"`
	ClosesLearned    int `json:"closes_with_learned_routes_via_the_peer"`
	ClosesWindow     int `json:"closes_with_learned_routes_and_no_peer_route"`
	firstErrs        []string
}

type lconn struct {
	pd     *linkworld.Pending
	a, b   *world.Node
	ra, rb *linkworld.SetupRet
}

type heldFrame struct {
	nd *world.Node
	f  frame.Frame
}

type lworld struct {
	c           *vf.Ctx
	rng         *rand.Rand
	ms          *mesh.Mesh
	nodes       []*world.Node
	names       map[*world.Node]string
	byIP        map[netip.Addr]*world.Node
	conns       []*lconn
	asyncCloses atomic.Int32

	mu      sync.Mutex
	backlog []heldFrame // frames the link readers delivered, in arrival order, not yet handled
	stop    chan struct{}
	wg      sync.WaitGroup

	events   []any
	hist     []string
	st       *learnedStats
	lastSend map[*world.Node]time.Time
	tag      string
	// routers that have sent a disconnect ping and not announced themselves since: their neighbours hold no peer
	// route for them. A router announces itself every five minutes, so this state lasts: the generator lets the
	// history go on around such routers (other routers announce, their links close) more often than not.
	dirty map[*world.Node]bool

	// links whose Close has come back from RemoveLink (gate "removed"): a link that is closing and has not got there
	// is a close under way, however long its goroutine is kept from running
	rmMu    sync.Mutex
	removed map[*peering.LinkBase]bool
}

// closeDone: the link is closing and its RemoveLink has returned.
func (lw *lworld) closeDone(l peering.Link) bool {
	lb, ok := l.(*peering.LinkBase)
	if !ok {
		return true
	}
	lw.rmMu.Lock()
	defer lw.rmMu.Unlock()
	return lw.removed[lb]
}

func (lw *lworld) rname(ip netip.Addr) string {
	if nd := lw.byIP[ip]; nd != nil {
		return lw.names[nd]
	}
	return ip.String()
}

func (lw *lworld) note(format string, a ...any) {
	lw.hist = append(lw.hist, fmt.Sprintf(format, a...))
}

// takers: one goroutine per router takes what the link readers deliver (the readers block until somebody does, and
// a blocked reader does not notice that its connection was closed). Nothing is handled here.
func (lw *lworld) startTakers() {
	lw.stop = make(chan struct{})
	for _, nd := range lw.nodes {
		nd := nd
		lw.wg.Add(1)
		go func() {
			defer lw.wg.Done()
			for {
				select {
				case f := <-nd.Sw.Input():
					lw.mu.Lock()
					lw.backlog = append(lw.backlog, heldFrame{nd, f})
					lw.mu.Unlock()
				case <-lw.stop:
					return
				}
			}
		}()
	}
}

func (lw *lworld) stopTakers() {
	close(lw.stop)
	lw.wg.Wait()
	lw.mu.Lock()
	for _, h := range lw.backlog {
		h.f.ReturnToPool()
	}
	lw.backlog = nil
	lw.mu.Unlock()
}

// settle waits for a quiescent point of the link events (no set-up or close under way, no connection with one live
// end) and returns the live link objects; nil when there is none within 3 s.
func (lw *lworld) settle() map[peering.Link]*world.Node {
	deadline := time.Now().Add(3 * time.Second)
	for {
		live := map[peering.Link]*world.Node{}
		q := lw.asyncCloses.Load() == 0
		for _, k := range lw.conns {
			if k.ra == nil {
				select {
				case v := <-k.pd.DoneA:
					k.ra = &v
				default:
					q = false
				}
			}
			if k.rb == nil {
				select {
				case v := <-k.pd.DoneB:
					k.rb = &v
				default:
					q = false
				}
			}
			cnt := 0
			for _, e := range []struct {
				r  *linkworld.SetupRet
				nd *world.Node
			}{{k.ra, k.a}, {k.rb, k.b}} {
				switch {
				case e.r == nil || e.r.Link == nil:
				case !e.r.Link.IsClosing():
					live[e.r.Link] = e.nd
					cnt++
				case !lw.closeDone(e.r.Link):
					q = false // the closing flag is won, RemoveLink has not returned
				}
			}
			if cnt == 1 {
				q = false
			}
		}
		if q {
			time.Sleep(3 * time.Millisecond)
			stable := lw.asyncCloses.Load() == 0
			for l := range live {
				if l.IsClosing() {
					stable = false
				}
			}
			if stable {
				return live
			}
		}
		if time.Now().After(deadline) {
			return nil
		}
		time.Sleep(500 * time.Microsecond)
	}
}

var lateFrames = os.Getenv("VERIF_C16_LATEFRAMES") != "" // experiment: also handle frames of links that have closed

// pump handles the delivered frames one after the other - switch handler, then router worker, the real ones - until
// nothing has arrived and nothing has crossed a connection for a moment. Only called at quiescent points of the link
// events, so no link closes while a handler runs.
func (lw *lworld) pump() {
	const quiet = 4 * time.Millisecond
	deadline := time.Now().Add(800 * time.Millisecond)
	quietSince := time.Now()
	for {
		lw.mu.Lock()
		batch := lw.backlog
		lw.backlog = nil
		lw.mu.Unlock()
		if len(batch) > 0 {
			for _, h := range batch {
				lw.handle(h)
			}
			quietSince = time.Now()
			continue
		}
		idle := time.Since(quietSince) >= quiet
		for _, k := range lw.conns {
			if k.pd.Proxy.Idle() < quiet {
				idle = false
			}
		}
		if idle || time.Now().After(deadline) {
			return
		}
		time.Sleep(300 * time.Microsecond)
	}
}

func (lw *lworld) handle(h heldFrame) {
	rl := h.f.RecvLink()
	if rl == nil || (rl.IsClosing() && !lateFrames) {
		h.f.ReturnToPool()
		lw.st.LateDropped++
		return
	}
	res, err := lw.ms.W.Inject(h.nd, h.f)
	lw.st.Handled++
	if err != nil && len(lw.st.firstErrs) < 5 {
		lw.st.firstErrs = append(lw.st.firstErrs, err.Error())
	}
	for _, r := range res {
		if e := r.HandlerErr(); e != "" {
			lw.st.HandlerErrs++
			if len(lw.st.firstErrs) < 5 {
				lw.st.firstErrs = append(lw.st.firstErrs, e)
			}
		}
	}
}

// space keeps two pings of one router apart (they are signed with a time stamp of millisecond precision; a second
// one with the same stamp is refused as a replay).
func (lw *lworld) space(x *world.Node) {
	if d := time.Since(lw.lastSend[x]); d < 2500*time.Microsecond {
		time.Sleep(2500*time.Microsecond - d)
	}
	lw.lastSend[x] = time.Now()
}

// announce: x's announce timer fires (router.announceRouter: one announcement per link).
func (lw *lworld) announce(x *world.Node, only netip.Addr) {
	for _, l := range x.Peer.GetLinks() {
		if only.IsValid() && l.Peer() != only {
			continue
		}
		lw.space(x)
		lw.st.Pings++
		if err := x.Rt.AnnouncePing.Send(l.Peer()); err != nil {
			lw.st.SendErrs++
		}
	}
	delete(lw.dirty, x)
	lw.events = append(lw.events, map[string]any{"ev": "ping", "kind": "announce", "router": lw.names[x], "tag": lw.tag})
}

// pickAnnouncer: a router with links; three times out of four not one of the dirty ones.
func (lw *lworld) pickAnnouncer() *world.Node {
	var all, clean []*world.Node
	for _, nd := range lw.nodes {
		if len(nd.Peer.GetLinks()) > 0 {
			all = append(all, nd)
			if !lw.dirty[nd] {
				clean = append(clean, nd)
			}
		}
	}
	if len(clean) > 0 && lw.rng.Intn(4) != 0 {
		return clean[lw.rng.Intn(len(clean))]
	}
	if len(all) > 0 {
		return all[lw.rng.Intn(len(all))]
	}
	return nil
}

// pickClose: two times out of three a link of a dirty router, if there is one.
func (lw *lworld) pickClose(ll []liveLink) liveLink {
	var hot []liveLink
	for _, k := range ll {
		if lw.dirty[k.owner] || lw.dirty[lw.byIP[k.l.Peer()]] {
			hot = append(hot, k)
		}
	}
	if len(hot) > 0 && lw.rng.Intn(3) != 0 {
		return hot[lw.rng.Intn(len(hot))]
	}
	return ll[lw.rng.Intn(len(ll))]
}

// disconnected: x tells its remaining peers that it lost its link to lost (goingDown: that it is about to go
// offline). The message is the router's own (router.DisconnectPingMsg in a ping of type "disconnect", sealed with the
// session x has with the peer, sent over the real link). It is addressed to the PEER: that is the form in which the
// receiver's DisconnectPingHandler runs (the form x's own DisconnectPing.Send produces on this tree - addressed to
// the all-routers address, message type RouterPing - is routed on by the receiver, never handled: DESIGN section 5).
func (lw *lworld) disconnected(x *world.Node, lost netip.Addr, goingDown bool, only netip.Addr) {
	msg := router.DisconnectPingMsg{GoingDown: goingDown}
	if !goingDown {
		msg.Disconnected = []netip.Addr{lost}
	}
	body, err := cbor.Marshal(&msg)
	if err != nil {
		lw.c.Broken("learned churn: marshal disconnect message: %v", err)
		return
	}
	for _, l := range x.Peer.GetLinks() {
		if only.IsValid() && l.Peer() != only {
			continue
		}
		hdr := router.PingHeader{PingID: lw.rng.Uint64() | 1, PingType: "disconnect", AddrHash: x.ID.Hash, KeyType: x.ID.Type, PublicKey: x.ID.PublicKey}
		hd, err := cbor.Marshal(&hdr)
		if err != nil || len(hd) > 0xFF {
			lw.c.Broken("learned churn: marshal ping header: %v", err)
			return
		}
		data := append([]byte{1, byte(len(hd))}, hd...)
		data = append(data, body...)
		lw.space(x)
		lw.st.Pings++
		f, err := x.Builder.NewFrameV1(x.ID.IP, l.Peer(), frame.RouterPing, nil, data, nil)
		if err != nil {
			lw.st.SendErrs++
			continue
		}
		sess := x.St.GetSession(l.Peer())
		if sess == nil {
			lw.st.SendErrs++
			f.ReturnToPool()
			continue
		}
		if err := f.Seal(sess); err != nil {
			lw.st.SendErrs++
			f.ReturnToPool()
			continue
		}
		if err := l.SendPriority(f); err != nil {
			lw.st.SendErrs++
			f.ReturnToPool()
		}
	}
	kind := "disconnect"
	if !goingDown {
		lw.dirty[x] = true
	}
	lw.events = append(lw.events, map[string]any{"ev": "ping", "kind": kind, "router": lw.names[x], "tag": lw.tag})
}

func hasPeerRoute(nd *world.Node, p netip.Addr) bool {
	for _, e := range nd.Rt.Table().VerifEntries() {
		if e.Source == m.RouteSourcePeer && e.DstIP == p {
			return true
		}
	}
	return false
}

func learnedVia(nd *world.Node, p netip.Addr) (n int) {
	for _, e := range nd.Rt.Table().VerifEntries() {
		if e.Source != m.RouteSourcePeer && e.NextHop == p {
			n++
		}
	}
	return
}

// record takes a record at a quiescent point. Live links whose peer route a disconnect ping took away get it back
// first, the way they do in a running router: the peer announces itself.
func (lw *lworld) record(what string) {
	lw.tag = what
	for try := 0; try < 4; try++ {
		live := lw.settle()
		if live == nil {
			lw.st.SkippedSnapshots++
			return
		}
		lw.pump()
		missing := 0
		for l, owner := range live {
			if !hasPeerRoute(owner, l.Peer()) {
				missing++
			}
		}
		if missing > 0 && try == 0 && lw.rng.Intn(2) == 0 {
			lw.st.LeftOpen++ // no record now: the history goes on with the peer routes missing
			return
		}
		missing = 0
		for _, k := range lw.liveList(live) {
			l, owner := k.l, k.owner
			if !hasPeerRoute(owner, l.Peer()) {
				missing++
				if try == 0 {
					lw.st.PeerRouteLost++
				}
				if p := lw.byIP[l.Peer()]; p != nil {
					lw.st.Restores++
					lw.announce(p, owner.ID.IP)
				}
			}
		}
		if missing == 0 {
			evs := quietSnapshot(lw.settle, lw.nodes, lw.names, what)
			if evs == nil {
				lw.st.SkippedSnapshots++
				return
			}
			lw.st.Snapshots++
			for _, nd := range lw.nodes {
				for _, e := range nd.Rt.Table().VerifEntries() {
					if e.Source != m.RouteSourcePeer {
						lw.st.LearnedSeen++
					}
				}
			}
			// for the reader of a rejected record: the learned routes themselves (the oracle reads nexthops)
			for i, ev := range evs {
				if mp, ok := ev.(map[string]any); ok && i < len(lw.nodes) && mp["router"] == lw.names[lw.nodes[i]] {
					lr := []string{}
					for _, e := range lw.nodes[i].Rt.Table().VerifEntries() {
						if e.Source != m.RouteSourcePeer {
							lr = append(lr, fmt.Sprintf("%s via %s (%s)", lw.rname(e.DstIP), lw.rname(e.NextHop), e.Source))
						}
					}
					mp["learned"] = lr
				}
			}
			lw.events = append(lw.events, evs...)
			return
		}
		lw.pump()
	}
	lw.st.SkippedSnapshots++ // an announcement was lost or is late: no record, no verdict
}

// connect starts set-ups; with cross both routers dial each other at the same time.
func (lw *lworld) connect(a, b *world.Node, cross bool) {
	lw.conns = append(lw.conns, &lconn{pd: linkworld.Start(a, b), a: a, b: b})
	if cross {
		lw.conns = append(lw.conns, &lconn{pd: linkworld.Start(b, a), a: b, b: a})
		lw.note("cross-connect %s<->%s", lw.names[a], lw.names[b])
	} else {
		lw.note("connect %s->%s", lw.names[a], lw.names[b])
	}
}

type liveLink struct {
	l     peering.Link
	owner *world.Node
	conn  *lconn
}

func (lw *lworld) liveList(live map[peering.Link]*world.Node) (out []liveLink) {
	for _, k := range lw.conns { // in the order of creation: the PRNG decides, not the map
		if k.ra != nil && k.ra.Link != nil && live[k.ra.Link] != nil {
			out = append(out, liveLink{k.ra.Link, k.a, k})
		}
		if k.rb != nil && k.rb.Link != nil && live[k.rb.Link] != nil {
			out = append(out, liveLink{k.rb.Link, k.b, k})
		}
	}
	return
}

// closeOne closes one live link in one of the ways of stage T, waits for the quiescent point, and lets the routers
// that lost the link react as their disconnect workers do.
func (lw *lworld) closeOne(ll liveLink, goodbye bool) bool {
	x, peer := ll.owner, ll.l.Peer()
	y := lw.byIP[peer]
	if goodbye {
		// x says good-bye to the peer before it closes the link
		lw.note("%s says good-bye to %s", lw.names[x], lw.names[y])
		lw.disconnected(x, netip.Addr{}, true, peer)
		lw.pump()
	}
	// what the tables hold at this moment (statistics only: the stage must not be vacuous)
	lw.st.Closes++
	for _, e := range [][2]*world.Node{{x, y}, {y, x}} {
		if e[0] == nil || e[1] == nil {
			continue
		}
		if n := learnedVia(e[0], e[1].ID.IP); n > 0 {
			lw.st.ClosesLearned++
			if !hasPeerRoute(e[0], e[1].ID.IP) {
				lw.st.ClosesWindow++
			}
		}
	}
	switch k := lw.rng.Intn(4); k {
	case 0:
		lw.note("%s: CloseLink(%s)", lw.names[x], lw.names[y])
		x.Peer.CloseLink(peer)
	case 1:
		lw.note("%s: link to %s .Close()", lw.names[x], lw.names[y])
		lw.asyncCloses.Add(1)
		l := ll.l
		go func() { defer lw.asyncCloses.Add(-1); l.Close(nil) }()
	case 2:
		lw.note("connection %s-%s breaks", lw.names[x], lw.names[y])
		ll.conn.pd.Proxy.Close()
	default:
		lw.note("%s: link to %s .Close() (synchronous)", lw.names[x], lw.names[y])
		ll.l.Close(nil)
	}
	if lw.settle() == nil {
		return false
	}
	// the disconnect workers of both ends (each may be slow: then its ping comes later or, here, not at all)
	ends := []*world.Node{x, y}
	if lw.rng.Intn(2) == 0 {
		ends[0], ends[1] = ends[1], ends[0]
	}
	for i, e := range ends {
		if e == nil || lw.rng.Intn(4) == 0 {
			continue
		}
		lw.note("%s sends its disconnect ping", lw.names[e])
		lw.disconnected(e, ends[1-i].ID.IP, false, netip.Addr{})
	}
	lw.pump()
	return true
}

func newLworld(c *vf.Ctx, rng *rand.Rand, ms *mesh.Mesh, st *learnedStats) *lworld {
	lw := &lworld{c: c, rng: rng, ms: ms, names: map[*world.Node]string{}, byIP: map[netip.Addr]*world.Node{}, st: st,
		lastSend: map[*world.Node]time.Time{}, dirty: map[*world.Node]bool{}, removed: map[*peering.LinkBase]bool{}}
	for i, nd := range ms.Nodes {
		lw.names[nd] = fmt.Sprintf("R%d", i+1)
		lw.byIP[nd.ID.IP] = nd
		lw.nodes = append(lw.nodes, nd)
	}
	return lw
}

// learnedChurn runs one history. phases: build a topology; let everybody announce; then episodes of announcements
// and closes (and new connections), records in between; at the end every link is closed, one at a time, with
// announcements in between: after the last close no table may hold anything.
func learnedChurn(c *vf.Ctx, rng *rand.Rand, n, episodes int, round int, st *learnedStats) (events []any, history string) {
	s := newSched()
	s.perturb = rand.New(rand.NewSource(rng.Int63()))
	ms, err := mesh.New(n, nil, mesh.Opts{})
	if err != nil {
		c.Broken("learned churn: mesh: %v", err)
		return nil, ""
	}
	lw := newLworld(c, rng, ms, st)
	h := func(l *peering.LinkBase, point string) {
		if point == "removed" {
			lw.rmMu.Lock()
			lw.removed[l] = true
			lw.rmMu.Unlock()
		}
		s.hook(l, point) // perturbs the timing
	}
	peering.VerifGateHook.Store(&h)
	defer peering.VerifGateHook.Store(nil)
	lw.startTakers()
	defer func() {
		for _, k := range lw.conns {
			k.pd.Proxy.Close()
			_ = k.pd.ConnA.Close()
			_ = k.pd.ConnB.Close()
		}
		lw.settle()
		lw.stopTakers()
	}()
	st.Rounds++
	where := func(s string) string { return fmt.Sprintf("learned churn %d of %d routers, %s", round, n, s) }

	// ---- a topology: a chain through all routers in a random order (so that announcements have somebody to be
	// forwarded to) plus random chords; some pairs dial each other at the same time
	perm := rng.Perm(n)
	for i := 0; i+1 < n; i++ {
		a, b := lw.nodes[perm[i]], lw.nodes[perm[i+1]]
		if rng.Intn(2) == 0 {
			a, b = b, a
		}
		lw.connect(a, b, rng.Intn(4) == 0)
	}
	for i := 0; i < n; i++ {
		for j := i + 2; j < n; j++ {
			if rng.Intn(2) == 0 {
				lw.connect(lw.nodes[perm[i]], lw.nodes[perm[j]], rng.Intn(4) == 0)
			}
		}
	}
	if lw.settle() == nil {
		return lw.events, strings.Join(lw.hist, "; ")
	}
	for _, i := range rng.Perm(n) {
		lw.tag = where("first announcements")
		lw.note("%s announces", lw.names[lw.nodes[i]])
		lw.announce(lw.nodes[i], netip.Addr{})
		lw.pump()
	}
	lw.record(where("after the first announcements"))
	c.Eval(1)

	someAnnounce := func(min, max int) {
		for k := min + rng.Intn(max-min+1); k > 0; k-- {
			x := lw.pickAnnouncer()
			if x == nil {
				continue
			}
			lw.note("%s announces", lw.names[x])
			lw.announce(x, netip.Addr{})
			lw.pump()
		}
	}

	// ---- episodes
	for ep := 0; ep < episodes; ep++ {
		lw.tag = where(fmt.Sprintf("episode %d", ep+1))
		someAnnounce(0, 2)
		live := lw.settle()
		if live == nil {
			break
		}
		ll := lw.liveList(live)
		switch k := rng.Intn(5); {
		case k < 3 && len(ll) > 0:
			if !lw.closeOne(lw.pickClose(ll), false) {
				return lw.events, strings.Join(lw.hist, "; ")
			}
		default:
			i, j := rng.Intn(n), rng.Intn(n)
			if i == j {
				j = (i + 1) % n
			}
			lw.connect(lw.nodes[i], lw.nodes[j], rng.Intn(3) == 0)
			if lw.settle() == nil {
				return lw.events, strings.Join(lw.hist, "; ")
			}
			if rng.Intn(2) == 0 {
				lw.note("%s announces", lw.names[lw.nodes[i]])
				lw.announce(lw.nodes[i], netip.Addr{})
				lw.pump()
			}
		}
		someAnnounce(0, 2)
		if rng.Intn(2) == 0 {
			lw.record(where(fmt.Sprintf("after episode %d", ep+1)))
		}
		c.Eval(1)
	}

	// ---- the end: every link goes, one at a time
	for guard := 0; guard < 40; guard++ {
		lw.tag = where("closing down")
		live := lw.settle()
		if live == nil {
			return lw.events, strings.Join(lw.hist, "; ")
		}
		ll := lw.liveList(live)
		if len(ll) == 0 {
			break
		}
		if !lw.closeOne(lw.pickClose(ll), rng.Intn(5) == 0) {
			return lw.events, strings.Join(lw.hist, "; ")
		}
		someAnnounce(1, 2)
		if rng.Intn(3) == 0 {
			lw.record(where("while closing down"))
		}
		c.Eval(1)
	}
	lw.record(where("after the last link was closed"))
	return lw.events, strings.Join(lw.hist, "; ")
}

// learnedStage runs the rounds of stage T-learned and refuses to be vacuous.
func learnedStage(c *vf.Ctx, rng *rand.Rand) (events []any, origins []origin) {
	lst := &learnedStats{}
	lrounds := c.Pick(14, 240)
	for round := 0; round < lrounds; round++ {
		evs, hist := learnedChurn(c, rng, []int{4, 5, 3, 5, 4}[round%5], 2+rng.Intn(4), round, lst)
		for range evs {
			origins = append(origins, origin{"learned-churn", []act{{Name: hist}}})
		}
		events = append(events, evs...)
		c.Distinct(fmt.Sprintf("learned/%d", round))
	}
	c.Extra("learned_churn", lst)
	c.Logf("T-learned: %d rounds, %d records (%d skipped), %d pings sent (%d refused), %d frames handled (%d handler errors, %d of closed links not handled), %d learned routes in the records, %d live links had lost their peer route to a disconnect ping; %d closes, %d with learned routes via the peer, %d of them without the peer route",
		lst.Rounds, lst.Snapshots, lst.SkippedSnapshots, lst.Pings, lst.SendErrs, lst.Handled, lst.HandlerErrs, lst.LateDropped, lst.LearnedSeen, lst.PeerRouteLost, lst.Closes, lst.ClosesLearned, lst.ClosesWindow)
	if len(lst.firstErrs) > 0 {
		c.Logf("T-learned: first handler errors: %v", lst.firstErrs)
	}
	if lst.Snapshots < lrounds || lst.LearnedSeen == 0 || lst.ClosesLearned == 0 || lst.ClosesWindow == 0 {
		c.Broken("T-learned is vacuous: %d records in %d rounds, %d learned routes recorded, %d closes with learned routes via the peer, %d of them while the peer route was missing", lst.Snapshots, lrounds, lst.LearnedSeen, lst.ClosesLearned, lst.ClosesWindow)
	}
	return events, origins
}
