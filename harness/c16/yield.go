// Stage R-yield of C16: the registry's functions pre-empted at every call they make into a link.
//
// The registry only knows links through the peering.Link interface. Here two links of a real router's registry are
// test doubles whose every method is a possible scheduling point: a lookup (or an AddLink) is run on its own goroutine
// and frozen at its k-th call into a link - for every k it gets to -, link A is then closed completely (closing flag,
// RemoveLink), the frozen call goes on, and at the quiescent point the registry is recorded like everywhere else in
// this check (tables and the answers of the lookups for every peer and label ever used) and judged by TLC
// (LinkRegistry_Trace). A registry function that holds the registry lock while it calls into the link cannot be
// overtaken by the close (RemoveLink waits for the lock): the driver sees that the close does not finish, lets the
// call go on first and records that order.
package main

import (
	"fmt"
	"net"
	"net/netip"
	"sync/atomic"
	"time"

	"github.com/mycoria/mycoria/frame"
	"github.com/mycoria/mycoria/m"
	"github.com/mycoria/mycoria/peering"

	"verifharness/internal/mesh"
	"verifharness/internal/vf"
	"verifharness/internal/world"
)

type yGate struct {
	target  string // goroutine whose calls count
	k       int32
	count   atomic.Int32
	reached chan string
	resume  chan struct{}
}

var curGate atomic.Pointer[yGate]

type yLink struct {
	p       *peering.Peering
	peer    netip.Addr
	label   m.SwitchLabel
	url     *m.PeeringURL
	closing atomic.Bool
	started time.Time
}

func (y *yLink) yield(method string) {
	g := curGate.Load()
	if g == nil || goid() != g.target {
		return
	}
	if g.count.Add(1) == g.k {
		g.reached <- method
		<-g.resume
	}
}

func (y *yLink) String() string                   { y.yield("String"); return "yield link to " + y.peer.String() }
func (y *yLink) Peer() netip.Addr                 { y.yield("Peer"); return y.peer }
func (y *yLink) SwitchLabel() m.SwitchLabel       { y.yield("SwitchLabel"); return y.label }
func (y *yLink) GeoMark() string                  { y.yield("GeoMark"); return "" }
func (y *yLink) PeeringURL() *m.PeeringURL        { y.yield("PeeringURL"); return y.url }
func (y *yLink) Outgoing() bool                   { y.yield("Outgoing"); return true }
func (y *yLink) Lite() bool                       { y.yield("Lite"); return false }
func (y *yLink) SendPriority(f frame.Frame) error { f.ReturnToPool(); return nil }
func (y *yLink) Send(f frame.Frame) error         { f.ReturnToPool(); return nil }
func (y *yLink) LocalAddr() net.Addr              { return &net.TCPAddr{IP: net.IPv6loopback, Port: 1} }
func (y *yLink) RemoteAddr() net.Addr             { return &net.TCPAddr{IP: net.IPv6loopback, Port: 2} }
func (y *yLink) Started() time.Time               { return y.started }
func (y *yLink) Uptime() time.Duration            { return time.Since(y.started) }
func (y *yLink) Latency() uint16                  { y.yield("Latency"); return 5 }
func (y *yLink) AddMeasuredLatency(time.Duration) {}
func (y *yLink) BytesIn() uint64                  { return 0 }
func (y *yLink) BytesOut() uint64                 { return 0 }
func (y *yLink) FlowControlIndicator() frame.FlowControlFlag {
	return 0
}

// IsClosing: the one answer that changes - a scheduling point before the flag is read and one after it.
func (y *yLink) IsClosing() bool {
	y.yield("IsClosing, before it reads the flag")
	v := y.closing.Load()
	y.yield("IsClosing, after it read the flag")
	return v
}

// Close: what every link's Close does - closing flag first, then out of the registry.
func (y *yLink) Close(log func()) {
	if y.closing.CompareAndSwap(false, true) {
		if log != nil {
			log()
		}
		y.p.RemoveLink(y)
	}
}

type yOp struct {
	name string
	run  func(p *peering.Peering, a, b, c *yLink)
}

func yieldStage(c *vf.Ctx) (events []any) {
	ids := mesh.Identities(4)
	urlOf := func(host string) *m.PeeringURL {
		u, err := m.ParsePeeringURL("tcp://" + host + ":47369")
		if err != nil {
			panic(err)
		}
		return u
	}
	ops := []yOp{
		{"GetLinkByLabel(label of A)", func(p *peering.Peering, a, b, _ *yLink) { _ = p.GetLinkByLabel(a.label) }},
		{"GetLinkByLabel(label of A) twice", func(p *peering.Peering, a, b, _ *yLink) { _ = p.GetLinkByLabel(a.label); _ = p.GetLinkByLabel(a.label) }},
		{"GetLink(peer of A)", func(p *peering.Peering, a, b, _ *yLink) { _ = p.GetLink(a.peer) }},
		{"GetLinks()", func(p *peering.Peering, a, b, _ *yLink) { _ = p.GetLinks() }},
		{"GetLinkByRemoteHost(host of A)", func(p *peering.Peering, a, b, _ *yLink) { _ = p.GetLinkByRemoteHost("a.example") }},
		{"GetLinkByRemoteHost(unknown host)", func(p *peering.Peering, a, b, _ *yLink) { _ = p.GetLinkByRemoteHost("nobody.example") }},
		{"AddLink(another link to the peer of A)", func(p *peering.Peering, a, b, cl *yLink) { cl.peer = a.peer; _ = p.AddLink(cl) }},
		{"AddLink(another link with the label of A)", func(p *peering.Peering, a, b, cl *yLink) { cl.label = a.label; _ = p.AddLink(cl) }},
		{"CloseLink(peer of A)", func(p *peering.Peering, a, b, _ *yLink) { p.CloseLink(a.peer) }},
	}
	scen, overtaken, locked := 0, 0, 0
	for _, op := range ops {
		for k := int32(1); k <= 12; k++ {
			w := world.NewWorld()
			nd := w.NewNode("Y", world.NodeOpts{ID: ids[0]})
			p := nd.Peer
			a := &yLink{p: p, peer: ids[1].IP, label: 0x21, url: urlOf("a.example"), started: time.Now()}
			b := &yLink{p: p, peer: ids[2].IP, label: 0x35, url: urlOf("b.example"), started: time.Now()}
			cl := &yLink{p: p, peer: ids[3].IP, label: 0x47, url: urlOf("c.example"), started: time.Now()}
			if err := p.AddLink(a); err != nil {
				c.Fatal("yield stage: AddLink: %v", err)
			}
			if err := p.AddLink(b); err != nil {
				c.Fatal("yield stage: AddLink: %v", err)
			}
			// the registry before (this also notes the peers and labels in use, which the later record asks for again)
			ev0, _ := snapshot([]*world.Node{nd}, map[*world.Node]string{nd: "Y"}, map[peering.Link]*world.Node{a: nd, b: nd}, op.name+": before")
			events = append(events, ev0...)
			// the lookups have been used before: for the other link last
			_ = p.GetLinkByLabel(a.label)
			_ = p.GetLink(a.peer)
			_ = p.GetLinkByLabel(b.label)
			_ = p.GetLink(b.peer)
			g := &yGate{k: k, reached: make(chan string, 1), resume: make(chan struct{})}
			opDone := make(chan struct{})
			go func() {
				defer close(opDone)
				g.target = goid()
				curGate.Store(g)
				defer curGate.Store(nil)
				op.run(p, a, b, cl)
			}()
			var at string
			select {
			case at = <-g.reached:
			case <-opDone:
			case <-time.After(3 * time.Second):
				c.Broken("yield stage: %s neither returned nor called into the link", op.name)
				return events
			}
			if at == "" {
				break // the function made fewer than k calls into links: every point has been tried
			}
			scen++
			closeDone := make(chan struct{})
			go func() { a.Close(nil); close(closeDone) }()
			order := "the close of A ran to its end while the call was frozen"
			select {
			case <-closeDone:
				overtaken++
			case <-time.After(30 * time.Millisecond):
				order = "the close of A had to wait for the call (registry lock held)"
				locked++
			}
			close(g.resume)
			for _, ch := range []chan struct{}{opDone, closeDone} {
				select {
				case <-ch:
				case <-time.After(3 * time.Second):
					c.Violation(vf.Key("registry-wedged", op.name), fmt.Sprintf("%s frozen at its call %d into a link (%s) while A is closed: one of the two never returns", op.name, k, at), nil, nil)
					return events
				}
			}
			c.Eval(1)
			c.Distinct(fmt.Sprintf("yield|%s|%d", op.name, k))
			live := map[peering.Link]*world.Node{}
			for _, l := range []*yLink{a, b, cl} {
				if byPeer, _ := p.VerifRegistry(); !l.closing.Load() && (l != cl || byPeer[l.peer.String()] == peering.Link(l)) {
					live[l] = nd
				}
			}
			// asked a few times: an answer remembered from before the close must not come back either
			for i := 0; i < 3; i++ {
				_ = p.GetLinkByLabel(a.label)
			}
			evs, broken := snapshot([]*world.Node{nd}, map[*world.Node]string{nd: "Y"}, live, fmt.Sprintf("%s frozen at its call %d into a link (%s); %s", op.name, k, at, order))
			for _, bk := range broken {
				c.Violation(vf.Key("lookup-disagrees", op.name), fmt.Sprintf("%s frozen at its call %d into a link (%s), A closed meanwhile: %s", op.name, k, at, bk), nil, nil)
			}
			events = append(events, evs...)
			for _, l := range []*yLink{a, b, cl} {
				l.Close(nil)
			}
		}
	}
	c.Stage("R-yield", map[string]any{"scenarios": scen, "close_overtook_the_call": overtaken, "close_waited_for_the_call": locked})
	c.Logf("R-yield: %d scenarios (registry function frozen at a call into a link while the link is closed): the close overtook the call in %d, waited for it in %d", scen, overtaken, locked)
	return events
}
