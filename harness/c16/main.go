// C16 - link registry, switch labels and peer routes through churn. Stage M:
// TLC on LinkRegistry (every step of a link's set-up and close its own action,
// two routers dialling each other, label races, three routers) proves
// Consistent at quiescent states for the identity-checked registry and
// refutes the registry as first written (negative control). Stage R: the
// behaviours of the model - a path cover of the complete state graph of the
// cross-connect shape and simulation walks of the three-router shape - are
// ENFORCED on real goroutines: blocking hooks at exactly the model's action
// boundaries (handshake done, label chosen, before AddLink, Close called,
// before RemoveLink) are released one at a time in the order of the
// behaviour, with real Peering and LinkBase objects over in-memory
// connections. Stage T: seeded churn among 2..5 routers without gates (the
// hooks only perturb timing). Stage T-learned (learned.go): the same churn
// among routers whose router subsystem is alive - real announcements and
// disconnect pings over the real links between establishment and close - so
// that the tables hold learned routes when links go. Stage T-slow (slow.go):
// set-ups accepted by real listeners (TCP, setup workers) whose remote holds
// its set-up messages back for up to the cap of the tier. At every quiescent point
// the real registry (by-peer, by-label, GetLinks, routing table) is recorded
// and judged by TLC (LinkRegistry_Trace).
package main

import (
	"bytes"
	"encoding/json"
	"fmt"
	"math/rand"
	"net"
	"net/netip"
	"os"
	"os/exec"
	"regexp"
	"runtime"
	"sort"
	"strings"
	"sync"
	"sync/atomic"
	"time"

	"github.com/mycoria/mycoria/m"
	"github.com/mycoria/mycoria/peering"

	"verifharness/internal/linkworld"
	"verifharness/internal/mesh"
	"verifharness/internal/vf"
	"verifharness/internal/world"
)

// ---------- scheduler (gates)

type arrival struct {
	link  *peering.LinkBase
	point string
	rel   chan struct{}
	gid   string // goroutine that arrived
}

func goid() string {
	var buf [64]byte
	n := runtime.Stack(buf[:], false)
	f := strings.Fields(string(buf[:n]))
	if len(f) > 1 {
		return f[1]
	}
	return "?"
}

type sched struct {
	mu       sync.Mutex
	cond     *sync.Cond
	waiting  []*arrival                   // blocked goroutines
	events   []arrival                    // non-blocking notifications (added, removed) in order
	free     bool                         // pass-through: nothing blocks any more
	setupGid map[*peering.LinkBase]string // the goroutine running each link's set-up
	perturb  *rand.Rand                   // when set, gates do not block but sleep a little (stage T)
	inClose  map[*peering.LinkBase]bool   // links whose Close has won the flag and whose RemoveLink has not returned
}

func newSched() *sched {
	s := &sched{}
	s.cond = sync.NewCond(&s.mu)
	return s
}

// closesUnderWay: Close calls between the closing flag and the return of RemoveLink. Such a link is "closing" for
// everybody and still in the tables: no quiescent point (under the race detector on a busy machine the goroutine of a
// link's reader can be held up there for longer than the moment the quiescence test waits).
func (s *sched) closesUnderWay() int {
	s.mu.Lock()
	defer s.mu.Unlock()
	return len(s.inClose)
}

func (s *sched) hook(l *peering.LinkBase, point string) {
	s.mu.Lock()
	switch point {
	case "closing":
		if s.inClose == nil {
			s.inClose = map[*peering.LinkBase]bool{}
		}
		s.inClose[l] = true
	case "removed":
		delete(s.inClose, l)
	}
	if s.perturb != nil {
		d := s.perturb.Intn(4)
		s.mu.Unlock()
		switch d {
		case 0:
			runtime.Gosched()
		case 1:
			time.Sleep(time.Duration(50+rand.Intn(400)) * time.Microsecond)
		}
		return
	}
	if point == "added" || point == "removed" {
		s.events = append(s.events, arrival{link: l, point: point})
		s.cond.Broadcast()
		s.mu.Unlock()
		return
	}
	if s.free {
		s.mu.Unlock()
		return
	}
	a := &arrival{link: l, point: point, rel: make(chan struct{}), gid: goid()}
	if point == "checked" {
		if s.setupGid == nil {
			s.setupGid = map[*peering.LinkBase]string{}
		}
		s.setupGid[l] = a.gid
	}
	s.waiting = append(s.waiting, a)
	s.cond.Broadcast()
	s.mu.Unlock()
	<-a.rel
}

// find returns a blocked arrival of the connection end at point.
func (s *sched) find(conn net.Conn, point string) *arrival {
	for _, a := range s.waiting {
		if a.point == point && a.link.VerifConn() == conn {
			return a
		}
	}
	return nil
}

func (s *sched) release(a *arrival) {
	for i, w := range s.waiting {
		if w == a {
			s.waiting = append(s.waiting[:i], s.waiting[i+1:]...)
			break
		}
	}
	close(a.rel)
}

func (s *sched) freeAll() {
	s.mu.Lock()
	s.free = true
	for _, a := range s.waiting {
		close(a.rel)
	}
	s.waiting = nil
	s.mu.Unlock()
}

// wait blocks until cond() holds (checked under the lock) or the timeout passes.
func (s *sched) wait(d time.Duration, cond func() bool) bool {
	deadline := time.Now().Add(d)
	s.mu.Lock()
	defer s.mu.Unlock()
	for !cond() {
		if time.Now().After(deadline) {
			return false
		}
		// cond.Wait has no timeout: poll with a short sleep outside the lock
		s.mu.Unlock()
		time.Sleep(100 * time.Microsecond)
		s.mu.Lock()
	}
	return true
}

// ---------- model actions

type act struct {
	Name string `json:"name"`
	Conn int    `json:"conn"`
	Side string `json:"side"`
	Why  string `json:"why"`
}

type shape struct {
	routers  []string
	dialler  map[int]string
	listener map[int]string
}

var shapes = map[string]shape{
	"cross": {[]string{"A", "B"}, map[int]string{1: "A", 2: "B"}, map[int]string{1: "B", 2: "A"}},
	"tri3":  {[]string{"A", "B", "C"}, map[int]string{1: "A", 2: "C", 3: "B"}, map[int]string{1: "B", 2: "B", 3: "A"}},
}

// ---------- one real world

type end struct {
	conn   net.Conn
	done   chan linkworld.SetupRet
	ret    *linkworld.SetupRet
	owner  *world.Node
	peer   *world.Node
	closed bool // the driver asked for a close
}

type connState struct {
	pd   *linkworld.Pending
	ends map[string]*end // "d", "l"
}

type run struct {
	c      *vf.Ctx
	s      *sched
	sh     shape
	node   map[string]*world.Node
	name   map[*world.Node]string
	conns  map[int]*connState
	drift  []string
	events []any // snapshot events
	nSnap  int
	bad    []string
}

// trio returns identities a, b, c such that a and c derive the same switch label and b another one, as Derived
// of the model's three-router shape says (the label race at B).
var trioIDs []*m.Address

func trio() []*m.Address {
	for n := 6; trioIDs == nil; n += 4 {
		ids := mesh.Identities(n)
		for i := range ids {
			for j := range ids {
				li, _ := m.DeriveSwitchLabelFromIP(ids[i].IP)
				lj, _ := m.DeriveSwitchLabelFromIP(ids[j].IP)
				if i == j || li != lj || li == 0 {
					continue
				}
				for k := range ids {
					if lk, _ := m.DeriveSwitchLabelFromIP(ids[k].IP); k != i && k != j && lk != li && lk != 0 && trioIDs == nil {
						trioIDs = []*m.Address{ids[i], ids[k], ids[j]}
					}
				}
			}
		}
	}
	return trioIDs
}

// underivable returns an identity from whose address NO switch label can be derived (the last byte of a routable
// address is 0x00 or 0x80, about one address in 128): a link to it has to fall back to a random label.
var underivableID *m.Address

func underivable() *m.Address {
	for n := 64; underivableID == nil; n += 64 {
		// all of them: Identities sorts by address, so the last 64 are not the 64 new ones (looking only at those made
		// the search take minutes - or the whole time budget - in some runs)
		for _, id := range mesh.Identities(n) {
			if _, ok := m.DeriveSwitchLabelFromIP(id.IP); !ok && underivableID == nil {
				underivableID = id
			}
		}
	}
	return underivableID
}

var runSeq int

func newRun(c *vf.Ctx, sh shape, s *sched) *run {
	world.InstallLogCapture()
	w := world.NewWorld()
	ids := mesh.Identities(len(sh.routers))
	if len(sh.routers) == 3 {
		ids = trio()
	}
	if len(sh.routers) == 2 {
		runSeq++
		if runSeq%3 == 0 {
			ids = []*m.Address{ids[0], underivable()}
		}
	}
	r := &run{c: c, s: s, sh: sh, node: map[string]*world.Node{}, name: map[*world.Node]string{}, conns: map[int]*connState{}}
	for i, n := range sh.routers {
		nd := w.NewNode(n, world.NodeOpts{ID: ids[i]})
		r.node[n] = nd
		r.name[nd] = n
	}
	return r
}

func (r *run) start(cn int) *connState {
	if cs := r.conns[cn]; cs != nil {
		return cs
	}
	d, l := r.node[r.sh.dialler[cn]], r.node[r.sh.listener[cn]]
	// the peering request carries a plain "now" time stamp while the frames of an earlier handshake between the
	// same routers are dated up to a few milliseconds ahead: give the clock room (see HandshakeFails in the spec)
	time.Sleep(6 * time.Millisecond)
	pd := linkworld.Start(d, l)
	cs := &connState{pd: pd, ends: map[string]*end{
		"d": {conn: pd.ConnA, done: pd.DoneA, owner: d, peer: l},
		"l": {conn: pd.ConnB, done: pd.DoneB, owner: l, peer: d},
	}}
	r.conns[cn] = cs
	return cs
}

// poll collects finished set-ups.
func (r *run) poll() {
	for _, cs := range r.conns {
		for _, e := range cs.ends {
			if e.ret == nil {
				select {
				case v := <-e.done:
					e.ret = &v
				default:
				}
			}
		}
	}
}

const stepTimeout = 3 * time.Second

func (r *run) waitArrival(e *end, point string) *arrival {
	var a *arrival
	r.s.wait(stepTimeout, func() bool {
		a = r.s.find(e.conn, point)
		if a != nil {
			return true
		}
		// the set-up may have ended instead
		select {
		case v := <-e.done:
			e.ret = &v
			return true
		default:
		}
		return e.ret != nil
	})
	return a
}

func (r *run) waitEvent(e *end, point string) bool {
	return r.s.wait(stepTimeout, func() bool {
		for _, ev := range r.s.events {
			if ev.point == point && ev.link.VerifConn() == e.conn {
				return true
			}
		}
		return false
	})
}

func (r *run) waitDone(e *end) bool {
	if e.ret != nil {
		return true
	}
	select {
	case v := <-e.done:
		e.ret = &v
		return true
	case <-time.After(stepTimeout):
		return false
	}
}

func (r *run) driftf(format string, a ...any) {
	r.drift = append(r.drift, fmt.Sprintf(format, a...))
	if os.Getenv("VERIF_C16_DEBUG") != "" {
		buf := make([]byte, 1<<20)
		n := runtime.Stack(buf, true)
		fmt.Fprintf(os.Stderr, "DRIFT %s\n%s\n", r.drift[len(r.drift)-1], buf[:n])
		os.Exit(3)
	}
}

// step executes one model action on the real goroutines.
func (r *run) step(a act) {
	switch a.Name {
	case "handshake", "refused":
		cs := r.start(a.Conn)
		for _, side := range []string{"d", "l"} {
			e := cs.ends[side]
			// the end reaches the label step, or its set-up fails: the failing set-up calls Close itself
			var arr, failed *arrival
			r.s.wait(stepTimeout, func() bool {
				arr = r.s.find(e.conn, "checked")
				failed = r.s.find(e.conn, "close")
				select {
				case v := <-e.done:
					e.ret = &v
				default:
				}
				return arr != nil || failed != nil || e.ret != nil
			})
			if a.Name == "handshake" && arr == nil {
				r.driftf("handshake(%d): end %s did not reach the label step", a.Conn, side)
			}
			if a.Name == "refused" && arr != nil {
				r.driftf("refused(%d): end %s got through the handshake", a.Conn, side)
			}
			if failed != nil {
				// a refused / failed handshake: the model takes the end straight to "removed"
				r.s.mu.Lock()
				r.s.release(failed)
				r.s.mu.Unlock()
				if c2 := r.waitArrival2(e, "closing"); c2 != nil {
					r.s.mu.Lock()
					r.s.release(c2)
					r.s.mu.Unlock()
					r.waitEvent(e, "removed")
				}
			}
		}
	case "label":
		e := r.conns[a.Conn].ends[a.Side]
		r.s.mu.Lock()
		arr := r.s.find(e.conn, "checked")
		if arr != nil {
			r.s.release(arr)
		}
		r.s.mu.Unlock()
		if arr == nil {
			r.driftf("label(%d,%s): the link is not waiting before assignSwitchLabel", a.Conn, a.Side)
			return
		}
		if r.waitArrival(e, "labelled") == nil {
			r.driftf("label(%d,%s): no label assigned (%v)", a.Conn, a.Side, retErr(e))
		}
	case "add", "addrefused":
		e := r.conns[a.Conn].ends[a.Side]
		r.s.mu.Lock()
		arr := r.s.find(e.conn, "labelled")
		if arr != nil {
			r.s.release(arr)
		}
		r.s.mu.Unlock()
		if arr == nil {
			r.driftf("%s(%d,%s): the link is not waiting before AddLink", a.Name, a.Conn, a.Side)
			return
		}
		r.waitEvent(e, "added")
		// success: the set-up returns; refusal: the set-up closes the link first (gate "close")
		var closeArr *arrival
		r.s.wait(stepTimeout, func() bool {
			// a Close called by the set-up goroutine itself means AddLink refused the link; a Close by the link's
			// reader or writer (the other end is already gone) comes after a successful set-up
			closeArr = nil
			for _, w := range r.s.waiting {
				if w.point == "close" && w.link.VerifConn() == e.conn && w.gid == r.s.setupGid[w.link] {
					closeArr = w
				}
			}
			if closeArr != nil {
				return true
			}
			select {
			case v := <-e.done:
				e.ret = &v
			default:
			}
			return e.ret != nil
		})
		if closeArr != nil && e.ret == nil {
			// refused by the real code: let the failed set-up win the closing flag (model: phase closing)
			r.s.mu.Lock()
			r.s.release(closeArr)
			r.s.mu.Unlock()
			r.waitArrival(e, "closing")
			if a.Name == "add" {
				if os.Getenv("VERIF_C16_DEBUG2") != "" {
					r.s.freeAll()
					r.waitDone(e)
				}
				r.driftf("add(%d,%s): the real AddLink refused the link (%v)", a.Conn, a.Side, retErr(e))
			}
		} else if a.Name == "addrefused" {
			r.driftf("addrefused(%d,%s): the real AddLink accepted the link (%v)", a.Conn, a.Side, retErr(e))
		}
	case "close":
		e := r.conns[a.Conn].ends[a.Side]
		r.s.mu.Lock()
		arr := r.s.find(e.conn, "close")
		r.s.mu.Unlock()
		if arr == nil {
			if a.Why == "remote" {
				// the reader/writer of this end notices the closed connection
				arr = r.waitArrival2(e, "close")
			}
			if arr == nil {
				if e.ret == nil || e.ret.Link == nil {
					r.driftf("close(%d,%s): no established link object", a.Conn, a.Side)
					return
				}
				l := e.ret.Link
				go l.Close(nil)
				arr = r.waitArrival2(e, "close")
			}
		}
		if arr == nil {
			r.driftf("close(%d,%s): Close did not start", a.Conn, a.Side)
			return
		}
		r.s.mu.Lock()
		r.s.release(arr)
		r.s.mu.Unlock()
		if r.waitArrival2(e, "closing") == nil {
			r.driftf("close(%d,%s): the closing flag was not won", a.Conn, a.Side)
		}
	case "remove":
		e := r.conns[a.Conn].ends[a.Side]
		r.s.mu.Lock()
		arr := r.s.find(e.conn, "closing")
		if arr != nil {
			r.s.release(arr)
		}
		r.s.mu.Unlock()
		if arr == nil {
			r.driftf("remove(%d,%s): the link is not waiting before RemoveLink", a.Conn, a.Side)
			return
		}
		if !r.waitEvent(e, "removed") {
			r.driftf("remove(%d,%s): RemoveLink did not return", a.Conn, a.Side)
		}
	}
	// goroutines that call Close on a link that is already closing only lose the flag: let them through
	r.s.mu.Lock()
	for _, w := range append([]*arrival(nil), r.s.waiting...) {
		if w.point == "close" && w.link.IsClosing() {
			r.s.release(w)
		}
	}
	r.s.mu.Unlock()
}

func (r *run) waitArrival2(e *end, point string) *arrival {
	var a *arrival
	r.s.wait(stepTimeout, func() bool {
		a = r.s.find(e.conn, point)
		return a != nil
	})
	return a
}

func retErr(e *end) any {
	if e.ret == nil {
		return "still running"
	}
	return e.ret.Err
}

// ---------- snapshots

type liveRec struct {
	ID    int    `json:"id"`
	Peer  string `json:"peer"`
	Label uint64 `json:"label"`
}
type peerRec struct {
	Peer string `json:"peer"`
	ID   int    `json:"id"`
}
type labelRec struct {
	Label uint64 `json:"label"`
	ID    int    `json:"id"`
}

type everKeys struct {
	peers  map[netip.Addr]bool
	labels map[m.SwitchLabel]bool
}

var (
	everMu sync.Mutex
	ever   = map[*world.Node]*everKeys{}
)

// snapshot records the registry of every router against the live link objects the driver knows.
// live: link objects whose set-up returned success and that are not closing.
func snapshot(nodes []*world.Node, names map[*world.Node]string, live map[peering.Link]*world.Node, tag string) (events []any, broken []string) {
	ids := map[peering.Link]int{}
	n := 0
	var order []peering.Link
	for l := range live {
		order = append(order, l)
	}
	sort.Slice(order, func(i, j int) bool {
		a, b := order[i], order[j]
		if live[a] != live[b] {
			return names[live[a]] < names[live[b]]
		}
		if a.Peer() != b.Peer() {
			return a.Peer().Less(b.Peer())
		}
		return a.SwitchLabel() < b.SwitchLabel()
	})
	for _, l := range order {
		n++
		ids[l] = n
	}
	nameOf := func(ip any) string { return fmt.Sprint(ip) }
	for _, nd := range nodes {
		ev := map[string]any{"ev": "snapshot", "router": names[nd], "tag": tag}
		lv := []liveRec{}
		for _, l := range order {
			if live[l] == nd {
				lv = append(lv, liveRec{ids[l], nameOf(l.Peer()), uint64(l.SwitchLabel())})
				if os.Getenv("VERIF_C16_DEBUG") != "" {
					if _, ok := m.DeriveSwitchLabelFromIP(l.Peer()); !ok {
						fmt.Fprintf(os.Stderr, "debug: live link at %s to underivable peer %s has label %d\n", names[nd], l.Peer(), l.SwitchLabel())
					}
				}
			}
		}
		byPeer, byLabel := nd.Peer.VerifRegistry()
		bp := []peerRec{}
		for p, l := range byPeer {
			bp = append(bp, peerRec{p, ids[l]})
		}
		sort.Slice(bp, func(i, j int) bool { return bp[i].Peer < bp[j].Peer })
		bl := []labelRec{}
		for lb, l := range byLabel {
			bl = append(bl, labelRec{lb, ids[l]})
		}
		sort.Slice(bl, func(i, j int) bool { return bl[i].Label < bl[j].Label })
		routes, hops := []string{}, []string{}
		for _, e := range nd.Rt.Table().VerifEntries() {
			if e.Source == m.RouteSourcePeer {
				routes = append(routes, e.DstIP.String())
			}
			hops = append(hops, e.NextHop.String())
		}
		// the lookups, asked for every peer and every label this router ever had a link with: what they return is
		// what can be FOUND - a link that is in no table any more and still comes back from a lookup is a ghost like
		// one that stayed in a table
		everMu.Lock()
		ek := ever[nd]
		if ek == nil {
			ek = &everKeys{peers: map[netip.Addr]bool{}, labels: map[m.SwitchLabel]bool{}}
			ever[nd] = ek
		}
		for _, l := range order {
			if live[l] == nd {
				ek.peers[l.Peer()], ek.labels[l.SwitchLabel()] = true, true
			}
		}
		for _, l := range byPeer {
			ek.peers[l.Peer()], ek.labels[l.SwitchLabel()] = true, true
		}
		var evPeers []netip.Addr
		var evLabels []m.SwitchLabel
		for p := range ek.peers {
			evPeers = append(evPeers, p)
		}
		for lb := range ek.labels {
			evLabels = append(evLabels, lb)
		}
		everMu.Unlock()
		sort.Slice(evPeers, func(i, j int) bool { return evPeers[i].Less(evPeers[j]) })
		sort.Slice(evLabels, func(i, j int) bool { return evLabels[i] < evLabels[j] })
		for _, p := range evPeers {
			if l := nd.Peer.GetLink(p); l != nil && byPeer[p.String()] != l {
				bp = append(bp, peerRec{p.String(), ids[l]})
			}
		}
		for _, lb := range evLabels {
			if l := nd.Peer.GetLinkByLabel(lb); l != nil && byLabel[uint64(lb)] != l {
				bl = append(bl, labelRec{uint64(lb), ids[l]})
			}
		}
		// GetLink / GetLinkByLabel / GetLinks must agree with the tables they read
		for _, l := range order {
			if live[l] != nd {
				continue
			}
			if nd.Peer.GetLink(l.Peer()) != byPeer[l.Peer().String()] || nd.Peer.GetLinkByLabel(l.SwitchLabel()) != byLabel[uint64(l.SwitchLabel())] {
				broken = append(broken, "GetLink/GetLinkByLabel disagree with the registry tables")
			}
		}
		if len(nd.Peer.GetLinks()) != len(byPeer) {
			broken = append(broken, "GetLinks disagrees with the by-peer table")
		}
		ev["live"], ev["bypeer"], ev["bylabel"], ev["routes"], ev["nexthops"] = lv, bp, bl, routes, hops
		events = append(events, ev)
	}
	return events, broken
}

// explainSnap mirrors Consistent of LinkRegistry_Trace to name a rejection.
func explainSnap(ev map[string]any) string {
	lv, _ := ev["live"].([]liveRec)
	bp, _ := ev["bypeer"].([]peerRec)
	bl, _ := ev["bylabel"].([]labelRec)
	routes, _ := ev["routes"].([]string)
	hops, _ := ev["nexthops"].([]string)
	peers := map[string]bool{}
	for i, k := range lv {
		okP, okL := false, false
		for _, x := range bp {
			if x.Peer == k.Peer && x.ID == k.ID {
				okP = true
			}
		}
		for _, x := range bl {
			if x.Label == k.Label && x.ID == k.ID {
				okL = true
			}
		}
		if !okP {
			return "live-link-not-found-by-peer"
		}
		if !okL {
			return "live-link-not-found-by-label"
		}
		if k.Label == 0 {
			return "zero-label"
		}
		for j, k2 := range lv {
			if i != j && k.Label == k2.Label {
				return "duplicate-label"
			}
			if i != j && k.Peer == k2.Peer {
				return "two-live-links-to-one-peer"
			}
		}
		peers[k.Peer] = true
	}
	for _, x := range bp {
		if x.ID == 0 {
			return "dead-link-found-by-peer"
		}
	}
	for _, x := range bl {
		if x.ID == 0 {
			return "dead-link-found-by-label"
		}
	}
	rs := map[string]bool{}
	for _, p := range routes {
		rs[p] = true
		if !peers[p] {
			return "peer-route-without-live-link"
		}
	}
	for p := range peers {
		if !rs[p] {
			return "live-link-without-peer-route"
		}
	}
	for _, h := range hops {
		if !peers[h] {
			return "route-via-router-without-live-link"
		}
	}
	return ""
}

// liveLinks: real facts only.
func (r *run) liveLinks() (live map[peering.Link]*world.Node, quiescent bool) {
	r.poll()
	live = map[peering.Link]*world.Node{}
	quiescent = true
	for _, cs := range r.conns {
		n := 0
		for _, e := range cs.ends {
			if e.ret == nil {
				quiescent = false // a set-up is still running
				continue
			}
			if e.ret.Link != nil && !e.ret.Link.IsClosing() {
				live[e.ret.Link] = e.owner
				n++
			}
		}
		if n == 1 {
			quiescent = false // one end is gone, the other has not noticed yet
		}
	}
	r.s.mu.Lock()
	for _, w := range r.s.waiting {
		if !(w.point == "close" && w.link.IsClosing()) {
			quiescent = false
		}
	}
	r.s.mu.Unlock()
	return
}

type edgeState struct {
	quiescent bool
}

func parseQuiescent(state string) bool {
	var v []any
	if json.Unmarshal([]byte(state), &v) != nil || len(v) < 6 {
		return false
	}
	b, _ := v[5].(bool)
	return b
}

// replay runs one behaviour; returns the snapshot events of its quiescent points.
func replay(c *vf.Ctx, shName string, acts []act, quiescentAfter []bool) (r *run) {
	s := newSched()
	h := s.hook
	peering.VerifGateHook.Store(&h)
	r = newRun(c, shapes[shName], s)
	defer func() {
		s.freeAll()
		peering.VerifGateHook.Store(nil)
		// let everything finish and close what is left
		time.Sleep(time.Millisecond)
		for _, cs := range r.conns {
			cs.pd.Proxy.Close()
			_ = cs.pd.ConnA.Close()
			_ = cs.pd.ConnB.Close()
		}
		for _, cs := range r.conns {
			for _, e := range cs.ends {
				r.waitDone(e)
			}
		}
	}()
	var nodes []*world.Node
	for _, n := range r.sh.routers {
		nodes = append(nodes, r.node[n])
	}
	for i, a := range acts {
		r.step(a)
		c.Eval(1)
		if len(r.drift) > 0 {
			return r // the real code left the behaviour: stop here (reported by the caller)
		}
		if quiescentAfter[i] {
			live, q := r.liveLinks()
			if !q {
				// give spontaneous closers a moment, then look again
				time.Sleep(2 * time.Millisecond)
				live, q = r.liveLinks()
			}
			if q {
				evs, broken := snapshot(nodes, r.name, live, fmt.Sprintf("%s step %d", shName, i+1))
				r.events = append(r.events, evs...)
				r.bad = append(r.bad, broken...)
				r.nSnap++
			}
		}
	}
	return r
}

func main() {
	if os.Getenv("VERIF_C16_MODE") == "churn" {
		churnChild()
		return
	}
	vf.GuardFatal = true
	vf.Main("C16", "model_checking", run0)
}

func actsString(acts []act) string {
	var p []string
	for _, a := range acts {
		switch a.Name {
		case "handshake", "refused":
			p = append(p, fmt.Sprintf("%s(%d)", a.Name, a.Conn))
		case "close":
			p = append(p, fmt.Sprintf("close(%d%s,%s)", a.Conn, a.Side, a.Why))
		default:
			p = append(p, fmt.Sprintf("%s(%d%s)", a.Name, a.Conn, a.Side))
		}
	}
	return strings.Join(p, " ")
}

var reAct = regexp.MustCompile(`^/\\ act = \[(.*)\]$`)
var reQ = regexp.MustCompile(`^/\\ phase = `)

type origin struct {
	shape string
	acts  []act
}

func run0(c *vf.Ctx) {
	c.Rule("M: TLC exhaustive on LinkRegistry: cross-connect of 2 routers (2 and 3 connections), 3 routers with a label race (3 and, thorough, 4 connections), every step of set-up and close of every link interleaved; the registry as first written must be refuted; with a set-up deadline for accepted connections that may close a link whose set-up has read its last message (DeadlineClose): holds when AddLink is not done for such a link, refuted when the set-up goes on regardless. R: a path cover of the complete state graph of the cross shape (quick: the 160 paths with most refusals/closes + seeded sample; thorough: all) and TLC simulation walks of the 3-router shape are enforced on real goroutines by blocking hooks at the model's action boundaries; at every quiescent state the real by-peer/by-label tables, GetLink/GetLinkByLabel/GetLinks and the routing table are recorded. T: seeded churn (connect, simultaneous cross-connect, close local/remote, broken connection) among 2..5 routers without gates, timing perturbed inside the hooks. T-learned: the churn among 3..5 routers that announce themselves and send disconnect pings over their real links between establishment and close (real handlers write peer, gossip routes and remove them), ending with every link closed. T-slow: routers listen on real TCP sockets (ListenerBase, setup workers - the accepting set-up, which no other stage runs); the driver is the remote end of every accepted connection, relays to a real dialling router and holds one of its set-up messages (mostly the ack; whole or all but its last bytes) back for a seeded time between nothing and the cap of the tier (quick 13-15 s, thorough 38-44 s) or for good; the listeners' set-up goroutines are put to sleep for up to 50 ms at their calls into the router instance; when a listener hung up on its own during a hold, a second round of remotes aims the last byte of the ack at that deadline minus 0.2-15 ms (some shortly after it); records when all set-ups have ended and after every link was closed. All snapshots judged by TLC. distinct = distinct enforced behaviours + churn rounds")
	c.Assume("in-memory connections (stage T-slow: loopback TCP at the listening end); in stages M and R a close in the middle of a set-up only comes from the set-up itself")
	world.InstallLogCapture()
	if os.Getenv("VERIF_C16_ONLY") == "slow" { // development aid: this stage alone (never a complete check)
		sevs, sorg := slowStage(c, rand.New(rand.NewSource(c.Seed)))
		judge(c, sevs, sorg)
		c.Broken("VERIF_C16_ONLY is set: only stage T-slow was run")
		return
	}
	if os.Getenv("VERIF_C16_ONLY") == "learned" { // development aid: this stage alone (never a complete check)
		levs, lorg := learnedStage(c, rand.New(rand.NewSource(c.Seed)))
		judge(c, levs, lorg)
		c.Broken("VERIF_C16_ONLY is set: only stage T-learned was run")
		return
	}

	// ---- M
	mcs := []struct {
		cfg  string
		want string
	}{{"LinkRegistry_MC_cross_TRUE.cfg", ""}, {"LinkRegistry_MC_cross2_TRUE.cfg", ""}, {"LinkRegistry_MC_tri3_TRUE.cfg", ""},
		{"LinkRegistry_MC_cross_FALSE.cfg", "Consistent"}, {"LinkRegistry_MC_tri3_FALSE.cfg", "Consistent"}}
	if c.Thorough() {
		mcs = append(mcs, struct {
			cfg  string
			want string
		}{"LinkRegistry_MC_tri_TRUE.cfg", ""})
	}
	for _, mc := range mcs {
		res, err := c.TLC("LinkRegistry_MC", mc.cfg, vf.TLCOpts{Workers: 12, Timeout: 20 * time.Minute, Heap: "12g"})
		if err != nil {
			c.Fatal("M %s: %v", mc.cfg, err)
		}
		c.AddModel(res.Distinct, res.Generated)
		if res.Violated != mc.want {
			c.Broken("M %s: expected violated=%q, TLC says %q", mc.cfg, mc.want, res.Violated)
		}
	}

	var allEvents []any
	var origins []origin // one per snapshot event
	nDriftRuns := 0
	execute := func(shName string, acts []act, q []bool) {
		t0 := time.Now()
		r := replay(c, shName, acts, q)
		if d := time.Since(t0); d > 700*time.Millisecond && os.Getenv("VERIF_C16_TIMING") != "" {
			c.Logf("slow (%v): %s", d.Round(time.Millisecond), actsString(acts))
		}
		c.Distinct(shName + ": " + actsString(acts))
		for range r.events {
			origins = append(origins, origin{shName, acts})
		}
		allEvents = append(allEvents, r.events...)
		for _, b := range r.bad {
			c.Violation("accessors/"+b, b+" ["+actsString(acts)+"]", map[string]any{"shape": shName, "behaviour": actsString(acts)}, nil)
		}
		if len(r.drift) > 0 {
			nDriftRuns++
			if nDriftRuns <= 3 {
				c.Logf("drift in [%s]: %v", actsString(acts), r.drift)
			}
			// where the real code leaves the model, judge what it did instead: release everything, settle, snapshot
			driftSnapshot(c, shName, acts, &allEvents, func(n int) {
				for i := 0; i < n; i++ {
					origins = append(origins, origin{shName, acts})
				}
			})
		}
	}

	// ---- R (a): path cover of the cross shape
	d, err := c.TLC("LinkRegistry_MC", "LinkRegistry_Dump.cfg", vf.TLCOpts{Workers: 1, Timeout: 10 * time.Minute})
	if err != nil {
		c.Fatal("dump: %v", err)
	}
	if len(d.Edges) == 0 {
		c.Fatal("dump: no edges")
	}
	d.Inits = []string{d.Edges[0].From}
	g := vf.BuildGraph(d)
	paths := g.CoverPaths(0)
	type pth struct {
		acts  []act
		q     []bool
		score int
	}
	var ps []pth
	for _, p := range paths {
		var pp pth
		for _, ei := range p {
			var a act
			_ = json.Unmarshal(g.Edges[ei].Act, &a)
			pp.acts = append(pp.acts, a)
			pp.q = append(pp.q, parseQuiescent(g.Edges[ei].To))
			if a.Name == "addrefused" || a.Name == "refused" {
				pp.score += 3
			}
			if a.Name == "close" {
				pp.score++
			}
		}
		ps = append(ps, pp)
	}
	rng := rand.New(rand.NewSource(c.Seed))
	rng.Shuffle(len(ps), func(i, j int) { ps[i], ps[j] = ps[j], ps[i] })
	sort.SliceStable(ps, func(i, j int) bool { return ps[i].score > ps[j].score })
	total := len(ps)
	if lim := c.Pick(260, 1<<30); len(ps) > lim {
		rest := ps[160:]
		rng.Shuffle(len(rest), func(i, j int) { rest[i], rest[j] = rest[j], rest[i] })
		ps = append(ps[:160:160], rest[:lim-160]...)
	}
	c.Logf("M done; cross graph: %d edges, %d cover paths, executing %d", len(d.Edges), total, len(ps))
	for _, p := range ps {
		execute("cross", p.acts, p.q)
	}
	if total == len(ps) {
		c.SetExhaustive(false)
	}
	c.Logf("R(a): %d behaviours enforced, %d snapshots, %d with drift", len(ps), len(allEvents), nDriftRuns)

	// ---- R (b): simulation walks of the three-router shape
	nWalks := c.Pick(60, 1200)
	walkBase := c.Work + "/walk"
	if _, err := c.TLC("LinkRegistry_MC", "LinkRegistry_Sim.cfg", vf.TLCOpts{Workers: 1, Simulate: fmt.Sprintf("file=%s,num=%d", walkBase, nWalks), Depth: 40, Seed: c.Seed, Timeout: 10 * time.Minute}); err != nil {
		c.Fatal("simulation: %v", err)
	}
	nw := 0
	for i := 0; i < nWalks; i++ {
		data, err := os.ReadFile(fmt.Sprintf("%s_0_%d", walkBase, i))
		if err != nil {
			continue
		}
		acts, q := parseWalk(string(data))
		if len(acts) == 0 {
			continue
		}
		nw++
		execute("tri3", acts, q)
	}
	if nw == 0 {
		c.Fatal("no simulation walks parsed")
	}
	c.Logf("R(b): %d walks enforced; %d snapshots so far, %d runs with drift", nw, len(allEvents), nDriftRuns)
	c.Extra("behaviours_with_drift", nDriftRuns)
	if len(ps) > 0 {
		c.Sample(map[string]any{"shape": "cross", "behaviour": actsString(ps[0].acts)})
	}

	// ---- T: churn without gates
	rounds := c.Pick(40, 600)
	for round := 0; round < rounds; round++ {
		evs := churn(c, rng, 2+round%4, 6+rng.Intn(10))
		for range evs {
			origins = append(origins, origin{"churn", []act{{Name: fmt.Sprintf("round %d", round)}}})
		}
		allEvents = append(allEvents, evs...)
		c.Distinct(fmt.Sprintf("churn/%d", round))
	}
	// the same churn under the race detector, in a child process built with -race
	raceRounds := c.Pick(25, 400)
	revs, races := raceChurn(c, raceRounds)
	for range revs {
		origins = append(origins, origin{"churn(race build)", []act{{Name: "race churn"}}})
	}
	allEvents = append(allEvents, revs...)
	c.Extra("race_rounds", raceRounds)
	c.Extra("data_races_reported", len(races))
	for _, rc := range races {
		// only races on the registry / routing table are this property's business
		registry := false
		for _, fn := range []string{"(*Peering).AddLink", "(*Peering).RemoveLink", "(*Peering).copyLinksWithLocking", "(*Peering).closeAllLinks", "(*Peering).GetLink",
			"(*Peering).CloseLink", "(*Peering).LinkCnt", "(*Peering).IsStub", "(*Peering).VerifRegistry", "m.(*RoutingTable)"} {
			if strings.Contains(rc, fn) {
				registry = true
			}
		}
		if os.Getenv("VERIF_C16_RACES") != "" {
			fmt.Fprintln(os.Stderr, "RACE REPORT:", firstN(rc, 1500))
		}
		if !registry {
			continue
		}
		top := "unknown"
		for _, l := range strings.Split(rc, "\n") {
			l = strings.TrimSpace(l)
			if strings.HasPrefix(l, "github.com/mycoria/mycoria/peering.(*Peering)") || strings.HasPrefix(l, "github.com/mycoria/mycoria/m.(*RoutingTable)") {
				top = strings.TrimPrefix(strings.SplitN(l, "(", 2)[0]+"("+strings.SplitN(strings.SplitN(l, "(", 2)[1], ")", 2)[0]+")", "github.com/mycoria/mycoria/")
				if i := strings.Index(l, ")."); i >= 0 {
					top = strings.TrimPrefix(l[:strings.Index(l[i+2:], "(")+i+2], "github.com/mycoria/mycoria/")
				}
				break
			}
		}
		c.Violation("data-race/"+top, "the race detector reports a data race on the link registry during churn: "+firstN(rc, 1800), map[string]any{"race": rc}, nil)
	}
	c.Logf("T: %d churn rounds + %d under the race detector (%d race reports); %d snapshot events in total", rounds, raceRounds, len(races), len(allEvents))
	if len(allEvents) < 200 {
		c.Broken("only %d snapshots were taken", len(allEvents))
	}

	// ---- T-learned: the churn with the routers' router subsystem alive (announcements and disconnect pings between
	// establishment and close): the tables hold learned routes when links go
	levs, lorg := learnedStage(c, rng)
	allEvents = append(allEvents, levs...)
	origins = append(origins, lorg...)

	// ---- T-slow: set-ups that come in through listeners (setup workers) and take long: the remote holds its messages
	// back for milliseconds up to the cap of the tier or for good, set-up goroutines lose the CPU for a moment, remotes aim
	// at a deadline the listeners showed
	sevs, sorg := slowStage(c, rng)
	allEvents = append(allEvents, sevs...)
	origins = append(origins, sorg...)

	// ---- registry functions frozen at their calls into a link while the link is closed
	for _, ev := range yieldStage(c) {
		tag := fmt.Sprint(ev.(map[string]any)["tag"])
		origins = append(origins, origin{"yield", []act{{Name: tag}}})
		allEvents = append(allEvents, ev)
	}

	// ---- verdict by TLC
	c.Stage("R", map[string]any{"cover_paths": total, "executed": len(ps), "walks": nw, "churn_rounds": rounds, "snapshots": len(allEvents), "drift_runs": nDriftRuns})
	judge(c, allEvents, origins)
}

// judge gives all records to TLC (LinkRegistry_Trace) and reports what it rejects.
func judge(c *vf.Ctx, allEvents []any, origins []origin) {
	base := 0
	events := allEvents
	for len(events) > 0 {
		rejectAt, inv, tres, err := c.TraceCheck("LinkRegistry_Trace", "LinkRegistry_Trace.cfg", events, vf.TLCOpts{Timeout: 20 * time.Minute})
		if err != nil {
			c.Fatal("T: %v", err)
		}
		c.AddModel(tres.Distinct, tres.Generated)
		if rejectAt <= 0 && inv == "" {
			c.AddTraces(len(events))
			break
		}
		ev := events[rejectAt-1].(map[string]any)
		o := origins[base+rejectAt-1]
		why := explainSnap(ev)
		if why == "" {
			why = "inconsistent"
		}
		learned := ""
		if lr, ok := ev["learned"]; ok {
			learned = fmt.Sprintf(" learned routes %v", lr)
		}
		c.Violation(vf.Key(why, o.shape), fmt.Sprintf("router %v at a quiescent point (%v): %s: live %v by-peer %v by-label %v peer routes %v next hops %v%s [behaviour: %s]", ev["router"], ev["tag"], why, ev["live"], ev["bypeer"], ev["bylabel"], ev["routes"], ev["nexthops"], learned, actsString(o.acts)),
			map[string]any{"snapshot": ev, "shape": o.shape, "behaviour": actsString(o.acts)}, nil)
		base += rejectAt
		events = events[rejectAt:]
		if c.NViolations() > 5 {
			break
		}
	}
}

// driftSnapshot re-runs the behaviour without gates blocking (the hooks pass), waits for quiescence and records
// what the real code ends with.
func driftSnapshot(c *vf.Ctx, shName string, acts []act, all *[]any, note func(n int)) {
	s := newSched()
	h := s.hook
	peering.VerifGateHook.Store(&h)
	r := newRun(c, shapes[shName], s)
	defer peering.VerifGateHook.Store(nil)
	// gates block; the behaviour is followed as far as it goes, then everything is released
	for _, a := range acts {
		r.step(a)
		if len(r.drift) > 0 {
			break
		}
	}
	s.freeAll()
	var nodes []*world.Node
	for _, n := range r.sh.routers {
		nodes = append(nodes, r.node[n])
	}
	deadline := time.Now().Add(2 * time.Second)
	for time.Now().Before(deadline) {
		time.Sleep(3 * time.Millisecond)
		live, q := r.liveLinks()
		if q {
			time.Sleep(5 * time.Millisecond)
			live2, q2 := r.liveLinks()
			if q2 && len(live2) == len(live) {
				evs, _ := snapshot(nodes, r.name, live2, shName+" after the real code left the behaviour")
				*all = append(*all, evs...)
				note(len(evs))
				break
			}
		}
	}
	for _, cs := range r.conns {
		cs.pd.Proxy.Close()
		_ = cs.pd.ConnA.Close()
		_ = cs.pd.ConnB.Close()
	}
}

func firstN(s string, n int) string {
	if len(s) > n {
		return s[:n] + "..."
	}
	return s
}

func parseWalk(text string) (acts []act, q []bool) {
	for _, blk := range strings.Split(text, "\n\n") {
		var a *act
		for _, l := range strings.Split(blk, "\n") {
			mm := reAct.FindStringSubmatch(strings.TrimSpace(l))
			if mm == nil {
				continue
			}
			x := act{}
			for _, kv := range strings.Split(mm[1], ", ") {
				p := strings.SplitN(kv, " |-> ", 2)
				if len(p) != 2 {
					continue
				}
				v := strings.Trim(p[1], `"`)
				switch p[0] {
				case "name":
					x.Name = v
				case "conn":
					fmt.Sscan(v, &x.Conn)
				case "side":
					x.Side = v
				case "why":
					x.Why = v
				}
			}
			a = &x
		}
		if a == nil || a.Name == "init" || a.Name == "" {
			continue
		}
		acts = append(acts, *a)
		q = append(q, true) // the driver decides from real facts whether the point is quiescent
	}
	return
}

// ---------- churn (stage T)

// quietSnapshot records the registries at a quiescent point - and checks afterwards that the point WAS quiescent:
// a link that was live when the point was chosen and is closing when the tables have been read (a reader noticed a
// broken connection in between) makes the record worthless; it is taken again.
func quietSnapshot(settle func() map[peering.Link]*world.Node, nodes []*world.Node, names map[*world.Node]string, tag string) []any {
	for try := 0; try < 5; try++ {
		live := settle()
		if live == nil {
			return nil
		}
		evs, _ := snapshot(nodes, names, live, tag)
		still := true
		for l := range live {
			if l.IsClosing() {
				still = false
			}
		}
		if still {
			return evs
		}
	}
	return nil
}

func churn(c *vf.Ctx, rng *rand.Rand, n, ops int) (events []any) {
	s := newSched()
	s.perturb = rand.New(rand.NewSource(rng.Int63()))
	h := s.hook
	peering.VerifGateHook.Store(&h)
	defer peering.VerifGateHook.Store(nil)
	ms, err := mesh.New(n, nil, mesh.Opts{})
	if err != nil {
		panic(err)
	}
	names := map[*world.Node]string{}
	var nodes []*world.Node
	for i := 1; i <= n; i++ {
		names[ms.Node(i)] = fmt.Sprintf("R%d", i)
		nodes = append(nodes, ms.Node(i))
	}
	type pc struct {
		pd   *linkworld.Pending
		a, b *world.Node
		ra   *linkworld.SetupRet
		rb   *linkworld.SetupRet
	}
	var conns []*pc
	// closes the driver has started on goroutines of their own and that have not come back yet: no quiescent point
	// while one of them is under way (under the race detector a goroutine may be late by more than a moment)
	var asyncCloses atomic.Int32
	settle := func() map[peering.Link]*world.Node {
		deadline := time.Now().Add(3 * time.Second)
		for {
			live := map[peering.Link]*world.Node{}
			q := asyncCloses.Load() == 0 && s.closesUnderWay() == 0
			for _, k := range conns {
				if k.ra == nil {
					select {
					case v := <-k.pd.DoneA:
						k.ra = &v
					default:
						q = false
					}
				}
				if k.rb == nil {
					select {
					case v := <-k.pd.DoneB:
						k.rb = &v
					default:
						q = false
					}
				}
				cnt := 0
				if k.ra != nil && k.ra.Link != nil && !k.ra.Link.IsClosing() {
					live[k.ra.Link] = k.a
					cnt++
				}
				if k.rb != nil && k.rb.Link != nil && !k.rb.Link.IsClosing() {
					live[k.rb.Link] = k.b
					cnt++
				}
				if cnt == 1 {
					q = false
				}
			}
			if q {
				// stable for a moment?
				time.Sleep(3 * time.Millisecond)
				stable := s.closesUnderWay() == 0
				for l := range live {
					if l.IsClosing() {
						stable = false
					}
				}
				if stable {
					return live
				}
			}
			if time.Now().After(deadline) {
				return nil
			}
			time.Sleep(500 * time.Microsecond)
		}
	}
	for op := 0; op < ops; op++ {
		i, j := rng.Intn(n), rng.Intn(n)
		if i == j {
			j = (i + 1) % n
		}
		a, b := nodes[i], nodes[j]
		switch k := rng.Intn(10); {
		case k < 3: // connect
			if rng.Intn(2) == 0 {
				// ... and one end closes the new link by its manager at the very moment the registry turns to the routing
				// table for it: the close is started from inside that call and given 30 ms to get through (it cannot while
				// the registry holds its lock; then it runs right after the registration)
				x, y := a, b
				if rng.Intn(2) == 0 {
					x, y = b, a
				}
				var fired atomic.Bool
				plain := rng.Intn(2) == 0
				hook := func() {
					if fired.Load() {
						return
					}
					done := make(chan struct{})
					asyncCloses.Add(1)
					go func() {
						defer asyncCloses.Add(-1)
						defer close(done)
						if l := x.Peer.GetLink(y.ID.IP); l != nil && fired.CompareAndSwap(false, true) {
							x.OnRoutingTable.Store(nil)
							if plain {
								l.Close(nil) // the way the keep-alive worker closes a link it took from GetLinks()
							} else {
								x.Peer.CloseLink(y.ID.IP)
							}
						}
					}()
					select {
					case <-done:
					case <-time.After(30 * time.Millisecond):
					}
				}
				x.OnRoutingTable.Store(&hook)
			}
			conns = append(conns, &pc{pd: linkworld.Start(a, b), a: a, b: b})
		case k < 6: // both dial each other at the same time
			conns = append(conns, &pc{pd: linkworld.Start(a, b), a: a, b: b}, &pc{pd: linkworld.Start(b, a), a: b, b: a})
		case k < 7: // two diallers to one listener at the same time
			o := nodes[(j+1)%n]
			if o != b && o != a {
				conns = append(conns, &pc{pd: linkworld.Start(a, b), a: a, b: b}, &pc{pd: linkworld.Start(o, b), a: o, b: b})
			}
		case k < 8: // close local by manager
			a.Peer.CloseLink(b.ID.IP)
		case k < 9: // close the link object
			if l := a.Peer.GetLink(b.ID.IP); l != nil {
				asyncCloses.Add(1)
				go func() { defer asyncCloses.Add(-1); l.Close(nil) }()
			}
		default: // break a connection
			if len(conns) > 0 {
				conns[rng.Intn(len(conns))].pd.Proxy.Close()
			}
		}
		if rng.Intn(3) == 0 || op == ops-1 {
			events = append(events, quietSnapshot(settle, nodes, names, fmt.Sprintf("churn of %d routers after %d operations", n, op+1))...)
		}
		c.Eval(1)
	}
	// stop-all on one router while another one dials it
	if rng.Intn(2) == 0 {
		x, y := nodes[rng.Intn(n)], nodes[rng.Intn(n)]
		if x != y {
			done := make(chan struct{})
			go func() { _ = x.Peer.Stop(); close(done) }()
			conns = append(conns, &pc{pd: linkworld.Start(y, x), a: y, b: x})
			<-done
			events = append(events, quietSnapshot(settle, nodes, names, fmt.Sprintf("churn of %d routers after stop-all", n))...)
		}
	}
	for _, k := range conns {
		k.pd.Proxy.Close()
		_ = k.pd.ConnA.Close()
		_ = k.pd.ConnB.Close()
	}
	return events
}

// raceChurn builds this driver with the race detector and runs churn rounds in a child process.
func raceChurn(c *vf.Ctx, rounds int) (events []any, races []string) {
	bin := c.Work + "/c16race"
	build := exec.Command("bash", "-c", fmt.Sprintf(". %s/bin/goenv.sh && cd %s/harness && \"$GO\" build -race -tags verif -o %s ./c16", vf.VerifRoot, vf.VerifRoot, bin))
	if out, err := build.CombinedOutput(); err != nil {
		c.Broken("race build failed: %v\n%s", err, out)
		return nil, nil
	}
	outFile := c.Work + "/race-events.ndjson"
	cmd := exec.Command(bin)
	cmd.Env = append(os.Environ(), "VERIF_C16_MODE=churn", fmt.Sprintf("VERIF_C16_ROUNDS=%d", rounds), "VERIF_C16_OUT="+outFile, "GORACE=halt_on_error=0 exitcode=0")
	var stderr bytes.Buffer
	cmd.Stderr = &stderr
	if err := cmd.Run(); err != nil {
		c.Broken("race churn child failed: %v\n%s", err, tailStr(stderr.String(), 2000))
		return nil, nil
	}
	data, err := os.ReadFile(outFile)
	if err != nil {
		c.Broken("race churn child wrote no events: %v", err)
		return nil, nil
	}
	for _, l := range strings.Split(string(data), "\n") {
		if strings.TrimSpace(l) == "" {
			continue
		}
		var ev map[string]any
		if json.Unmarshal([]byte(l), &ev) == nil {
			events = append(events, retype(ev))
		}
	}
	for _, blk := range strings.Split(stderr.String(), "WARNING: DATA RACE")[1:] {
		if i := strings.Index(blk, "=================="); i >= 0 {
			blk = blk[:i]
		}
		races = append(races, blk)
	}
	return events, races
}

func tailStr(s string, n int) string {
	if len(s) > n {
		return s[len(s)-n:]
	}
	return s
}

// retype restores the record types of a snapshot event read back from JSON (for explainSnap).
func retype(ev map[string]any) map[string]any {
	b, _ := json.Marshal(ev)
	var t struct {
		Live    []liveRec  `json:"live"`
		ByPeer  []peerRec  `json:"bypeer"`
		ByLabel []labelRec `json:"bylabel"`
		Routes  []string   `json:"routes"`
		Hops    []string   `json:"nexthops"`
	}
	_ = json.Unmarshal(b, &t)
	if t.Live == nil {
		t.Live = []liveRec{}
	}
	if t.ByPeer == nil {
		t.ByPeer = []peerRec{}
	}
	if t.ByLabel == nil {
		t.ByLabel = []labelRec{}
	}
	if t.Routes == nil {
		t.Routes = []string{}
	}
	if t.Hops == nil {
		t.Hops = []string{}
	}
	ev["live"], ev["bypeer"], ev["bylabel"], ev["routes"], ev["nexthops"] = t.Live, t.ByPeer, t.ByLabel, t.Routes, t.Hops
	return ev
}

// churnChild is the body of the race-detector child process.
func churnChild() {
	world.InstallLogCapture()
	rounds := 30
	fmt.Sscan(os.Getenv("VERIF_C16_ROUNDS"), &rounds)
	seed := int64(1)
	fmt.Sscan(os.Getenv("VERIF_SEED"), &seed)
	rng := rand.New(rand.NewSource(seed + 77))
	c := &vf.Ctx{}
	var all []any
	for round := 0; round < rounds; round++ {
		all = append(all, churn(c, rng, 2+round%4, 6+rng.Intn(10))...)
	}
	// stop-all racing with set-ups: one router is stopped while others dial it
	for i := 0; i < rounds; i++ {
		ms, err := mesh.New(3, nil, mesh.Opts{})
		if err != nil {
			panic(err)
		}
		x := ms.Node(1)
		p1 := linkworld.Start(ms.Node(2), x)
		time.Sleep(time.Duration(rng.Intn(1500)) * time.Microsecond)
		p2 := linkworld.Start(ms.Node(3), x)
		time.Sleep(time.Duration(rng.Intn(1500)) * time.Microsecond)
		_ = x.Peer.Stop()
		for _, p := range []*linkworld.Pending{p1, p2} {
			select {
			case <-p.DoneB:
			case <-time.After(2 * time.Second):
			}
			p.Proxy.Close()
			_ = p.ConnA.Close()
			_ = p.ConnB.Close()
		}
	}
	_ = os.WriteFile(os.Getenv("VERIF_C16_OUT"), vf.NDJSON(all), 0o644)
	os.Exit(0)
}
