// Stage T-slow of C16: link set-ups that come in through a LISTENER and take long.
//
// Everywhere else in this check both ends of a connection run the dialling set-up (handleSetup, via VerifSetupLink) and
// every set-up is over within milliseconds. A router in the field gets half of its links the other way: a ListenerBase
// accepts a connection and a "setup link" worker (LinkBase.setupWorker) - different code - takes it through the
// set-up; and the remote decides WHEN its set-up messages arrive. Here real routers listen on real TCP sockets
// (peering.ProtocolTCP, 127.0.0.1, a port of the kernel's choice). The remote end of every accepted connection is the
// driver: it relays between the socket and a pipe on which a second real router runs the dialling set-up, it
// understands the 2-byte length framing, and it holds ONE of the dialler's set-up messages (mostly the last one, the
// ack) back - completely, or all but its last byte(s) - for a time drawn from the PRNG: not at all, some milliseconds,
// seconds, up to the cap of the tier, or for good (the driver gives the connection up at the cap). Real waiting: the
// routers' timers are real.
//
// Two more things a remote and a loaded machine can do:
//   - the set-up goroutines of the listening routers lose the CPU for some milliseconds at their calls into the router
//     instance (Identity, Config, State, FrameBuilder: the peering module of these routers is built on a wrapper of the
//     world's node that sleeps there, seeded) - a schedule, nothing else;
//   - a remote that stalled and saw the listener hang up on its own after a time D has learned a deadline of the
//     listener. In a second round remotes aim the last byte of their ack at D minus a little (PRNG), i.e. a set-up that
//     gets through "just in time" - or just not.
//
// When every set-up has ended one way or the other and the routers are quiet (no set-up worker left, both ends of every
// connection agree) the registries of ALL routers are recorded exactly as in the other stages and judged by TLC
// (LinkRegistry_Trace): a link that is closing must not be findable by peer or label, peer routes for exactly the live
// links. Live at the listening end: the link object the gate hook saw pass AddLink, not closing. Then what is left is
// closed (by manager / by breaking the connection) and the empty registries are recorded too.
package main

import (
	"fmt"
	"io"
	"math/rand"
	"net"
	"net/netip"
	"runtime"
	"runtime/debug"
	"strings"
	"sync"
	"sync/atomic"
	"time"

	"github.com/mycoria/mycoria/config"
	"github.com/mycoria/mycoria/frame"
	"github.com/mycoria/mycoria/m"
	"github.com/mycoria/mycoria/mgr"
	"github.com/mycoria/mycoria/peering"
	"github.com/mycoria/mycoria/state"

	"verifharness/internal/linkworld"
	"verifharness/internal/mesh"
	"verifharness/internal/vf"
	"verifharness/internal/world"
)

// stallInst is the router instance the peering module of a listening router is built on: the world's node, whose
// accessors may put the calling goroutine to sleep for a moment.
type stallInst struct {
	*world.Node
	on  atomic.Bool
	mu  sync.Mutex
	rng *rand.Rand
	max time.Duration
	n   atomic.Int64
}

func (s *stallInst) stall() {
	if !s.on.Load() {
		return
	}
	s.mu.Lock()
	var d time.Duration
	if s.rng.Intn(8) != 0 {
		d = time.Duration(s.rng.Int63n(int64(s.max)))
	}
	s.mu.Unlock()
	if d > 0 {
		s.n.Add(1)
		time.Sleep(d)
	}
}

func (s *stallInst) Identity() *m.Address         { s.stall(); return s.Node.Identity() }
func (s *stallInst) Config() *config.Config       { s.stall(); return s.Node.Config() }
func (s *stallInst) State() *state.State          { s.stall(); return s.Node.State() }
func (s *stallInst) FrameBuilder() *frame.Builder { s.stall(); return s.Node.FrameBuilder() }

// slowTry is one connection: d dials (pipe, dialling set-up), l accepts (TCP socket, listener path).
type slowTry struct {
	id      int
	kind    string // "fast", "delay", "never", "aimed"
	d, l    *world.Node
	addr    string
	holdIdx int           // which of the dialler's messages is held back (0 = none)
	delay   time.Duration // when the held message is completed, counted from the moment the connection stood; < 0: never
	early   int           // bytes of the held message that are delivered at once (-k = all but the last k bytes)

	tc     net.Conn // driver's end of the socket
	ca, pa net.Conn // dialler's pipe: the router's end, the driver's end
	done   chan linkworld.SetupRet
	dRet   *linkworld.SetupRet

	tDial     time.Time
	capAt     time.Time     // the driver gives a connection up whose held message is not due by then
	lGone     chan struct{} // the listener's end hung up (or the socket broke)
	scripted  chan struct{} // the driver's part is over: the held message is out, or the connection is gone
	relayDone chan struct{}
	err       string

	mu sync.Mutex
	slowRes
	// from the gate hook: the link object at the listening router
	lLink    *peering.LinkBase
	lAdded   bool
	lRemoved bool
	once     sync.Once
}

// slowRes is what the relay saw (guarded by the try's mutex).
type slowRes struct {
	holdFrom time.Time
	tRelease time.Time
	tEOF     time.Time
	// the listener hung up while the driver still held the message back
	lHungUpDuringHold bool
	gaveUp            bool // the driver gave the connection up at the cap
}

func (t *slowTry) res() slowRes {
	t.mu.Lock()
	defer t.mu.Unlock()
	return t.slowRes
}

func (t *slowTry) set(f func(r *slowRes)) {
	t.mu.Lock()
	f(&t.slowRes)
	t.mu.Unlock()
}

func (t *slowTry) scriptOver() { t.once.Do(func() { close(t.scripted) }) }

func (t *slowTry) lState() (l *peering.LinkBase, added, removed bool) {
	t.mu.Lock()
	defer t.mu.Unlock()
	return t.lLink, t.lAdded, t.lRemoved
}

type slowWorld struct {
	c      *vf.Ctx
	rng    *rand.Rand
	nodes  []*world.Node
	names  map[*world.Node]string
	lst    []*world.Node // listening routers
	inst   map[*world.Node]*stallInst
	lns    map[*world.Node]peering.Listener
	addr   map[*world.Node]string
	base   map[*world.Node]int // workers of the peering manager with no link and no set-up
	mu     sync.Mutex
	byAddr map[string]*slowTry
	tries  []*slowTry
	used   map[netip.Addr]bool
	w      *world.World
}

func (sw *slowWorld) hook(l *peering.LinkBase, point string) {
	conn := l.VerifConn()
	if _, ok := conn.(*net.TCPConn); !ok {
		return
	}
	ra := conn.RemoteAddr()
	if ra == nil {
		return
	}
	sw.mu.Lock()
	t := sw.byAddr[ra.String()]
	sw.mu.Unlock()
	if t == nil {
		return
	}
	t.mu.Lock()
	t.lLink = l
	switch point {
	case "added":
		t.lAdded = true
	case "removed":
		t.lRemoved = true
	}
	t.mu.Unlock()
}

func (sw *slowWorld) newNode(name string, listener bool) *world.Node {
	// never hand an address out twice (the pool only grows; its sorted prefix may change when it does)
	var id *m.Address
	for n := 16; id == nil; n += 16 {
		for _, cand := range mesh.Identities(n) {
			if !sw.used[cand.IP] {
				id = cand
				break
			}
		}
	}
	sw.used[id.IP] = true
	nd := sw.w.NewNode(name, world.NodeOpts{ID: id})
	if listener {
		// the peering module of a listening router sits on the stalling instance
		si := &stallInst{Node: nd, rng: rand.New(rand.NewSource(sw.rng.Int63())), max: 50 * time.Millisecond}
		nd.Peer = peering.New(si, nd.Sw.Input())
		nd.Peer.PeeringEvents = mgr.NewEventMgr[*peering.EventPeering]("peering", nd.Peer.Manager())
		sw.inst[nd] = si
	}
	sw.nodes = append(sw.nodes, nd)
	sw.names[nd] = name
	return nd
}

// sleepUntil returns at t as exactly as the machine allows.
func sleepUntil(t time.Time, abort <-chan struct{}) bool {
	for {
		d := time.Until(t)
		if d <= 0 {
			return true
		}
		if d > 400*time.Microsecond {
			tm := time.NewTimer(d - 300*time.Microsecond)
			select {
			case <-tm.C:
			case <-abort:
				tm.Stop()
				return false
			}
			continue
		}
		runtime.Gosched()
	}
}

// start opens the connection and runs the try on goroutines of its own.
func (sw *slowWorld) start(t *slowTry) {
	t.lGone, t.relayDone, t.scripted, t.done = make(chan struct{}), make(chan struct{}), make(chan struct{}), make(chan linkworld.SetupRet, 1)
	tc, err := net.DialTimeout("tcp", t.addr, 5*time.Second)
	if err != nil {
		t.err = "dial: " + err.Error()
		close(t.relayDone)
		close(t.lGone)
		t.scriptOver()
		t.done <- linkworld.SetupRet{Err: err}
		return
	}
	t.tDial = time.Now()
	t.tc = tc
	t.ca, t.pa = net.Pipe()
	sw.mu.Lock()
	sw.byAddr[tc.LocalAddr().String()] = t
	sw.mu.Unlock()
	url, _ := m.ParsePeeringURL("tcp://127.0.0.1:47369")
	go func() {
		defer func() {
			if r := recover(); r != nil {
				linkworld.Panics.Add(1)
				t.done <- linkworld.SetupRet{Err: fmt.Errorf("panic: %v\n%s", r, debug.Stack())}
			}
		}()
		l, err := t.d.Peer.VerifSetupLink(t.ca, url, true)
		t.done <- linkworld.SetupRet{Link: l, Err: err}
	}()
	// listener -> dialler: bytes as they come
	go func() {
		buf := make([]byte, 4096)
		for {
			n, err := tc.Read(buf)
			if n > 0 {
				if _, werr := t.pa.Write(buf[:n]); werr != nil {
					_ = tc.Close()
					err = werr
				}
			}
			if err != nil {
				now := time.Now()
				t.set(func(r *slowRes) { r.tEOF = now })
				close(t.lGone)
				_ = t.pa.Close()
				return
			}
		}
	}()
	// dialler -> listener: message by message
	go func() {
		defer close(t.relayDone)
		defer t.scriptOver()
		if t.holdIdx == 0 {
			t.scriptOver()
		}
		idx := 0
		for {
			var lb [2]byte
			if _, err := io.ReadFull(t.pa, lb[:]); err != nil {
				_ = tc.Close()
				return
			}
			n := int(lb[0])<<8 | int(lb[1])
			if n < 2 {
				_ = tc.Close()
				return
			}
			data := make([]byte, n)
			copy(data, lb[:])
			if _, err := io.ReadFull(t.pa, data[2:]); err != nil {
				_ = tc.Close()
				return
			}
			idx++
			if idx == t.holdIdx {
				early := t.early
				if early < 0 {
					early = len(data) + early
				}
				if early < 0 {
					early = 0
				}
				if early > len(data)-1 {
					early = len(data) - 1
				}
				now := time.Now()
				t.set(func(r *slowRes) { r.holdFrom = now })
				if early > 0 {
					if _, err := tc.Write(data[:early]); err != nil {
						return
					}
				}
				target, giveUp := t.capAt, true
				if t.delay >= 0 && t.tDial.Add(t.delay).Before(t.capAt) {
					target, giveUp = t.tDial.Add(t.delay), false
				}
				if !sleepUntil(target, t.lGone) {
					t.set(func(r *slowRes) { r.lHungUpDuringHold = true })
					return
				}
				if giveUp {
					t.set(func(r *slowRes) { r.gaveUp = true })
					_ = tc.Close()
					return
				}
				_, err := tc.Write(data[early:])
				now = time.Now()
				t.set(func(r *slowRes) { r.tRelease = now })
				t.scriptOver()
				if err != nil {
					return
				}
				continue
			}
			if _, err := tc.Write(data); err != nil {
				return
			}
		}
	}()
}

func (t *slowTry) describe() string {
	hold := "nothing held"
	if t.holdIdx > 0 {
		when := "for good"
		if t.delay >= 0 {
			when = fmt.Sprintf("until %v", t.delay.Round(100*time.Microsecond))
		}
		part := "whole"
		if t.early > 0 {
			part = fmt.Sprintf("all but the first %d bytes", t.early)
		} else if t.early < 0 {
			part = fmt.Sprintf("its last %d bytes", -t.early)
		}
		hold = fmt.Sprintf("the dialler's message %d held %s (%s)", t.holdIdx, when, part)
	}
	ip := t.d.ID.IP.String()
	if k := strings.Index(ip, ":"); k > 0 {
		if k2 := strings.Index(ip[k+1:], ":"); k2 > 0 {
			ip = ip[:k+1+k2] + ".."
		}
	}
	return fmt.Sprintf("#%d %s %s(%s)->%s: %s", t.id, t.kind, t.d.Name, ip, t.l.Name, hold)
}

// outcome names what happened at both ends (for the log and the history).
func (t *slowTry) outcome() string {
	l, added, removed := t.lState()
	lo := "listener: no link object seen"
	switch {
	case l != nil && added && !l.IsClosing():
		lo = "listener: registered"
	case l != nil && added:
		lo = "listener: passed AddLink, closed"
	case l != nil && removed:
		lo = "listener: set-up failed"
	case l != nil:
		lo = "listener: in set-up"
	}
	r := t.res()
	if r.lHungUpDuringHold {
		lo += fmt.Sprintf(" (hung up on its own after %v)", r.tEOF.Sub(t.tDial).Round(100*time.Microsecond))
	}
	if !r.tRelease.IsZero() {
		lo += fmt.Sprintf(" (message out after %v)", r.tRelease.Sub(t.tDial).Round(100*time.Microsecond))
	}
	if r.gaveUp {
		lo += " (driver gave up at the cap)"
	}
	do := "dialler: running"
	if t.dRet != nil {
		switch {
		case t.dRet.Link != nil && !t.dRet.Link.IsClosing():
			do = "dialler: registered"
		case t.dRet.Link != nil:
			do = "dialler: registered, closed"
		default:
			do = "dialler: set-up failed"
		}
	}
	return lo + ", " + do
}

// settle waits until every set-up has ended and the routers are quiet; returns the live links.
func (sw *slowWorld) settle(d time.Duration) (map[peering.Link]*world.Node, string) {
	deadline := time.Now().Add(d)
	why := ""
	for {
		live := map[peering.Link]*world.Node{}
		q := true
		perNode := map[*world.Node]int{}
		for _, t := range sw.tries {
			if t.err != "" {
				continue
			}
			if t.dRet == nil {
				select {
				case v := <-t.done:
					t.dRet = &v
				default:
					q, why = false, t.describe()+": the dialler's set-up is still running"
				}
			}
			cnt := 0
			if t.dRet != nil && t.dRet.Link != nil && !t.dRet.Link.IsClosing() {
				live[t.dRet.Link] = t.d
				perNode[t.d]++
				cnt++
			}
			l, added, removed := t.lState()
			if !added && !removed {
				q, why = false, t.describe()+": the listener's set-up is still running"
			}
			if l != nil && added && !l.IsClosing() {
				live[l] = t.l
				perNode[t.l]++
				cnt++
			}
			if cnt == 1 {
				q, why = false, t.describe()+": one end is gone, the other has not noticed yet"
			}
		}
		// no worker besides the listeners and reader + writer of the live links
		for _, nd := range sw.nodes {
			if got, want := nd.Peer.VerifWorkerCnt(), sw.base[nd]+2*perNode[nd]; got != want {
				q, why = false, fmt.Sprintf("%s: %d workers, expected %d", sw.names[nd], got, want)
			}
		}
		if q {
			time.Sleep(20 * time.Millisecond)
			stable := true
			for l := range live {
				if l.IsClosing() {
					stable = false
				}
			}
			for _, nd := range sw.nodes {
				if nd.Peer.VerifWorkerCnt() != sw.base[nd]+2*perNode[nd] {
					stable = false
				}
			}
			if stable {
				return live, ""
			}
			why = "not stable"
		}
		if time.Now().After(deadline) {
			return nil, why
		}
		time.Sleep(2 * time.Millisecond)
	}
}

func (sw *slowWorld) record(tag string) (events []any, ok bool, why string) {
	for try := 0; try < 5; try++ {
		live, w := sw.settle(15 * time.Second)
		if live == nil {
			return nil, false, w
		}
		evs, _ := snapshot(sw.nodes, sw.names, live, tag)
		still := true
		for l := range live {
			if l.IsClosing() {
				still = false
			}
		}
		if still {
			return evs, true, ""
		}
		why = "a live link closed while the registries were read"
	}
	return nil, false, why
}

type slowStats struct {
	Tries             int     `json:"set_ups"`
	Listeners         int     `json:"listening_routers"`
	Registered        int     `json:"registered_at_listener"`
	Failed            int     `json:"failed_at_listener"`
	HungUp            int     `json:"listener_hung_up_during_hold"`
	GaveUp            int     `json:"given_up_at_cap"`
	Stalls            int64   `json:"stalls_of_set_up_goroutines"`
	DeadlineMs        float64 `json:"deadline_learned_ms"`
	Aimed             int     `json:"aimed_at_deadline"`
	AimedRegistered   int     `json:"aimed_registered"`
	AimedTimedOut     int     `json:"aimed_timed_out"`
	LongestDelayMs    float64 `json:"longest_delay_released_ms"`
	Snapshots         int     `json:"records"`
	ClosedAtEnd       int     `json:"links_closed_at_end"`
	CapMs             float64 `json:"cap_ms"`
	RegisteredDelayed int     `json:"registered_after_more_than_1s"`
}

// slowStage runs stage T-slow.
func slowStage(c *vf.Ctx, rng *rand.Rand) (events []any, origins []origin) {
	world.InstallLogCapture()
	st := &slowStats{}
	sw := &slowWorld{c: c, rng: rng, names: map[*world.Node]string{}, inst: map[*world.Node]*stallInst{}, lns: map[*world.Node]peering.Listener{},
		addr: map[*world.Node]string{}, base: map[*world.Node]int{}, byAddr: map[string]*slowTry{}, used: map[netip.Addr]bool{}, w: world.NewWorld()}
	h := sw.hook
	peering.VerifGateHook.Store(&h)
	defer peering.VerifGateHook.Store(nil)
	defer func() {
		for _, t := range sw.tries {
			for _, cn := range []net.Conn{t.tc, t.pa, t.ca} {
				if cn != nil {
					_ = cn.Close()
				}
			}
		}
		for _, ln := range sw.lns {
			ln.Close(nil)
		}
	}()

	// M, beside the waiting: the model with a set-up deadline for accepted connections (DeadlineClose) - Consistent holds
	// when AddLink is not done for a link the deadline has closed, and is refuted when the set-up goes on regardless
	type mcOut struct {
		cfg, want string
		res       *vf.TLCResult
		err       error
	}
	mcCh := make(chan []mcOut, 1)
	go func() {
		outs := []mcOut{{cfg: "LinkRegistry_MC_deadline_guarded.cfg"}, {cfg: "LinkRegistry_MC_deadline_unguarded.cfg", want: "Consistent"}}
		for i := range outs {
			outs[i].res, outs[i].err = c.TLC("LinkRegistry_MC", outs[i].cfg, vf.TLCOpts{Workers: 2, Timeout: 10 * time.Minute})
		}
		mcCh <- outs
	}()
	defer func() {
		for _, o := range <-mcCh {
			if o.err != nil {
				c.Broken("M %s: %v", o.cfg, o.err)
				continue
			}
			c.AddModel(o.res.Distinct, o.res.Generated)
			if o.res.Violated != o.want {
				c.Broken("M %s: expected violated=%q, TLC says %q", o.cfg, o.want, o.res.Violated)
			}
		}
	}()

	nL := c.Pick(3, 5)
	for i := 0; i < nL; i++ {
		nd := sw.newNode(fmt.Sprintf("L%d", i+1), true)
		nd.Peer.AddProtocol("tcp", peering.ProtocolTCP)
		ln, err := nd.Peer.StartListener(&m.PeeringURL{Protocol: "tcp", Port: 0}, netip.MustParseAddr("127.0.0.1"))
		if err != nil {
			c.Broken("T-slow: router %s cannot listen on 127.0.0.1: %v", nd.Name, err)
			return nil, nil
		}
		sw.lns[nd] = ln
		sw.addr[nd] = ln.ListenAddress().String()
		sw.lst = append(sw.lst, nd)
	}
	time.Sleep(5 * time.Millisecond)
	for _, nd := range sw.lst {
		sw.base[nd] = nd.Peer.VerifWorkerCnt()
		if sw.base[nd] != 1 {
			c.Broken("T-slow: router %s runs %d peering workers with one listener and no link", nd.Name, sw.base[nd])
			return nil, nil
		}
	}
	st.Listeners = nL

	add := func(kind string, holdIdx int, delay time.Duration, early int, reuse bool) *slowTry {
		l := sw.lst[rng.Intn(len(sw.lst))]
		var d *world.Node
		if reuse && len(sw.tries) > 0 {
			d = sw.tries[rng.Intn(len(sw.tries))].d
		} else {
			d = sw.newNode(fmt.Sprintf("D%d", len(sw.tries)+1), false)
			sw.base[d] = d.Peer.VerifWorkerCnt()
		}
		t := &slowTry{id: len(sw.tries) + 1, kind: kind, d: d, l: l, addr: sw.addr[l], holdIdx: holdIdx, delay: delay, early: early}
		sw.tries = append(sw.tries, t)
		return t
	}
	earlyOf := func() int {
		switch rng.Intn(4) {
		case 0:
			return 0 // the whole message late
		case 1:
			return 2 + rng.Intn(40) // the length and a little more at once
		default:
			return -(1 + rng.Intn(3)) // everything but the last bytes at once
		}
	}
	heldMsg := func() int {
		if rng.Intn(4) == 0 {
			return 1 + rng.Intn(2)
		}
		return 3
	}

	// ---- round 1: delays over the whole range, remotes that stall for good
	capD := time.Duration(c.Pick(13000, 38000)+rng.Intn(c.Pick(2000, 6000))) * time.Millisecond
	st.CapMs = float64(capD) / 1e6
	nDelay, nNever := c.Pick(8, 28), c.Pick(3, 6)
	var round1 []*slowTry
	round1 = append(round1, add("fast", 0, 0, 0, false))
	for i := 0; i < nDelay; i++ {
		var dl time.Duration
		switch i % 4 {
		case 0:
			dl = time.Duration(rng.Int63n(int64(time.Second))) // below a second
		default:
			dl = time.Duration(rng.Int63n(int64(capD - 500*time.Millisecond))) // anywhere below the cap
		}
		round1 = append(round1, add("delay", heldMsg(), dl, earlyOf(), i > 2 && rng.Intn(6) == 0))
	}
	for i := 0; i < nNever; i++ {
		hm := 3
		if i > 0 {
			hm = heldMsg()
		}
		round1 = append(round1, add("never", hm, -1, earlyOf(), false))
	}
	rng.Shuffle(len(round1), func(i, j int) { round1[i], round1[j] = round1[j], round1[i] })
	for _, si := range sw.inst {
		si.on.Store(true)
	}
	capAt := time.Now().Add(capD)
	for _, t := range round1 {
		t.capAt = capAt
		sw.start(t)
		time.Sleep(time.Duration(2+rng.Intn(6)) * time.Millisecond)
	}
	for _, t := range round1 {
		t.waitScripted(capAt.Add(2 * time.Second))
	}
	evs, ok, why := sw.record(fmt.Sprintf("slow set-ups through listeners: %d connections, delays up to %v", len(round1), capD.Round(time.Millisecond)))
	if !ok {
		sw.logTries(c, round1)
		c.Broken("T-slow: the routers did not get quiet after the first round of slow set-ups: %s", why)
		return nil, nil
	}
	hist := sw.history(round1)
	for range evs {
		origins = append(origins, origin{"slow-setup", []act{{Name: hist}}})
	}
	events = append(events, evs...)
	st.Snapshots++

	// what did the remotes learn? a listener that hung up on its own while nothing was delivered to it for half a
	// second or more
	var deadline time.Duration
	for _, t := range round1 {
		if r := t.res(); r.lHungUpDuringHold && r.tEOF.Sub(r.holdFrom) > 500*time.Millisecond {
			if d := r.tEOF.Sub(t.tDial); deadline == 0 || d < deadline {
				deadline = d
			}
		}
	}

	// ---- round 2: remotes that know the deadline aim at it
	var round2 []*slowTry
	if deadline > 0 {
		st.DeadlineMs = float64(deadline) / 1e6
		nAim := c.Pick(20, 48)
		for i := 0; i < nAim; i++ {
			// the last byte(s) of the ack shortly before the deadline as the remote measured it (which includes the time the
			// hang-up took to get noticed); a few shortly after it
			lead := 200*time.Microsecond + time.Duration(rng.Int63n(int64(15*time.Millisecond)))
			if i%6 == 5 {
				lead = -time.Duration(rng.Int63n(int64(5 * time.Millisecond)))
			}
			early := -(1 + rng.Intn(3))
			if i%5 == 4 {
				early = earlyOf()
			}
			round2 = append(round2, add("aimed", 3, deadline-lead, early, false))
		}
		capAt := time.Now().Add(deadline + 3*time.Second)
		for _, t := range round2 {
			t.capAt = capAt
			sw.start(t)
			time.Sleep(time.Duration(3+rng.Intn(8)) * time.Millisecond)
		}
		for _, t := range round2 {
			t.waitScripted(capAt.Add(2 * time.Second))
		}
		evs, ok, why := sw.record(fmt.Sprintf("slow set-ups through listeners: %d connections whose ack is aimed at the deadline of %v the listeners showed", len(round2), deadline.Round(time.Millisecond)))
		if !ok {
			sw.logTries(c, round2)
			c.Broken("T-slow: the routers did not get quiet after the round of aimed set-ups: %s", why)
			return nil, nil
		}
		hist2 := sw.history(round2)
		for range evs {
			origins = append(origins, origin{"slow-setup", []act{{Name: hist2}}})
		}
		events = append(events, evs...)
		st.Snapshots++
	}
	for _, si := range sw.inst {
		si.on.Store(false)
		st.Stalls += si.n.Load()
	}

	// ---- statistics before the end
	for _, t := range sw.tries {
		l, added, removed := t.lState()
		r := t.res()
		switch {
		case l != nil && added && !l.IsClosing():
			st.Registered++
			if t.kind == "aimed" {
				st.AimedRegistered++
			}
			if !r.tRelease.IsZero() && r.tRelease.Sub(t.tDial) > time.Second {
				st.RegisteredDelayed++
			}
		case removed || added:
			st.Failed++
		}
		if r.lHungUpDuringHold {
			st.HungUp++
			if t.kind == "aimed" {
				st.AimedTimedOut++
			}
		}
		if r.gaveUp {
			st.GaveUp++
		}
		if t.kind == "aimed" {
			st.Aimed++
		}
		if !r.tRelease.IsZero() {
			if ms := float64(r.tRelease.Sub(t.tDial)) / 1e6; ms > st.LongestDelayMs {
				st.LongestDelayMs = ms
			}
		}
		c.Distinct(fmt.Sprintf("slow/%s/%d/%d", t.kind, t.holdIdx, t.id))
		c.Eval(1)
	}
	st.Tries = len(sw.tries)
	if c.Thorough() || len(sw.tries) <= 40 {
		sw.logTries(c, sw.tries)
	}

	// ---- the end: every link that stands is closed, by the manager of one end or by breaking the connection
	for _, t := range sw.tries {
		if t.tc == nil {
			continue
		}
		l, added, _ := t.lState()
		if l != nil && added && !l.IsClosing() {
			st.ClosedAtEnd++
			switch rng.Intn(3) {
			case 0:
				t.l.Peer.CloseLink(t.d.ID.IP)
			case 1:
				t.d.Peer.CloseLink(t.l.ID.IP)
			default:
				_ = t.tc.Close()
			}
		} else {
			_ = t.tc.Close()
		}
	}
	evs, ok, why = sw.record("slow set-ups through listeners: after every link was closed")
	if !ok {
		c.Broken("T-slow: the routers did not get quiet after the links were closed: %s", why)
		return events, origins
	}
	for range evs {
		origins = append(origins, origin{"slow-setup", []act{{Name: "every link closed after: " + hist}}})
	}
	events = append(events, evs...)
	st.Snapshots++

	c.Extra("slow_setups", st)
	c.Logf("T-slow: %d set-ups through %d listening routers (TCP, setup workers), cap %v: %d registered at the listener (%d of them after more than 1 s, longest delay released %.0f ms), %d failed there, %d times the listener hung up on its own during a hold, %d given up at the cap; %d stalls of set-up goroutines; deadline learned: %.1f ms; aimed %d (%d registered, %d timed out); %d records",
		st.Tries, st.Listeners, capD.Round(time.Millisecond), st.Registered, st.RegisteredDelayed, st.LongestDelayMs, st.Failed, st.HungUp, st.GaveUp, st.Stalls, st.DeadlineMs, st.Aimed, st.AimedRegistered, st.AimedTimedOut, st.Snapshots)
	// not vacuous: set-ups did get through the listener path, slow ones too, and stalling remotes were there
	if st.Registered == 0 {
		c.Broken("T-slow is vacuous: no link was registered through a listener")
	}
	if st.GaveUp+st.HungUp == 0 {
		c.Broken("T-slow is vacuous: no remote stalled until the cap or until the listener hung up")
	}
	return events, origins
}

// waitScripted waits until the driver's part of the try is over (the held message is out or the connection is gone)
// or, at the latest, until the given time.
func (t *slowTry) waitScripted(at time.Time) {
	select {
	case <-t.scripted:
	case <-time.After(time.Until(at)):
	}
}

func (sw *slowWorld) history(ts []*slowTry) string {
	var p []string
	for _, t := range ts {
		p = append(p, t.describe()+" => "+t.outcome())
	}
	if len(p) > 24 {
		p = append(p[:24], fmt.Sprintf("... %d more", len(p)-24))
	}
	return strings.Join(p, "; ")
}

func (sw *slowWorld) logTries(c *vf.Ctx, ts []*slowTry) {
	for _, t := range ts {
		c.Logf("T-slow: %s => %s %s", t.describe(), t.outcome(), t.err)
	}
}
