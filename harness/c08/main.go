// C08 - gossip routes name only routers that signed their hop. Stage M: TLC
// on GossipAuth enumerates every forgery operator x depth x chain length as
// one case and checks that what the code verifies (origin signature and time
// sequence, every layer's signature with this announcement's context over the
// nested chain, delivering peer = outermost signer) equals the property-level
// rule. Stage R: every case is applied to REAL announcement bytes produced by
// real routers forwarding over virtual links - the adversary is the real
// forwarder next to the victim (it re-signs its own outer record with its real
// key) or a wire attacker - and delivered to a real victim router; thorough
// also flips every byte of body, origin signature and appendix. Stage T:
// seeded forgery campaigns (chains up to 6 / 20) judged by GossipAuth_Trace; stage
// T-concurrent (concurrent.go): the forged announcement is handled while genuine ones
// occupy the victim's other router workers.
package main

import (
	"bytes"
	"encoding/json"
	"fmt"
	"math/rand"
	"reflect"
	"sync"
	"time"

	"github.com/fxamacker/cbor/v2"

	"github.com/mycoria/mycoria/m"
	"github.com/mycoria/mycoria/router"

	"verifharness/internal/mesh"
	"verifharness/internal/vf"
	"verifharness/internal/world"
)

type act struct {
	Name       string `json:"name"`
	Len        int    `json:"len"`
	Op         string `json:"op"`
	Depth      int    `json:"depth"`
	Seen       bool   `json:"seen"`
	Accept     bool   `json:"accept"`
	PropAccept bool   `json:"propaccept"`
	Path       []int  `json:"path"`
	Via        int    `json:"via"`
	Peer       int    `json:"peer"` // handover only: who hands the copy to the victim (9 origin, 8 uninvolved peer, i = i-th forwarder)
}

// layout of a serialised announcement frame
type parts struct {
	msgFrom, msgTo   int
	authFrom, authTo int
	apxFrom          int
}

func layout(data []byte) parts {
	mi := 49 + int(data[48])
	ml := int(data[mi])<<8 | int(data[mi+1])
	p := parts{msgFrom: mi + 2, msgTo: mi + 2 + ml}
	p.authFrom, p.authTo = p.msgTo, p.msgTo+64
	p.apxFrom = p.authTo
	return p
}

type rec struct {
	att router.AnnouncePingAttachment
	raw []byte // CBOR || signature, including everything nested
}

func decodeChain(apx []byte) []rec {
	var out []rec
	for len(apx) > 64 {
		var at router.AnnouncePingAttachment
		if cbor.Unmarshal(apx[:len(apx)-64], &at) != nil {
			break
		}
		out = append(out, rec{at, append([]byte(nil), apx...)})
		apx = at.NextAttachment
	}
	return out
}

// scene is one victim with an honest chain of L forwarders to the origin O,
// another peer X of the victim and a second origin O2 behind the same forwarders.
type scene struct {
	ms       *mesh.Mesh
	L        int
	v, r1, o *world.Node
	x, o2    *world.Node
	held     []*world.Flight // frames held back from the victim
	produced map[string]bool // every hop record (raw bytes) an honest router emitted
	fa, fb   []byte          // announcements of O (older a, newer b) as they would reach the victim
	fc       []byte          // announcement of O2
	idToNum  map[int]int     // mesh id -> model number (1..L forwarders, 9 origin, 8 other peer, 7 stranger)
	// renew: the forwarder next to the victim signs its record with this delay / label offset (0 = random delay, real label)
	forceDelay      uint16
	forceLabelDelta int
}

// node ids: 1 = V, 2..L+1 = R1..RL, L+2 = O, L+3 = X, L+4 = O2
func newScene(L int, rng *rand.Rand) *scene { return newSceneLinked(L, rng, nil) }

// newSceneLinked: the victim additionally has links of its own to the routers `also` (mesh ids: forwarders that are
// not next to it on the chain, the origin), i.e. the honest chain is not the only way between them.
func newSceneLinked(L int, rng *rand.Rand, also []int) *scene {
	n := L + 4
	var edges []mesh.Edge
	lab := func() m.SwitchLabel { return m.SwitchLabel(1 + rng.Intn(16000)) }
	for i := 1; i <= L+1; i++ {
		edges = append(edges, mesh.Edge{A: i, B: i + 1, LA: lab(), LB: lab()})
	}
	edges = append(edges, mesh.Edge{A: 1, B: L + 3, LA: lab(), LB: lab()})     // V - X
	edges = append(edges, mesh.Edge{A: L + 1, B: L + 4, LA: lab(), LB: lab()}) // RL (or V when L=0) - O2
	for _, id := range also {
		edges = append(edges, mesh.Edge{A: 1, B: id, LA: lab(), LB: lab()}) // V - a router named in the announcement
	}
	ms, err := mesh.New(n, edges, mesh.Opts{})
	if err != nil {
		panic(err)
	}
	s := &scene{ms: ms, L: L, v: ms.Node(1), o: ms.Node(L + 2), x: ms.Node(L + 3), o2: ms.Node(L + 4), produced: map[string]bool{}, idToNum: map[int]int{}}
	if L > 0 {
		s.r1 = ms.Node(2)
	}
	for i := 1; i <= L; i++ {
		s.idToNum[i+1] = i
	}
	s.idToNum[L+2] = 9
	s.idToNum[L+3] = 8
	s.idToNum[L+4] = 7
	s.idToNum[1] = 0
	ms.W.OnSend = func(fl *world.Flight) {
		a, err := ms.Decode(fl.Data)
		if err == nil && a.IsAnn {
			for _, r := range a.RawRecs {
				s.produced[string(r)] = true
			}
		}
	}
	// propagate an announcement of `origin` through the mesh, holding back everything addressed to the victim
	flood := func(origin *world.Node, onlyTo *world.Node) {
		time.Sleep(2 * time.Millisecond)
		_ = origin.Rt.AnnouncePing.Send(onlyTo.ID.IP)
		for {
			idx := -1
			for i, fl := range ms.W.Inflight {
				if fl.To != s.v {
					idx = i
					break
				}
			}
			if idx < 0 {
				break
			}
			fl := ms.W.Take(idx)
			_, _ = ms.W.Deliver(fl)
		}
		for ms.W.NInflight() > 0 {
			s.held = append(s.held, ms.W.Take(0))
		}
	}
	first := func(origin *world.Node) *world.Node { // neighbour of the origin on the way to the victim
		if L == 0 {
			return s.v
		}
		return ms.Node(L + 1)
	}
	pick := func(origin *world.Node, after int) []byte {
		from := s.v
		_ = from
		for _, fl := range s.held[after:] {
			a, err := ms.Decode(fl.Data)
			if err != nil || !a.IsAnn || ms.Node(a.Origin) != origin {
				continue
			}
			want := s.o
			if L > 0 {
				want = s.r1
			}
			if origin == s.o2 && L == 0 {
				want = s.o2
			}
			if fl.From == want && len(a.Hops) == L {
				return fl.Data
			}
		}
		return nil
	}
	flood(s.o, first(s.o))
	s.fa = pick(s.o, 0)
	n1 := len(s.held)
	flood(s.o, first(s.o))
	s.fb = pick(s.o, n1)
	n2 := len(s.held)
	flood(s.o2, first(s.o2))
	s.fc = pick(s.o2, n2)
	if s.fa == nil || s.fb == nil || s.fc == nil {
		panic(fmt.Sprintf("scene L=%d: could not capture honest announcements (%v %v %v)", L, s.fa != nil, s.fb != nil, s.fc != nil))
	}
	ms.W.OnSend = nil
	return s
}

// context of an announcement frame as the forwarders sign it
func signingContext(data []byte) []byte {
	p := layout(data)
	ctx := make([]byte, 16+8+64)
	copy(ctx[:16], data[16:32])
	copy(ctx[16:24], data[8:16])
	copy(ctx[24:], data[p.authFrom:p.authTo])
	return ctx
}

// ownRecord builds the adversary's (forwarder 1's) fresh, validly signed outer record over `inner`.
func (s *scene) ownRecord(frameData, inner []byte, rng *rand.Rand) []byte {
	at := router.AnnouncePingAttachment{
		Router:         s.r1.ID.PublicAddress,
		Delay:          uint16(1 + rng.Intn(200)),
		ForwardLabel:   s.r1.LinkTo(s.ms.Node(3)).SwitchLabel(),
		ReturnLabel:    s.r1.LinkTo(s.v).SwitchLabel(),
		NextAttachment: inner,
	}
	if s.forceDelay != 0 {
		// "renew": the same forwarder, another measured delay (both below the 5 ms every hop counts at least) and its
		// link to the next router under another label
		at.Delay = s.forceDelay
		at.ForwardLabel += m.SwitchLabel(s.forceLabelDelta)
	}
	data, err := cbor.Marshal(at)
	if err != nil {
		panic(err)
	}
	sig, err := s.r1.ID.SignWithContext(data, signingContext(frameData))
	if err != nil {
		panic(err)
	}
	return append(data, sig...)
}

func withAppendix(frameData, apx []byte) []byte {
	p := layout(frameData)
	return append(append([]byte(nil), frameData[:p.apxFrom]...), apx...)
}

// reencode rebuilds record `r` with a different nested chain / identity but its ORIGINAL signature.
func reencode(r rec, next []byte, newRouter *m.PublicAddress) []byte {
	at := r.att
	at.NextAttachment = next
	if newRouter != nil {
		at.Router = *newRouter
	}
	data, err := cbor.Marshal(at)
	if err != nil {
		panic(err)
	}
	return append(data, r.raw[len(r.raw)-64:]...)
}

// forge applies the operator to real bytes. It returns the frame bytes and the node that delivers them.
func (s *scene) forge(a act, rng *rand.Rand, off int) (data []byte, from *world.Node, note string) {
	fa := s.fa
	p := layout(fa)
	chain := decodeChain(fa[p.apxFrom:])
	from = s.o
	if s.L > 0 {
		from = s.r1
	}
	flipIn := func(b []byte, lo, hi int) (int, int) {
		o := lo + rng.Intn(hi-lo)
		if off >= 0 && lo+off < hi {
			o = lo + off
		}
		bit := rng.Intn(8)
		b[o] ^= 1 << bit
		return o, bit
	}
	// rebuild the chain below the adversary's record with record d replaced by `repl` (raw bytes incl. everything below)
	under := func(d int, repl []byte) []byte {
		cur := repl
		for i := d - 1; i >= 2; i-- {
			cur = reencode(chain[i-1], cur, nil)
		}
		return cur
	}
	switch a.Op {
	case "none":
		return append([]byte(nil), fa...), from, ""
	case "transit":
		d := append([]byte(nil), fa...)
		d[1] = byte(2 + rng.Intn(200))
		d[2] ^= byte(1 + rng.Intn(7))
		return d, from, ""
	case "mutbody":
		d := append([]byte(nil), fa...)
		o, b := flipIn(d, p.msgFrom, p.msgTo)
		return d, from, fmt.Sprintf("body byte %d bit %d", o-p.msgFrom, b)
	case "mutsig":
		d := append([]byte(nil), fa...)
		o, b := flipIn(d, p.authFrom, p.authTo)
		return d, from, fmt.Sprintf("origin signature byte %d bit %d", o-p.authFrom, b)
	case "wrongpeer":
		return append([]byte(nil), fa...), s.x, ""
	case "replayold":
		return append([]byte(nil), fa...), from, "after the newer announcement was processed"
	case "outerflip":
		d := append([]byte(nil), fa...)
		o, b := flipIn(d, p.apxFrom, len(d)-64)
		return d, from, fmt.Sprintf("appendix byte %d bit %d", o-p.apxFrom, b)
	case "outersigflip":
		d := append([]byte(nil), fa...)
		o, b := flipIn(d, len(d)-64, len(d))
		return d, from, fmt.Sprintf("outer record signature byte %d bit %d", o-(len(d)-64), b)
	case "stripouter":
		return withAppendix(fa, chain[0].att.NextAttachment), from, ""
	case "claimdirect":
		return withAppendix(fa, s.ownRecord(fa, nil, rng)), from, ""
	case "renew":
		pb := layout(s.fb)
		chainB := decodeChain(s.fb[pb.apxFrom:])
		s.forceDelay, s.forceLabelDelta = 3, 1
		d := withAppendix(s.fb, s.ownRecord(s.fb, chainB[0].att.NextAttachment, rng))
		s.forceDelay, s.forceLabelDelta = 0, 0
		return d, from, "newer announcement, forwarder's record: delay 3 ms, forward label +1 (earlier: 1 ms)"
	case "wraptwice":
		inner := s.ownRecord(fa, chain[0].att.NextAttachment, rng)
		return withAppendix(fa, s.ownRecord(fa, inner, rng)), from, "the forwarder attached two records of its own"
	case "skipto":
		return withAppendix(fa, s.ownRecord(fa, chain[a.Depth-1].raw, rng)), from, ""
	case "innerflip":
		raw := append([]byte(nil), chain[a.Depth-1].raw...)
		own := len(raw) - 64 - len(chain[a.Depth-1].att.NextAttachment) // the record's own fields come first in its CBOR map ... flip near the start
		if own < 8 {
			own = 8
		}
		o, b := flipIn(raw, 1, own)
		return withAppendix(fa, s.ownRecord(fa, under(a.Depth, raw), rng)), from, fmt.Sprintf("record %d byte %d bit %d", a.Depth, o, b)
	case "innersigflip":
		raw := append([]byte(nil), chain[a.Depth-1].raw...)
		o, b := flipIn(raw, len(raw)-64, len(raw))
		return withAppendix(fa, s.ownRecord(fa, under(a.Depth, raw), rng)), from, fmt.Sprintf("record %d signature byte %d bit %d", a.Depth, o-(len(raw)-64), b)
	case "splicetime", "spliceorigin":
		src := s.fb
		if a.Op == "spliceorigin" {
			src = s.fc
		}
		if a.Op == "splicetime" && a.Seen {
			// the victim has verified the record for the EARLIER announcement: it is moved into the newer one of the
			// same origin (anything the victim remembers about records it has checked must be tied to the announcement)
			older := chain[a.Depth-1].raw
			chainB := decodeChain(s.fb[layout(s.fb).apxFrom:])
			cur := older
			for i := a.Depth - 1; i >= 2; i-- {
				cur = reencode(chainB[i-1], cur, nil)
			}
			return withAppendix(s.fb, s.ownRecord(s.fb, cur, rng)), from, "record of the earlier announcement (processed before) inside the newer one"
		}
		other := decodeChain(src[layout(src).apxFrom:])
		return withAppendix(fa, s.ownRecord(fa, under(a.Depth, other[a.Depth-1].raw), rng)), from, ""
	case "splicechain", "splicebelow":
		// a WHOLE foreign chain: every record below the top is genuine - for another announcement (the other origin's, or,
		// against a victim that has seen nothing yet, sometimes the same origin's newer one)
		src, which := s.fc, "the other origin's announcement"
		if !a.Seen && rng.Intn(3) == 0 {
			src, which = s.fb, "the same origin's newer announcement"
		}
		other := decodeChain(src[layout(src).apxFrom:])
		if a.Op == "splicechain" {
			return withAppendix(fa, src[layout(src).apxFrom:]), from, "the whole chain signed for " + which
		}
		return withAppendix(fa, s.ownRecord(fa, other[0].att.NextAttachment, rng)), from, "own fresh record over the records 2.. signed for " + which
	case "reattribute":
		pub := s.x.ID.PublicAddress
		raw := reencode(chain[a.Depth-1], chain[a.Depth-1].att.NextAttachment, &pub)
		return withAppendix(fa, s.ownRecord(fa, under(a.Depth, raw), rng)), from, ""
	case "forgeknown":
		// a fresh record at depth d naming the victim's OTHER peer (a router the victim has a session with), carrying the adversary's
		// key material and signed with the adversary's key; what hangs below is the genuine suffix
		at := chain[a.Depth-1].att
		at.Router = s.r1.ID.PublicAddress
		at.Router.IP = s.x.ID.IP
		body, err := cbor.Marshal(at)
		if err != nil {
			panic(err)
		}
		sig, err := s.r1.ID.SignWithContext(body, signingContext(fa))
		if err != nil {
			panic(err)
		}
		return withAppendix(fa, s.ownRecord(fa, under(a.Depth, append(body, sig...)), rng)), from, "record names " + s.x.ID.IP.String() + " with the adversary's key"
	case "duprec":
		// record d twice: the upper copy gets the lower copy as what hangs below it
		dup := reencode(chain[a.Depth-1], chain[a.Depth-1].raw, nil)
		return withAppendix(fa, s.ownRecord(fa, under(a.Depth, dup), rng)), from, ""
	case "handover":
		return s.handover(a, rng)
	case "reorder":
		// records d and d+1 swapped
		var below []byte
		if a.Depth+1 < len(chain) {
			below = chain[a.Depth+1].raw
		}
		lower := reencode(chain[a.Depth-1], below, nil)
		upper := reencode(chain[a.Depth], lower, nil)
		return withAppendix(fa, s.ownRecord(fa, under(a.Depth, upper), rng)), from, ""
	}
	panic("op " + a.Op)
}

// peerNode maps a model number to the node (9 origin, 8 the uninvolved peer, i = i-th forwarder).
func (s *scene) peerNode(p int) *world.Node {
	switch {
	case p == 9:
		return s.o
	case p == 8:
		return s.x
	case p >= 1 && p <= s.L:
		return s.ms.Node(p + 1)
	}
	panic(fmt.Sprintf("peer %d on a chain of %d", p, s.L))
}

func (s *scene) peerName(p int) string {
	switch p {
	case 9:
		return "the origin itself"
	case 8:
		return "an uninvolved peer"
	}
	return fmt.Sprintf("forwarder %d", p)
}

// also lists the links the victim needs besides those to forwarder 1 and the uninvolved peer for a handover case: one
// to the router that hands the copy over, and (seeded) to further routers the announcement names.
func handoverLinks(L int, a act, rng *rand.Rand) []int {
	if a.Op != "handover" {
		return nil
	}
	set := map[int]bool{}
	if a.Peer == 9 {
		set[L+2] = true
	} else if a.Peer >= 2 && a.Peer <= L {
		set[a.Peer+1] = true
	}
	if rng.Intn(2) == 0 {
		set[L+2] = true
	}
	if L >= 2 && rng.Intn(2) == 0 {
		set[3+rng.Intn(L-1)] = true
	}
	var out []int
	for id := 3; id <= L+2; id++ {
		if set[id] {
			out = append(out, id)
		}
	}
	return out
}

// handover: a copy of the older (sometimes the newer) announcement whose appendix is the genuine suffix a.Depth..L of
// its chain - nothing altered, every signature verifies - arrives over the victim's link to a.Peer. Where that peer IS
// the outermost signer (the origin when nothing is attached) the copy is the very frame that router sent to the victim
// when the announcement was flooded, so the case is an honest announcement over a second way through the mesh.
func (s *scene) handover(a act, rng *rand.Rand) (data []byte, from *world.Node, note string) {
	src, which := s.fa, "announcement"
	if rng.Intn(3) == 0 {
		src, which = s.fb, "newer announcement"
	}
	from = s.peerNode(a.Peer)
	outer := "nobody (no record attached)"
	if a.Depth <= s.L {
		outer = fmt.Sprintf("forwarder %d", a.Depth)
	}
	carried := fmt.Sprintf("with the genuine records of forwarders %d..%d", a.Depth, s.L)
	if a.Depth > s.L {
		carried = "without any record"
	}
	note = fmt.Sprintf("%s %s, handed over by %s; outermost signer: %s", which, carried, s.peerName(a.Peer), outer)
	honest := (a.Depth <= s.L && a.Peer == a.Depth) || (a.Depth == s.L+1 && a.Peer == 9)
	if honest && a.Depth > 1 {
		sa, err := s.ms.Decode(src)
		if err != nil {
			panic(err)
		}
		for _, fl := range s.held {
			h, err := s.ms.Decode(fl.Data)
			if err != nil || !h.IsAnn || fl.From != from || fl.To != s.v || h.Origin != sa.Origin || h.Stamp != sa.Stamp || len(h.Hops) != s.L-a.Depth+1 {
				continue
			}
			return append([]byte(nil), fl.Data...), from, note + " (the frame that router sent to the victim itself)"
		}
		panic(fmt.Sprintf("scene L=%d: %s did not send its own copy of the announcement to the victim", s.L, s.peerName(a.Peer)))
	}
	p := layout(src)
	chain := decodeChain(src[p.apxFrom:])
	var apx []byte
	if a.Depth <= len(chain) {
		apx = chain[a.Depth-1].raw
	}
	return withAppendix(src, apx), from, note
}

type result struct {
	Accepted  bool
	Path      []int
	NextHop   int
	Unchanged bool
	Genuine   bool
	Err       string
	Panic     bool
	Binding   bool // a session of the victim ended up bound to another router's address / key
}

func tableOf(n *world.Node) []m.RoutingTableEntry {
	t := n.RoutingTable().VerifEntries()
	for i := range t {
		t[i].Expires = time.Time{}
	}
	return t
}

// deliver runs one case against a fresh scene.
func runCase(c *vf.Ctx, L int, a act, rng *rand.Rand, off int) (result, string, *scene) {
	s := newSceneLinked(L, rng, handoverLinks(L, a, rng))
	if a.Op == "replayold" {
		from := s.o
		if L > 0 {
			from = s.r1
		}
		_, _ = s.ms.W.DeliverRaw(from, s.v, s.fb)
	}
	if a.Op == "renew" {
		// the earlier announcement, with the forwarder's record at delay 1 ms and its present label, is processed first
		s.forceDelay, s.forceLabelDelta = 1, 0
		first := withAppendix(s.fa, s.ownRecord(s.fa, decodeChain(s.fa[layout(s.fa).apxFrom:])[0].att.NextAttachment, rng))
		s.forceDelay = 0
		_, _ = s.ms.W.DeliverRaw(s.r1, s.v, first)
	}
	data, from, note := s.forge(a, rng, off)
	if a.Seen {
		// the victim has already processed the genuine announcement
		gfrom := s.o
		if L > 0 {
			gfrom = s.r1
		}
		if a.Op == "spliceorigin" || a.Op == "splicechain" || a.Op == "splicebelow" {
			// the announcement the record is taken FROM has been processed (and its records verified) by the victim
			_, _ = s.ms.W.DeliverRaw(gfrom, s.v, s.fc)
			note += " (after the other origin's genuine announcement, which carries the record, was processed)"
		} else {
			_, _ = s.ms.W.DeliverRaw(gfrom, s.v, s.fa)
			note += " (after the genuine announcement was processed)"
		}
	}
	before := tableOf(s.v)
	s.ms.W.Inflight = nil
	res, err := s.ms.W.DeliverRaw(from, s.v, data)
	c.Eval(1)
	var r result
	if err != nil {
		r.Err = err.Error()
	}
	for _, h := range res {
		if e := h.HandlerErr(); e != "" {
			r.Err = e
		}
		if h.Panic {
			r.Panic = true
		}
	}
	after := tableOf(s.v)
	emitted := s.ms.W.NInflight()
	r.Unchanged = reflect.DeepEqual(before, after) && emitted == 0
	// was a route to the origin installed / refreshed by this delivery?
	var got *m.RoutingTableEntry
	for i := range after {
		e := &after[i]
		if e.DstIP != s.o.ID.IP {
			continue
		}
		found := false
		for j := range before {
			if reflect.DeepEqual(before[j], *e) {
				found = true
			}
		}
		if !found {
			got = e
		}
	}
	if got != nil {
		r.Accepted = true
		r.NextHop = s.idToNum[s.ms.ID(got.NextHop)]
		r.Path = []int{}
		hops := got.Path.Hops
		for i := 1; i < len(hops)-1; i++ {
			r.Path = append(r.Path, s.idToNum[s.ms.ID(hops[i].Router)])
		}
		// every accepted record must be one its signer emitted for this announcement, or the deliverer's own
		r.Genuine = true
		p := layout(data)
		for i, rc := range decodeChain(data[p.apxFrom:]) {
			if s.produced[string(rc.raw)] {
				continue
			}
			if (i == 0 || (i == 1 && a.Op == "wraptwice")) && rc.att.Router.IP == from.ID.IP {
				continue
			}
			r.Genuine = false
		}
		// the installed hops must carry what the records say
		recs := decodeChain(data[p.apxFrom:])
		if len(recs) != len(hops)-2 {
			r.Genuine = false
		} else {
			for i, rc := range recs {
				h := hops[i+1]
				if h.Router != rc.att.Router.IP || h.Delay != rc.att.Delay || h.ForwardLabel != rc.att.ForwardLabel || h.ReturnLabel != rc.att.ReturnLabel {
					r.Genuine = false
				}
			}
		}
	}
	if r.Path == nil {
		r.Path = []int{}
	}
	// whatever was processed: every router the victim has a session with is bound to ITS OWN address and key
	for id := 1; id <= len(s.ms.Nodes); id++ {
		nd := s.ms.Node(id)
		if nd == s.v {
			continue
		}
		if sess := s.v.St.GetSession(nd.ID.IP); sess != nil {
			if ad := sess.Address(); ad == nil || ad.IP != nd.ID.IP || !bytes.Equal(ad.PublicKey, nd.ID.PublicKey) {
				r.Err = fmt.Sprintf("BINDING: the victim's session for %s is bound to %v", nd.ID.IP, ad)
				r.Binding = true
			}
		}
	}
	return r, note, s
}

func judge(c *vf.Ctx, a act, r result, note string, realLen int) {
	desc := map[string]any{"case": a, "real_chain_length": realLen, "detail": note, "observed": r}
	switch {
	case r.Binding:
		c.Violation(vf.Key("binding", a.Op), fmt.Sprintf("%s at depth %d on a chain of %d: after the announcement was processed %s", a.Op, a.Depth, realLen, r.Err), desc, nil)
	case r.Panic:
		c.Violation(vf.Key("panic", a.Op), fmt.Sprintf("%s at depth %d on a chain of %d: the router worker panicked", a.Op, a.Depth, realLen), desc, nil)
	case r.Accepted && !a.PropAccept:
		c.Violation(vf.Key("forgery-accepted", a.Op), fmt.Sprintf("%s at depth %d on a chain of %d (%s): the announcement was accepted, route via %v installed", a.Op, a.Depth, realLen, note, r.Path), desc, nil)
	case !r.Accepted && a.PropAccept && a.Op == "renew":
		c.Violation(vf.Key("stale-route", a.Op), fmt.Sprintf("renew on a chain of %d: a newer genuine announcement over the same forwarders was processed (%s) but the route did not take over what its records say (%s): it still carries the earlier announcement's delay and labels", realLen, note, r.Err), desc, nil)
	case !r.Accepted && a.PropAccept && !a.Seen:
		c.Violation(vf.Key("genuine-rejected", a.Op), fmt.Sprintf("%s on a chain of %d: rejected (%s) although every named router signed its hop", a.Op, realLen, r.Err), desc, nil)
	case !a.PropAccept && !r.Unchanged:
		c.Violation(vf.Key("rejected-but-changed", a.Op), fmt.Sprintf("%s at depth %d on a chain of %d: rejected, but the routing table or the emitted frames changed", a.Op, a.Depth, realLen), desc, nil)
	case r.Accepted && a.PropAccept && (!sameInts(r.Path, a.Path) || r.NextHop != a.Via || !r.Genuine):
		c.Violation(vf.Key("wrong-route", a.Op), fmt.Sprintf("%s on a chain of %d: installed route names %v via %d (records genuine: %v), the attached records name %v via %d", a.Op, realLen, r.Path, r.NextHop, r.Genuine, a.Path, a.Via), desc, nil)
	}
}

func sameInts(a, b []int) bool {
	if len(a) != len(b) {
		return false
	}
	for i := range a {
		if a[i] != b[i] {
			return false
		}
	}
	return true
}

var (
	throwMu  sync.Mutex
	throwIDs []*m.Address
)

// throwaways returns n routable identities nobody has seen before (mined once, in parallel).
func throwaways(n int) []*m.Address {
	throwMu.Lock()
	defer throwMu.Unlock()
	if len(throwIDs) < n {
		need := n - len(throwIDs)
		out := make([]*m.Address, need)
		var wg sync.WaitGroup
		sem := make(chan struct{}, 16)
		for i := range out {
			wg.Add(1)
			go func(i int) {
				defer wg.Done()
				sem <- struct{}{}
				out[i] = world.NewIdentity(world.EuropePrefix)
				<-sem
			}(i)
		}
		wg.Wait()
		throwIDs = append(throwIDs, out...)
	}
	return throwIDs[:n]
}

// deepCase: V - R1 - O. R1 delivers O's announcement with `total` hop records: its own outermost, and beneath it
// total-1 records of routers with throwaway identities, each validly signed by its router for this announcement.
// tamper > 0: one byte of the record at that depth (1 = outermost) is changed after signing.
func deepCase(c *vf.Ctx, total, tamper int, rng *rand.Rand) map[string]any {
	s := newScene(1, rng)
	ids := throwaways(total - 1)
	ctx := signingContext(s.fa)
	atts := make([]router.AnnouncePingAttachment, total) // [0] = outermost (R1)
	var inner []byte
	for d := total; d >= 2; d-- {
		id := ids[d-2]
		at := router.AnnouncePingAttachment{Router: id.PublicAddress, Delay: uint16(1 + rng.Intn(200)), ForwardLabel: m.SwitchLabel(1 + rng.Intn(16000)),
			ReturnLabel: m.SwitchLabel(1 + rng.Intn(16000)), NextAttachment: inner}
		atts[d-1] = at
		data, err := cbor.Marshal(at)
		if err != nil {
			panic(err)
		}
		sig, err := id.SignWithContext(data, ctx)
		if err != nil {
			panic(err)
		}
		if d == tamper {
			// the record's delay, changed after its router signed it
			at.Delay ^= 1
			if data, err = cbor.Marshal(at); err != nil {
				panic(err)
			}
		}
		inner = append(data, sig...)
	}
	own := s.ownRecord(s.fa, inner, rng)
	if tamper == 1 {
		own[len(own)-70] ^= 1
	}
	if recs := decodeChain(own); len(recs) > 0 {
		atts[0] = recs[0].att
	}
	data := withAppendix(s.fa, own)
	before := tableOf(s.v)
	s.ms.W.Inflight = nil
	res, _ := s.ms.W.DeliverRaw(s.r1, s.v, data)
	c.Eval(1)
	for _, h := range res {
		if h.Panic {
			c.Violation(vf.Key("panic", "deep"), fmt.Sprintf("an announcement with %d hop records: the router worker panicked: %v", total, h.Err), map[string]any{"records": total, "tampered": tamper}, nil)
		}
	}
	after := tableOf(s.v)
	ev := map[string]any{"ev": "deep", "records": total, "tampered": tamper, "accepted": false, "listed": 0, "matches": false,
		"unchanged": reflect.DeepEqual(before, after) && s.ms.W.NInflight() == 0}
	for i := range after {
		e := &after[i]
		if e.DstIP != s.o.ID.IP {
			continue
		}
		known := false
		for j := range before {
			if reflect.DeepEqual(before[j], *e) {
				known = true
			}
		}
		if known {
			continue
		}
		hops := e.Path.Hops
		ev["accepted"] = true
		ev["listed"] = len(hops) - 2
		ok := len(hops)-2 == total
		for k := 0; ok && k < total; k++ {
			h, at := hops[k+1], atts[k]
			if h.Router != at.Router.IP || h.Delay != at.Delay || h.ForwardLabel != at.ForwardLabel || h.ReturnLabel != at.ReturnLabel {
				ok = false
			}
		}
		ev["matches"] = ok
	}
	return ev
}

func main() { vf.Main("C08", "model_checking", run) }

func run(c *vf.Ctx) {
	c.Rule("M: TLC enumerates 24 operators x depth x chain length 0..4 (x delivering peer for handover: a genuine suffix of the chain handed over by the origin / an inner forwarder / an uninvolved peer over a link of its own to the victim) and checks the code's verification steps against the property-level accept rule. R: every case applied to real announcement bytes emitted by real routers (chains 0..4; the adversary is the real forwarder next to the victim re-signing its own record with its real key, or a wire attacker), 3 random byte/bit choices per flip case (thorough: every byte of body, origin signature and appendix of a 3-hop announcement, 2 bits each). T: seeded campaigns on chains up to 6 (thorough 20), and a handover campaign (chains 1..6, victims with extra links to the origin and to inner forwarders); T-concurrent: batches of 2..6 announcements (one forged: a whole chain signed for another announcement, the forwarder's own record over one, flips, strip, wrong peer) handled by the victim's real router workers at the same moment, arrival offsets / storage slowness / what the victim knows beforehand from the PRNG, the victim's forwarded copies given to the next router. distinct = distinct (operator, depth, real chain length, byte offset)")
	c.Assume("Ed25519 unforgeable (also tested by the flips)", "the adversary holds only the key of the forwarder adjacent to the victim")

	mc, err := c.TLC("GossipAuth", "GossipAuth_MC.cfg", vf.TLCOpts{Workers: 1, Coverage: true, Timeout: 5 * time.Minute})
	if err != nil {
		c.Fatal("M: %v", err)
	}
	if mc.Violated != "" {
		c.Broken("M: %s violated in the model", mc.Violated)
	}
	c.AddModel(mc.Distinct, mc.Generated)
	c.Stage("M", map[string]any{"cases": len(mc.Edges)})
	rng := rand.New(rand.NewSource(c.Seed))

	var events []any
	var cases []act
	for _, e := range mc.Edges {
		var a act
		if json.Unmarshal(e.Act, &a) == nil && a.Name == "case" {
			cases = append(cases, a)
		}
	}
	for ci, a := range cases {
		reps := 1
		if a.Op == "mutbody" || a.Op == "mutsig" || a.Op == "outerflip" || a.Op == "outersigflip" || a.Op == "innerflip" || a.Op == "innersigflip" {
			reps = 3
		}
		if a.Seen && a.Op == "mutbody" {
			reps = 12
		}
		for k := 0; k < reps; k++ {
			r, note, _ := runCase(c, a.Len, a, rng, -1)
			judge(c, a, r, note, a.Len)
			c.Distinct(fmt.Sprintf("%s|%d|%d|%v|%s", a.Op, a.Depth, a.Len, a.Seen, note))
			events = append(events, map[string]any{"ev": "case", "len": a.Len, "op": a.Op, "depth": a.Depth, "seen": a.Seen, "accepted": r.Accepted, "path": r.Path,
				"via": a.Via, "nexthop": r.NextHop, "unchanged": r.Unchanged, "genuine": r.Genuine, "peer": a.Peer})
			if ci%17 == 0 && k == 0 {
				c.Sample(map[string]any{"case": a, "detail": note, "observed": r})
			}
		}
	}
	c.Stage("R", map[string]any{"cases": len(cases)})
	c.Logf("R: %d cases executed", len(cases))

	// thorough: every byte of body, origin signature and appendix of a 3-hop announcement
	if c.Thorough() {
		s := newScene(3, rng)
		p := layout(s.fa)
		n := 0
		for off := p.msgFrom; off < len(s.fa); off++ {
			for _, bit := range []int{0, 7} {
				sc := newScene(3, rng)
				data := append([]byte(nil), sc.fa...)
				data[off] ^= 1 << bit
				before := tableOf(sc.v)
				sc.ms.W.Inflight = nil
				_, _ = sc.ms.W.DeliverRaw(sc.r1, sc.v, data)
				c.Eval(1)
				n++
				c.Distinct(fmt.Sprintf("sweep|%d|%d", off, bit))
				if !reflect.DeepEqual(before, tableOf(sc.v)) || sc.ms.W.NInflight() != 0 {
					c.Violation(vf.Key("forgery-accepted", "byte-sweep"), fmt.Sprintf("flipping bit %d of byte %d of a 3-hop announcement (message starts at %d, signature at %d, appendix at %d) still changed the victim", bit, off, p.msgFrom, p.authFrom, p.apxFrom),
						map[string]any{"offset": off, "bit": bit}, nil)
				}
			}
		}
		c.Stage("R-sweep", map[string]any{"flips": n})
		c.Logf("R sweep: %d single-bit flips", n)
	}

	// ---- T: campaigns on longer chains ----
	maxL := c.Pick(6, 20)
	ops := []string{"none", "transit", "mutbody", "mutsig", "wrongpeer", "replayold", "outerflip", "outersigflip", "stripouter",
		"innerflip", "innersigflip", "splicetime", "spliceorigin", "reattribute", "forgeknown", "duprec", "reorder", "skipto", "claimdirect", "wraptwice"}
	for k := 0; k < c.Pick(60, 600); k++ {
		L := rng.Intn(maxL + 1)
		op := ops[rng.Intn(len(ops))]
		a := act{Name: "case", Len: L, Op: op, Seen: rng.Intn(2) == 0 && op != "replayold"}
		needDepth := map[string]bool{"innerflip": true, "innersigflip": true, "splicetime": true, "spliceorigin": true, "reattribute": true, "forgeknown": true, "duprec": true, "reorder": true, "skipto": true}
		if needDepth[op] {
			if L < 2 || (op == "reorder" && L < 3) {
				continue
			}
			a.Depth = 2 + rng.Intn(L-1)
			if op == "forgeknown" {
				a.Depth = 2
			}
			if op == "reorder" && a.Depth >= L {
				a.Depth = L - 1
			}
		}
		if (op == "outerflip" || op == "outersigflip" || op == "stripouter" || op == "claimdirect" || op == "wraptwice") && L < 1 {
			continue
		}
		if op == "wraptwice" {
			a.Seen = false
		}
		r, _, _ := runCase(c, L, a, rng, -1)
		c.Distinct(fmt.Sprintf("campaign|%s|%d|%d", op, a.Depth, L))
		via := 1
		if L == 0 {
			via = 9
		}
		if op == "wrongpeer" {
			via = 8
		}
		events = append(events, map[string]any{"ev": "case", "len": L, "op": op, "depth": a.Depth, "seen": a.Seen, "accepted": r.Accepted, "path": r.Path,
			"via": via, "nexthop": r.NextHop, "unchanged": r.Unchanged, "genuine": r.Genuine, "peer": 0})
		if r.Panic {
			c.Violation(vf.Key("panic", op), fmt.Sprintf("%s on a chain of %d: worker panic", op, L), a, nil)
		}
	}
	// ---- T-handover: the victim has links of its own to routers the announcement names (the origin, forwarders further
	// down the chain); any of its peers hands it a copy carrying a genuine suffix of the chain. Chains stay below 7 so that
	// the forwarders' numbers never meet 7 / 8 / 9 (stranger, uninvolved peer, origin).
	nh, nhAcc := 0, 0
	for k := 0; k < c.Pick(40, 500); k++ {
		L := 1 + rng.Intn(6)
		a := act{Name: "case", Len: L, Op: "handover", Seen: rng.Intn(3) == 0, Depth: 1 + rng.Intn(L+1)}
		if rng.Intn(2) == 0 {
			a.Depth = 1 // the whole chain, as forwarder 1 delivers it
		}
		switch x := rng.Intn(10); {
		case x < 4:
			a.Peer = 9
		case x < 5:
			a.Peer = 8
		case x < 7 && a.Depth <= L:
			a.Peer = a.Depth // the outermost signer of what is attached: honest
		default:
			a.Peer = 1 + rng.Intn(L)
		}
		r, note, _ := runCase(c, L, a, rng, -1)
		c.Distinct(fmt.Sprintf("handover|%d|%d|%d|%v", L, a.Depth, a.Peer, a.Seen))
		nh++
		if r.Accepted {
			nhAcc++
		}
		events = append(events, map[string]any{"ev": "case", "len": L, "op": a.Op, "depth": a.Depth, "seen": a.Seen, "accepted": r.Accepted, "path": r.Path,
			"via": a.Peer, "nexthop": r.NextHop, "unchanged": r.Unchanged, "genuine": r.Genuine, "peer": a.Peer, "detail": note})
		if r.Panic {
			c.Violation(vf.Key("panic", a.Op), fmt.Sprintf("%s on a chain of %d: worker panic", a.Op, L), a, nil)
		}
	}
	if nhAcc == 0 {
		c.Broken("handover campaign: not one copy was accepted (those delivered by their outermost signer must be)")
	}
	c.Stage("T-handover", map[string]any{"deliveries": nh, "accepted": nhAcc})
	c.Logf("T-handover: %d copies handed over by the origin / an inner forwarder / an uninvolved peer, %d accepted", nh, nhAcc)
	// ---- deep chains: around the hundred layers the parser is willing to walk
	ndeep, deepAcc := 0, 0
	for _, total := range []int{40, 98, 99, 100, 101, 130} {
		tampers := []int{0}
		if total >= 98 {
			tampers = append(tampers, total, total-1)
			if total > 100 {
				tampers = append(tampers, 100, 101)
			}
		}
		for _, td := range tampers {
			ev := deepCase(c, total, td, rng)
			events = append(events, ev)
			c.Distinct(fmt.Sprintf("deep|%d|%d", total, td))
			ndeep++
			if acc, _ := ev["accepted"].(bool); acc {
				deepAcc++
			}
		}
	}
	if deepAcc == 0 {
		c.Broken("deep chains: not one of them was accepted (a chain of 40 valid records must be)")
	}
	c.Stage("R-deep", map[string]any{"announcements": ndeep, "accepted": deepAcc})
	c.Extra("deep_chains", map[string]any{"announcements": ndeep, "accepted": deepAcc})
	c.Logf("R-deep: %d announcements with 40..130 hop records, %d accepted", ndeep, deepAcc)
	// ---- T-concurrent: forged and genuine announcements handled by the victim's router workers at the same moment
	concurrentStage(c, rng, &events)
	rejectAt, inv, tres, err := c.TraceCheck("GossipAuth_Trace", "GossipAuth_Trace.cfg", events, vf.TLCOpts{Timeout: 20 * time.Minute})
	if err != nil {
		c.Fatal("T: %v", err)
	}
	c.AddTraces(len(events))
	c.AddModel(tres.Distinct, tres.Generated)
	c.Stage("T", map[string]any{"events": len(events), "wall_s": tres.Wall.Seconds()})
	if rejectAt > 0 || inv != "" {
		ev := events[rejectAt-1].(map[string]any)
		kind := "forgery-accepted"
		if acc, _ := ev["accepted"].(bool); !acc {
			kind = "genuine-rejected-or-changed"
		}
		if stage, _ := ev["stage"].(string); stage == "concurrent" {
			// name what TLC rejected (the predicate of GossipAuth_Trace, mirrored only for the text)
			why := "accepted"
			switch acc, _ := ev["accepted"].(bool); {
			case !acc && ev["op"] == "none":
				kind, why = "genuine-rejected", "not accepted although every record on it was signed by its router for this very announcement"
			case !acc:
				kind, why = "rejected-but-changed", "rejected, but the routing table or the forwarded frames changed"
			case ev["op"] == "none":
				kind, why = "wrong-route", fmt.Sprintf("accepted, but the installed route (%v via %v, records genuine: %v) is not what its records say", ev["path"], ev["nexthop"], ev["genuine"])
			}
			c.Violation(vf.Key(kind, "concurrent", ev["op"]), fmt.Sprintf("%v - %s (GossipAuth_Trace rejects line %d)", ev["detail"], why, rejectAt), ev, nil)
		} else {
			c.Violation(vf.Key(kind, ev["op"]), fmt.Sprintf("campaign event %v is not allowed by GossipAuth_Trace (line %d)", ev, rejectAt), ev, nil)
		}
	}
	c.Logf("T: %d events validated", len(events))
	_ = bytes.Equal
}
