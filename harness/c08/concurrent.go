// Stage T-concurrent of C08: announcements that reach the victim AT THE SAME MOMENT.
//
// Everywhere else in this driver the victim handles one frame at a time, so anything its router workers share while
// they parse and verify an announcement stays invisible. A real router runs one frame worker per CPU; its peers decide
// when frames arrive. Here the adversary (a real forwarder next to the victim) delivers a forged announcement A' -
// hop records signed for ANOTHER announcement B attached to A, or another rejected operator of GossipAuth - while
// genuine B (often several copies: hop pings may arrive more than once) and genuine announcements of further origins
// (over the same peer and over another peer) are handled by other real router workers of the same victim
// (world.DeliverConcurrentStaggered). Whatever the schedule, A' must be rejected without a trace, every accepted
// route must list the records that were signed for that very announcement, and what the victim forwards of the
// genuine ones (its own record added meanwhile) must in turn be acceptable to the next router.
//
// The moment at which one worker's handling falls into another one's is varied from the seeded PRNG: arrival offsets
// within the time the victim needs for A'; chains of up to 6 (thorough 10) routers of which the victim knows none /
// all / all but without a session (the session cleaner ran); a router storage that answers at once, yields, or takes
// 20..300 us (a disk-backed storage), which stretches the part of the parsing that lies between the start of the
// handler and the verification of a record.
//
// Every announcement of a batch is one `case` event of GossipAuth_Trace (operators splicechain / splicebelow were
// added to GossipAuth for the two splices an adjacent forwarder can build from a whole foreign chain); TLC judges
// them together with the events of the other stages.
package main

import (
	"fmt"
	"math/rand"
	"net/netip"
	"reflect"
	"runtime"
	"sort"
	"strings"
	"sync"
	"sync/atomic"
	"time"

	"github.com/fxamacker/cbor/v2"

	"github.com/mycoria/mycoria/m"
	"github.com/mycoria/mycoria/storage"

	"verifharness/internal/mesh"
	"verifharness/internal/vf"
	"verifharness/internal/world"
)

// slowStore is a router storage that takes a moment to read or write a router: delay < 0 answers at once, 0 yields
// the processor first, > 0 lets that many nanoseconds pass first (yielding all the while: the timers of the runtime
// are too coarse for a few microseconds). Everything else is the in-memory storage of /repo.
type slowStore struct {
	storage.Storage
	delay atomic.Int64
	ops   atomic.Int64
}

func (s *slowStore) wait() {
	s.ops.Add(1)
	switch d := s.delay.Load(); {
	case d == 0:
		runtime.Gosched()
	case d > 0:
		for t0 := time.Now(); time.Since(t0) < time.Duration(d); {
			runtime.Gosched()
		}
	}
}

func (s *slowStore) GetRouter(ip netip.Addr) (*storage.StoredRouter, error) {
	s.wait()
	return s.Storage.GetRouter(ip)
}

func (s *slowStore) SaveRouter(r *storage.StoredRouter) error {
	s.wait()
	return s.Storage.SaveRouter(r)
}

// cscene: the victim V (mesh id 1) with two peers, P (2, the adversary: a real forwarder) and X (3, honest). Behind
// them hang lines of forwarders with an origin at the end; a line starts at P, at X, or at a forwarder of an earlier
// line (the chains of two origins then share their outer records' signers).
type cscene struct {
	ms      *mesh.Mesh
	v, p, x *world.Node
	store   *slowStore
	origins []*world.Node // origin k
	via     []*world.Node // the peer of V that delivers the announcements of origin k (P or X)
	chains  [][]int       // mesh ids of the routers that sign a hop of origin k's announcement on its way to V, outermost first
	mu      sync.Mutex
	prod    map[string]bool // every hop record (raw bytes) a router emitted
	held    []*world.Flight // frames for V that were held back
}

func (s *cscene) produced(raw []byte) bool {
	s.mu.Lock()
	defer s.mu.Unlock()
	return s.prod[string(raw)]
}

func newCScene(rng *rand.Rand, maxLen int) (*cscene, error) {
	s := &cscene{prod: map[string]bool{}, store: &slowStore{Storage: storage.NewMemStorage()}}
	s.store.delay.Store(-1)
	var edges []mesh.Edge
	lab := func() m.SwitchLabel { return m.SwitchLabel(1 + rng.Intn(16000)) }
	edge := func(a, b int) { edges = append(edges, mesh.Edge{A: a, B: b, LA: lab(), LB: lab()}) }
	edge(1, 2)
	edge(1, 3)
	next := 4
	type root struct {
		id    int
		chain []int // signers from the root towards V, outermost first (the root itself first)
	}
	roots := []root{{2, []int{2}}}
	var originIDs []int
	var viaIDs []int
	nb := 2 + rng.Intn(2) // lines behind P
	for k := 0; k < nb; k++ {
		r := roots[0]
		if k > 0 && rng.Intn(3) == 0 {
			r = roots[rng.Intn(len(roots))]
		}
		fw := rng.Intn(maxLen) // forwarders of this line
		if k < 2 && fw == 0 && rng.Intn(3) != 0 {
			fw = 1 + rng.Intn(maxLen)
		}
		if len(r.chain)+fw > maxLen {
			fw = maxLen - len(r.chain)
		}
		prev, chain := r.id, append([]int(nil), r.chain...)
		for i := 0; i < fw; i++ {
			edge(prev, next)
			// what is nearer to the origin signs earlier: it goes to the END of "outermost first"
			chain = append(chain, next)
			roots = append(roots, root{next, append([]int(nil), chain...)})
			prev = next
			next++
		}
		edge(prev, next)
		originIDs = append(originIDs, next)
		viaIDs = append(viaIDs, 2)
		s.chains = append(s.chains, chain)
		next++
	}
	// behind X: one origin, directly or behind one more forwarder
	{
		prev, chain := 3, []int{3}
		if rng.Intn(2) == 0 {
			edge(3, next)
			chain = append(chain, next)
			prev = next
			next++
		}
		edge(prev, next)
		originIDs = append(originIDs, next)
		viaIDs = append(viaIDs, 3)
		s.chains = append(s.chains, chain)
		next++
	}
	n := next - 1
	ms, err := mesh.New(n, edges, mesh.Opts{Store: func(i int) storage.Storage {
		if i == 1 {
			return s.store
		}
		return nil
	}})
	if err != nil {
		return nil, err
	}
	s.ms, s.v, s.p, s.x = ms, ms.Node(1), ms.Node(2), ms.Node(3)
	for i, id := range originIDs {
		s.origins = append(s.origins, ms.Node(id))
		s.via = append(s.via, ms.Node(viaIDs[i]))
	}
	ms.W.OnSend = func(fl *world.Flight) {
		a, err := ms.Decode(fl.Data)
		if err == nil && a.IsAnn {
			s.mu.Lock()
			for _, r := range a.RawRecs {
				s.prod[string(r)] = true
			}
			s.mu.Unlock()
		}
	}
	return s, nil
}

// announceAll lets every origin announce itself and floods the announcements through the mesh; what is addressed to
// the victim is held back. It returns, per origin, the frame its delivering peer sent to the victim.
func (s *cscene) announceAll() ([][]byte, error) {
	time.Sleep(2 * time.Millisecond) // a time stamp later than that of any earlier announcement
	from := len(s.held)
	for _, o := range s.origins {
		for _, l := range o.Peer.GetLinks() {
			_ = o.Rt.AnnouncePing.Send(l.Peer())
			break
		}
	}
	for guard := 0; ; guard++ {
		if guard > 100000 {
			return nil, fmt.Errorf("flooding does not come to an end")
		}
		idx := -1
		s.ms.W.Lock()
		for i, fl := range s.ms.W.Inflight {
			if fl.To != s.v {
				idx = i
				break
			}
		}
		s.ms.W.Unlock()
		if idx < 0 {
			break
		}
		fl := s.ms.W.Take(idx)
		_, _ = s.ms.W.Deliver(fl)
	}
	for s.ms.W.NInflight() > 0 {
		s.held = append(s.held, s.ms.W.Take(0))
	}
	out := make([][]byte, len(s.origins))
	for k, o := range s.origins {
		for _, fl := range s.held[from:] {
			a, err := s.ms.Decode(fl.Data)
			if err != nil || !a.IsAnn || s.ms.Node(a.Origin) != o || fl.From != s.via[k] || len(a.Hops) != len(s.chains[k]) {
				continue
			}
			out[k] = fl.Data
		}
		if out[k] == nil {
			return nil, fmt.Errorf("the announcement of origin %d (chain %v) did not come to the victim's peer", k, s.chains[k])
		}
	}
	return out, nil
}

// ownOver: the adversary P's fresh, validly signed record for the announcement `frameData` over `inner`; labels as
// in P's genuine record `like`.
func (s *cscene) ownOver(frameData []byte, like rec, inner []byte, rng *rand.Rand) []byte {
	at := like.att
	at.Delay = uint16(1 + rng.Intn(200))
	at.NextAttachment = inner
	data, err := cbor.Marshal(at)
	if err != nil {
		panic(err)
	}
	sig, err := s.p.ID.SignWithContext(data, signingContext(frameData))
	if err != nil {
		panic(err)
	}
	return append(data, sig...)
}

func (s *cscene) name(ip netip.Addr) string {
	id := s.ms.ID(ip)
	switch {
	case id == 1:
		return "V"
	case id == 2:
		return "P"
	case id == 3:
		return "X"
	case id == 0:
		return ip.String()
	}
	for k, o := range s.origins {
		if o.ID.IP == ip {
			return fmt.Sprintf("O%d", k)
		}
	}
	return fmt.Sprintf("F%d", id)
}

func (s *cscene) names(ids []int) string {
	var out []string
	for _, id := range ids {
		out = append(out, s.name(s.ms.Node(id).ID.IP))
	}
	return "[" + strings.Join(out, " <- ") + "]"
}

func rawTable(n *world.Node) []m.RoutingTableEntry { return n.RoutingTable().VerifEntries() }

// changedFor returns the entries for dst that the table holds now and did not hold before (expiry included: a
// refreshed route counts).
func changedFor(before, after []m.RoutingTableEntry, dst netip.Addr) []m.RoutingTableEntry {
	var out []m.RoutingTableEntry
	for _, e := range after {
		if e.DstIP != dst {
			continue
		}
		found := false
		for _, b := range before {
			if reflect.DeepEqual(b, e) {
				found = true
				break
			}
		}
		if !found {
			out = append(out, e)
		}
	}
	return out
}

// goneFor: entries for dst that were there before and are not any more.
func goneFor(before, after []m.RoutingTableEntry, dst netip.Addr) int {
	return len(changedFor(after, before, dst))
}

// observe describes what the receiver made of one announcement (frame bytes `data`, genuine chain `chain` as mesh
// ids outermost first, delivered by `from`): model numbers are relative to the announcement's own genuine chain.
type cobs struct {
	accepted bool
	path     []int
	nexthop  int
	genuine  bool
	shown    string // the installed path by name
}

func (s *cscene) observe(before, after []m.RoutingTableEntry, origin *world.Node, chain []int, data []byte, from *world.Node) cobs {
	o := cobs{path: []int{}}
	num := func(ip netip.Addr) int {
		if ip == origin.ID.IP {
			return 9
		}
		id := s.ms.ID(ip)
		for i, c := range chain {
			if c == id {
				return i + 1
			}
		}
		return 7
	}
	ch := changedFor(before, after, origin.ID.IP)
	if len(ch) == 0 {
		return o
	}
	e := ch[len(ch)-1]
	o.accepted = true
	o.nexthop = num(e.NextHop)
	hops := e.Path.Hops
	var shown []string
	for i, h := range hops {
		shown = append(shown, s.name(h.Router))
		if i >= 1 && i < len(hops)-1 {
			o.path = append(o.path, num(h.Router))
		}
	}
	o.shown = "[" + strings.Join(shown, " ") + "]"
	// every accepted record is one its signer emitted for this announcement (or the deliverer's own fresh one, which
	// is then valid for this announcement by construction), and the installed hops carry what the records say
	o.genuine = true
	recs := decodeChain(data[layout(data).apxFrom:])
	if len(recs) != len(hops)-2 {
		o.genuine = false
	}
	for i, rc := range recs {
		if !s.produced(rc.raw) && !(i == 0 && rc.att.Router.IP == from.ID.IP) {
			o.genuine = false
		}
		if i+1 < len(hops)-1 {
			h := hops[i+1]
			if h.Router != rc.att.Router.IP || h.Delay != rc.att.Delay || h.ForwardLabel != rc.att.ForwardLabel || h.ReturnLabel != rc.att.ReturnLabel {
				o.genuine = false
			}
		}
	}
	return o
}

type cstats struct {
	rounds, frames, genuineAccepted, forgedRejected, downstream, downstreamAccepted int
	byMode                                                                          map[string]int
	forgedAccepted                                                                  map[string]int
}

func uniq(sorted []string) []string {
	var out []string
	for i, x := range sorted {
		if i == 0 || x != sorted[i-1] {
			out = append(out, x)
		}
	}
	return out
}

// timeSigCheck measures what one signature check with context costs on this machine right now (the median of a few).
func timeSigCheck() time.Duration {
	id := throwaways(1)[0]
	msg, ctx := make([]byte, 200), make([]byte, 88)
	sig, err := id.SignWithContext(msg, ctx)
	if err != nil {
		return 80 * time.Microsecond
	}
	var ds []time.Duration
	for i := 0; i < 9; i++ {
		t0 := time.Now()
		_ = id.VerifySigWithContext(msg, sig, ctx)
		ds = append(ds, time.Since(t0))
	}
	sort.Slice(ds, func(i, j int) bool { return ds[i] < ds[j] })
	return ds[len(ds)/2]
}

// concurrentStage appends the events of the stage.
func concurrentStage(c *vf.Ctx, rng *rand.Rand, events *[]any) {
	sigCheck := timeSigCheck()
	st := cstats{byMode: map[string]int{}, forgedAccepted: map[string]int{}}
	// the events of the forged announcements go first: when TLC rejects the trace, it names the forgery that got through
	// rather than a genuine announcement that suffered from the same cause
	var forgedEvents, otherEvents []any
	defer func() { *events = append(append(*events, forgedEvents...), otherEvents...) }()
	maxLen := c.Pick(6, 10)
	rounds := c.Pick(110, 900)
	ops := []string{"splicechain", "splicechain", "splicechain", "splicebelow", "splicebelow", "splicebelow", "splicebelow", "outersigflip", "stripouter", "wrongpeer", "mutbody"}
	for k := 0; k < rounds; k++ {
		s, err := newCScene(rng, maxLen)
		if err != nil {
			c.Broken("T-concurrent: mesh: %v", err)
			return
		}
		// what the victim knows beforehand: nothing / every router (it has processed an earlier announcement of every
		// origin) / every router, but its sessions were dropped by the session cleaner
		know := []string{"fresh", "fresh", "fresh", "informed", "cleaned"}[rng.Intn(5)]
		if know != "fresh" {
			first, err := s.announceAll()
			if err != nil {
				c.Broken("T-concurrent: %v", err)
				return
			}
			for i, d := range first {
				_, _ = s.ms.W.DeliverRaw(s.via[i], s.v, d)
			}
			s.ms.W.Lock()
			s.ms.W.Inflight = nil
			s.ms.W.Unlock()
			s.held = nil
			if know == "cleaned" {
				s.v.St.VerifIdleAndClean(2 * time.Hour)
			}
		}
		gen, err := s.announceAll()
		if err != nil {
			c.Broken("T-concurrent: %v", err)
			return
		}
		// target A and source B: two different origins behind the adversary
		var behindP []int
		for i := range s.origins {
			if s.via[i] == s.p {
				behindP = append(behindP, i)
			}
		}
		rng.Shuffle(len(behindP), func(i, j int) { behindP[i], behindP[j] = behindP[j], behindP[i] })
		ia, ib := behindP[0], behindP[1]
		op := ops[rng.Intn(len(ops))]
		if op == "splicebelow" && len(s.chains[ib]) < 2 {
			if len(s.chains[ia]) >= 2 {
				ia, ib = ib, ia
			} else {
				op = "splicechain"
			}
		}
		fa, fb := gen[ia], gen[ib]
		chA, chB := decodeChain(fa[layout(fa).apxFrom:]), decodeChain(fb[layout(fb).apxFrom:])
		var forged []byte
		ffrom := s.p
		flen := len(chA)
		var what string
		switch op {
		case "splicechain":
			forged = withAppendix(fa, fb[layout(fb).apxFrom:])
			flen = len(chB)
			what = fmt.Sprintf("the announcement of O%d with the whole hop chain %s that was signed for the announcement of O%d (its own chain: %s)", ia, s.names(s.chains[ib]), ib, s.names(s.chains[ia]))
		case "splicebelow":
			forged = withAppendix(fa, s.ownOver(fa, chB[0], chB[0].att.NextAttachment, rng))
			flen = len(chB)
			what = fmt.Sprintf("the announcement of O%d with P's own fresh record over the hop records %s that were signed for the announcement of O%d (its own chain: %s)", ia, s.names(s.chains[ib][1:]), ib, s.names(s.chains[ia]))
		case "outersigflip":
			forged = append([]byte(nil), fa...)
			forged[len(forged)-1-rng.Intn(64)] ^= 1 << rng.Intn(8)
			what = fmt.Sprintf("the announcement of O%d with one bit of the outermost record's signature flipped", ia)
		case "stripouter":
			forged = withAppendix(fa, chA[0].att.NextAttachment)
			what = fmt.Sprintf("the announcement of O%d without the record of the peer that delivers it", ia)
		case "wrongpeer":
			forged = append([]byte(nil), fa...)
			ffrom = s.x
			what = fmt.Sprintf("the announcement of O%d with its genuine chain %s, delivered by X", ia, s.names(s.chains[ia]))
		case "mutbody":
			forged = append([]byte(nil), fa...)
			p := layout(forged)
			forged[p.msgFrom+rng.Intn(p.msgTo-p.msgFrom)] ^= 1 << rng.Intn(8)
			what = fmt.Sprintf("the announcement of O%d with one bit of its body flipped", ia)
		}
		// the batch: A', genuine B - often several copies of it, hop pings may arrive more than once and the adversary
		// decides how often - and some of the other genuine announcements (never genuine A)
		type item struct {
			k      int // origin index
			forged bool
			data   []byte
			from   *world.Node
			off    time.Duration
		}
		batch := []item{{ia, true, forged, ffrom, 0}, {ib, false, fb, s.p, 0}}
		copies := []int{0, 0, 1, 2, 3, 5}[rng.Intn(6)]
		for i := 0; i < copies; i++ {
			batch = append(batch, item{ib, false, fb, s.p, 0})
		}
		for i := range s.origins {
			if i != ia && i != ib && rng.Intn(4) == 0 {
				batch = append(batch, item{i, false, gen[i], s.via[i], 0})
			}
		}
		// how slow the victim's router storage is, and when the frames arrive. One layer of a chain costs the victim a
		// signature check and, for a router it has no session for, one (router known) or four (unknown) storage accesses;
		// from that, the time it will need for A'. Mostly A' comes early and the others at any moment of that time;
		// sometimes all at the same instant.
		mode := []string{"at-once", "yields", "20us", "100us", "100us", "300us", "300us"}[rng.Intn(7)]
		var d time.Duration
		switch mode {
		case "at-once":
			s.store.delay.Store(-1)
		case "yields":
			s.store.delay.Store(0)
		case "20us":
			d = 20 * time.Microsecond
		case "100us":
			d = 100 * time.Microsecond
		case "300us":
			d = 300 * time.Microsecond
		}
		if d > 0 {
			s.store.delay.Store(int64(d))
		}
		var need time.Duration
		switch know {
		case "fresh":
			need = (4*d + sigCheck) + (d + sigCheck) + time.Duration(flen-1)*(4*d+sigCheck)
		case "cleaned":
			need = time.Duration(flen+2) * (d + sigCheck)
		default:
			need = time.Duration(flen+1) * sigCheck
		}
		span := need + need/3
		if rng.Intn(5) != 0 {
			batch[0].off = time.Duration(rng.Int63n(int64(need)/4 + 1))
			for i := 1; i < len(batch); i++ {
				batch[i].off = time.Duration(rng.Int63n(int64(span) + 1))
			}
		}
		rng.Shuffle(len(batch), func(i, j int) { batch[i], batch[j] = batch[j], batch[i] })
		var fls []*world.Flight
		var offs []time.Duration
		for _, it := range batch {
			fls = append(fls, &world.Flight{From: it.from, To: s.v, Data: it.data})
			offs = append(offs, it.off)
		}
		before := rawTable(s.v)
		s.ms.W.Lock()
		s.ms.W.Inflight = nil
		s.ms.W.Unlock()
		t0 := time.Now()
		handled := s.ms.W.DeliverConcurrentStaggered(fls, offs)
		took := time.Since(t0)
		s.store.delay.Store(-1)
		c.Eval(len(batch))
		st.rounds++
		st.frames += len(batch)
		if len(handled) != len(batch) {
			c.Broken("T-concurrent: %d of %d frames of a batch reached the victim's router workers", len(handled), len(batch))
			return
		}
		for _, h := range handled {
			if h.Panic {
				c.Violation(vf.Key("panic", "concurrent", op), fmt.Sprintf("%d announcements handled at the same moment (%s among them): a router worker of the victim panicked: %v", len(batch), what, h.Err),
					map[string]any{"op": op, "batch": len(batch)}, nil)
			}
		}
		after := rawTable(s.v)
		s.ms.W.Lock()
		emitted := append([]*world.Flight(nil), s.ms.W.Inflight...)
		s.ms.W.Inflight = nil
		s.ms.W.Unlock()
		genuineOrigin := map[netip.Addr]bool{}
		for _, it := range batch {
			if !it.forged {
				genuineOrigin[s.origins[it.k].ID.IP] = true
			}
		}
		// anything in the table or among the emitted frames that no genuine announcement of the batch accounts for
		var stray []string
		for _, e := range after {
			if !genuineOrigin[e.DstIP] && len(changedFor(before, after, e.DstIP)) > 0 {
				stray = append(stray, "route to "+s.name(e.DstIP)+" changed")
			}
		}
		for _, e := range before {
			if !genuineOrigin[e.DstIP] && goneFor(before, after, e.DstIP) > 0 && len(changedFor(before, after, e.DstIP)) == 0 {
				stray = append(stray, "route to "+s.name(e.DstIP)+" gone")
			}
		}
		emittedOf := map[netip.Addr][]*world.Flight{}
		for _, fl := range emitted {
			a, err := s.ms.Decode(fl.Data)
			if err != nil || !a.IsAnn || a.Origin == 0 {
				stray = append(stray, "a frame that is no announcement of a known origin sent to "+s.name(fl.To.ID.IP))
				continue
			}
			oip := s.ms.Node(a.Origin).ID.IP
			if !genuineOrigin[oip] {
				stray = append(stray, "announcement of "+s.name(oip)+" forwarded to "+s.name(fl.To.ID.IP))
				continue
			}
			emittedOf[oip] = append(emittedOf[oip], fl)
		}
		sort.Strings(stray)
		stray = uniq(stray)
		setting := fmt.Sprintf("%d announcements handled by the victim's router workers at the same moment (arrivals within %v, storage %s, victim %s, %v in all)", len(batch), span.Round(time.Microsecond), mode, know, took.Round(time.Microsecond))
		st.byMode[mode]++
		judged := map[int]bool{}
		for _, it := range batch {
			o := s.origins[it.k]
			if !it.forged {
				if judged[it.k] {
					continue // a further copy of the same genuine announcement
				}
				judged[it.k] = true
			}
			if it.forged {
				ob := s.observe(before, after, o, s.chains[it.k], it.data, it.from)
				unchanged := len(stray) == 0
				if !ob.accepted {
					st.forgedRejected++
				} else {
					st.forgedAccepted[op+"/"+mode+"/"+know]++
				}
				detail := setting + ": " + what
				if ob.accepted {
					detail += "; ACCEPTED - installed route " + ob.shown
				}
				if len(stray) > 0 {
					detail += "; " + strings.Join(stray, ", ")
				}
				peer := 0
				forgedEvents = append(forgedEvents, map[string]any{"ev": "case", "len": flen, "op": op, "depth": 0, "seen": false, "accepted": ob.accepted, "path": ob.path,
					"via": 1, "nexthop": ob.nexthop, "unchanged": unchanged, "genuine": ob.genuine, "peer": peer, "stage": "concurrent", "detail": detail})
				c.Distinct(fmt.Sprintf("concurrent|%s|%d|%d|%s|%s|%d", op, flen, len(s.chains[it.k]), mode, know, len(batch)))
				continue
			}
			ob := s.observe(before, after, o, s.chains[it.k], it.data, it.from)
			if ob.accepted {
				st.genuineAccepted++
			}
			detail := fmt.Sprintf("%s: the genuine announcement of O%d with the chain %s, delivered by %s", setting, it.k, s.names(s.chains[it.k]), s.name(it.from.ID.IP))
			if ob.accepted {
				detail += "; installed route " + ob.shown
			}
			otherEvents = append(otherEvents, map[string]any{"ev": "case", "len": len(s.chains[it.k]), "op": "none", "depth": 0, "seen": know != "fresh", "accepted": ob.accepted, "path": ob.path,
				"via": 1, "nexthop": ob.nexthop, "unchanged": false, "genuine": ob.genuine, "peer": 0, "stage": "concurrent", "detail": detail})
			if !ob.accepted {
				continue
			}
			// what the victim forwarded of it carries the victim's own record, made while the other announcements were
			// handled: the next router must find every record signed for this very announcement
			gave := map[*world.Node]bool{}
			for _, fl := range emittedOf[o.ID.IP] {
				again := gave[fl.To] // (the victim may forward more than one copy of an announcement that reached it more than once)
				gave[fl.To] = true
				nb, na := rawTable(fl.To), []m.RoutingTableEntry(nil)
				res, derr := s.ms.W.DeliverRaw(s.v, fl.To, fl.Data)
				na = rawTable(fl.To)
				c.Eval(1)
				st.downstream++
				chain := append([]int{1}, s.chains[it.k]...)
				ob2 := s.observe(nb, na, o, chain, fl.Data, s.v)
				if ob2.accepted {
					st.downstreamAccepted++
				}
				herr := ""
				if derr != nil {
					herr = derr.Error()
				}
				for _, h := range res {
					if e := h.HandlerErr(); e != "" {
						herr = e
					}
				}
				d2 := fmt.Sprintf("%s: the genuine announcement of O%d as the victim forwarded it to %s with its own record on top of %s", setting, it.k, s.name(fl.To.ID.IP), s.names(s.chains[it.k]))
				if !ob2.accepted {
					d2 += "; REFUSED by that router: " + herr
				}
				otherEvents = append(otherEvents, map[string]any{"ev": "case", "len": len(chain), "op": "none", "depth": 0, "seen": again, "accepted": ob2.accepted, "path": ob2.path,
					"via": 1, "nexthop": ob2.nexthop, "unchanged": false, "genuine": ob2.genuine, "peer": 0, "stage": "concurrent", "detail": d2})
			}
		}
	}
	if st.genuineAccepted == 0 {
		c.Broken("T-concurrent: not one genuine announcement of %d batches was accepted", st.rounds)
	}
	if st.downstream == 0 {
		c.Broken("T-concurrent: the victim forwarded none of the genuine announcements it accepted")
	}
	c.Stage("T-concurrent", map[string]any{"batches": st.rounds, "frames": st.frames, "genuine_accepted": st.genuineAccepted, "forged_rejected": st.forgedRejected,
		"forwarded_on": st.downstream, "forwarded_accepted": st.downstreamAccepted, "storage_modes": st.byMode, "forged_accepted": st.forgedAccepted})
	if len(st.forgedAccepted) > 0 {
		c.Logf("T-concurrent: forged announcements accepted (operator/storage/victim): %v", st.forgedAccepted)
	}
	c.Logf("T-concurrent: %d batches, %d announcements handled at the same moment; %d genuine accepted, %d forged rejected; %d forwarded copies given to the next router, %d accepted there",
		st.rounds, st.frames, st.genuineAccepted, st.forgedRejected, st.downstream, st.downstreamAccepted)
}
