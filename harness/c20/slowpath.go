// The PATH between two routers as a dimension of the C20 scenarios. In every other scenario of this driver the two
// routers reach each other directly over loopback and a link set-up takes milliseconds. Here the connecting router's
// connect entry points at a loopback TCP forwarder run by the driver, which forwards to the listening router's port
// transparently but
//   - may hold a new connection for a while before anything happens to it (a spread of delays from the PRNG),
//   - may forward slowly (a few bytes at a time) until the link is up,
//   - may accept and then close (every connection, or only the first ones).
//
// What is demanded stays what the property says: over a path that is merely slow the routers still peer (late), over
// a path that closes they need not; both keep running, Stop() returns success, and afterwards no goroutine of the
// repository's packages is left (the goroutine profile diff at the end of the run), also after the forwarder is gone.
// Kept out on purpose: an endpoint that accepts and stays silent for ever while a router is stopped (documented
// behaviour of the tree: the set-up reads without a deadline and Stop waits for its time-out) - the forwarder is
// closed before a router is stopped whenever a connection of it could still be held.
package main

import (
	"fmt"
	"math/rand"
	"net"
	"strings"
	"sync"
	"sync/atomic"
	"time"

	"verifharness/internal/vf"
)

type pathPlan struct {
	Kind string // hold | trickle | close | flaky
	// a new connection is held this long before it is forwarded (hold, trickle) or closed (close, flaky: the
	// connections that are closed)
	Hold time.Duration
	// the connection to the listening router is made before the hold (that router sees a quiet client for a while)
	// or after it
	DialFirst bool
	// trickle: bytes per write and pause between writes, in both directions, until fast() is called
	Chunk int
	Gap   time.Duration
	// flaky: this many connections are closed, the later ones are forwarded at once
	CloseFirst int
	// close / flaky: bytes of the client's first message that are read before the connection is closed; the close
	// is a plain one or a reset
	ReadFirst int
	Reset     bool
}

func (p pathPlan) String() string {
	s := fmt.Sprintf("path(%s hold=%v", p.Kind, p.Hold)
	if p.Kind == "hold" || p.Kind == "trickle" {
		s += fmt.Sprintf(" dialfirst=%v", p.DialFirst)
	}
	if p.Kind == "trickle" {
		s += fmt.Sprintf(" %dB/%v", p.Chunk, p.Gap)
	}
	if p.Kind == "flaky" {
		s += fmt.Sprintf(" closes=%d", p.CloseFirst)
	}
	if p.Kind == "close" || p.Kind == "flaky" {
		s += fmt.Sprintf(" read=%d reset=%v", p.ReadFirst, p.Reset)
	}
	return s + ")"
}

// forwards says whether the path forwards connection number n (0-based) at all
func (p pathPlan) forwards(n int) bool {
	switch p.Kind {
	case "close":
		return false
	case "flaky":
		return n >= p.CloseFirst
	}
	return true
}

type forwarder struct {
	plan   pathPlan
	port   int
	target string
	lns    []net.Listener
	stop   chan struct{}
	isFast atomic.Bool

	mu     sync.Mutex
	conns  []net.Conn
	closed bool
	wg     sync.WaitGroup

	accepted, closedByPath, forwarded atomic.Int64
	bytesUp, bytesDown                atomic.Int64
}

func startForwarder(plan pathPlan, target string) (*forwarder, error) {
	f := &forwarder{plan: plan, target: target, stop: make(chan struct{})}
	var firstErr error
	for try := 0; try < 20 && len(f.lns) == 0; try++ {
		f.port = freePort()
		ln, err := net.Listen("tcp", fmt.Sprintf("127.0.0.1:%d", f.port))
		if err != nil {
			firstErr = err
			continue
		}
		f.lns = append(f.lns, ln)
		if hasV6Loopback() {
			ln6, err := net.Listen("tcp", fmt.Sprintf("[::1]:%d", f.port))
			if err != nil {
				_ = ln.Close()
				f.lns = nil
				firstErr = err
				continue
			}
			f.lns = append(f.lns, ln6)
		}
	}
	if len(f.lns) == 0 {
		return nil, fmt.Errorf("no loopback port for the forwarder: %v", firstErr)
	}
	for _, ln := range f.lns {
		f.wg.Add(1)
		go f.acceptLoop(ln)
	}
	return f, nil
}

func (f *forwarder) track(c net.Conn) bool {
	f.mu.Lock()
	defer f.mu.Unlock()
	if f.closed {
		_ = c.Close()
		return false
	}
	f.conns = append(f.conns, c)
	return true
}

func (f *forwarder) acceptLoop(ln net.Listener) {
	defer f.wg.Done()
	for {
		in, err := ln.Accept()
		if err != nil {
			return
		}
		if !f.track(in) {
			return
		}
		n := int(f.accepted.Add(1)) - 1
		f.wg.Add(1)
		go f.serve(in, n)
	}
}

// wait sleeps for d; false if the forwarder was closed meanwhile
func (f *forwarder) wait(d time.Duration) bool {
	if d <= 0 {
		select {
		case <-f.stop:
			return false
		default:
			return true
		}
	}
	t := time.NewTimer(d)
	defer t.Stop()
	select {
	case <-t.C:
		return true
	case <-f.stop:
		return false
	}
}

func (f *forwarder) serve(in net.Conn, n int) {
	defer f.wg.Done()
	defer in.Close() //nolint:errcheck
	fwd := f.plan.forwards(n)
	var out net.Conn
	dial := func() bool {
		c, err := (&net.Dialer{Timeout: 5 * time.Second}).Dial("tcp", f.target)
		if err != nil {
			return false // the listening router is not there (yet, any more): the path closes
		}
		if !f.track(c) {
			return false
		}
		out = c
		return true
	}
	if fwd && f.plan.DialFirst {
		if !dial() {
			return
		}
		defer out.Close() //nolint:errcheck
	}
	hold := f.plan.Hold
	if f.plan.Kind == "flaky" && fwd {
		hold = 0
	}
	if !f.wait(hold) {
		return
	}
	if !fwd {
		if f.plan.ReadFirst > 0 {
			buf := make([]byte, f.plan.ReadFirst)
			_ = in.SetReadDeadline(time.Now().Add(2 * time.Second))
			_, _ = in.Read(buf)
		}
		if tc, ok := in.(*net.TCPConn); ok && f.plan.Reset {
			_ = tc.SetLinger(0)
		}
		f.closedByPath.Add(1)
		return
	}
	if out == nil {
		if !dial() {
			return
		}
		defer out.Close() //nolint:errcheck
	}
	f.forwarded.Add(1)
	done := make(chan struct{}, 2)
	go func() { f.pump(out, in, &f.bytesUp); done <- struct{}{} }()
	go func() { f.pump(in, out, &f.bytesDown); done <- struct{}{} }()
	<-done
	_ = in.Close()
	_ = out.Close()
	<-done
}

func (f *forwarder) pump(dst, src net.Conn, cnt *atomic.Int64) {
	buf := make([]byte, 16<<10)
	for {
		n, err := src.Read(buf)
		data := buf[:n]
		for len(data) > 0 {
			k := len(data)
			slow := f.plan.Kind == "trickle" && !f.isFast.Load()
			if slow && k > f.plan.Chunk {
				k = f.plan.Chunk
			}
			if _, werr := dst.Write(data[:k]); werr != nil {
				return
			}
			cnt.Add(int64(k))
			data = data[k:]
			if slow && !f.wait(f.plan.Gap) {
				return
			}
		}
		if err != nil {
			return
		}
	}
}

// fast ends the slow phase of a trickling path (the link is up: the path got better)
func (f *forwarder) fast() { f.isFast.Store(true) }

func (f *forwarder) close() {
	f.mu.Lock()
	if f.closed {
		f.mu.Unlock()
		return
	}
	f.closed = true
	close(f.stop)
	for _, ln := range f.lns {
		_ = ln.Close()
	}
	for _, c := range f.conns {
		_ = c.Close()
	}
	f.mu.Unlock()
	f.wg.Wait()
}

// ---------- plans

var pathHolds = []time.Duration{0, 3 * time.Second, 12 * time.Second, 25 * time.Second}
var pathKinds = []string{"hold", "trickle", "close", "flaky", "hold"}

// pathPlans: n plans. Hold times and kinds are dealt from two shuffled decks of coprime length, so that every four
// consecutive plans cover the whole spread of delays (the long ones in few scenarios) and every five all kinds, and
// which kind meets which delay changes with the seed.
func pathPlans(rng *rand.Rand, n int) []pathPlan {
	holds := append([]time.Duration{}, pathHolds...)
	rng.Shuffle(len(holds), func(i, j int) { holds[i], holds[j] = holds[j], holds[i] })
	kinds := append([]string{}, pathKinds...)
	rng.Shuffle(len(kinds), func(i, j int) { kinds[i], kinds[j] = kinds[j], kinds[i] })
	var out []pathPlan
	for i := 0; i < n; i++ {
		p := pathPlan{Kind: kinds[i%len(kinds)], Hold: holds[i%len(holds)], DialFirst: rng.Intn(2) == 0}
		// some jitter: a delay is not a round number (never below the drawn value, so the spread stays)
		if p.Hold > 0 {
			p.Hold += time.Duration(rng.Intn(900)) * time.Millisecond
		}
		switch p.Kind {
		case "trickle":
			// the messages of a link set-up are some hundred bytes each: from a few hundred milliseconds to
			// some ten seconds for the whole set-up
			p.Chunk = 1 + rng.Intn(24)
			p.Gap = time.Duration(1+rng.Intn(12)) * time.Millisecond
			if p.Hold > 3900*time.Millisecond {
				// a long hold and a crawl on top: keep the scenario within the time of the others
				p.Chunk += 24
				p.Gap = time.Duration(1+rng.Intn(3)) * time.Millisecond
			}
		case "close":
			p.ReadFirst = []int{0, 0, 1, 64, 4096}[rng.Intn(5)]
			p.Reset = rng.Intn(3) == 0
		case "flaky":
			p.CloseFirst = 1 + rng.Intn(2)
			if p.Hold > 3900*time.Millisecond {
				p.CloseFirst = 1
			}
			p.ReadFirst = []int{0, 0, 1, 64, 4096}[rng.Intn(5)]
			p.Reset = rng.Intn(3) == 0
		}
		out = append(out, p)
	}
	return out
}

// ---------- the scenario

// runPath: listener router B, connecting router A (the roles of the fixed-port scenarios), A's connect entry points
// at the forwarder. The events go to the same Lifecycle_Trace as those of every other scenario.
func (s *scenario) runPath(plan pathPlan) {
	s.macro = append(s.macro, plan.String())
	s.fixed = true
	s.fixedPorts = map[string][]int{"A": {freePort()}, "B": {freePort(), freePort()}}
	bport := s.fixedPorts["B"][0]
	host := hostFor(bport)
	if host == "" {
		host = "127.0.0.1"
		if hasV6Loopback() && s.rng.Intn(3) == 0 {
			host = "[::1]"
		}
	}
	fw, err := startForwarder(plan, fmt.Sprintf("%s:%d", host, bport))
	if err != nil {
		s.c.Broken("slow path: %v", err)
		return
	}
	defer fw.close()
	s.viaPort = fw.port

	// the listening router is up first when connections are held for long (an attempt that meets no listener behind
	// the path costs the whole hold); otherwise either order
	order := []string{"B", "A"}
	if plan.Hold < 4*time.Second && s.rng.Intn(3) == 0 {
		order = []string{"A", "B"}
	}
	walk := []act{{Name: "peer"}}
	for _, n := range order {
		s.construct(n, s.rng.Intn(4) == 0, walk, -1)
	}
	for _, n := range order {
		s.start(n)
	}
	a, b := s.insts["A"], s.insts["B"]
	if a == nil || b == nil || a.phase != "running" || b.phase != "running" {
		// construct / start failed: already noted as such; wind down what runs (nothing is held for a stopped
		// forwarder)
		fw.close()
		s.stop("A")
		s.stop("B")
		s.events = append(s.events, map[string]any{"ev": "reset"})
		return
	}

	peered := false
	t0 := time.Now()
	switch plan.Kind {
	case "hold", "trickle", "flaky":
		// the first attempt is made when the connect manager starts; the connect manager retries every second
		// for 10 s and every 5 s for a minute. A path that forwards - late, slowly, from the second or third
		// connection on - is a path over which two routers can peer.
		limit := 25*time.Second + plan.Hold*time.Duration(plan.CloseFirst+1)
		if plan.Kind == "trickle" {
			// the messages of a set-up are about 1 kB in all; the time a crawl needs for three times that, twice
			limit += 2 * time.Duration(3000/plan.Chunk+1) * (plan.Gap + 1500*time.Microsecond)
		}
		deadline := time.Now().Add(limit)
		for !s.bothLinked() && time.Now().Before(deadline) {
			time.Sleep(20 * time.Millisecond)
		}
		if s.bothLinked() {
			peered = true
			fw.fast()
			s.notePeer()
			s.c.Eval(1)
			s.answers("A", "B")
			s.answers("B", "A")
			s.cleanerTick("A")
			s.cleanerTick("B")
		} else {
			s.bad = append(s.bad, badThing{"no-peering/slow-path", fmt.Sprintf("two running relay-only routers did not peer within %v over a loopback path that forwards every byte, only late: %v; the forwarder accepted %d connection(s), closed %d itself, forwarded %d (%d bytes up, %d down) (A %+v, B %+v)",
				limit.Round(time.Second), plan, fw.accepted.Load(), fw.closedByPath.Load(), fw.forwarded.Load(), fw.bytesUp.Load(), fw.bytesDown.Load(), a.desc, b.desc)})
		}
	case "close":
		// nothing gets through: the routers need not peer. They keep running while the connecting one tries
		// again and again; wait until the path has closed a few connections (and at least one after its hold)
		deadline := time.Now().Add(plan.Hold + 6*time.Second)
		want := int64(3)
		if plan.Hold > 0 {
			want = 1
		}
		for fw.closedByPath.Load() < want && time.Now().Before(deadline) {
			time.Sleep(20 * time.Millisecond)
		}
		time.Sleep(time.Duration(s.rng.Intn(400)) * time.Millisecond)
		s.macro = append(s.macro, fmt.Sprintf("path-closed(%d)", min(fw.closedByPath.Load(), want)))
		s.c.Eval(1)
	}

	s.pathNote = fmt.Sprintf("%v peered=%v after %v: accepted %d, closed by the path %d, forwarded %d, bytes up %d down %d", plan, peered, time.Since(t0).Round(100*time.Millisecond),
		fw.accepted.Load(), fw.closedByPath.Load(), fw.forwarded.Load(), fw.bytesUp.Load(), fw.bytesDown.Load())

	// wind down. A router is never stopped while the path may still hold one of its connections: with the link up
	// the connecting router makes no further attempt, so it may go first; in every other case the path goes first.
	mode := s.rng.Intn(3)
	if !peered {
		mode = 1 + s.rng.Intn(2)
	}
	switch mode {
	case 0:
		s.stop("A")
		fw.close()
		s.macro = append(s.macro, "path-gone")
		s.stop("B")
	case 1:
		fw.close()
		s.macro = append(s.macro, "path-gone")
		time.Sleep(time.Duration(s.rng.Intn(300)) * time.Millisecond)
		s.stop("B")
		s.stop("A")
	default:
		fw.close()
		s.macro = append(s.macro, "path-gone")
		s.stop("A")
		s.stop("B")
	}
	s.events = append(s.events, map[string]any{"ev": "reset"})
}

// startPathScenarios runs the path scenarios next to the others (they mostly wait) and returns them when wg is done.
func startPathScenarios(c *vf.Ctx, wg *sync.WaitGroup, stateDir string, uniNames []string) []*scenario {
	n := c.Pick(8, 32)
	prng := rand.New(rand.NewSource(c.Seed*1000 + 700))
	plans := pathPlans(prng, n)
	out := make([]*scenario, n)
	for i, plan := range plans {
		s := &scenario{c: c, rng: rand.New(rand.NewSource(c.Seed*1000 + 701 + int64(i))), dir: stateDir, insts: map[string]*live{}}
		if s.rng.Intn(2) == 0 {
			s.universe = uniNames[s.rng.Intn(len(uniNames))]
			s.secret = s.rng.Intn(2) == 0
		}
		out[i] = s
		wg.Add(1)
		go func(s *scenario, plan pathPlan) {
			defer wg.Done()
			t0 := time.Now()
			defer func() { s.took = time.Since(t0) }()
			if p, v, stack := vf.NoPanic(func() { s.runPath(plan) }); p {
				s.bad = append(s.bad, badThing{"driver-or-router-panic", fmt.Sprintf("%v\n%s", v, firstLines(stack, 20))})
			}
		}(s, plan)
	}
	return out
}

// repoGoroutines: the entries of a profile diff that have a frame of the repository's packages
func repoGoroutines(l []leak) []leak {
	var out []leak
	for _, x := range l {
		if strings.Contains(x.stack, "github.com/mycoria/mycoria") {
			out = append(out, x)
		}
	}
	return out
}
