// C20 - relay-only routers start, run and stop cleanly. Stage M: TLC on
// Lifecycle (module slots with typed nils, group start in order / stop in
// reverse with cancel + wait, worker churn, two instances peering, cycles):
// ConstructOK, StartOrder, StopReverse, NoStrayWorkers, CleanStop, NoTimeout,
// and StopCompletes under fairness; two negative controls (Manager() before
// the nil test; a worker that ignores cancellation). Stage R: TLC simulation
// walks (construct / start / peer / stop of two instances over up to three
// cycles, every interleaving the model allows) are executed with REAL
// mycoria.New / Start / Stop on generated relay-only configurations, peering
// over loopback TCP. Stage T: the per-module "started"/"stopped" records of
// the real Group, worker counts per module manager and results are validated
// by TLC against Lifecycle_Trace. Goroutines are compared before and after
// (every goroutine with a frame of the repository's packages, whether a manager
// counts it as a worker or not). The PATH between the two routers is a
// dimension of its own (slowpath.go): a loopback forwarder of the driver that
// holds new connections for 0..25 s, forwards slowly, or accepts and closes.
package main

import (
	"bytes"
	"context"
	"fmt"
	"log/slog"
	"math/rand"
	"net"
	"os"
	"path/filepath"
	"regexp"
	"runtime"
	"runtime/pprof"
	"sort"
	"strings"
	"sync"
	"sync/atomic"
	"time"

	"github.com/mycoria/mycoria"
	"github.com/mycoria/mycoria/config"
	"github.com/mycoria/mycoria/mgr"

	"verifharness/internal/mesh"
	"verifharness/internal/vf"
	"verifharness/internal/world"
)

var slots = []string{"storage", "state", "tun", "netstack", "api", "dns", "peering", "switch", "router", "dashboard"}

var slotOfManager = map[string]string{"memstorage": "storage", "jsonstorage": "storage", "state": "state", "tundevice": "tun", "netstack": "netstack",
	"api": "api", "dns": "dns", "peering": "peering", "switch": "switch", "router": "router", "dashboard": "dashboard"}

// ---------- log capture per instance

type logRec struct {
	module, msg string
	level       slog.Level
}

type instLog struct {
	mu   sync.Mutex
	recs []logRec
}

type instHandler struct {
	log   *instLog
	attrs []slog.Attr
}

func (h *instHandler) Enabled(context.Context, slog.Level) bool { return true }
func (h *instHandler) WithAttrs(a []slog.Attr) slog.Handler {
	n := *h
	n.attrs = append(append([]slog.Attr{}, h.attrs...), a...)
	return &n
}
func (h *instHandler) WithGroup(string) slog.Handler { return h }
func (h *instHandler) Handle(_ context.Context, r slog.Record) error {
	module := ""
	for _, a := range h.attrs {
		if a.Key == "module" {
			module = a.Value.String()
		}
	}
	msg := r.Message
	if r.Level >= slog.LevelWarn {
		r.Attrs(func(a slog.Attr) bool {
			msg += fmt.Sprintf(" %s=%v", a.Key, a.Value.Any())
			return true
		})
	}
	h.log.mu.Lock()
	h.log.recs = append(h.log.recs, logRec{module, msg, r.Level})
	h.log.mu.Unlock()
	return nil
}

func (l *instLog) take() []logRec {
	l.mu.Lock()
	defer l.mu.Unlock()
	out := l.recs
	l.recs = nil
	return out
}

// lateWorkers: Stop() calls that returned success while a manager still counted a worker which left by itself within
// the settle time (see stop)
var lateWorkers atomic.Int64

var constructMu sync.Mutex // slog.SetDefault is process-wide; managers capture the default when created

// ---------- configurations

type cfgDesc struct {
	Universe string   `json:"universe"`
	Secret   bool     `json:"secret"`
	Lite     bool     `json:"lite"`
	Stub     bool     `json:"stub"`
	Isolate  bool     `json:"isolate"`
	Services []string `json:"services"`
	Friends  int      `json:"friends"`
	State    string   `json:"state"`
	API      bool     `json:"api"`
	Listen   int      `json:"listeners"`
	Connect  bool     `json:"connect"`
}

// freePort hands out loopback ports from a process-wide increasing counter (so that no two scenarios of this
// process ever get the same one), skipping ports that cannot be bound right now.
var portCounter atomic.Int64

func freePort() int {
	for {
		p := 20000 + int(portCounter.Add(1))
		if p > 60000 {
			panic("out of ports")
		}
		ln, err := net.Listen("tcp", fmt.Sprintf("127.0.0.1:%d", p))
		if err != nil {
			continue
		}
		_ = ln.Close()
		ln2, err := net.Listen("tcp", fmt.Sprintf("[::]:%d", p))
		if err != nil {
			continue
		}
		_ = ln2.Close()
		return p
	}
}

// hostFor says under which host a loopback port is configured as a listener ("" = none): a function of the port alone,
// so that the router that listens on it (also after a restart on the same port) and whoever is configured to connect
// to it - whichever configuration is generated first - agree.
func hostFor(port int) string {
	switch (uint32(port) * 2654435761 >> 9) % 4 {
	case 0:
		return "127.0.0.1"
	case 1:
		if hasV6Loopback() {
			return "[::1]"
		}
	}
	return ""
}

var v6Once sync.Once
var v6OK bool

func hasV6Loopback() bool {
	v6Once.Do(func() {
		if ln, err := net.Listen("tcp", "[::1]:0"); err == nil {
			_ = ln.Close()
			v6OK = true
		}
	})
	return v6OK
}

var svcURLs = []string{"tcp://:8080", "udp://:53", "tcp://:22", "http://:80", "https://:443"}

func genConfig(rng *rand.Rand, idx int, api bool, connectTo int, stateDir string, universe string, secret bool, fixedPorts []int) (config.Store, cfgDesc, []int) {
	ids := mesh.Identities(8)
	st := config.Store{}
	d := cfgDesc{API: api, Connect: connectTo != 0}
	st.Router.Address = ids[idx].Store()
	st.System.DisableTun = true
	// routers only peer within one universe: the scenario fixes it for both instances
	st.Router.Universe, d.Universe = universe, universe
	if secret {
		st.Router.UniverseSecret = "secret"
		d.Secret = true
	}
	st.Router.Lite, st.Router.Stub, st.Router.Isolate = rng.Intn(3) == 0, rng.Intn(3) == 0, rng.Intn(3) == 0
	d.Lite, d.Stub, d.Isolate = st.Router.Lite, st.Router.Stub, st.Router.Isolate
	perm := rng.Perm(len(svcURLs))
	for k := rng.Intn(3); k > 0; k-- {
		u := svcURLs[perm[k]]
		sc := config.ServiceConfig{Name: fmt.Sprintf("svc%d", k), URL: u}
		switch rng.Intn(3) {
		case 0:
			sc.Public = true
		case 1:
			sc.Friends = true
		default:
			sc.For = []string{ids[5].IP.String()}
		}
		st.ServiceConfigs = append(st.ServiceConfigs, sc)
		d.Services = append(d.Services, u)
	}
	d.Friends = rng.Intn(3)
	for k := 0; k < d.Friends; k++ {
		st.FriendConfigs = append(st.FriendConfigs, config.FriendConfig{Name: fmt.Sprintf("friend%d", k), IP: ids[5+k].IP.String()})
	}
	if rng.Intn(2) == 0 {
		st.System.StatePath = filepath.Join(stateDir, fmt.Sprintf("state-%d-%d.json", idx, rng.Int63()))
		d.State = "json"
	}
	if api {
		st.System.APIListen = fmt.Sprintf("127.0.0.1:%d", freePort())
	}
	d.Listen = 1 + rng.Intn(2)
	if fixedPorts != nil {
		d.Listen = len(fixedPorts)
	}
	var ports []int
	for k := 0; k < d.Listen; k++ {
		p := 0
		if fixedPorts != nil {
			p = fixedPorts[k]
		} else {
			p = freePort()
		}
		ports = append(ports, p)
		// every way of naming a free loopback port: no host (all interfaces), the IPv4 loopback, the IPv6 loopback
		host := hostFor(p)
		if host == "" {
			st.Router.Listen = append(st.Router.Listen, fmt.Sprintf("tcp:%d", p))
		} else {
			st.Router.Listen = append(st.Router.Listen, fmt.Sprintf("tcp://%s:%d", host, p))
		}
	}
	if connectTo != 0 {
		host := hostFor(connectTo)
		if host == "" {
			host = "127.0.0.1"
			if hasV6Loopback() && rng.Intn(3) == 0 {
				host = "[::1]" // a listener without a host listens on both loopbacks
			}
		}
		st.Router.Connect = []string{fmt.Sprintf("tcp://%s:%d", host, connectTo)}
	}
	return st, d, ports
}

// ---------- scenario execution

type act struct {
	Name   string
	Inst   string
	A, B   string
	API    bool
	Module string
}

var reAct = regexp.MustCompile(`^/\\ act = \[(.*)\]$`)

func parseWalk(path string) ([]act, error) {
	data, err := os.ReadFile(path)
	if err != nil {
		return nil, err
	}
	var out []act
	for _, l := range strings.Split(string(data), "\n") {
		mm := reAct.FindStringSubmatch(strings.TrimSpace(l))
		if mm == nil {
			continue
		}
		a := act{}
		for _, kv := range strings.Split(mm[1], ", ") {
			p := strings.SplitN(kv, " |-> ", 2)
			if len(p) != 2 {
				continue
			}
			v := strings.Trim(p[1], `"`)
			switch p[0] {
			case "name":
				a.Name = v
			case "inst":
				a.Inst = v
			case "a":
				a.A = v
			case "b":
				a.B = v
			case "api":
				a.API = v == "TRUE"
			case "module":
				a.Module = v
			}
		}
		if a.Name != "" && a.Name != "init" {
			out = append(out, a)
		}
	}
	return out, nil
}

type live struct {
	in      *mycoria.Instance
	log     *instLog
	phase   string // constructed | running | stopped
	ports   []int
	desc    cfgDesc
	idx     int
	started time.Time
}

type scenario struct {
	c      *vf.Ctx
	rng    *rand.Rand
	dir    string
	insts  map[string]*live
	linked bool
	// fixed: both instances keep their listen ports over all their restarts and A is configured to connect to B
	// for good (a router that is restarted from the same configuration while its peer keeps running)
	fixed      bool
	fixedPorts map[string][]int
	// viaPort: A's connect entry names this loopback port (a forwarder of the driver, see slowpath.go) instead of
	// B's listen port
	viaPort  int
	pathNote string
	took     time.Duration
	universe string
	secret   bool
	events   []any
	descs    []any
	macro    []string
	bad      []badThing
}

type badThing struct{ key, what string }

func (s *scenario) workerCounts(l *live) []int {
	w := make([]int, len(slots))
	get := func(name string, m *mgr.Manager) {
		if m == nil {
			return
		}
		for i, sl := range slots {
			if sl == name {
				w[i] = int(m.VerifWorkerCnt())
			}
		}
	}
	in := l.in
	get("storage", in.Storage().Manager())
	get("state", in.State().Manager())
	if in.TunDevice() != nil {
		get("tun", in.TunDevice().Manager())
	}
	if in.NetStack() != nil {
		get("netstack", in.NetStack().Manager())
	}
	if in.API() != nil {
		get("api", in.API().Manager())
	}
	if in.DNS() != nil {
		get("dns", in.DNS().Manager())
	}
	get("peering", in.Peering().Manager())
	get("switch", in.Switch().Manager())
	get("router", in.Router().Manager())
	return w
}

func (s *scenario) moduleEvents(name string, l *live, want, ev string) {
	for _, r := range l.log.take() {
		if r.msg == want {
			s.events = append(s.events, map[string]any{"ev": ev, "inst": name, "module": slotOfManager[r.module]})
		}
		if strings.Contains(strings.ToLower(r.msg), "panic") {
			s.bad = append(s.bad, badThing{"worker-panic/" + r.module, fmt.Sprintf("instance %s module %s: %s", name, r.module, r.msg)})
		}
		if r.msg == "failed to stop" || strings.HasPrefix(r.msg, "failed to stop ") {
			s.bad = append(s.bad, badThing{"stop-failed/" + r.module, fmt.Sprintf("instance %s module %s: %s", name, r.module, r.msg)})
		}
	}
}

func (s *scenario) bothLinked() bool {
	a, b := s.insts["A"], s.insts["B"]
	if a == nil || b == nil || a.phase != "running" || b.phase != "running" {
		return false
	}
	return a.in.Peering().GetLink(b.in.Identity().IP) != nil && b.in.Peering().GetLink(a.in.Identity().IP) != nil
}

func (s *scenario) notePeer() {
	if !s.linked && s.bothLinked() {
		s.linked = true
		s.events = append(s.events, map[string]any{"ev": "peer", "a": "A", "b": "B"})
		s.macro = append(s.macro, "peered")
	}
}

func (s *scenario) construct(name string, api bool, walk []act, pos int) {
	other := "A"
	if name == "A" {
		other = "B"
	}
	// Will this construction peer with the other instance? Look ahead to the next peer action before
	// either instance is constructed again.
	connectTo := 0
	for _, a := range walk[pos+1:] {
		if a.Name == "construct" && a.Inst == name {
			break
		}
		if a.Name == "peer" {
			if o := s.insts[other]; o != nil && o.phase != "stopped" {
				connectTo = o.ports[0]
			}
			break
		}
	}
	idx := 0
	if name == "B" {
		idx = 1
	}
	var fp []int
	if s.fixed {
		fp = s.fixedPorts[name]
		connectTo = 0
		if name == "A" {
			connectTo = s.fixedPorts["B"][0]
			if s.viaPort != 0 {
				connectTo = s.viaPort
			}
		}
	}
	st, desc, ports := genConfig(s.rng, idx, api, connectTo, s.dir, s.universe, s.secret, fp)
	cfg, err := st.Parse()
	if err != nil {
		s.c.Broken("generated configuration does not parse: %v", err)
		return
	}
	l := &live{log: &instLog{}, ports: ports, desc: desc, idx: idx}
	constructMu.Lock()
	slog.SetDefault(slog.New(&instHandler{log: l.log}))
	var in *mycoria.Instance
	p, pv, stack := vf.NoPanic(func() { in, err = mycoria.New("v0.0.0-verif", cfg) })
	constructMu.Unlock()
	s.descs = append(s.descs, desc)
	s.macro = append(s.macro, fmt.Sprintf("construct(%s,api=%v)", name, api))
	ev := map[string]any{"ev": "construct", "inst": name, "tunoff": true, "api": api, "ok": err == nil && !p, "panic": p}
	if p {
		ev["group"] = []string{}
		s.events = append(s.events, ev)
		s.bad = append(s.bad, badThing{"construct-panic", fmt.Sprintf("mycoria.New panics for a relay-only configuration %+v: %v\n%s", desc, pv, firstLines(stack, 14))})
		return
	}
	if err != nil {
		ev["group"] = []string{}
		s.events = append(s.events, ev)
		s.bad = append(s.bad, badThing{"construct-error", fmt.Sprintf("mycoria.New fails for a valid relay-only configuration %+v: %v", desc, err)})
		return
	}
	l.in, l.phase = in, "constructed"
	group := []string{"storage", "state"}
	if in.TunDevice() != nil {
		group = append(group, "tun")
	}
	if in.NetStack() != nil {
		group = append(group, "netstack")
	}
	if in.API() != nil {
		group = append(group, "api")
	}
	if in.DNS() != nil {
		group = append(group, "dns")
	}
	group = append(group, "peering", "switch", "router")
	ev["group"] = group
	s.events = append(s.events, ev)
	s.insts[name] = l
}

func firstLines(s string, n int) string {
	l := strings.Split(s, "\n")
	if len(l) > n {
		l = l[:n]
	}
	return strings.Join(l, "\n")
}

func (s *scenario) start(name string) {
	l := s.insts[name]
	if l == nil || l.phase != "constructed" {
		return
	}
	var err error
	p, pv, stack := vf.NoPanic(func() { err = l.in.Start() })
	s.macro = append(s.macro, "start("+name+")")
	if p {
		s.bad = append(s.bad, badThing{"start-panic", fmt.Sprintf("Start panics: %v\n%s", pv, firstLines(stack, 14))})
		l.phase = "stopped"
		return
	}
	l.started = time.Now()
	s.moduleEvents(name, l, "started", "startmodule")
	if err != nil {
		s.bad = append(s.bad, badThing{"start-error", fmt.Sprintf("Start fails for %+v: %v", l.desc, err)})
		s.events = append(s.events, map[string]any{"ev": "started", "inst": name, "ok": false, "workers": s.workerCounts(l)})
		l.phase = "stopped"
		return
	}
	l.phase = "running"
	// a worker counts from the moment its goroutine runs: give the scheduler a moment
	w := s.workerCounts(l)
	for deadline := time.Now().Add(3 * time.Second); time.Now().Before(deadline); w = s.workerCounts(l) {
		if w[1] > 0 && w[6] > 0 && w[7] > 0 && w[8] > 0 {
			break
		}
		time.Sleep(2 * time.Millisecond)
	}
	s.events = append(s.events, map[string]any{"ev": "started", "inst": name, "ok": true, "workers": w})
	s.c.Eval(1)
}

func (s *scenario) stop(name string) {
	l := s.insts[name]
	if l == nil || l.phase != "running" {
		return
	}
	s.notePeer()
	s.events = append(s.events, map[string]any{"ev": "stoprequest", "inst": name})
	s.macro = append(s.macro, "stop("+name+")")
	var ok bool
	t0 := time.Now()
	p, pv, stack := vf.NoPanic(func() { ok = l.in.Stop() })
	if p {
		s.bad = append(s.bad, badThing{"stop-panic", fmt.Sprintf("Stop panics: %v\n%s", pv, firstLines(stack, 14))})
	}
	s.moduleEvents(name, l, "stopped", "stopmodule")
	w := s.workerCounts(l)
	// a worker counts from the moment its goroutine runs (mgr.Go starts the goroutine, the goroutine registers
	// itself): one that was spawned just before Stop and is scheduled only after Stop has returned registers, finds
	// its context cancelled / its listener closed and leaves at once. On a loaded host the count read right after
	// Stop sees it. Same allowance as after Start: give the scheduler a moment; a worker that is really left running
	// is still there afterwards. Noted in the evidence.
	if ok && !p {
		late := false
		for deadline := time.Now().Add(3 * time.Second); time.Now().Before(deadline); w = s.workerCounts(l) {
			zero := true
			for _, n := range w {
				zero = zero && n == 0
			}
			if zero {
				break
			}
			late = true
			time.Sleep(5 * time.Millisecond)
		}
		if late {
			lateWorkers.Add(1)
		}
	}
	s.events = append(s.events, map[string]any{"ev": "stopped", "inst": name, "ok": ok && !p, "workers": w})
	if !ok {
		s.bad = append(s.bad, badThing{"stop-not-ok", fmt.Sprintf("Stop returned false after %v (workers per slot %v, config %+v)", time.Since(t0).Round(time.Millisecond), w, l.desc)})
	}
	l.phase = "stopped"
	s.linked = false
	if l.desc.State == "json" {
		// the state file must be loadable again (ties in with C18)
		_ = os.Remove(l.in.Config().System.StatePath)
	}
	s.c.Eval(1)
}

func (s *scenario) peer() {
	// the connect manager retries every second for 10 s and every 5 s for a minute after it lost its last link
	// (or started), then once a minute
	limit := 25 * time.Second
	if s.fixed {
		limit = 75 * time.Second
	}
	deadline := time.Now().Add(limit)
	for !s.bothLinked() && time.Now().Before(deadline) {
		time.Sleep(20 * time.Millisecond)
	}
	if !s.bothLinked() {
		a, b := s.insts["A"], s.insts["B"]
		s.bad = append(s.bad, badThing{"no-peering", fmt.Sprintf("two running relay-only routers did not peer over loopback within %v (fixed ports: %v; A %+v, B %+v)", limit, s.fixed, a.desc, b.desc)})
		return
	}
	s.notePeer()
	s.c.Eval(1)
	s.answers("A", "B")
	s.answers("B", "A")
	for _, n := range []string{"A", "B"} {
		s.cleanerTick(n)
	}
}

// answers: two peered routers RUN - a request of one to the other (the keep-alive of the link is such a request) is
// answered. Three tries of 2 s each: a router may drop a frame while all its handlers are busy.
func (s *scenario) answers(from, to string) {
	a, b := s.insts[from], s.insts[to]
	if a == nil || b == nil || a.phase != "running" || b.phase != "running" {
		return
	}
	for try := 0; try < 3; try++ {
		if !s.bothLinked() {
			return // the link went away again (the other side of a double connection): nothing to ask over
		}
		notify, _, err := a.in.Router().PingPong.Send(b.in.Identity().IP, true, 0)
		if err != nil {
			time.Sleep(50 * time.Millisecond)
			continue
		}
		select {
		case <-notify:
			s.c.Eval(1)
			s.macro = append(s.macro, "answered("+from+"->"+to+")")
			return
		case <-time.After(2 * time.Second):
		}
	}
	if s.bothLinked() {
		s.bad = append(s.bad, badThing{"peered-but-deaf", fmt.Sprintf("instance %s is linked to %s and gets no answer to its requests (3 tries, 2 s each): router workers per slot %v / %v", from, to, s.workerCounts(a), s.workerCounts(b))})
	}
}

// cleanerTick: a running router whose request to a router that does not exist is never answered; the request's 30 s
// run out (guarded hook) and the router's "clean ping handlers" worker has its once-a-minute tick (guarded hook: the
// function the worker calls). The tick must come back - a wedged cleaner is a worker that never stops.
func (s *scenario) cleanerTick(name string) {
	l := s.insts[name]
	if l == nil || l.phase != "running" || l.in == nil {
		return
	}
	r := l.in.Router()
	absent := mesh.Identities(8)[7].IP
	_, _, _ = r.PingPong.Send(absent, false, 0)
	if r.PingPong.VerifExpirePongs() == 0 {
		return // the request could not be sent (no route yet): nothing to clean
	}
	done := make(chan struct{})
	go func() {
		_ = world.WorkerCtx(func(w *mgr.WorkerCtx) { r.VerifCleanPingHandlers(w) })
		close(done)
	}()
	select {
	case <-done:
		s.c.Eval(1)
		s.macro = append(s.macro, "cleaner-tick("+name+")")
	case <-time.After(5 * time.Second):
		// reported at once: stopping a router with a wedged worker takes a minute per module
		s.c.Violation("cleaner-wedged", fmt.Sprintf("instance %s: the tick of the router's ping handler cleaner did not come back within 5 s after an unanswered request had run out [scenario: %s]", name, strings.Join(s.macro, "; ")), map[string]any{"macro": s.macro}, nil)
		s.c.Fatal("a router worker is wedged for good: the remaining scenarios would each wait a minute per module to stop - ending the run with what was found")
		s.bad = append(s.bad, badThing{"cleaner-wedged", fmt.Sprintf("instance %s: the tick of the router's ping handler cleaner did not come back within 5 s after an unanswered request had run out: the worker never stops again (and whoever sends the next request waits with it)", name)})
	}
}

func (s *scenario) run(walk []act) {
	for pos, a := range walk {
		s.notePeer()
		switch a.Name {
		case "construct":
			if old := s.insts[a.Inst]; old != nil && old.phase != "stopped" {
				continue // (cannot happen: the model constructs only after a stop)
			}
			s.construct(a.Inst, a.API, walk, pos)
		case "startmodule":
			s.start(a.Inst)
		case "peer":
			if s.insts["A"] != nil && s.insts["B"] != nil && s.insts["A"].phase == "running" && s.insts["B"].phase == "running" {
				if s.insts["A"].desc.Connect || s.insts["B"].desc.Connect {
					s.peer()
				}
			}
		case "stoprequest":
			s.stop(a.Inst)
		case "pause":
			time.Sleep(400 * time.Millisecond)
		}
	}
	// wind down
	for _, n := range []string{"A", "B"} {
		if l := s.insts[n]; l != nil {
			if l.phase == "constructed" {
				s.start(n)
			}
			s.stop(n)
		}
	}
	s.events = append(s.events, map[string]any{"ev": "reset"})
}

func main() {
	vf.GuardFatal = true
	vf.Main("C20", "model_checking", run)
}

func run(c *vf.Ctx) {
	c.Rule("M: TLC exhaustive on Lifecycle: 2 instances, tun on/off x API listener yes/no, module-level interleaving of start/stop of both, worker churn, peering, start failures; liveness StopCompletes for one instance under fairness; 2 negative controls. R: TLC simulation walks over 2 instances x 3 cycles, executed with real mycoria.New/Start/Stop on generated relay-only configurations (universe/secret, lite, stub, isolate, 0-2 services, 0-2 friends, memory or JSON state, API listener, 1-2 listeners, connect) peering over loopback TCP; path scenarios: the connecting router reaches the other through a loopback forwarder that holds new connections (0 / 3 / 12 / 25 s), trickles, closes the first or all connections - over a path that forwards the routers must peer (late), both stop with success, no goroutine of the repository is left. T: per-module started/stopped records, worker counts and results judged by TLC. distinct = distinct (macro sequence, configuration) pairs")
	c.Assume("the tun device cannot be created in the sandbox: only tun-disabled configurations are executed (the model also covers tun-enabled slot patterns)", "start failures are modelled but cannot be provoked in the real router with free ports")

	// ---- M
	for _, m := range []struct {
		cfg     string
		want    string
		workers int
	}{{"Lifecycle_MC.cfg", "", 8}, {"Lifecycle_MC2.cfg", "", 8}, {"Lifecycle_Live.cfg", "", 4}, {"Lifecycle_Pinned.cfg", "ConstructOK", 1}, {"Lifecycle_Stuck.cfg", "NoTimeout", 1}} {
		res, err := c.TLC("Lifecycle", m.cfg, vf.TLCOpts{Workers: m.workers, Timeout: 10 * time.Minute})
		if err != nil {
			c.Fatal("M %s: %v", m.cfg, err)
		}
		c.AddModel(res.Distinct, res.Generated)
		if res.Violated != m.want {
			c.Broken("M %s: expected violated=%q, TLC says %q", m.cfg, m.want, res.Violated)
		}
	}

	// ---- walks
	nWalks := c.Pick(16, 96)
	walkBase := filepath.Join(c.Work, "walk")
	if _, err := c.TLC("Lifecycle", "Lifecycle_Sim.cfg", vf.TLCOpts{Workers: 1, Simulate: fmt.Sprintf("file=%s,num=%d", walkBase, nWalks), Depth: 90, Seed: c.Seed, Timeout: 5 * time.Minute}); err != nil {
		c.Fatal("simulation: %v", err)
	}
	files, _ := filepath.Glob(walkBase + "_*")
	sort.Strings(files)
	var walks [][]act
	for _, f := range files {
		w, err := parseWalk(f)
		if err != nil || len(w) == 0 {
			c.Fatal("walk %s: %v", f, err)
		}
		walks = append(walks, w)
	}
	if len(walks) == 0 {
		c.Fatal("no simulation walks")
	}
	// two hand-shaped walks the random ones may miss: both up, peer, stop in both orders
	full := func(first, second string) []act {
		var w []act
		for cyc := 0; cyc < 2; cyc++ {
			w = append(w, act{Name: "construct", Inst: "A", API: cyc == 0}, act{Name: "construct", Inst: "B", API: cyc == 1},
				act{Name: "startmodule", Inst: "B"}, act{Name: "startmodule", Inst: "A"}, act{Name: "peer", A: "A", B: "B"},
				act{Name: "stoprequest", Inst: first}, act{Name: "stoprequest", Inst: second})
		}
		return w
	}
	walks = append(walks, full("A", "B"), full("B", "A"))
	// one router is restarted from the same configuration (same listen port) while the other keeps running and
	// has to find it again: the listener restarts, then the connector
	restart := func(who string) []act {
		other := map[string]string{"A": "B", "B": "A"}[who]
		return []act{{Name: "construct", Inst: "A", API: false}, {Name: "construct", Inst: "B", API: true}, {Name: "startmodule", Inst: "A"}, {Name: "startmodule", Inst: "B"},
			{Name: "peer", A: "A", B: "B"}, {Name: "stoprequest", Inst: who}, {Name: "construct", Inst: who, API: false}, {Name: "startmodule", Inst: who}, {Name: "peer", A: "A", B: "B"},
			{Name: "stoprequest", Inst: other}, {Name: "stoprequest", Inst: who}}
	}
	nRandom := len(walks)
	walks = append(walks, restart("B"), restart("A"))
	// "any universe": one both-up / peer / stop walk per spelling of the universe name, with and without a secret
	uniNames := []string{"verse1", "Lab", "UPPER case", "\u00fcn\u00efverse-\u4e16\u754c", strings.Repeat("x", 64)}
	nBeforeUni := len(walks)
	for range uniNames {
		for k := 0; k < 2; k++ {
			walks = append(walks, []act{{Name: "construct", Inst: "B", API: false}, {Name: "construct", Inst: "A", API: false}, {Name: "startmodule", Inst: "B"}, {Name: "startmodule", Inst: "A"},
				{Name: "peer", A: "A", B: "B"}, {Name: "stoprequest", Inst: "A"}, {Name: "stoprequest", Inst: "B"}})
		}
	}
	c.Logf("M done; %d walks", len(walks))

	runtime.GC()
	time.Sleep(200 * time.Millisecond)
	baseline := runtime.NumGoroutine()
	baseProfile := goroutineProfile()

	stateDir := filepath.Join(c.Work, "state")
	_ = os.MkdirAll(stateDir, 0o755)
	scen := make([]*scenario, len(walks))
	var wg sync.WaitGroup
	sem := make(chan struct{}, 24)
	for i, w := range walks {
		scen[i] = &scenario{c: c, rng: rand.New(rand.NewSource(c.Seed*1000 + int64(i))), dir: stateDir, insts: map[string]*live{}}
		if i%2 == 1 {
			scen[i].universe = uniNames[(i/2)%len(uniNames)]
			scen[i].secret = (i/2/len(uniNames))%2 == 0
		}
		if i >= nBeforeUni {
			scen[i].universe = uniNames[(i-nBeforeUni)/2]
			scen[i].secret = (i-nBeforeUni)%2 == 0
		}
		if (i%3 != 0 || i >= nRandom) && i < nBeforeUni {
			scen[i].fixed = true
			scen[i].fixedPorts = map[string][]int{"A": {freePort()}, "B": {freePort(), freePort()}}
		}
		wg.Add(1)
		go func(s *scenario, w []act) {
			defer wg.Done()
			sem <- struct{}{}
			defer func() { <-sem }()
			t0 := time.Now()
			if p, v, stack := vf.NoPanic(func() { s.run(w) }); p {
				s.bad = append(s.bad, badThing{"driver-or-router-panic", fmt.Sprintf("%v\n%s", v, firstLines(stack, 20))})
			}
			s.took = time.Since(t0)
		}(scen[i], w)
	}
	// the path between the two routers as a dimension: held, slow, closing (slowpath.go); these scenarios mostly
	// wait and run next to the others
	pathScen := startPathScenarios(c, &wg, stateDir, uniNames)
	wg.Wait()
	scen = append(scen, pathScen...)
	var pathNotes []string
	for _, s := range pathScen {
		pathNotes = append(pathNotes, s.pathNote)
	}
	c.Extra("path_scenarios", pathNotes)
	var slowWalk, slowPath time.Duration
	for _, s := range scen {
		if s.pathNote == "" {
			slowWalk = max(slowWalk, s.took)
		} else {
			slowPath = max(slowPath, s.took)
		}
	}
	c.Logf("R: slowest walk scenario %v, slowest path scenario %v (they run side by side)", slowWalk.Round(100*time.Millisecond), slowPath.Round(100*time.Millisecond))
	defer func() { c.Extra("stops_with_a_late_worker", lateWorkers.Load()) }()
	// a host with a single CPU (as far as the Go runtime is concerned): both up, peer, answer, stop
	prevProcs := runtime.GOMAXPROCS(1)
	for k := 0; k < 2; k++ {
		s := &scenario{c: c, rng: rand.New(rand.NewSource(c.Seed*1000 + 900 + int64(k))), dir: stateDir, insts: map[string]*live{}, macro: []string{"one-cpu"}}
		w := []act{{Name: "construct", Inst: "B", API: k == 1}, {Name: "construct", Inst: "A", API: false}, {Name: "startmodule", Inst: "B"}, {Name: "startmodule", Inst: "A"},
			{Name: "peer", A: "A", B: "B"}, {Name: "stoprequest", Inst: "A"}, {Name: "stoprequest", Inst: "B"}}
		if p, v, stack := vf.NoPanic(func() { s.run(w) }); p {
			s.bad = append(s.bad, badThing{"driver-or-router-panic", fmt.Sprintf("%v\n%s", v, firstLines(stack, 20))})
		}
		scen = append(scen, s)
	}
	runtime.GOMAXPROCS(prevProcs)
	// a router whose listen port is held by somebody else: it starts, warns, runs and stops like any other
	for k := 0; k < 2; k++ {
		port := freePort()
		hold, err := net.Listen("tcp", fmt.Sprintf(":%d", port))
		if err != nil {
			c.Broken("listen-port-taken: cannot hold port %d: %v", port, err)
			continue
		}
		s := &scenario{c: c, rng: rand.New(rand.NewSource(c.Seed*1000 + 950 + int64(k))), dir: stateDir, insts: map[string]*live{}, macro: []string{"listen-port-taken"},
			fixed: true, fixedPorts: map[string][]int{"A": {port}, "B": {freePort(), freePort()}}}
		w := []act{{Name: "construct", Inst: "A", API: k == 1}, {Name: "startmodule", Inst: "A"}, {Name: "pause"}, {Name: "stoprequest", Inst: "A"}}
		if p, v, stack := vf.NoPanic(func() { s.run(w) }); p {
			s.bad = append(s.bad, badThing{"driver-or-router-panic", fmt.Sprintf("%v\n%s", v, firstLines(stack, 20))})
		}
		_ = hold.Close()
		scen = append(scen, s)
	}
	c.Logf("R: %d scenarios executed", len(scen))

	var events []any
	var starts []int
	for i, s := range scen {
		starts = append(starts, len(events))
		events = append(events, s.events...)
		c.Distinct(strings.Join(s.macro, ";") + fmt.Sprintf("|%v", s.descs))
		if i < 2 {
			c.Sample(map[string]any{"macro": s.macro, "configs": s.descs})
		}
		for _, b := range s.bad {
			c.Violation(b.key, b.what+" [scenario: "+strings.Join(s.macro, "; ")+"]", map[string]any{"macro": s.macro, "configs": s.descs}, nil)
		}
	}

	// ---- goroutines
	// settled = the count is back at the baseline AND no goroutine with a frame of the repository's packages is there
	// that was not there before (whatever the count says: a goroutine of the driver that ended meanwhile must not
	// hide one of the router that stayed; such a goroutine need not be a worker any manager counts)
	deadline := time.Now().Add(15 * time.Second)
	for (runtime.NumGoroutine() > baseline || len(repoGoroutines(diffProfiles(baseProfile, goroutineProfile()))) > 0) && time.Now().Before(deadline) {
		time.Sleep(100 * time.Millisecond)
	}
	after := runtime.NumGoroutine()
	c.Extra("goroutines_before", baseline)
	c.Extra("goroutines_after", after)
	if leaked := diffProfiles(baseProfile, goroutineProfile()); after > baseline || len(repoGoroutines(leaked)) > 0 {
		if after <= baseline {
			leaked = repoGoroutines(leaked)
		}
		for _, lk := range leaked {
			c.Violation("goroutine-leak/"+lk.top, fmt.Sprintf("%d goroutine(s) left after all instances were stopped (%d before, %d after %d construct/start/stop cycles): %s", lk.n, baseline, after, len(scen), lk.stack), map[string]any{"stack": lk.stack, "count": lk.n}, nil)
		}
		if len(leaked) == 0 {
			c.Logf("goroutine count %d > baseline %d but no new stack shapes", after, baseline)
		}
	}

	// ---- T
	base := 0
	for len(events) > 0 {
		rejectAt, inv, tres, err := c.TraceCheck("Lifecycle_Trace", "Lifecycle_Trace.cfg", events, vf.TLCOpts{Timeout: 10 * time.Minute})
		if err != nil {
			c.Fatal("T: %v", err)
		}
		c.AddModel(tres.Distinct, tres.Generated)
		if rejectAt <= 0 && inv == "" {
			c.AddTraces(len(scen))
			break
		}
		idx := base + rejectAt - 1
		si := sort.Search(len(starts), func(i int) bool { return starts[i] > idx }) - 1
		ev := events[rejectAt-1].(map[string]any)
		what := fmt.Sprintf("event %v of scenario [%s] is not a behaviour of Lifecycle", ev, strings.Join(scen[si].macro, "; "))
		if inv != "" {
			what = fmt.Sprintf("invariant %s fails at event %v of scenario [%s]", inv, ev, strings.Join(scen[si].macro, "; "))
		}
		c.Violation(vf.Key("trace", ev["ev"], inv, ev["module"]), what, map[string]any{"event": ev, "macro": scen[si].macro, "configs": scen[si].descs}, nil)
		nx := len(events)
		for j := rejectAt; j < len(events); j++ {
			if m, ok := events[j].(map[string]any); ok && m["ev"] == "reset" {
				nx = j + 1
				break
			}
		}
		base += nx
		events = events[nx:]
		if c.NViolations() > 6 {
			break
		}
	}
	c.Stage("R", map[string]any{"scenarios": len(scen), "events": len(events)})
}

// ---------- goroutine profiles

type leak struct {
	top, stack string
	n          int
}

func goroutineProfile() map[string]int {
	var buf bytes.Buffer
	_ = pprof.Lookup("goroutine").WriteTo(&buf, 1)
	out := map[string]int{}
	for _, blk := range strings.Split(buf.String(), "\n\n") {
		lines := strings.Split(strings.TrimSpace(blk), "\n")
		// the profile's header line sits on top of its first block - the block of the MOST numerous stack
		if len(lines) > 0 && strings.HasPrefix(lines[0], "goroutine profile:") {
			lines = lines[1:]
		}
		if len(lines) < 2 || !strings.Contains(lines[0], " @ ") {
			continue
		}
		if strings.Contains(blk, "main.goroutineProfile") {
			continue // the goroutine that takes the profile: its stack differs from call site to call site
		}
		var n int
		_, _ = fmt.Sscanf(lines[0], "%d @", &n)
		var fn []string
		for _, l := range lines[1:] {
			f := strings.Fields(strings.TrimPrefix(l, "#"))
			if len(f) >= 2 {
				fn = append(fn, f[1])
			}
		}
		out[strings.Join(fn, " < ")] += n
	}
	return out
}

func diffProfiles(before, after map[string]int) []leak {
	var out []leak
	for k, n := range after {
		if n > before[k] {
			top := "unknown"
			for _, f := range strings.Split(k, " < ") {
				if strings.Contains(f, "mycoria/") {
					top = f
					if i := strings.LastIndex(top, "+0x"); i > 0 {
						top = top[:i] // without the offset: one key per function
					}
					break
				}
			}
			if strings.Contains(k, "verifharness/c20") && !strings.Contains(k, "mycoria/mycoria") {
				continue
			}
			out = append(out, leak{top: top, stack: k, n: n - before[k]})
		}
	}
	sort.Slice(out, func(i, j int) bool { return out[i].top < out[j].top })
	return out
}
