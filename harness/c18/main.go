// C18 - the stored state survives crashes and round-trips. Stage T (code ->
// spec): a helper process built from /repo runs the REAL
// JSONFileStorage.Stop() under strace; the observed system calls on the
// state directory become the PROGRAM of the StateFile specification. Stage M:
// TLC explores that program with a process kill between any two calls and
// inside every write and checks Recoverable / SaveCompletes (the candidate
// designs of StateFile_MC are checked too, two of them as negative controls).
// Stage R (spec -> code): every kill state of TLC's graph is materialised as
// a real directory - for kills inside a write with EVERY byte offset of the
// class (thorough) or a sample (quick) - and loaded with the real
// NewJSONFileStorage; in addition the helper is really killed by strace at
// each of its system calls. Round trip: generated states (0..200 routers and
// mappings, unicode / empty / long values) are saved, reloaded and compared.
// Stage E (environments): which calls the shutdown write consists of depends on
// what the kernel lets the router do in the state directory. The same T / M / R
// chain is run for the real Stop() in environments in which the temporary file
// cannot be created (its name is taken by a directory or a dead symbolic link;
// the router's user owns the state file but may not create files next to it)
// or cannot be renamed over the state file (sticky directory of another user).
// A save that fails as a whole and leaves the previous state complete satisfies
// the property; a shutdown that then writes in place does not.
package main

import (
	"bufio"
	"bytes"
	"crypto/ed25519"
	"encoding/json"
	"fmt"
	"math/rand"
	"net"
	"net/netip"
	"os"
	"os/exec"
	"path/filepath"
	"regexp"
	"sort"
	"strconv"
	"strings"
	"syscall"
	"time"

	"github.com/mycoria/crop"
	mycoria "github.com/mycoria/mycoria"
	"github.com/mycoria/mycoria/config"
	"github.com/mycoria/mycoria/m"
	"github.com/mycoria/mycoria/storage"

	"verifharness/internal/mesh"
	"verifharness/internal/vf"
)

// ---------- content generation

type routerSpec struct {
	IP        string        `json:"ip"`
	Hash      string        `json:"hash"`
	Type      string        `json:"type"`
	Key       []byte        `json:"key"`
	Easing    uint64        `json:"easing"`
	Info      *m.RouterInfo `json:"info"`
	Universe  string        `json:"universe"`
	Offline   bool          `json:"offline"`
	CreatedAt time.Time     `json:"created"`
	UpdatedAt time.Time     `json:"updated"`
	UsedAt    *time.Time    `json:"used"`
}

type mappingSpec struct {
	Domain string `json:"domain"`
	Router string `json:"router"`
}

type content struct {
	Routers  []routerSpec  `json:"routers"`
	Mappings []mappingSpec `json:"mappings"`
}

var oddStrings = []string{"", "a", "ünïcödé", "日本語のテキスト", "emoji 🍄🕸", "quote\"back\\slash", "<script>&amp;</script>", "line\nbreak\ttab", "nul\x00byte", "   separators", "ß", " leading and trailing ",
	// text that LOOKS like an escape sequence of the stored format: it must come back as the same text
	"amp \\u0026 lt \\u003c gt \\u003e", "\\u0000\\n\\t\\\"", "{\"k\":[1,2]}", "\u2028\u2029 separators", "back\\\\slash\\", "]]}}"}

func genString(r *rand.Rand) string {
	switch r.Intn(10) {
	case 0:
		return strings.Repeat(oddStrings[r.Intn(len(oddStrings))]+"x", 1+r.Intn(4000)) // long
	case 1:
		return ""
	default:
		return oddStrings[r.Intn(len(oddStrings))] + strconv.Itoa(r.Intn(1000))
	}
}

func genTime(r *rand.Rand) time.Time {
	switch r.Intn(8) {
	case 0:
		return time.Time{}
	case 1:
		return time.Unix(0, 0).UTC()
	case 2:
		return time.Date(9999, 12, 31, 23, 59, 59, 999999999, time.UTC)
	case 3:
		return time.Now() // with monotonic reading and local zone
	case 4:
		return time.Unix(r.Int63n(4e9), r.Int63n(1e9)).In(time.FixedZone("odd", 5*3600+30*60))
	default:
		return time.Unix(r.Int63n(4e9), r.Int63n(1e9)).UTC()
	}
}

func genContent(r *rand.Rand, nr, nm int) content {
	var c content
	for i := 0; i < nr; i++ {
		ip := make([]byte, 16)
		r.Read(ip)
		ip[0] = 0xfd
		key := make([]byte, ed25519.PublicKeySize)
		r.Read(key)
		if r.Intn(10) == 0 {
			key = nil
		}
		rs := routerSpec{
			IP: netip.AddrFrom16([16]byte(ip)).String(), Hash: []string{"BLAKE3", "SHA2_256", "", genString(r)}[r.Intn(4)],
			Type: []string{"Ed25519", "", genString(r)}[r.Intn(3)], Key: key, Easing: r.Uint64() >> uint(r.Intn(64)),
			Universe: genString(r), Offline: r.Intn(2) == 0, CreatedAt: genTime(r), UpdatedAt: genTime(r),
		}
		if r.Intn(3) > 0 {
			t := genTime(r)
			rs.UsedAt = &t
		}
		switch r.Intn(4) {
		case 0:
		case 1:
			rs.Info = &m.RouterInfo{}
		default:
			info := &m.RouterInfo{Version: genString(r)}
			for k := r.Intn(4); k > 0; k-- {
				info.Listeners = append(info.Listeners, genString(r))
			}
			for k := r.Intn(3); k > 0; k-- {
				info.IANA = append(info.IANA, genString(r))
			}
			for k := r.Intn(4); k > 0; k-- {
				info.PublicServices = append(info.PublicServices, m.RouterService{Name: genString(r), Description: genString(r), Domain: genString(r), URL: genString(r)})
			}
			rs.Info = info
		}
		c.Routers = append(c.Routers, rs)
	}
	for i := 0; i < nm; i++ {
		ip := make([]byte, 16)
		r.Read(ip)
		ip[0] = 0xfd
		d := genString(r) + fmt.Sprintf("-%d.myco", i)
		if i == 0 && r.Intn(2) == 0 {
			d = ""
		}
		c.Mappings = append(c.Mappings, mappingSpec{Domain: d, Router: netip.AddrFrom16([16]byte(ip)).String()})
	}
	return c
}

// apply stores the content through the storage API.
func apply(s *storage.JSONFileStorage, c content) error {
	for _, rs := range c.Routers {
		ip, err := netip.ParseAddr(rs.IP)
		if err != nil {
			return err
		}
		sr := &storage.StoredRouter{
			Address:    &m.PublicAddress{IP: ip, Hash: crop.Hash(rs.Hash), Type: crop.KeyPairType(rs.Type), PublicKey: rs.Key, Easing: rs.Easing},
			PublicInfo: rs.Info, Universe: rs.Universe, Offline: rs.Offline, CreatedAt: rs.CreatedAt, UsedAt: rs.UsedAt,
		}
		if err := s.SaveRouter(sr); err != nil {
			return err
		}
		sr.UpdatedAt = rs.UpdatedAt // SaveRouter stamps the time; the stored object is ours
	}
	for _, ms := range c.Mappings {
		if err := s.SaveMapping(ms.Domain, netip.MustParseAddr(ms.Router)); err != nil {
			return err
		}
	}
	return nil
}

// snapshot is a canonical, comparable rendering of everything the storage holds.
type snapRouter struct {
	IP, Hash, Type, Key string
	Easing              uint64
	HasInfo             bool
	Info                string
	Universe            string
	Offline             bool
	Created, Updated    int64
	CreatedS, UpdatedS  int64
	Used                string
}

func tkey(t time.Time) (int64, int64) { return t.Unix(), int64(t.Nanosecond()) }

func snapshot(s *storage.JSONFileStorage) (string, error) {
	q := storage.NewRouterQuery(nil, nil, 100000) // (the query preallocates max entries)
	if err := s.QueryRouters(q); err != nil {
		return "", err
	}
	var rs []snapRouter
	for _, r := range q.Result() {
		sr := snapRouter{Universe: r.Universe, Offline: r.Offline}
		if r.Address != nil {
			sr.IP, sr.Hash, sr.Type, sr.Key, sr.Easing = r.Address.IP.String(), string(r.Address.Hash), string(r.Address.Type), fmt.Sprintf("%x", []byte(r.Address.PublicKey)), r.Address.Easing
		} else {
			sr.IP = "nil-address"
		}
		if r.PublicInfo != nil {
			sr.HasInfo = true
			i := *r.PublicInfo
			norm := func(x []string) []string {
				if len(x) == 0 {
					return nil
				}
				return x
			}
			i.Listeners, i.IANA = norm(i.Listeners), norm(i.IANA)
			if len(i.PublicServices) == 0 {
				i.PublicServices = nil
			}
			b, _ := json.Marshal(i)
			sr.Info = string(b)
		}
		sr.CreatedS, sr.Created = tkey(r.CreatedAt)
		sr.UpdatedS, sr.Updated = tkey(r.UpdatedAt)
		if r.UsedAt != nil {
			a, b := tkey(*r.UsedAt)
			sr.Used = fmt.Sprintf("%d.%d", a, b)
		}
		rs = append(rs, sr)
	}
	sort.Slice(rs, func(i, j int) bool { return rs[i].IP < rs[j].IP })
	ms, err := s.QueryMappings("")
	if err != nil {
		return "", err
	}
	type snapMapping struct {
		Domain, Router string
		S, N           int64
	}
	var sm []snapMapping
	for _, mp := range ms {
		a, b := tkey(mp.Created)
		sm = append(sm, snapMapping{mp.Domain, mp.Router.String(), a, b})
	}
	b, _ := json.Marshal(map[string]any{"routers": rs, "mappings": sm})
	return string(b), nil
}

func loadSnapshot(path string) (snap string, err error) {
	var s *storage.JSONFileStorage
	if p, v, _ := vf.NoPanic(func() { s, err = storage.NewJSONFileStorage(path) }); p {
		return "", fmt.Errorf("panic: %v", v)
	}
	if err != nil {
		return "", err
	}
	return snapshot(s)
}

// ---------- helper process (runs under strace)

func helper() {
	mode := os.Getenv("VERIF_C18_HELPER")
	target := os.Args[1]
	switch mode {
	case "instance":
		// a whole router (tun disabled) on the state path: constructed, optionally started, then the process is killed
		// before it ever saves; os.Args[2] = "new" | "start"
		in, err := newInstance(target)
		if err != nil {
			fmt.Fprintln(os.Stderr, "construct:", err)
			os.Exit(4)
		}
		if os.Args[2] == "start" {
			if err := in.Start(); err != nil {
				fmt.Fprintln(os.Stderr, "start:", err)
				os.Exit(5)
			}
			time.Sleep(50 * time.Millisecond)
		}
		_ = syscall.Kill(os.Getpid(), syscall.SIGKILL)
		time.Sleep(time.Second)
		os.Exit(6)
	case "save":
		data, err := os.ReadFile(os.Args[2])
		if err != nil {
			fmt.Fprintln(os.Stderr, err)
			os.Exit(3)
		}
		var c content
		if err := json.Unmarshal(data, &c); err != nil {
			fmt.Fprintln(os.Stderr, err)
			os.Exit(3)
		}
		s, err := storage.NewJSONFileStorage(target)
		if err != nil {
			fmt.Fprintln(os.Stderr, "load:", err)
			os.Exit(4)
		}
		// the new state replaces the loaded one
		q := storage.NewRouterQuery(nil, nil, 100000)
		_ = s.QueryRouters(q)
		for _, r := range q.Result() {
			_ = s.DeleteRouter(r.Address.IP)
		}
		ms, _ := s.QueryMappings("")
		for _, mp := range ms {
			_ = s.DeleteMapping(mp.Domain)
		}
		if err := apply(s, c); err != nil {
			fmt.Fprintln(os.Stderr, err)
			os.Exit(3)
		}
		if sh := os.Getenv("VERIF_C18_SHADOW"); sh != "" {
			// what this process is about to save, serialised the way Stop() does it, outside the state directory: the
			// driver needs the bytes also when the environment makes the save fail as a whole
			f := storage.JSONStorageFormat{Routers: map[netip.Addr]*storage.StoredRouter{}, Mappings: map[string]storage.StoredMapping{}}
			q := storage.NewRouterQuery(nil, nil, 100000)
			_ = s.QueryRouters(q)
			for _, r := range q.Result() {
				f.Routers[r.Address.IP] = r
			}
			ms, _ := s.QueryMappings("")
			for _, mp := range ms {
				f.Mappings[mp.Domain] = mp
			}
			b, err := json.Marshal(&f)
			if err == nil {
				err = os.WriteFile(sh, b, 0o644)
			}
			if err != nil {
				fmt.Fprintln(os.Stderr, "shadow:", err)
				os.Exit(3)
			}
		}
		if u := os.Getenv("VERIF_C18_UID"); u != "" {
			// the router runs as an unprivileged user from here on
			uid, err := strconv.Atoi(u)
			if err == nil {
				err = syscall.Setgroups([]int{uid})
			}
			if err == nil {
				err = syscall.Setgid(uid)
			}
			if err == nil {
				err = syscall.Setuid(uid)
			}
			if err != nil || os.Geteuid() != uid {
				fmt.Fprintln(os.Stderr, "setuid:", err)
				os.Exit(3)
			}
		}
		_, _ = os.Stderr.WriteString("C18-MARK-STOP\n")
		err = s.Stop()
		_, _ = os.Stderr.WriteString("C18-MARK-DONE\n")
		if err != nil {
			fmt.Fprintln(os.Stderr, "stop:", err)
			os.Exit(5)
		}
	}
	os.Exit(0)
}

// newInstance constructs a relay-only router whose state lives in the given file.
func newInstance(statePath string) (*mycoria.Instance, error) { return newInstanceIn(statePath, "") }

// newInstanceIn: the same router, configured for the given universe.
func newInstanceIn(statePath, universe string) (*mycoria.Instance, error) {
	st := config.Store{}
	st.Router.Universe = universe
	st.Router.Address = mesh.Identities(1)[0].Store()
	st.System.DisableTun = true
	st.System.StatePath = statePath
	ln, err := net.Listen("tcp", "127.0.0.1:0")
	if err != nil {
		return nil, err
	}
	port := ln.Addr().(*net.TCPAddr).Port
	_ = ln.Close()
	st.Router.Listen = []string{fmt.Sprintf("tcp:%d", port)}
	cfg, err := st.Parse()
	if err != nil {
		return nil, err
	}
	return mycoria.New("v0.0.0-verif", cfg)
}

// instanceGenerations: "the router starts" is a claim about the whole router, not about the storage package alone. A
// router is constructed (and started) on a state path by mycoria.New in a child process that is killed before it
// ever saves - first on a path where no state file exists yet, then on the file a completed shutdown left - and the
// next construction on the same path must succeed.
func instanceGenerations(c *vf.Ctx) {
	exe, err := os.Executable()
	if err != nil {
		c.Fatal("instance: %v", err)
	}
	n := 0
	for _, first := range []string{"missing", "saved"} {
		for _, kill := range []string{"new", "start"} {
			dir := filepath.Join(c.Work, fmt.Sprintf("inst-%s-%s", first, kill))
			_ = os.MkdirAll(dir, 0o755)
			path := filepath.Join(dir, "state.json")
			if first == "saved" {
				in, err := newInstance(path)
				if err != nil {
					c.Fatal("instance (first generation): %v", err)
				}
				if err := in.Start(); err != nil {
					c.Fatal("instance start: %v", err)
				}
				if !in.Stop() {
					c.Fatal("instance stop failed")
				}
			}
			cmd := exec.Command(exe, path, kill)
			cmd.Env = append(os.Environ(), "VERIF_C18_HELPER=instance", "VERIF_CHILD=1")
			out, _ := cmd.CombinedOutput()
			if cmd.ProcessState == nil || cmd.ProcessState.ExitCode() != -1 {
				c.Broken("instance helper (%s/%s) was not killed as planned: %s", first, kill, tailStr(string(out), 300))
				continue
			}
			c.Eval(1)
			n++
			var in2 *mycoria.Instance
			p, pv, _ := vf.NoPanic(func() { in2, err = newInstance(path) })
			fi, _ := os.Stat(path)
			size := int64(-1)
			if fi != nil {
				size = fi.Size()
			}
			if p || err != nil {
				c.Violation(vf.Key("instance-refuses-to-start", first, kill), fmt.Sprintf("a router was constructed on a state path (state file before: %s), killed %s before it ever saved; the next start on that path is refused: %v %v (state file now: %d bytes)", first, map[string]string{"new": "right after its construction", "start": "after it was started"}[kill], err, pv, size),
					map[string]any{"first": first, "kill": kill, "error": fmt.Sprint(err), "size": size}, nil)
				continue
			}
			if in2 != nil {
				if err := in2.Start(); err == nil {
					_ = in2.Stop()
				}
			}
			c.Distinct(fmt.Sprintf("instance|%s|%s", first, kill))
		}
	}
	// round trip through whole routers: what one router stored (two routers it learnt, in the default universe) is
	// there, field for field, after another start / stop of the same router - also when its configuration has
	// changed in between (another universe): starting and stopping a router is no reason to rewrite what it stored
	for _, uni := range []string{"", "lab"} {
		dir := filepath.Join(c.Work, "inst-roundtrip-"+uni)
		_ = os.MkdirAll(dir, 0o755)
		path := filepath.Join(dir, "state.json")
		in1, err := newInstanceIn(path, "")
		if err != nil {
			c.Fatal("instance round trip: %v", err)
		}
		if err := in1.Start(); err != nil {
			c.Fatal("instance start: %v", err)
		}
		for _, id := range mesh.Identities(4)[1:3] {
			pa := id.PublicAddress
			_ = in1.State().AddRouter(&pa)
		}
		if !in1.Stop() {
			c.Fatal("instance stop failed")
		}
		before, _ := os.ReadFile(path)
		in2, err := newInstanceIn(path, uni)
		if err != nil {
			c.Violation(vf.Key("instance-refuses-to-start", "roundtrip", uni), fmt.Sprintf("a router configured for universe %q refuses to start on the state its previous run stored: %v", uni, err), nil, nil)
			continue
		}
		if err := in2.Start(); err == nil {
			_ = in2.Stop()
		}
		after, _ := os.ReadFile(path)
		c.Eval(1)
		var b1, b2 struct {
			Routers map[string]map[string]any `json:"routers"`
		}
		_ = json.Unmarshal(before, &b1)
		_ = json.Unmarshal(after, &b2)
		strip := func(rs map[string]map[string]any) string { // usedAt is the one field a start may touch (sessions are looked up)
			var out []string
			for ip, r := range rs {
				delete(r, "usedAt")
				x, _ := json.Marshal(r)
				out = append(out, ip+" "+string(x))
			}
			sort.Strings(out)
			return strings.Join(out, "\n")
		}
		if len(b1.Routers) < 2 {
			c.Broken("instance round trip: the first run stored %d routers", len(b1.Routers))
			continue
		}
		if s1, s2 := strip(b1.Routers), strip(b2.Routers); s1 != s2 {
			c.Violation(vf.Key("instance-roundtrip", uni), fmt.Sprintf("an idle start / stop of the router (configured for universe %q) changed the routers it had stored:\nbefore: %s\nafter:  %s", uni, tailStr(s1, 700), tailStr(s2, 700)),
				map[string]any{"universe": uni, "before": s1, "after": s2}, nil)
		}
		c.Distinct("instance-roundtrip|" + uni)
	}
	c.Stage("R-instance", map[string]any{"kills": n, "roundtrips": 2})
}

func tailStr(s string, n int) string {
	if len(s) > n {
		return s[len(s)-n:]
	}
	return s
}

// ---------- strace

type sysc struct {
	Op    string `json:"op"`
	Name  string `json:"name"`
	Name2 string `json:"name2"`
	Fd    int    `json:"fd"`
	N     int    `json:"n"`
	Trunc bool   `json:"trunc"`
	Creat bool   `json:"creat"`
	raw   string
	kind  string // strace syscall name
	nth   int    // how many calls of this syscall name the process had made before (whole process)
}

var (
	reLine    = regexp.MustCompile(`^(\d+)\s+(\w+)\((.*)\)\s+=\s+(-?\d+|\?)(.*)$`)
	reUnfin   = regexp.MustCompile(`^(\d+)\s+(\w+)\((.*) <unfinished \.\.\.>$`)
	reResumed = regexp.MustCompile(`^(\d+)\s+<\.\.\. (\w+) resumed>(.*)$`)
	reStr     = regexp.MustCompile(`"((?:[^"\\]|\\.)*)"`)
)

const traceSet = "openat,open,creat,write,pwrite64,writev,fsync,fdatasync,rename,renameat,renameat2,unlink,unlinkat,close,ftruncate,truncate,link,linkat"

// helperStderr is what the last helper run wrote to its standard error (the error of a failed Stop() is there).
var helperStderr string

// runStrace runs the helper under strace; inject (optional) is e.g. "write:signal=KILL:when=3".
func runStrace(c *vf.Ctx, dir, target, contentFile, inject string, extraEnv ...string) (lines []string, exit int, err error) {
	logf := filepath.Join(dir, fmt.Sprintf("strace-%d.log", time.Now().UnixNano()))
	args := []string{"-f", "--seccomp-bpf", "-s", "32", "-o", logf, "-e", "trace=" + traceSet}
	if inject != "" {
		args = append(args, "-e", "inject="+inject)
	}
	self, _ := os.Executable()
	args = append(args, self, target, contentFile)
	cmd := exec.Command("strace", args...)
	cmd.Env = append(append(os.Environ(), "VERIF_C18_HELPER=save"), extraEnv...)
	var stderr bytes.Buffer
	cmd.Stderr = &stderr
	runErr := cmd.Run()
	exit = cmd.ProcessState.ExitCode()
	helperStderr = stderr.String()
	data, rerr := os.ReadFile(logf)
	_ = os.Remove(logf)
	if rerr != nil {
		return nil, exit, fmt.Errorf("strace produced no log (%v; %v; %s)", runErr, rerr, stderr.String())
	}
	sc := bufio.NewScanner(bytes.NewReader(data))
	sc.Buffer(make([]byte, 1<<20), 1<<24)
	pending := map[string]string{}
	for sc.Scan() {
		l := sc.Text()
		if mm := reUnfin.FindStringSubmatch(l); mm != nil {
			pending[mm[1]] = mm[1] + " " + mm[2] + "(" + mm[3]
			continue
		}
		if mm := reResumed.FindStringSubmatch(l); mm != nil {
			if p, ok := pending[mm[1]]; ok {
				delete(pending, mm[1])
				l = p + strings.TrimLeft(mm[3], " ")
			}
		}
		lines = append(lines, l)
	}
	return lines, exit, nil
}

// program extracts the calls Stop() made on the state directory.
// failed lists the calls of Stop() on the state directory that the kernel refused (they are not part of the program:
// they change nothing; they tell how the environment made itself felt).
func program(lines []string, dir, target string) (prog []sysc, counts map[string]int, failed []string, err error) {
	counts = map[string]int{}
	inStop := false
	reRet := regexp.MustCompile(`\)\s+= (-1 \w+)`)
	fail := func(call, what, l string) {
		if inStop {
			e := "failed"
			if mm := reRet.FindStringSubmatch(l); mm != nil {
				e = mm[1]
			}
			failed = append(failed, fmt.Sprintf("%s(%s) = %s", call, what, e))
		}
	}
	fdPath := map[int]string{}
	name := func(p string) string {
		if p == target {
			return "state"
		}
		if filepath.Dir(p) == dir {
			return "tmp:" + filepath.Base(p)
		}
		return ""
	}
	for _, l := range lines {
		mm := reLine.FindStringSubmatch(l)
		if mm == nil {
			continue
		}
		call, argstr, ret := mm[2], mm[3], mm[4]
		nth := counts[call]
		counts[call]++
		if call == "write" && strings.Contains(argstr, "C18-MARK-STOP") {
			inStop = true
			continue
		}
		if call == "write" && strings.Contains(argstr, "C18-MARK-DONE") {
			inStop = false
			continue
		}
		strs := reStr.FindAllStringSubmatch(argstr, -1)
		retN, _ := strconv.Atoi(ret)
		s := sysc{raw: l, kind: call, nth: nth}
		switch call {
		case "openat", "open", "creat":
			if len(strs) == 0 {
				continue
			}
			nm := name(strs[0][1])
			if nm == "" || strings.Contains(argstr, "O_DIRECTORY") {
				continue
			}
			if retN >= 0 {
				fdPath[retN] = nm
			}
			s.Op, s.Name, s.Fd = "open", nm, retN
			s.Trunc = strings.Contains(argstr, "O_TRUNC") || call == "creat"
			s.Creat = strings.Contains(argstr, "O_CREAT") || call == "creat"
			if retN < 0 {
				fail(call, nm, l)
				continue
			}
		case "write", "pwrite64", "writev":
			fd, _ := strconv.Atoi(strings.TrimSpace(strings.SplitN(argstr, ",", 2)[0]))
			if _, ok := fdPath[fd]; !ok {
				continue
			}
			if retN < 0 {
				fail(call, fdPath[fd], l)
				continue
			}
			s.Op, s.Fd, s.N = "write", fd, retN
		case "fsync", "fdatasync":
			fd, _ := strconv.Atoi(strings.TrimSpace(argstr))
			if _, ok := fdPath[fd]; !ok {
				continue
			}
			s.Op, s.Fd = "fsync", fd
		case "close":
			fd, _ := strconv.Atoi(strings.TrimSpace(argstr))
			if _, ok := fdPath[fd]; !ok {
				continue
			}
			delete(fdPath, fd)
			s.Op, s.Fd = "close", fd
		case "rename", "renameat", "renameat2", "link", "linkat":
			if len(strs) < 2 {
				continue
			}
			a, b := name(strs[0][1]), name(strs[1][1])
			if a == "" && b == "" {
				continue
			}
			if retN != 0 {
				fail(call, a+"->"+b, l)
				continue
			}
			if strings.HasPrefix(call, "link") {
				return nil, nil, nil, fmt.Errorf("link() on the state directory is not modelled: %s", l)
			}
			s.Op, s.Name, s.Name2 = "rename", a, b
		case "unlink", "unlinkat":
			if len(strs) == 0 {
				continue
			}
			nm := name(strs[0][1])
			if nm == "" {
				continue
			}
			if retN != 0 {
				fail(call, nm, l)
				continue
			}
			s.Op, s.Name = "unlink", nm
		case "ftruncate", "truncate":
			return nil, nil, nil, fmt.Errorf("truncate call on the state directory is not modelled: %s", l)
		default:
			continue
		}
		if !inStop {
			// calls on the state directory outside Stop() (the initial load) are not part of the program
			continue
		}
		prog = append(prog, s)
	}
	return prog, counts, failed, nil
}

// ---------- materialising a kill state

// materialise replays the first pc-1 calls of prog on a fresh directory that
// holds oldBytes (if any) as the state file, then k bytes of call pc if it is
// a write. The data written is newBytes in order.
func materialise(dir string, prog []sysc, oldBytes, newBytes []byte, pc, k int) error {
	_ = os.RemoveAll(dir)
	if err := os.MkdirAll(dir, 0o755); err != nil {
		return err
	}
	path := func(n string) string {
		if n == "state" {
			return filepath.Join(dir, "state.json")
		}
		return filepath.Join(dir, strings.TrimPrefix(n, "tmp:"))
	}
	if oldBytes != nil {
		if err := os.WriteFile(path("state"), oldBytes, 0o644); err != nil {
			return err
		}
	}
	files := map[int]*os.File{}
	defer func() {
		for _, f := range files {
			_ = f.Close()
		}
	}()
	written := 0
	for i, s := range prog {
		if i+1 > pc {
			break
		}
		partial := i+1 == pc
		if partial && s.Op != "write" {
			break
		}
		switch s.Op {
		case "open":
			flags := os.O_WRONLY
			if s.Trunc {
				flags |= os.O_TRUNC
			}
			if s.Creat {
				flags |= os.O_CREATE
			}
			f, err := os.OpenFile(path(s.Name), flags, 0o644)
			if err != nil {
				return err
			}
			files[s.Fd] = f
		case "write":
			n := s.N
			if partial {
				n = k
			}
			if written+n > len(newBytes) {
				return fmt.Errorf("program writes more than the new serialisation holds")
			}
			if _, err := files[s.Fd].Write(newBytes[written : written+n]); err != nil {
				return err
			}
			written += n
		case "fsync":
		case "close":
			if f := files[s.Fd]; f != nil {
				_ = f.Close()
				delete(files, s.Fd)
			}
		case "rename":
			if err := os.Rename(path(s.Name), path(s.Name2)); err != nil {
				return err
			}
		case "unlink":
			if err := os.Remove(path(s.Name)); err != nil {
				return err
			}
		}
	}
	return nil
}

type killAct struct {
	Name  string `json:"name"`
	Pc    int    `json:"pc"`
	Part  string `json:"part"`
	Op    string `json:"op"`
	Gen   int    `json:"gen"`
	Found int    `json:"found"`
}

func histString(path []killAct) string {
	var out []string
	steps := 0
	for _, a := range path {
		switch a.Name {
		case "step":
			steps++
		case "kill":
			if a.Part == "none" {
				out = append(out, fmt.Sprintf("gen%d: %d calls, killed before call %d", a.Gen, steps, a.Pc))
			} else {
				out = append(out, fmt.Sprintf("gen%d: %d calls, killed inside call %d (%s)", a.Gen, steps, a.Pc, a.Part))
			}
			steps = 0
		case "restart":
			if steps > 0 {
				out = append(out, fmt.Sprintf("gen%d: shutdown completed", a.Gen))
			}
			out = append(out, "restart")
			steps = 0
		}
	}
	return strings.Join(out, ", ")
}

// sessionOf is the index of the open call that produced the file descriptor call i (0-based) uses, -1 if there is none.
func sessionOf(prog []sysc, i int) int {
	for j := i - 1; j >= 0; j-- {
		if prog[j].Op == "open" && prog[j].Fd == prog[i].Fd {
			return j
		}
	}
	return -1
}

// sessions adds up the bytes the program wrote per session (a file descriptor between its open and its close).
func sessions(prog []sysc) map[int]int {
	out := map[int]int{}
	for i, s := range prog {
		if s.Op == "write" {
			out[sessionOf(prog, i)] += s.N
		}
	}
	return out
}

// writeLen is the concrete length of write call pc in a generation whose serialisation has total bytes
// (the observed program wrote observed bytes in the calls of the same session; StateFile!WriteLen).
func writeLen(prog []sysc, pc, total, observed int) int {
	before := 0
	last := true
	ses := sessionOf(prog, pc-1)
	same := func(j int) bool {
		return prog[j].Op == "write" && prog[j].Fd == prog[pc-1].Fd && sessionOf(prog, j) == ses
	}
	for j := pc; j < len(prog); j++ {
		if same(j) {
			last = false
		}
	}
	for j := 0; j < pc-1; j++ {
		if same(j) {
			before += prog[j].N * total / max(1, observed)
		}
	}
	if last {
		return total - before
	}
	return prog[pc-1].N * total / max(1, observed)
}

// mkBytes serialises a content with the real code.
func mkBytes(c *vf.Ctx, base string, ct content) []byte {
	f := filepath.Join(base, fmt.Sprintf("mk-%d.json", time.Now().UnixNano()))
	defer os.Remove(f)
	defer os.Remove(f + ".tmp")
	s, err := storage.NewJSONFileStorage(f)
	if err != nil {
		c.Fatal("mkBytes: %v", err)
	}
	if err := apply(s, ct); err != nil {
		c.Fatal("mkBytes: %v", err)
	}
	if err := s.Stop(); err != nil {
		c.Fatal("mkBytes: %v", err)
	}
	b, err := os.ReadFile(f)
	if err != nil {
		if len(ct.Routers) == 0 && len(ct.Mappings) == 0 && os.IsNotExist(err) {
			return []byte("{}") // an empty state on a fresh path: a missing file loads as the empty state too
		}
		c.Fatal("mkBytes: %v", err)
	}
	return b
}

type histResult struct {
	bad  string // "" = fine
	what string
	err  error
}

// replayHistory executes a history of the model (steps, kills, restarts over several generations) on a real
// directory; every restart and the final state are loaded by the real NewJSONFileStorage. k is the byte offset of
// the final kill if it hits inside a write.
//
// fixture (optional) puts what the environment holds besides the state file into the fresh directory; refused: the
// observed Stop() returned an error, so a completed shutdown need not have stored anything - what it leaves must
// still be the complete previous or the complete new state.
func replayHistory(dir string, prog []sysc, vers map[int][]byte, observed int, path []killAct, k int, snaps map[int]string, fixture func(dir string) error, refused bool) (histResult, error) {
	_ = os.RemoveAll(dir)
	if err := os.MkdirAll(dir, 0o755); err != nil {
		return histResult{}, err
	}
	if fixture != nil {
		if err := fixture(dir); err != nil {
			return histResult{}, err
		}
	}
	fpath := func(n string) string {
		if n == "state" {
			return filepath.Join(dir, "state.json")
		}
		return filepath.Join(dir, strings.TrimPrefix(n, "tmp:"))
	}
	if vers[0] != nil {
		if err := os.WriteFile(fpath("state"), vers[0], 0o644); err != nil {
			return histResult{}, err
		}
	}
	files := map[int]*os.File{}
	closeAll := func() {
		for fd, f := range files {
			_ = f.Close()
			delete(files, fd)
		}
	}
	defer closeAll()
	gen := 1
	written := map[int]int{} // per file descriptor: bytes of the serialisation handed over since its open
	loadedSnap := snaps[-1]
	if vers[0] != nil {
		loadedSnap = snaps[0]
	}
	killedThisGen := false
	write := func(s sysc, n int) error {
		data := vers[gen]
		w := written[s.Fd]
		if w+n > len(data) {
			return fmt.Errorf("program writes more than the serialisation holds")
		}
		if files[s.Fd] == nil {
			return fmt.Errorf("program writes through a descriptor that is not open")
		}
		_, err := files[s.Fd].Write(data[w : w+n])
		written[s.Fd] = w + n
		return err
	}
	for idx, a := range path {
		final := idx == len(path)-1
		switch a.Name {
		case "step":
			s := prog[a.Pc-1]
			switch s.Op {
			case "open":
				flags := os.O_WRONLY
				if s.Trunc {
					flags |= os.O_TRUNC
				}
				if s.Creat {
					flags |= os.O_CREATE
				}
				f, err := os.OpenFile(fpath(s.Name), flags, 0o644)
				if err != nil {
					return histResult{}, err
				}
				files[s.Fd] = f
				written[s.Fd] = 0
			case "write":
				if err := write(s, writeLen(prog, a.Pc, len(vers[gen]), observed)); err != nil {
					return histResult{}, err
				}
			case "close":
				if f := files[s.Fd]; f != nil {
					_ = f.Close()
					delete(files, s.Fd)
				}
			case "rename":
				if err := os.Rename(fpath(s.Name), fpath(s.Name2)); err != nil {
					return histResult{}, err
				}
			case "unlink":
				if fi, err := os.Lstat(fpath(s.Name)); err == nil && fi.IsDir() {
					_ = os.RemoveAll(fpath(s.Name))
				} else if err := os.Remove(fpath(s.Name)); err != nil {
					return histResult{}, err
				}
			}
		case "kill":
			killedThisGen = true
			if a.Part != "none" {
				s := prog[a.Pc-1]
				n := writeLen(prog, a.Pc, len(vers[gen]), observed)
				kk := map[string]int{"first": 1, "mid": n / 2, "allbutone": n - 1}[a.Part]
				if final {
					kk = k
				}
				if kk > 0 {
					if err := write(s, kk); err != nil {
						return histResult{}, err
					}
				}
			}
			closeAll()
			if final {
				snap, lerr := loadSnapshot(fpath("state"))
				switch {
				case lerr != nil:
					return histResult{"refuses-to-start", "writer killed: the next start refuses the state file", lerr}, nil
				case snap != loadedSnap && snap != snaps[gen]:
					return histResult{"neither", "writer killed: the next start finds neither the previous nor the new state", nil}, nil
				}
			}
		case "restart":
			closeAll()
			snap, lerr := loadSnapshot(fpath("state"))
			switch {
			case lerr != nil:
				return histResult{"refuses-to-start", "a start refuses the state file", lerr}, nil
			case !killedThisGen && refused && snap != loadedSnap && snap != snaps[gen]:
				return histResult{"failed-save-neither", "a shutdown whose save failed as a whole left neither the previous nor the new state", nil}, nil
			case !killedThisGen && !refused && snap != snaps[gen]:
				return histResult{"lost-save", "a completed shutdown did not store its state", nil}, nil
			case killedThisGen && snap != loadedSnap && snap != snaps[gen]:
				return histResult{"neither", "after a kill the start finds neither the previous nor the new state", nil}, nil
			}
			loadedSnap = snap
			gen++
			written = map[int]int{}
			killedThisGen = false
			if _, ok := vers[gen]; !ok && !final {
				return histResult{}, fmt.Errorf("no bytes for generation %d", gen)
			}
		}
	}
	return histResult{}, nil
}

// ---------- environments

type pair struct{ oldR, oldM, newR, newM int }

// environment: where the router runs when it shuts down. The property quantifies over crash points of "the" shutdown
// write; which system calls that write consists of depends on what the kernel lets the router do with the state
// directory - so each environment gives its own program, and each program goes through the same analysis.
type environment struct {
	name, what string
	uid        int                            // != 0: the shutting-down router runs as this user
	setup      func(dir, target string) error // applied to the real directory once the old state file is in place
	fixture    func(dir string) error         // what a materialised directory holds besides the state file
}

var envRan, envSkipped int

const unprivileged = 65534

// traversable: can a user that is neither owner nor group member reach path?
func traversable(path string) bool {
	for p := path; ; p = filepath.Dir(p) {
		fi, err := os.Stat(p)
		if err != nil || fi.Mode().Perm()&0o005 != 0o005 {
			return false
		}
		if p == filepath.Dir(p) {
			return true
		}
	}
}

// environments: stage E. The recorded program of the real Stop() in surroundings in which the usual way of writing
// the file is not open to it: the name of the temporary file is taken by something that is not a file, the router's
// user may write the state file but not create files next to it, or may create files but not replace the state file.
func environments(c *vf.Ctx, rng *rand.Rand, base string, analyse func(pi int, label, dir string, p pair, env *environment)) {
	t0 := time.Now()
	tmpOf := func(dir string) string { return filepath.Join(dir, "state.json.tmp") }
	blockers := []struct {
		name, what string
		make       func(tmp string) error
	}{
		{"tmp-is-empty-dir", "an empty directory", func(tmp string) error { return os.Mkdir(tmp, 0o755) }},
		{"tmp-is-dir", "a directory that holds a file", func(tmp string) error {
			if err := os.Mkdir(tmp, 0o755); err != nil {
				return err
			}
			return os.WriteFile(filepath.Join(tmp, "keep"), []byte("x"), 0o644)
		}},
		{"tmp-is-dangling-link", "a symbolic link into a directory that does not exist", func(tmp string) error { return os.Symlink("no-such-dir/state.json.tmp", tmp) }},
		{"tmp-is-link-loop", "a symbolic link to itself", func(tmp string) error { return os.Symlink("state.json.tmp", tmp) }},
	}
	var envs []environment
	for _, b := range blockers {
		mk := b.make
		envs = append(envs, environment{
			name: b.name, what: "the name <state>.tmp is taken by " + b.what,
			setup:   func(dir, target string) error { return mk(tmpOf(dir)) },
			fixture: func(dir string) error { return mk(tmpOf(dir)) },
		})
	}
	root := os.Geteuid() == 0
	if root {
		envs = append(envs,
			environment{name: "dir-not-writable", what: fmt.Sprintf("the router runs as user %d and owns the state file, the state directory is root's (0755)", unprivileged), uid: unprivileged,
				setup: func(dir, target string) error {
					if err := os.Chmod(dir, 0o755); err != nil {
						return err
					}
					return os.Chown(target, unprivileged, unprivileged)
				}},
			// (rename(2) over a file in a sticky directory needs the ownership of the file or of the directory)
			environment{name: "state-file-not-replaceable", what: fmt.Sprintf("the router runs as user %d in a sticky world-writable state directory of root, the state file (0666) is root's: it can be written but not renamed over", unprivileged), uid: unprivileged,
				setup: func(dir, target string) error {
					if err := os.Chmod(dir, os.ModeSticky|0o777); err != nil {
						return err
					}
					return os.Chmod(target, 0o666)
				}})
	} else {
		envs = append(envs, environment{name: "dir-not-writable", what: "the state directory is not writable (0555), the state file is",
			setup: func(dir, target string) error { return os.Chmod(dir, 0o555) }})
	}
	// quick: two of the four blocked names (by the seed) and the user environments; thorough: all, twice
	var chosen []environment
	rounds := c.Pick(1, 2)
	if c.Thorough() {
		chosen = envs
	} else {
		chosen = append(chosen, envs[rng.Intn(2)], envs[2+rng.Intn(2)])
		chosen = append(chosen, envs[len(blockers):]...)
	}
	// the unprivileged user must be able to reach the state directory
	envBase := filepath.Join(base, "env")
	cleanup := ""
	if root {
		_ = os.MkdirAll(envBase, 0o755)
		if !traversable(envBase) {
			d, err := os.MkdirTemp("", "verif-c18-env")
			if err != nil || os.Chmod(d, 0o755) != nil || !traversable(d) {
				c.Broken("environments: no directory an unprivileged user can reach (%v)", err)
				return
			}
			envBase, cleanup = d, d
		}
	}
	n := 0
	for round := 0; round < rounds; round++ {
		for _, e := range chosen {
			e := e
			// a previous state is there (the environments are about an existing state file); the new state is larger or
			// smaller, now and then (nearly) empty
			p := pair{oldR: 1 + rng.Intn(6), oldM: rng.Intn(4), newR: 1 + rng.Intn(c.Pick(10, 40)), newM: rng.Intn(6)}
			if rng.Intn(5) == 0 {
				p.newR, p.newM = rng.Intn(2), 0
			}
			label := fmt.Sprintf("env-%s-%d", e.name, round)
			analyse(100+n, label, filepath.Join(envBase, label), p, &e)
			n++
		}
	}
	if cleanup != "" {
		_ = os.RemoveAll(cleanup)
	}
	if envRan == 0 {
		c.Broken("environments: none of %d could be set up", n)
	}
	c.Logf("stage E: %d environments (%d skipped) in %.1fs", envRan, envSkipped, time.Since(t0).Seconds())
	c.Stage("E", map[string]any{"environments": envRan, "skipped": envSkipped})
}

func main() {
	if os.Getenv("VERIF_C18_HELPER") != "" {
		helper()
		return
	}
	vf.Main("C18", "model_checking", run)
}

func run(c *vf.Ctx) {
	c.Rule("T: the system calls of the real JSONFileStorage.Stop() (helper process under strace) become the program of StateFile; M: TLC kills the writer between any two calls and inside every write (Recoverable, SaveCompletes) and checks 4 candidate designs (2 negative controls); R: every kill state is materialised on disk - kills inside a write at EVERY byte offset (thorough) or 96 sampled offsets plus the edges (quick) - and loaded by the real NewJSONFileStorage; the helper is also really killed by strace at each of its calls; E: the same recording, model checking, materialising and real killing for the shutdown in ENVIRONMENTS in which the temporary file cannot be created (its name taken by a directory or a dead symbolic link; the router's user owns the state file but not the directory) or cannot be renamed over the state file (sticky directory) - a save that fails as a whole and leaves the complete previous state is fine; round trip of generated states of 0..200 routers and mappings (unicode, empty, 4 kB strings, extreme and zoned times, nil sub-objects); R-consumers: one state file through 3..7 generations of the components mycoria.New hands the loaded storage to - state manager and DNS server constructed (and served) directly on the loaded storage as in the tun branch, whole relay-only routers with and without API listener / dashboard - under configurations that change between the generations (friends, resolve entries, services, universe; names that collide with stored mappings, reserved names), with user map / remap / unmap operations; after every clean shutdown every stored router and mapping must be reloaded unchanged")
	c.Assume("process-kill semantics (completed calls visible, no reordering); power loss is not claimed", "strings are valid UTF-8 (encoding/json replaces invalid bytes)")
	if _, err := exec.LookPath("strace"); err != nil {
		c.Fatal("strace not available: %v", err)
	}

	// ---- design-level model checking, with negative controls
	for _, d := range []struct {
		cfg  string
		want bool
	}{{"StateFile_MC_temprename_7.cfg", true}, {"StateFile_MC_temprename_0.cfg", true}, {"StateFile_MC_temprename2_7.cfg", true},
		{"StateFile_MC_truncwrite_7.cfg", false}, {"StateFile_MC_unlinkwrite_7.cfg", false},
		// what a shutdown can come to when the temporary file cannot be renamed over the state file: giving up (holds,
		// SaveCompletes not demanded) and writing in place instead (negative control, two write sessions)
		{"StateFile_MC_temprefused_7.cfg", true}, {"StateFile_MC_tempinplace_7.cfg", false}} {
		res, err := c.TLC("StateFile_MC", d.cfg, vf.TLCOpts{Workers: 1})
		if err != nil {
			c.Fatal("M %s: %v", d.cfg, err)
		}
		c.AddModel(res.Distinct, res.Generated)
		if (res.Violated == "") != d.want {
			c.Broken("design config %s: expected holds=%v, TLC says violated=%q", d.cfg, d.want, res.Violated)
		}
	}

	rng := rand.New(rand.NewSource(c.Seed))
	pairs := []pair{{-1, 0, 3, 2}, {2, 1, 5, 4}, {40, 30, 0, 0}}
	if c.Thorough() {
		pairs = append(pairs, pair{200, 200, 200, 200}, pair{0, 0, 1, 0}, pair{7, 0, 60, 90})
	}
	base := filepath.Join(c.Work, "fs")
	// analyse: one shutdown of the real code over an old state, recorded, model-checked, replayed and really killed.
	// env == nil: an ordinary writable directory; otherwise the shutdown runs in that environment (the old state was
	// stored under ordinary conditions before).
	analyse := func(pi int, label, dir string, p pair, env *environment) {
		_ = os.MkdirAll(dir, 0o755)
		target := filepath.Join(dir, "state.json")
		writeContent := func(name string, ct content) string {
			f := filepath.Join(base, fmt.Sprintf("%s-%s.json", strings.ReplaceAll(label, " ", ""), name))
			b, _ := json.Marshal(ct)
			_ = os.WriteFile(f, b, 0o644)
			return f
		}
		var oldBytes []byte
		if p.oldR >= 0 {
			// the old file is produced by the real code as well
			cf := writeContent("old", genContent(rng, p.oldR, p.oldM))
			if _, exit, err := runStrace(c, base, target, cf, ""); err != nil || exit != 0 {
				if env != nil {
					c.Broken("%s: helper (old content) failed: exit %d %v %s", label, exit, err, tailStr(helperStderr, 200))
					return
				}
				c.Fatal("helper (old content) failed: exit %d %v", exit, err)
			}
			oldBytes, _ = os.ReadFile(target)
			if oldBytes == nil {
				c.Fatal("helper wrote no state file")
			}
		}
		newCF := writeContent("new", genContent(rng, p.newR, p.newM))
		var helperEnv []string
		shadow := filepath.Join(base, strings.ReplaceAll(label, " ", "")+"-shadow.json")
		envNote := ""
		if env != nil {
			if err := env.setup(dir, target); err != nil {
				c.Broken("environment %s: set-up failed: %v", env.name, err)
				return
			}
			helperEnv = append(helperEnv, "VERIF_C18_SHADOW="+shadow)
			if env.uid != 0 {
				helperEnv = append(helperEnv, fmt.Sprintf("VERIF_C18_UID=%d", env.uid))
			}
			envNote = "; environment: " + env.what
		}
		lines, exit, err := runStrace(c, base, target, newCF, "", helperEnv...)
		refused := false // Stop() returned an error: the save failed as a whole
		stopErr := ""
		switch {
		case err != nil:
			c.Fatal("helper failed: exit %d %v", exit, err)
		case exit == 0:
		case env != nil && exit == 5:
			refused = true
			stopErr = strings.TrimSpace(tailStr(helperStderr, 300))
			if i := strings.LastIndex(stopErr, "stop: "); i >= 0 {
				stopErr = stopErr[i:]
			}
		case env != nil && exit == 3 && strings.Contains(helperStderr, "setuid:"):
			c.Logf("%s: this process cannot change the user of a child (%s): environment skipped", label, strings.TrimSpace(tailStr(helperStderr, 120)))
			envSkipped++
			return
		case env != nil:
			c.Broken("%s: helper failed: exit %d %s", label, exit, tailStr(helperStderr, 300))
			return
		default:
			c.Fatal("helper failed: exit %d %v %s", exit, err, tailStr(helperStderr, 300))
		}
		prog, counts, failedCalls, err := program(lines, dir, target)
		if err != nil {
			c.Fatal("strace log: %v", err)
		}
		if len(prog) == 0 && os.Getenv("VERIF_C18_STRICT_TRACE") != "" {
			c.Fatal("no system calls on the state directory observed between the markers:\n%s", strings.Join(lines, "\n"))
		}
		newBytes, _ := os.ReadFile(target)
		newFile := target
		if refused {
			// nothing (complete) need be in the state file; the helper left the serialisation it tried to store
			newBytes, err = os.ReadFile(shadow)
			if err != nil {
				c.Fatal("%s: the helper left no copy of its serialisation: %v", label, err)
			}
			newFile = shadow
		}
		for ses, total := range sessions(prog) {
			if total != len(newBytes) {
				if env != nil {
					// (e.g. a write that the environment cut short) - such a program cannot be made concrete
					c.Broken("%s: the writes through one descriptor (opened by call %d) carry %d bytes, the serialisation has %d", label, ses+1, total, len(newBytes))
					return
				}
				c.Fatal("observed writes (%d bytes) do not add up to the state file (%d bytes)", total, len(newBytes))
			}
		}
		// expected snapshots
		snapNew, err := loadSnapshot(newFile)
		if err != nil {
			if refused {
				c.Fatal("%s: the copy of the helper's serialisation does not load: %v", label, err)
			}
			c.Violation(vf.Key("reload-after-clean-save", pi), fmt.Sprintf("the state written by an undisturbed Stop() cannot be loaded: %v%s", err, envNote), map[string]any{"pair": p}, nil)
			return
		}
		// SaveCompletes, independently of what the file says about itself: the content the helper was given, put
		// into a storage in this process (time stamps of mappings are taken when they are stored: masked)
		if !refused {
			var want content
			data, _ := os.ReadFile(newCF)
			_ = json.Unmarshal(data, &want)
			ref, rerr := storage.NewJSONFileStorage(filepath.Join(base, "ref-does-not-exist.json"))
			if rerr != nil {
				c.Fatal("reference storage: %v", rerr)
			}
			if err := apply(ref, want); err != nil {
				c.Fatal("reference storage: %v", err)
			}
			wantSnap, _ := snapshot(ref)
			if maskCreated(wantSnap) != maskCreated(snapNew) {
				c.Violation(vf.Key("clean-save-lost", map[bool]string{true: "no-calls", false: "differs"}[len(prog) == 0]),
					fmt.Sprintf("an undisturbed shutdown did not store its state (old state %d routers / %d mappings, new state %d / %d; %d system calls on the state directory): the next start finds %s%s",
						max(p.oldR, 0), p.oldM, p.newR, p.newM, len(prog), firstDiff(maskCreated(wantSnap), maskCreated(snapNew)), envNote),
					map[string]any{"pair": p, "calls": len(prog)}, nil)
				return
			}
		}
		if env != nil {
			c.Logf("%s (%s): Stop() %s; calls the kernel refused: %s", label, env.what,
				map[bool]string{true: "FAILED as a whole (" + stopErr + ")", false: "succeeded"}[refused], strings.Join(failedCalls, "; "))
			if len(failedCalls) == 0 {
				c.Logf("%s: the environment did not make itself felt in this shutdown (no call on the state directory was refused)", label)
			}
			envRan++
		}
		if refused {
			// a save that is refused as a whole is not a crash; but what it leaves is what the next start finds
			c.Eval(1)
			after, lerr := loadSnapshot(target)
			of := filepath.Join(base, "old-copy.json")
			_ = os.WriteFile(of, oldBytes, 0o644)
			before, _ := loadSnapshot(of)
			switch {
			case lerr != nil:
				c.Violation(vf.Key("env", env.name, "failed-save", "refuses-to-start"), fmt.Sprintf("a shutdown whose save failed as a whole (%s) left a state file the next start refuses: %v%s", stopErr, lerr, envNote), map[string]any{"pair": p, "environment": env.name}, nil)
				return
			case after != before && after != snapNew:
				c.Violation(vf.Key("env", env.name, "failed-save", "neither"), fmt.Sprintf("a shutdown whose save failed as a whole (%s) left neither the previous nor the new state%s", stopErr, envNote), map[string]any{"pair": p, "environment": env.name}, nil)
				return
			}
			c.Distinct("env-refused|" + env.name)
		}
		if len(prog) == 0 {
			if refused {
				c.Logf("%s: the failed shutdown made no successful call on the state directory; the next start finds the complete previous state", label)
			} else {
				c.Logf("%s: the shutdown made no system call on the state directory and the stored state is right", label)
			}
			return
		}
		snapOld := ""
		if oldBytes != nil {
			of := filepath.Join(base, "old-copy.json")
			_ = os.WriteFile(of, oldBytes, 0o644)
			snapOld, err = loadSnapshot(of)
			if err != nil {
				// the old generation was written by the real code's undisturbed shutdown as well
				c.Violation(vf.Key("reload-after-clean-save", "old"), fmt.Sprintf("a state file written by an undisturbed Stop() is refused by the next start: %v", err), map[string]any{"pair": p}, nil)
				return
			}
		} else {
			snapOld, _ = loadSnapshot(filepath.Join(base, "does-not-exist.json"))
		}
		var progDesc []string
		for _, s := range prog {
			progDesc = append(progDesc, fmt.Sprintf("%s(%s%s fd=%d n=%d trunc=%v creat=%v)", s.Op, s.Name, map[bool]string{true: "->" + s.Name2, false: ""}[s.Name2 != ""], s.Fd, s.N, s.Trunc, s.Creat))
		}
		c.Logf("%s: old %d B, new %d B, program: %s", label, len(oldBytes), len(newBytes), strings.Join(progDesc, "; "))
		if pi == 0 {
			c.Sample(map[string]any{"program": progDesc, "old_bytes": len(oldBytes), "new_bytes": len(newBytes)})
		}

		// ---- M on the observed program
		var progJSON []any
		for _, s := range prog {
			progJSON = append(progJSON, s)
		}
		meta := []any{map[string]any{"oldlen": len(oldBytes), "newlen": len(newBytes)}}
		traceCfg := "StateFile_Trace.cfg"
		if refused {
			// SaveCompletes is not demanded of a save that was refused as a whole; Recoverable and NeverRefuses are
			traceCfg = "StateFile_TraceRefused.cfg"
		}
		res, err := c.TLC("StateFile_Trace", traceCfg, vf.TLCOpts{Workers: 1, Files: map[string][]byte{"prog.ndjson": vf.NDJSON(progJSON), "meta.ndjson": vf.NDJSON(meta)}})
		if err != nil {
			c.Fatal("M(observed): %v", err)
		}
		c.AddModel(res.Distinct, res.Generated)
		c.AddTraces(1)
		modelViolated := res.Violated
		// The dump run (no invariants) gives every kill state even when the invariant fails early.
		dump, err := c.TLC("StateFile_Trace", "StateFile_Dump.cfg", vf.TLCOpts{Workers: 1, Files: map[string][]byte{"prog.ndjson": vf.NDJSON(progJSON), "meta.ndjson": vf.NDJSON(meta)}})
		if err != nil {
			c.Fatal("dump: %v", err)
		}
		// ---- R: every kill and every restart of the graph, concretely, over three generations of the file
		// version 0 = the file found at the beginning, 1 = what the observed shutdown wrote, 2 = a shorter state,
		// 3 = a longer one (both serialised by the real code)
		shortBytes := mkBytes(c, base, content{})
		longBytes := mkBytes(c, base, genContent(rng, p.newR+6, p.newM+6))
		for len(longBytes) <= len(newBytes) {
			longBytes = mkBytes(c, base, genContent(rng, p.newR+20, p.newM+20))
		}
		vers := map[int][]byte{0: oldBytes, 1: newBytes, 2: shortBytes, 3: longBytes}
		snaps := map[int]string{-1: "", 0: snapOld, 1: snapNew}
		snaps[-1], _ = loadSnapshot(filepath.Join(base, "does-not-exist.json"))
		genBad := false
		for v := 2; v <= 3; v++ {
			f := filepath.Join(base, "ver-copy.json")
			_ = os.WriteFile(f, vers[v], 0o644)
			sn, err := loadSnapshot(f)
			if err != nil {
				// generations 2 and 3 are serialised by the real code's undisturbed shutdown, too
				c.Violation(vf.Key("reload-after-clean-save", fmt.Sprintf("generation-%d", v)), fmt.Sprintf("a state file written by an undisturbed Stop() is refused by the next start: %v", err), map[string]any{"pair": p, "generation": v}, nil)
				genBad = true
				break
			}
			snaps[v] = sn
		}
		if genBad {
			return
		}
		dump.Inits = []string{dump.Edges[0].From}
		g := vf.BuildGraph(dump)
		parent := map[string]int{}
		seen := map[string]bool{dump.Inits[0]: true}
		queue := []string{dump.Inits[0]}
		for len(queue) > 0 {
			st := queue[0]
			queue = queue[1:]
			for _, ei := range g.Out[st] {
				t := g.Edges[ei].To
				if !seen[t] {
					seen[t] = true
					parent[t] = ei
					queue = append(queue, t)
				}
			}
		}
		pathTo := func(state string) []killAct {
			var rev []killAct
			for {
				ei, ok := parent[state]
				if !ok {
					break
				}
				var a killAct
				_ = json.Unmarshal(g.Edges[ei].Act, &a)
				rev = append(rev, a)
				state = g.Edges[ei].From
			}
			for l, r := 0, len(rev)-1; l < r; l, r = l+1, r-1 {
				rev[l], rev[r] = rev[r], rev[l]
			}
			return rev
		}
		nKill, nBad := 0, 0
		scratch := filepath.Join(base, "kill")
		report := func(kind, what string, path []killAct, k int, lerr error) {
			nBad++
			last := path[len(path)-1]
			call := prog[min(max(last.Pc, 1), len(prog))-1]
			where := "between"
			if last.Name == "kill" && last.Part != "none" {
				where = "inside"
			}
			if last.Name == "restart" {
				where = "restart"
			}
			key := vf.Key("kill", kind, call.Op, where)
			if last.Gen > 1 {
				key = vf.Key("kill", kind, call.Op, where, "later-generation")
			}
			envName := ""
			if env != nil {
				envName = env.name
				key = vf.Key("env", env.name, key)
			}
			c.Violation(key, fmt.Sprintf("%s (byte offset %d; generation %d; history: %s): %v (program: %s)%s", what, k, last.Gen, histString(path), lerr, strings.Join(progDesc, "; "), envNote),
				map[string]any{"pair": p, "program": progDesc, "history": histString(path), "byte_offset": k, "found": kind, "version_bytes": []int{len(oldBytes), len(newBytes), len(shortBytes), len(longBytes)}, "environment": envName, "refused_calls": failedCalls}, nil)
		}
		for ei, e := range g.Edges {
			var a killAct
			if err := json.Unmarshal(e.Act, &a); err != nil || (a.Name != "kill" && a.Name != "restart") {
				continue
			}
			if parent[e.To] != ei && a.Name == "restart" {
				// a restart is checked once per source state; kills always
				if _, ok := parent[e.From]; !ok && e.From != dump.Inits[0] {
					continue
				}
			}
			path := append(pathTo(e.From), a)
			offsets := []int{0}
			if a.Name == "kill" && a.Part != "none" {
				n := writeLen(prog, a.Pc, len(vers[a.Gen]), len(newBytes))
				switch a.Part {
				case "first":
					offsets = []int{1}
				case "allbutone":
					offsets = []int{n - 1}
				case "mid":
					offsets = nil
					// every byte offset (thorough) for the shutdown the property talks about - the first one, no earlier
					// kill in the history - of states up to 64 kB; a sample elsewhere
					kills := 0
					for _, h := range path {
						if h.Name == "kill" {
							kills++
						}
					}
					limit := c.Pick(96, 400)
					if len(oldBytes) > 200000 {
						limit = c.Pick(10, 60)
					}
					if (c.Thorough() && a.Gen == 1 && kills == 1 && n <= 65536 && len(oldBytes) <= 200000) || n <= 200 {
						for k := 2; k <= n-2; k++ {
							offsets = append(offsets, k)
						}
					} else {
						offsets = append(offsets, 2, n/2, n-2)
						for j := 0; j < limit; j++ {
							offsets = append(offsets, 2+rng.Intn(max(1, n-3)))
						}
					}
					if n < 4 {
						offsets = []int{n / 2}
					}
				}
			}
			for _, k := range offsets {
				var fixture func(string) error
				if env != nil {
					fixture = env.fixture
				}
				res, err := replayHistory(scratch, prog, vers, len(newBytes), path, k, snaps, fixture, refused)
				if err != nil {
					c.Fatal("replay %s: %v", histString(path), err)
				}
				c.Eval(1)
				nKill++
				c.Distinct(fmt.Sprintf("%d/%s/%d", pi, histString(path), k))
				if res.bad != "" {
					report(res.bad, res.what, path, k, res.err)
					break
				}
			}
		}
		if nKill == 0 {
			c.Fatal("no kill states in TLC's graph")
		}
		if (modelViolated != "") != (nBad > 0) {
			// The model and the real loader disagree on the observed program: drift, not a verdict.
			if modelViolated != "" && len(newBytes) < 8 {
				c.Logf("note: TLC reports %s for a %d-byte state; no shorter serialisation exists to make the history concrete", modelViolated, len(newBytes))
			} else if modelViolated != "" {
				c.Broken("TLC reports %s on the observed program, but every materialised history loads correctly (model drift)", modelViolated)
			} else {
				c.Logf("note: the real loader rejects states the model accepts (reported above as violations)")
			}
		}

		// ---- real kills: strace kills the helper at each call of the program
		for ci, s := range prog {
			if !c.Thorough() && pi > 0 && ci%2 == 1 && env == nil {
				continue
			}
			_ = os.Chmod(dir, 0o755)
			_ = os.RemoveAll(dir)
			_ = os.MkdirAll(dir, 0o755)
			if oldBytes != nil {
				_ = os.WriteFile(target, oldBytes, 0o644)
			}
			if env != nil {
				if err := env.setup(dir, target); err != nil {
					c.Broken("environment %s: set-up failed: %v", env.name, err)
					return
				}
			}
			// the n-th call of this syscall name in the process (the load phase is deterministic)
			inject := fmt.Sprintf("%s:signal=KILL:when=%d", s.kind, s.nth+1)
			_, exit, err := runStrace(c, base, target, newCF, inject, helperEnv...)
			if err != nil {
				c.Fatal("kill run: %v", err)
			}
			_ = counts
			snap, lerr := loadSnapshot(target)
			c.Eval(1)
			// the helper's own Created stamps differ between runs: compare with time stamps of mappings masked
			found := "neither"
			switch {
			case lerr != nil:
				found = "refuses-to-start"
			case maskCreated(snap) == maskCreated(snapNew):
				found = "new"
			case maskCreated(snap) == maskCreated(snapOld):
				found = "old"
			}
			c.Distinct(fmt.Sprintf("realkill/%d/%d", pi, ci))
			if found != "new" && found != "old" {
				key := vf.Key("kill", found, s.Op, "between")
				if env != nil {
					key = vf.Key("env", env.name, key)
				}
				c.Violation(key, fmt.Sprintf("writer really killed (SIGKILL by strace, exit %d) on entering call %d %s: next start %s: %v%s", exit, ci+1, s.raw, found, lerr, envNote),
					map[string]any{"pair": p, "program": progDesc, "kill_call": ci + 1, "found": found, "inject": inject}, nil)
			}
		}
		_ = os.Chmod(dir, 0o755)
	}
	onlyE := os.Getenv("VERIF_C18_ONLY") == "E" // (development aid: stage E alone; the run is then reported as broken)
	if os.Getenv("VERIF_C18_ONLY") == "C" {     // (development aid: stage R-consumers alone; reported as broken)
		consumerGenerations(c)
		c.Fatal("VERIF_C18_ONLY=C: the other stages were not run")
	}
	for pi, p := range pairs {
		if onlyE {
			break
		}
		analyse(pi, fmt.Sprintf("pair %d", pi), filepath.Join(base, fmt.Sprintf("pair%d", pi)), p, nil)
	}
	if onlyE {
		environments(c, rng, base, analyse)
		c.Fatal("VERIF_C18_ONLY=E: the other stages were not run")
	}

	// ---- round trip
	sizes := [][2]int{{0, 0}, {1, 0}, {0, 1}, {3, 3}, {20, 10}, {200, 200}}
	rounds := c.Pick(4, 40)
	rtDir := filepath.Join(base, "rt")
	_ = os.MkdirAll(rtDir, 0o755)
	for round := 0; round < rounds; round++ {
		for si, sz := range sizes {
			file := filepath.Join(rtDir, fmt.Sprintf("rt-%d-%d.json", round, si))
			s, err := storage.NewJSONFileStorage(file)
			if err != nil {
				c.Fatal("new storage: %v", err)
			}
			ct := genContent(rng, sz[0], sz[1])
			if err := apply(s, ct); err != nil {
				c.Fatal("apply: %v", err)
			}
			before, err := snapshot(s)
			if err != nil {
				c.Fatal("snapshot: %v", err)
			}
			serr := s.Stop()
			after, lerr := loadSnapshot(file)
			c.Eval(1)
			c.Distinct(fmt.Sprintf("rt/%d/%d", round, si))
			_ = os.Remove(file)
			if serr != nil || lerr != nil || before != after {
				kind, detail := "differs", firstDiff(before, after)
				if serr != nil {
					kind, detail = "save-fails", serr.Error()
				} else if lerr != nil {
					kind, detail = "reload-fails", lerr.Error()
				}
				c.Violation(vf.Key("roundtrip", kind, classify(detail)), fmt.Sprintf("state of %d routers / %d mappings does not survive save+reload: %s: %s", sz[0], sz[1], kind, detail),
					map[string]any{"content": ct, "kind": kind, "detail": detail}, nil)
			}
		}
	}
	// a state that shrinks - to fewer entries, and to nothing - over an existing file
	for round := 0; round < rounds; round++ {
		file := filepath.Join(rtDir, fmt.Sprintf("shrink-%d.json", round))
		s1, err := storage.NewJSONFileStorage(file)
		if err != nil {
			c.Fatal("new storage: %v", err)
		}
		ct := genContent(rng, 2+rng.Intn(6), 1+rng.Intn(4))
		_ = apply(s1, ct)
		if err := s1.Stop(); err != nil {
			c.Fatal("stop: %v", err)
		}
		keep := round % 2 // 0: delete everything, 1: keep one router
		s2, err := storage.NewJSONFileStorage(file)
		if err != nil {
			c.Fatal("reload: %v", err)
		}
		q := storage.NewRouterQuery(nil, nil, 100000)
		_ = s2.QueryRouters(q)
		for i, r := range q.Result() {
			if i >= keep {
				_ = s2.DeleteRouter(r.Address.IP)
			}
		}
		ms, _ := s2.QueryMappings("")
		for _, mp := range ms {
			_ = s2.DeleteMapping(mp.Domain)
		}
		before, _ := snapshot(s2)
		serr := s2.Stop()
		after, lerr := loadSnapshot(file)
		c.Eval(1)
		c.Distinct(fmt.Sprintf("shrink/%d", round))
		_ = os.Remove(file)
		if serr != nil || lerr != nil || before != after {
			c.Violation(vf.Key("roundtrip", "shrunk-state", map[int]string{0: "to-empty", 1: "to-one"}[keep]),
				fmt.Sprintf("a state reduced to %d routers and 0 mappings over an existing file does not survive save+reload (save: %v, reload: %v): %s", keep, serr, lerr, firstDiff(before, after)),
				map[string]any{"kept": keep}, nil)
		}
	}
	c.Stage("R", map[string]any{"pairs": len(pairs), "roundtrips": rounds * len(sizes)})
	instanceGenerations(c)
	// ---- R-consumers: one state file through generations of everything that is handed the loaded storage at a start
	// (state manager, DNS server, whole relay-only routers with and without dashboard) under changing configurations
	consumerGenerations(c)
	// ---- E: the shutdown in unusual environments (last: the stages above see the same random stream as before)
	environments(c, rng, base, analyse)
}

var reCreated = regexp.MustCompile(`"S":\d+,"N":\d+`)

func maskCreated(s string) string { return reCreated.ReplaceAllString(s, `"S":0,"N":0`) }

func firstDiff(a, b string) string {
	i := 0
	for i < len(a) && i < len(b) && a[i] == b[i] {
		i++
	}
	lo := max(0, i-80)
	return fmt.Sprintf("at %d: saved ...%s | reloaded ...%s", i, a[lo:min(len(a), i+80)], b[lo:min(len(b), i+80)])
}

func classify(d string) string {
	for _, k := range []string{"Created", "Updated", "Used", "Info", "Key", "Universe", "Domain"} {
		if strings.Contains(d, `"`+k+`"`) {
			return k
		}
	}
	return "other"
}
