// Stage R-consumers of C18: "reloading" a state is more than the storage package reading its file. At a start the
// loaded storage is handed to every component mycoria.New constructs on it - the state manager (state.New), and, on a
// machine with a tun interface, the DNS server (dns.New(instance, packetConn, storage)); with an API listener the
// dashboard reaches it through the instance. The sandbox has no /dev/net/tun, so the tun branch of mycoria.New cannot
// run as a whole; the components of that branch that receive the storage are constructed here directly on the loaded
// storage, in the order of instance.go, and run as one module group (storage, state, dns), next to generations that are
// whole relay-only routers (with and without an API listener, i.e. with and without a dashboard).
//
// The history: ONE state file lives through several generations. Between the generations the CONFIGURATION changes
// (friends, resolve entries, services come and go, the universe changes; some of the names collide with stored
// mappings, some stored names are names the DNS server reserves), the user adds / overwrites / deletes a mapping now
// and then, every generation ends with a clean shutdown. The oracle is the one of the round-trip stages: the snapshot
// of what the next start loads, compared with what was stored - every router and every mapping (domain, router,
// time stamps) must still be there. A mapping that the configuration shadows is still a stored mapping.
package main

import (
	"encoding/json"
	"fmt"
	"math/rand"
	"net"
	"net/netip"
	"os"
	"path/filepath"
	"sort"
	"strings"
	"time"

	mdns "github.com/miekg/dns"

	mycoria "github.com/mycoria/mycoria"
	"github.com/mycoria/mycoria/api/dns"
	"github.com/mycoria/mycoria/config"
	"github.com/mycoria/mycoria/m"
	"github.com/mycoria/mycoria/mgr"
	"github.com/mycoria/mycoria/state"
	"github.com/mycoria/mycoria/storage"
	"github.com/mycoria/mycoria/tun"

	"verifharness/internal/mesh"
	"verifharness/internal/vf"
)

// partInstance is the part of the router instance the components of the tun branch ask for.
type partInstance struct {
	cfg *config.Config
	id  *m.Address
	st  *state.State
}

func (i *partInstance) Version() string        { return "v0.0.0-verif" }
func (i *partInstance) Config() *config.Config { return i.cfg }
func (i *partInstance) Identity() *m.Address   { return i.id }
func (i *partInstance) State() *state.State    { return i.st }
func (i *partInstance) TunDevice() *tun.Device { return nil }

// parsedSnap is snapshot() read back: the same observation, entry by entry.
type parsedMapping struct {
	Domain, Router string
	S, N           int64
}

type parsedSnap struct {
	Routers  []snapRouter    `json:"routers"`
	Mappings []parsedMapping `json:"mappings"`
}

func loadParsed(path string) (*parsedSnap, error) {
	s, err := loadSnapshot(path)
	if err != nil {
		return nil, err
	}
	var p parsedSnap
	if err := json.Unmarshal([]byte(s), &p); err != nil {
		return nil, fmt.Errorf("snapshot does not parse: %w", err)
	}
	return &p, nil
}

// genConfig: what the operator's configuration file says in one generation.
type genConfig struct {
	Mode     string   `json:"mode"` // dns-constructed | dns-served | router | router-api
	Friends  []string `json:"friends"`
	Resolve  []string `json:"resolve"`
	Services []string `json:"services"`
	Universe string   `json:"universe"`
	Spell    int      `json:"spell"`
}

// the names the DNS server answers itself or refuses (api/dns: apiNames, forbiddenNames): a state file may hold
// mappings of such names (stored by a version that did not reserve them yet)
var reservedLabels = []string{"router", "open", "wpad", "myco"}

func (g genConfig) claims(domain string) string {
	label, ok := strings.CutSuffix(domain, ".myco")
	if !ok {
		return "no configured name"
	}
	var by []string
	in := func(l []string) bool {
		for _, x := range l {
			if x == label {
				return true
			}
		}
		return false
	}
	if in(g.Resolve) {
		by = append(by, "a resolve entry")
	}
	if in(g.Friends) {
		by = append(by, "a friend")
	}
	if in(g.Services) {
		by = append(by, "the domain of a service")
	}
	if in(reservedLabels) {
		by = append(by, "a name the DNS server reserves")
	}
	if len(by) == 0 {
		return "no configured name"
	}
	return strings.Join(by, " and ")
}

func claimKind(s string) string {
	switch {
	case s == "no configured name":
		return "unclaimed"
	case strings.Contains(s, " and "):
		return "several"
	case strings.Contains(s, "resolve"):
		return "resolve"
	case strings.Contains(s, "friend"):
		return "friend"
	case strings.Contains(s, "service"):
		return "service"
	default:
		return "reserved"
	}
}

func (g genConfig) String() string {
	return fmt.Sprintf("%s{friends %v, resolve %v, services %v, universe %q}", g.Mode, g.Friends, g.Resolve, g.Services, g.Universe)
}

// store renders the generation's configuration.
func (g genConfig) store(statePath string, ids []*m.Address) (config.Store, error) {
	st := config.Store{}
	st.Router.Address = ids[0].Store()
	st.Router.Universe = g.Universe
	st.System.StatePath = statePath
	// (dns-constructed: the configuration of a machine with a tun interface, the server is constructed and never
	// started; everything that is STARTED here runs with the tun interface disabled - the server then skips its router
	// advertisement)
	st.System.DisableTun = g.Mode != "dns-constructed"
	ln, err := net.Listen("tcp", "127.0.0.1:0")
	if err != nil {
		return st, err
	}
	st.Router.Listen = []string{fmt.Sprintf("tcp:%d", ln.Addr().(*net.TCPAddr).Port)}
	_ = ln.Close()
	if g.Mode == "router-api" {
		ln, err := net.Listen("tcp", "127.0.0.1:0")
		if err != nil {
			return st, err
		}
		st.System.APIListen = ln.Addr().String()
		_ = ln.Close()
	}
	spell := func(d string, k int) string {
		switch (g.Spell + k) % 4 {
		case 1:
			return strings.ToUpper(d[:1]) + d[1:]
		case 2:
			return d + "."
		}
		return d
	}
	for i, f := range g.Friends {
		st.FriendConfigs = append(st.FriendConfigs, config.FriendConfig{Name: f, IP: ids[1+i%(len(ids)-1)].IP.String()})
	}
	if len(g.Resolve) > 0 {
		st.ResolveConfig = map[string]string{}
		for i, r := range g.Resolve {
			st.ResolveConfig[spell(r+".myco", i)] = ids[1+(i+3)%(len(ids)-1)].IP.String()
		}
	}
	for i, s := range g.Services {
		sc := config.ServiceConfig{Name: "svc-" + s, Public: true, Advertise: i%2 == 0}
		if (g.Spell+i)%2 == 0 {
			sc.URL = fmt.Sprintf("tcp://%s.myco:%d", s, 8000+i)
		} else {
			sc.URL, sc.Domain = fmt.Sprintf("tcp://[::]:%d", 8000+i), s+".myco"
		}
		st.ServiceConfigs = append(st.ServiceConfigs, sc)
	}
	return st, nil
}

type userOp struct {
	Op     string `json:"op"` // map | remap | unmap | learn
	Domain string `json:"domain,omitempty"`
	Router string `json:"router,omitempty"`
}

// runGeneration: one run of the router as far as the stored state is concerned. The state file is loaded, the
// consumers of the storage are constructed on it the way mycoria.New does, started (mode permitting), the names are
// looked up, the user does ops through the storage (what the dashboard's mapping page calls), and the run ends with a
// clean shutdown. want is updated by the user's ops. A non-nil error means the generation could not be carried out.
func runGeneration(rng *rand.Rand, path string, g genConfig, ids []*m.Address, ops []userOp, lookups []string, want map[string]parsedMapping) (refused error, broken error) {
	cs, err := g.store(path, ids)
	if err != nil {
		return nil, err
	}
	cfg, err := cs.Parse()
	if err != nil {
		return nil, fmt.Errorf("configuration %s rejected: %w", g, err)
	}
	doOps := func(stor storage.Storage, st *state.State) error {
		for _, op := range ops {
			switch op.Op {
			case "map", "remap":
				if err := stor.SaveMapping(op.Domain, netip.MustParseAddr(op.Router)); err != nil {
					return fmt.Errorf("SaveMapping(%s): %w", op.Domain, err)
				}
				ms, err := stor.QueryMappings(op.Domain)
				if err != nil {
					return err
				}
				found := false
				for _, mp := range ms {
					if mp.Domain == op.Domain {
						a, b := tkey(mp.Created)
						want[op.Domain] = parsedMapping{Domain: mp.Domain, Router: mp.Router.String(), S: a, N: b}
						found = true
					}
				}
				if !found {
					return fmt.Errorf("the mapping %s just saved is not in the storage", op.Domain)
				}
			case "unmap":
				_ = stor.DeleteMapping(op.Domain)
				delete(want, op.Domain)
			case "learn":
				// (a router the state manager gets to know in this run; it is not part of what was stored before)
				pa := ids[len(ids)-1].PublicAddress
				_ = st.AddRouter(&pa)
			}
		}
		return nil
	}

	switch g.Mode {
	case "router", "router-api":
		var in *mycoria.Instance
		if p, pv, _ := vf.NoPanic(func() { in, err = mycoria.New("v0.0.0-verif", cfg) }); p {
			return fmt.Errorf("panic: %v", pv), nil
		}
		if err != nil {
			if strings.Contains(err.Error(), "load state") {
				return err, nil
			}
			return nil, fmt.Errorf("mycoria.New: %w", err)
		}
		if err := in.Start(); err != nil {
			return nil, fmt.Errorf("router start: %w", err)
		}
		if err := doOps(in.Storage(), in.State()); err != nil {
			_ = in.Stop()
			return nil, err
		}
		if !in.Stop() {
			return nil, fmt.Errorf("router stop failed")
		}
		return nil, nil
	}

	// the tun branch of mycoria.New, without the device: storage, state manager, DNS server
	var stor *storage.JSONFileStorage
	if p, pv, _ := vf.NoPanic(func() { stor, err = storage.NewJSONFileStorage(path) }); p {
		return fmt.Errorf("panic: %v", pv), nil
	}
	if err != nil {
		return err, nil
	}
	inst := &partInstance{cfg: cfg, id: ids[0]}
	inst.st = state.New(inst, stor)
	var conn net.PacketConn
	if g.Mode == "dns-served" {
		conn, err = net.ListenPacket("udp", "127.0.0.1:0")
		if err != nil {
			return nil, err
		}
		defer conn.Close()
	}
	var srv *dns.Server
	if p, pv, _ := vf.NoPanic(func() { srv, err = dns.New(inst, conn, stor) }); p || err != nil {
		return nil, fmt.Errorf("dns.New: %v %v", err, pv)
	}
	var group *mgr.Group
	if g.Mode == "dns-served" {
		group = mgr.NewGroup(stor, inst.st, srv)
	} else {
		group = mgr.NewGroup(stor, inst.st)
	}
	if err := group.Start(); err != nil {
		return nil, fmt.Errorf("start: %w", err)
	}
	// the names are asked for (reading never is a reason to forget a mapping)
	for _, name := range lookups {
		_, _, _ = vf.NoPanic(func() { srv.Lookup(name) })
	}
	if g.Mode == "dns-served" {
		client := &mdns.Client{Net: "udp", Timeout: 300 * time.Millisecond}
		for i, name := range lookups {
			if i >= 3 {
				break
			}
			q := new(mdns.Msg)
			q.SetQuestion(name+".", []uint16{mdns.TypeAAAA, mdns.TypeANY, mdns.TypeSVCB}[rng.Intn(3)])
			_, _, _ = client.Exchange(q, conn.LocalAddr().String()) // (the replies are C19's subject)
		}
		_, _ = inst.st.QueryNearestRouters(ids[0].IP, 10)
	}
	if err := doOps(stor, inst.st); err != nil {
		_ = group.Stop()
		return nil, err
	}
	if !group.Stop() {
		return nil, fmt.Errorf("the module group (storage, state, dns) failed to stop")
	}
	return nil, nil
}

func pickSome(rng *rand.Rand, pool []string, p float64) []string {
	var out []string
	for _, x := range pool {
		if rng.Float64() < p {
			out = append(out, x)
		}
	}
	return out
}

func without(l []string, x string) []string {
	var out []string
	for _, y := range l {
		if y != x {
			out = append(out, y)
		}
	}
	return out
}

// consumerGenerations: stage R-consumers.
func consumerGenerations(c *vf.Ctx) {
	t0 := time.Now()
	rng := rand.New(rand.NewSource(c.Seed*7919 + 18)) // (its own stream: the other stages see the same inputs as before)
	ids := mesh.Identities(8)
	chains := c.Pick(6, 48)
	modes := []string{"dns-constructed", "dns-served", "router", "router-api"}
	nGen, nCollide := 0, 0
	wholeBudget := c.Pick(2, 12)
	modeSeen := map[string]int{}
	for ch := 0; ch < chains; ch++ {
		dir := filepath.Join(c.Work, fmt.Sprintf("consumers-%d", ch))
		_ = os.MkdirAll(dir, 0o755)
		path := filepath.Join(dir, "state.json")
		// the names of this chain: host names a user maps and an operator configures, two of them random, a name
		// below another one, an internationalised one; in some chains names the DNS server reserves
		pool := []string{"bob", "alice", "printer", "nas", "files.nas", "xn--bcher-kva", "git", fmt.Sprintf("h%d", rng.Intn(1000)), fmt.Sprintf("n%d-x", rng.Intn(1000))}
		if rng.Intn(3) == 0 {
			pool = append(pool, reservedLabels[rng.Intn(len(reservedLabels))])
		}
		// generation 0: the user maps names, the router learns routers, clean shutdown
		s0, err := storage.NewJSONFileStorage(path)
		if err != nil {
			c.Broken("consumers: new storage: %v", err)
			return
		}
		if err := apply(s0, genContent(rng, 1+rng.Intn(c.Pick(6, 40)), rng.Intn(4))); err != nil {
			c.Broken("consumers: apply: %v", err)
			return
		}
		stored := pickSome(rng, pool, 0.6)
		if len(stored) == 0 {
			stored = []string{pool[rng.Intn(len(pool))]}
		}
		for i, l := range stored {
			if err := s0.SaveMapping(l+".myco", ids[1+i%6].IP); err != nil {
				c.Broken("consumers: SaveMapping: %v", err)
				return
			}
		}
		if err := s0.Stop(); err != nil {
			c.Broken("consumers: first shutdown: %v", err)
			return
		}
		have, err := loadParsed(path)
		if err != nil {
			// (the round-trip stages report a state that does not come back at all)
			c.Broken("consumers: the first generation's state does not load: %v", err)
			return
		}
		var history []string
		gens := 3 + rng.Intn(c.Pick(3, 5))
		forced := 1 + rng.Intn(gens) // the generation in which the configuration certainly claims a stored name
		prev := genConfig{}
		for gi := 1; gi <= gens; gi++ {
			g := genConfig{Mode: modes[rng.Intn(len(modes))], Spell: rng.Intn(8)}
			if gi == forced {
				g.Mode = modes[rng.Intn(2)]
			}
			if strings.HasPrefix(g.Mode, "router") {
				// (a whole router takes 5 s to stop)
				if wholeBudget == 0 {
					g.Mode = modes[rng.Intn(2)]
				} else {
					wholeBudget--
				}
			}
			switch rng.Intn(4) {
			case 0: // the configuration of the previous generation, unchanged but for the mode
				g.Friends, g.Resolve, g.Services, g.Universe = prev.Friends, prev.Resolve, prev.Services, prev.Universe
			case 1: // entries come and go
				g.Friends = append(pickSome(rng, prev.Friends, 0.5), pickSome(rng, pool, 0.15)...)
				g.Resolve = append(pickSome(rng, prev.Resolve, 0.5), pickSome(rng, pool, 0.15)...)
				g.Services = pickSome(rng, pool, 0.2)
				g.Universe = prev.Universe
			default:
				g.Friends, g.Resolve, g.Services = pickSome(rng, pool, 0.3), pickSome(rng, pool, 0.25), pickSome(rng, pool, 0.2)
				g.Universe = []string{"", "", "lab"}[rng.Intn(3)]
			}
			dedup := func(l []string) []string {
				seen := map[string]bool{}
				var out []string
				for _, x := range l {
					if !seen[x] {
						seen[x] = true
						out = append(out, x)
					}
				}
				return out
			}
			g.Friends, g.Resolve, g.Services = dedup(g.Friends), dedup(g.Resolve), dedup(g.Services)
			var storedNow []string
			for _, mp := range have.Mappings {
				if l, ok := strings.CutSuffix(mp.Domain, ".myco"); ok {
					for _, pl := range pool {
						if pl == l {
							storedNow = append(storedNow, l)
						}
					}
				}
			}
			if gi == forced && len(storedNow) > 0 {
				l := storedNow[rng.Intn(len(storedNow))]
				switch rng.Intn(5) {
				case 0, 1:
					g.Friends = dedup(append(g.Friends, l))
				case 2, 3:
					g.Resolve = dedup(append(g.Resolve, l))
				default:
					g.Friends, g.Resolve = dedup(append(g.Friends, l)), dedup(append(g.Resolve, l))
				}
			}
			// what the user does in this run
			var ops []userOp
			want := map[string]parsedMapping{}
			for _, mp := range have.Mappings {
				want[mp.Domain] = mp
			}
			for k := rng.Intn(3); k > 0; k-- {
				switch r := rng.Intn(6); {
				case r < 2:
					l := pool[rng.Intn(len(pool))]
					op := "map"
					if _, ok := want[l+".myco"]; ok {
						op = "remap"
					}
					ops = append(ops, userOp{Op: op, Domain: l + ".myco", Router: ids[1+rng.Intn(6)].IP.String()})
				case r < 3 && len(storedNow) > 0:
					l := storedNow[rng.Intn(len(storedNow))]
					ops = append(ops, userOp{Op: "unmap", Domain: l + ".myco"})
					storedNow = without(storedNow, l)
				case r < 4:
					ops = append(ops, userOp{Op: "learn"})
				}
			}
			lookups := []string{"router.myco", "nobody.myco"}
			for _, l := range pool {
				lookups = append(lookups, l+".myco")
			}
			rng.Shuffle(len(lookups), func(i, j int) { lookups[i], lookups[j] = lookups[j], lookups[i] })
			collide := 0
			for d := range want {
				if g.claims(d) != "no configured name" {
					collide++
				}
			}
			history = append(history, fmt.Sprintf("generation %d: %s, user: %v", gi, g, ops))
			var refused, broken error
			tg := time.Now()
			if p, pv, stack := vf.NoPanic(func() { refused, broken = runGeneration(rng, path, g, ids, ops, lookups, want) }); p {
				broken = fmt.Errorf("panic: %v\n%s", pv, tailStr(stack, 600))
			}
			if broken != nil {
				c.Broken("consumers chain %d generation %d (%s): %v", ch, gi, g, broken)
				break
			}
			c.Eval(1)
			nGen++
			if os.Getenv("VERIF_C18_TIMING") != "" {
				c.Logf("consumers chain %d generation %d %s: %.2fs", ch, gi, g.Mode, time.Since(tg).Seconds())
			}
			modeSeen[g.Mode]++
			if collide > 0 {
				nCollide++
			}
			c.Distinct(fmt.Sprintf("consumers|%d|%d|%s", ch, gi, g))
			replay := map[string]any{"chain": ch, "generation": gi, "config": g, "ops": ops, "history": history, "stored_before": have.Mappings}
			how := map[string]string{
				"dns-constructed": "the state file is loaded and the state manager and the DNS server are constructed on the loaded storage as mycoria.New does on a machine with a tun interface (dns.New(instance, conn, storage)); clean shutdown",
				"dns-served":      "the state file is loaded, the state manager and the DNS server are constructed on the loaded storage as mycoria.New does with a tun interface, started as one module group, names are looked up; clean shutdown",
				"router":          "a whole relay-only router (mycoria.New, tun disabled) is started and stopped on the state file",
				"router-api":      "a whole relay-only router with an API listener and the dashboard (mycoria.New, tun disabled) is started and stopped on the state file",
			}[g.Mode]
			if refused != nil {
				c.Violation(vf.Key("consumers", "refuses-to-start", g.Mode), fmt.Sprintf("the start of generation %d refuses the state the previous clean shutdown stored: %v (history: %s)", gi, refused, strings.Join(history, "; ")), replay, nil)
				break
			}
			got, lerr := loadParsed(path)
			if lerr != nil {
				c.Violation(vf.Key("consumers", "reload-fails", g.Mode), fmt.Sprintf("the state stored by the clean shutdown of generation %d does not load: %v (history: %s)", gi, lerr, strings.Join(history, "; ")), replay, nil)
				break
			}
			// ---- the oracle: every stored mapping, every stored router
			gotM := map[string]parsedMapping{}
			for _, mp := range got.Mappings {
				gotM[mp.Domain] = mp
			}
			var domains []string
			for d := range want {
				domains = append(domains, d)
			}
			sort.Strings(domains)
			for _, d := range domains {
				w := want[d]
				claim := g.claims(d)
				gm, ok := gotM[d]
				switch {
				case !ok:
					c.Violation(vf.Key("consumers", "mapping-lost", g.Mode, claimKind(claim)),
						fmt.Sprintf("the stored domain mapping %q -> %s (never deleted by the user) is gone after save and reload: %s; in this generation's configuration the name is %s (chain %d; %s)",
							d, w.Router, how, claim, ch, strings.Join(history, "; ")), replay, nil)
				case gm != w:
					c.Violation(vf.Key("consumers", "mapping-changed", g.Mode, claimKind(claim)),
						fmt.Sprintf("the stored domain mapping %q changed over save and reload: stored %+v, reloaded %+v: %s; in this generation's configuration the name is %s (chain %d; %s)",
							d, w, gm, how, claim, ch, strings.Join(history, "; ")), replay, nil)
				}
			}
			gotR := map[string]snapRouter{}
			for _, r := range got.Routers {
				gotR[r.IP] = r
			}
			whole := strings.HasPrefix(g.Mode, "router")
			learns := false
			for _, op := range ops {
				learns = learns || op.Op == "learn"
			}
			for _, w := range have.Routers {
				gr, ok := gotR[w.IP]
				if whole || (learns && w.IP == ids[len(ids)-1].IP.String()) {
					// usedAt is the one field a running router may touch (sessions are looked up), and the field that
					// meeting a router again touches (the storage stamps it when the entry is fetched)
					gr.Used, w.Used = "", ""
				}
				switch {
				case !ok:
					c.Violation(vf.Key("consumers", "router-lost", g.Mode),
						fmt.Sprintf("the stored router %s is gone after save and reload: %s (chain %d; %s)", w.IP, how, ch, strings.Join(history, "; ")), replay, nil)
				case gr != w:
					c.Violation(vf.Key("consumers", "router-changed", g.Mode),
						fmt.Sprintf("the stored router %s changed over save and reload: stored %+v, reloaded %+v: %s (chain %d; %s)", w.IP, w, gr, how, ch, strings.Join(history, "; ")), replay, nil)
				}
			}
			if ch == 0 && gi == 1 {
				c.Sample(map[string]any{"consumers_generation": g, "ops": ops, "mappings_stored": len(want), "claimed_by_configuration": collide})
			}
			// the next generation starts from what is on disk now
			have, prev = got, g
		}
	}
	if nGen > 0 && nCollide == 0 {
		c.Broken("consumers: in none of %d generations the configuration claimed a stored name", nGen)
	}
	if modeSeen["dns-constructed"]+modeSeen["dns-served"] == 0 && nGen > 0 {
		c.Broken("consumers: no generation constructed the DNS server")
	}
	c.Logf("stage R-consumers: %d chains, %d generations (%v), %d with stored names the configuration claims, %.1fs", chains, nGen, modeSeen, nCollide, time.Since(t0).Seconds())
	c.Stage("R-consumers", map[string]any{"chains": chains, "generations": nGen, "modes": modeSeen, "generations_with_claimed_names": nCollide})
}
