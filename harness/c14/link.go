// The second way two routers get end-to-end keys: the link (peering) handshake between direct peers, whose
// finalize() installs the handshake's key exchange as the end-to-end session. This file runs REAL link set-ups
// (Peering.VerifSetupLink on both router stacks) over in-memory connections whose framed messages are held back until
// the schedule - a behaviour of KeySetup.tla's LinkDial / LinkRecv actions beside the hello actions - releases them, so
// that a hello exchange between the same two routers (routed over a third router: the two are not linked yet) is placed
// at every point between the handshake's first message and its two finalisations.
package main

import (
	"encoding/json"
	"fmt"
	"io"
	"math/rand"
	"net"
	"os"
	"path/filepath"
	"sort"
	"sync"
	"time"

	"github.com/fxamacker/cbor/v2"

	"github.com/mycoria/mycoria/frame"
	"github.com/mycoria/mycoria/m"
	"github.com/mycoria/mycoria/peering"

	"verifharness/internal/mesh"
	"verifharness/internal/vf"
	"verifharness/internal/world"
)

// linkStepWait bounds how long one end of a handshake may take to react to a message it was handed.
const linkStepWait = 10 * time.Second

type setupRet struct {
	link peering.Link
	err  error
}

// holdLink is one connection between A and B on which both ends run the real link set-up. Every framed message an
// end writes is read at once (writers never block) and held until the driver hands it to the other end.
type holdLink struct {
	p      *pair
	mu     sync.Mutex
	router map[string]net.Conn // the end the router's set-up runs on
	far    map[string]net.Conn // the driver's end of that connection
	held   map[string][][]byte // messages written by router x that were not handed to its peer yet
	nsent  map[string]int      // messages router x has written so far
	eof    map[string]bool     // router x closed its end
	done   map[string]chan setupRet
	ret    map[string]*setupRet
	shut   map[string]bool // the driver closed the connection towards router x
}

func (h *holdLink) read(x string) {
	src := h.far[x]
	for {
		var lb [2]byte
		if _, err := io.ReadFull(src, lb[:]); err != nil {
			break
		}
		n := int(lb[0])<<8 | int(lb[1])
		if n < 2 {
			break
		}
		data := make([]byte, n)
		copy(data, lb[:])
		if _, err := io.ReadFull(src, data[2:]); err != nil {
			break
		}
		h.mu.Lock()
		h.held[x] = append(h.held[x], data)
		h.nsent[x]++
		h.mu.Unlock()
	}
	h.mu.Lock()
	h.eof[x] = true
	h.mu.Unlock()
}

func (h *holdLink) sent(x string) int {
	h.mu.Lock()
	defer h.mu.Unlock()
	return h.nsent[x]
}

func (h *holdLink) nheld(x string) int {
	h.mu.Lock()
	defer h.mu.Unlock()
	return len(h.held[x])
}

func (h *holdLink) waitSent(x string, n int, d time.Duration) bool {
	deadline := time.Now().Add(d)
	for h.sent(x) < n {
		if time.Now().After(deadline) {
			return false
		}
		time.Sleep(50 * time.Microsecond)
	}
	return true
}

// waitDone waits for the set-up of router x to return.
func (h *holdLink) waitDone(x string, d time.Duration) *setupRet {
	if r := h.ret[x]; r != nil {
		return r
	}
	if d <= 0 {
		select {
		case r := <-h.done[x]:
			h.ret[x] = &r
			return &r
		default:
			return nil
		}
	}
	select {
	case r := <-h.done[x]:
		h.ret[x] = &r
		return &r
	case <-time.After(d):
		return nil
	}
}

// isDone reports whether the set-up of router x has returned (without waiting).
func (h *holdLink) isDone(x string) bool { return h.waitDone(x, 0) != nil }

// lastIsErrReply reports whether the newest message router x wrote is the error reply of a set-up that gives up.
func (h *holdLink) lastIsErrReply(x string) bool {
	h.mu.Lock()
	defer h.mu.Unlock()
	if len(h.held[x]) == 0 {
		return false
	}
	data := h.held[x][len(h.held[x])-1]
	f, err := frame.NewFrameBuilder().ParseFrame(append([]byte(nil), data[2:]...), nil, 0)
	if err != nil {
		return false
	}
	var e struct {
		Err string `cbor:"err,omitempty"`
	}
	return cbor.Unmarshal(f.MessageData(), &e) == nil && e.Err != ""
}

// handNext hands the oldest held message of x's peer to x. It returns false when there is none or x does not read.
func (h *holdLink) handNext(x string) bool {
	from := peerOf(x)
	h.mu.Lock()
	if len(h.held[from]) == 0 || h.shut[x] {
		h.mu.Unlock()
		return false
	}
	data := h.held[from][0]
	h.held[from] = h.held[from][1:]
	h.mu.Unlock()
	_ = h.far[x].SetWriteDeadline(time.Now().Add(linkStepWait))
	_, err := h.far[x].Write(data)
	return err == nil
}

// shutTowards closes the connection towards router x (its peer gave up).
func (h *holdLink) shutTowards(x string) {
	h.mu.Lock()
	h.shut[x] = true
	h.mu.Unlock()
	_ = h.far[x].Close()
}

// startLink connects A and B (router d dials) and starts the real set-up on both ends; it returns when both requests
// have been written.
func (p *pair) startLink(d string) error {
	h := &holdLink{p: p, router: map[string]net.Conn{}, far: map[string]net.Conn{}, held: map[string][][]byte{}, nsent: map[string]int{},
		eof: map[string]bool{}, done: map[string]chan setupRet{}, ret: map[string]*setupRet{}, shut: map[string]bool{}}
	url, err := m.ParsePeeringURL("tcp://127.0.0.1:47369")
	if err != nil {
		return err
	}
	for _, x := range []string{"A", "B"} {
		h.router[x], h.far[x] = net.Pipe()
		h.done[x] = make(chan setupRet, 1)
	}
	p.lk = h
	// the request of a set-up is stamped "one tick ago" without asking the session's time sequence: let the clock pass
	// everything the two routers have signed for each other so far
	time.Sleep(3 * time.Millisecond)
	for _, x := range []string{"A", "B"} {
		go h.read(x)
		go func(x string) {
			defer func() {
				if r := recover(); r != nil {
					h.done[x] <- setupRet{nil, fmt.Errorf("panic: %v", r)}
				}
			}()
			l, err := p.node(x).Peer.VerifSetupLink(h.router[x], url, x == d)
			h.done[x] <- setupRet{l, err}
		}(x)
	}
	for _, x := range []string{"A", "B"} {
		if !h.waitSent(x, 1, linkStepWait) {
			return fmt.Errorf("router %s did not write its peering request", x)
		}
	}
	time.Sleep(2 * time.Millisecond)
	return nil
}

// linkRecv executes the model step "router y reads the next handshake message": it reports whether the real set-up
// reacted as the model says (outcome request / response: it wrote its next message; finalized: the set-up returned a
// link; refused / failed: the set-up returned an error; closed: y is linked and the connection is closed under it).
func (p *pair) linkRecv(y, kind, outcome string) bool {
	h := p.lk
	if h == nil {
		return false
	}
	x := peerOf(y)
	if kind == "lerr" {
		// what the peer wrote when it gave up (an error reply, best effort), then the end of the connection
		for h.nheld(x) > 0 && h.handNext(y) {
		}
		h.shutTowards(y)
		if outcome == "closed" {
			r := h.waitDone(y, 0)
			if r == nil || r.err != nil || r.link == nil {
				return false
			}
			deadline := time.Now().Add(linkStepWait)
			for !r.link.IsClosing() && time.Now().Before(deadline) {
				time.Sleep(100 * time.Microsecond)
			}
			return r.link.IsClosing()
		}
		r := h.waitDone(y, linkStepWait)
		return r != nil && r.err != nil
	}
	before := h.sent(y)
	if h.isDone(y) || !h.handNext(y) {
		return false
	}
	// y either writes its next message or its set-up returns (a link, or an error)
	deadline := time.Now().Add(linkStepWait)
	var r *setupRet
	for h.sent(y) <= before {
		if r = h.waitDone(y, 0); r != nil {
			break
		}
		if time.Now().After(deadline) {
			p.setupErr = fmt.Errorf("router %s did not react to the handshake message (%s) it was handed within %v", y, kind, linkStepWait)
			return false
		}
		time.Sleep(50 * time.Microsecond)
	}
	switch outcome {
	case "request", "response":
		return r == nil && !h.lastIsErrReply(y)
	case "finalized":
		return r != nil && r.err == nil && r.link != nil
	case "refused":
		if r == nil {
			// the error reply (best effort) was written first; the set-up returns right after it
			r = h.waitDone(y, linkStepWait)
		}
		return r != nil && r.err != nil
	}
	return false
}

// linkFrameTo hands the next frame x's peer sent over the established link to x and runs x's switch handler and router
// worker on what x's link reader delivers.
func (p *pair) linkFrameTo(x string) bool {
	h := p.lk
	if h == nil || !h.isDone(x) || h.ret[x].err != nil {
		return false
	}
	if !h.handNext(x) {
		return false
	}
	select {
	case f := <-p.node(x).Sw.Input():
		_, _ = p.ms.W.Inject(p.node(x), f)
		return true
	case <-time.After(linkStepWait):
		p.setupErr = fmt.Errorf("the link reader of router %s did not deliver the frame it was handed within %v", x, linkStepWait)
		return false
	}
}

// drainLink lets a handshake that is under way run to its end in connection order (used when the real routers left
// the path of the model), then closes the connection.
func (p *pair) drainLink() {
	h := p.lk
	if h == nil {
		return
	}
	idle := 0
	for idle < 40 {
		progress := false
		for _, y := range []string{"A", "B"} {
			if !h.isDone(y) && h.nheld(peerOf(y)) > 0 && h.handNext(y) {
				progress = true
			}
		}
		if h.isDone("A") && h.isDone("B") {
			break
		}
		if progress {
			idle = 0
		} else {
			idle++
		}
		time.Sleep(500 * time.Microsecond)
	}
	for _, y := range []string{"A", "B"} {
		if !h.isDone(y) {
			h.shutTowards(y)
			h.waitDone(y, linkStepWait)
		}
	}
}

// closeLink ends what the pair started: links, connections, goroutines.
func (p *pair) closeLink() {
	h := p.lk
	if h == nil {
		return
	}
	for _, x := range []string{"A", "B"} {
		_ = h.far[x].Close()
		_ = h.router[x].Close()
	}
	for _, x := range []string{"A", "B"} {
		if r := h.waitDone(x, linkStepWait); r != nil && r.link != nil {
			r.link.Close(nil)
		}
	}
	p.lk = nil
}

// newLinkPair builds a world of three routers: A and B (A < B) that are NOT linked to each other and a relay that is
// linked to both; the mesh has converged, so that A and B know each other and route to each other over the relay - the
// situation in which two routers exchange hellos first and become direct peers later. relayPos (0..2) is the place of
// the relay's address among the three; history > 0 gives the two routers a past: a completed hello exchange whose keys
// were lost again on both sides (1) - both restarted - before the schedule starts.
func newLinkPair(rng *rand.Rand, relayPos, history int) (*pair, error) {
	ids := []int{1, 2, 3}
	rel := ids[relayPos%3]
	var ab []int
	for _, i := range ids {
		if i != rel {
			ab = append(ab, i)
		}
	}
	la, lb := m.SwitchLabel(11+rng.Intn(40)), m.SwitchLabel(61+rng.Intn(40))
	ms, err := mesh.New(3, []mesh.Edge{{A: ab[0], B: rel, LA: la, LB: la + 1}, {A: rel, B: ab[1], LA: lb, LB: lb + 1}}, mesh.Opts{})
	if err != nil {
		return nil, err
	}
	for i := 1; i <= 3; i++ {
		ms.Announce(i, true)
	}
	ms.W.RunUntilQuiet(func(k int) int { return rng.Intn(k) }, 10000)
	if ms.W.NInflight() != 0 {
		return nil, fmt.Errorf("the three-router mesh did not converge")
	}
	pairSeq++
	p := &pair{ms: ms, flights: map[string]*world.Flight{}, dirs: pairSeq % 3, na: ms.Node(ab[0]), nb: ms.Node(ab[1]), relay: ms.Node(rel), linkStage: true}
	for _, x := range []string{"A", "B"} {
		if p.node(x).St.GetSession(p.node(peerOf(x)).ID.IP) == nil {
			return nil, fmt.Errorf("router %s does not know router %s after the mesh converged", x, peerOf(x))
		}
		if rte, _ := p.node(x).RoutingTable().LookupNearestRoute(p.node(peerOf(x)).ID.IP); rte == nil || rte.NextHop != p.relay.ID.IP {
			return nil, fmt.Errorf("router %s has no route to router %s over the relay", x, peerOf(x))
		}
	}
	if history > 0 {
		x := []string{"A", "B"}[rng.Intn(2)]
		if _, err := p.node(x).Rt.HelloPing.Send(p.node(peerOf(x)).ID.IP); err != nil {
			return nil, fmt.Errorf("history: hello: %v", err)
		}
		ms.W.RunUntilQuiet(nil, 100)
		o := p.observe()
		if !(o.ASet && o.BSet && o.A2B && o.B2A) {
			return nil, fmt.Errorf("history: a plain hello exchange over the relay did not set the two routers up: %+v", o)
		}
		for _, y := range []string{"A", "B"} {
			if err := p.node(y).St.SetEncryptionSession(p.node(peerOf(y)).ID.IP, nil); err != nil {
				return nil, fmt.Errorf("history: forget: %v", err)
			}
			p.node(y).Rt.HelloPing.VerifExpire(p.node(peerOf(y)).ID.IP)
		}
		p.stale = nil
		p.steps = append(p.steps, fmt.Sprintf("(history: a hello exchange started by %s completed, then both routers lost the keys)", x))
		time.Sleep(2 * time.Millisecond)
	}
	return p, nil
}

// deliver hands a frame in flight to its receiver; a frame for the relay is followed until it reaches A or B.
func (p *pair) deliver(fl *world.Flight) {
	for hop := 0; hop < 4; hop++ {
		before := p.snapshot()
		_, _ = p.ms.W.Deliver(fl)
		if p.relay == nil || fl.To != p.relay {
			return
		}
		nf := p.newFlights(before)
		if len(nf) != 1 {
			return
		}
		p.takeFlight(nf[0])
		fl = nf[0]
	}
}

// linkBusyOf reads from a dumped state whether a link handshake is under way (a message on the connection or an end
// between its first message and its end).
func linkBusyOf(view string) bool {
	var v []json.RawMessage
	if json.Unmarshal([]byte(view), &v) != nil || len(v) < 13 {
		return false
	}
	var lq map[string][]json.RawMessage
	var lst map[string]struct {
		Step int `json:"step"`
	}
	_ = json.Unmarshal(v[11], &lq)
	_ = json.Unmarshal(v[12], &lst)
	for _, x := range []string{"A", "B"} {
		if len(lq[x]) > 0 || (lst[x].Step >= 1 && lst[x].Step <= 3) {
			return true
		}
	}
	return false
}

// allPaths enumerates the maximal paths (sequences of edge indexes from the initial state to a state without
// successors) of an acyclic dumped graph, at most limit of them.
func allPaths(g *vf.Graph, limit int) [][]int {
	var out [][]int
	var cur []int
	var walk func(s string)
	walk = func(s string) {
		if len(out) >= limit {
			return
		}
		if len(g.Out[s]) == 0 || len(cur) > 64 {
			out = append(out, append([]int(nil), cur...))
			return
		}
		for _, ei := range g.Out[s] {
			cur = append(cur, ei)
			walk(g.Edges[ei].To)
			cur = cur[:len(cur)-1]
		}
	}
	walk(g.Inits[0])
	return out
}

// linkStats collects what the link stage saw.
type linkStats struct {
	design map[string]int      // quiescent mismatches the specification of the code as it is predicts, confirmed on the real routers
	sample map[string][]string // one schedule per such class
	code   int                 // quiescent mismatches the specification does not predict (each is a verdict)
	drift  int                 // schedules the real routers did not follow
}

// randomPaths draws n maximal paths of an acyclic dumped graph (a uniformly chosen successor at every state).
func randomPaths(g *vf.Graph, rng *rand.Rand, n int) [][]int {
	var out [][]int
	for k := 0; k < n; k++ {
		var p []int
		s := g.Inits[0]
		for len(g.Out[s]) > 0 && len(p) < 64 {
			ei := g.Out[s][rng.Intn(len(g.Out[s]))]
			p = append(p, ei)
			s = g.Edges[ei].To
		}
		out = append(out, p)
	}
	return out
}

// linkStage: stages M and R for a hello exchange and a link handshake between the same two routers. TLC enumerates
// every placement of the hello messages between the handshake's messages (KeySetup_DumpLink: nothing lost, nothing
// duplicated; thorough also KeySetup_DumpLinkLossy: one hello message lost, one duplicated); the schedules are executed
// on real router stacks (real hello pings over a relay, a real link set-up on a connection whose messages the
// schedule releases) and every quiescent point is observed and judged as in the other stages.
func linkStage(c *vf.Ctx, replayOn func(pr *pair, steps []mstep, label string), ls *linkStats) {
	type job struct {
		cfg    string
		sample int // 0: every maximal path (the quick tier takes a seeded subset), else that many random maximal paths
	}
	jobs := []job{{"KeySetup_DumpLink.cfg", 0}}
	if c.Thorough() {
		jobs = append(jobs, job{"KeySetup_DumpLinkLossy.cfg", 4000})
	}
	var tSetup, tRun time.Duration
	for _, jb := range jobs {
		dl, err := c.TLC("KeySetup", jb.cfg, vf.TLCOpts{Workers: 1, Timeout: 20 * time.Minute, Heap: "8g"})
		if err != nil {
			c.Fatal("M link (%s): %v", jb.cfg, err)
		}
		c.AddModel(dl.Distinct, dl.Generated)
		if len(dl.Edges) == 0 {
			c.Fatal("M link (%s): no edges", jb.cfg)
		}
		dl.Inits = []string{dl.Edges[0].From}
		gl := vf.BuildGraph(dl)
		var paths [][]int
		if jb.sample == 0 {
			paths = allPaths(gl, 200000)
		} else {
			paths = randomPaths(gl, c.Rand, jb.sample)
		}
		total := len(paths)
		// what a path is about: is a hello message sent or handled while the handshake is under way (the two set-ups
		// overlap), and does the model say it ends in a mismatch
		overlap := make([]bool, len(paths))
		nbad := 0
		for pi, p := range paths {
			bad := false
			for _, ei := range p {
				e := gl.Edges[ei]
				var st step
				_ = json.Unmarshal(e.Act, &st)
				if (st.A.Name == "recv" || st.A.Name == "start") && linkBusyOf(e.From) {
					overlap[pi] = true
				}
				bad = bad || st.Bad
			}
			if bad {
				nbad++
			}
		}
		order := c.Rand.Perm(len(paths))
		if lim := c.Pick(300, 1000000); len(order) > lim {
			// overlapping set-ups first (in the seeded order), the sequential ones fill what is left of the budget
			sort.SliceStable(order, func(i, j int) bool { return overlap[order[i]] && !overlap[order[j]] })
			order = order[:lim]
		}
		executed, noverlap := 0, 0
		before := *ls
		for k, pi := range order {
			p := paths[pi]
			var steps []mstep
			for _, ei := range p {
				e := gl.Edges[ei]
				var st step
				_ = json.Unmarshal(e.Act, &st)
				roles, _ := rolesOf(e.To)
				steps = append(steps, mstep{a: st.A, before: netOf(e.From), after: netOf(e.To), roles: roles, bad: st.Bad, busy: linkBusyOf(e.To)})
			}
			history := 0
			if c.Rand.Intn(4) == 0 {
				history = 1
			}
			t0 := time.Now()
			pr, err := newLinkPair(c.Rand, c.Rand.Intn(3), history)
			if err != nil {
				c.Broken("link stage: %v", err)
				return
			}
			tSetup += time.Since(t0)
			t0 = time.Now()
			replayOn(pr, steps, fmt.Sprintf("link-%d", k))
			tRun += time.Since(t0)
			c.Distinct(fmt.Sprintf("link|%s|%v", jb.cfg, p))
			executed++
			if overlap[pi] {
				noverlap++
			}
		}
		name := "R-link-overlap"
		if jb.sample != 0 {
			name = "R-link-overlap-lossy"
		}
		c.Stage(name, map[string]any{"config": jb.cfg, "distinct": dl.Distinct, "edges": len(gl.Edges), "maximal_paths_considered": total,
			"of_these_with_a_model_mismatch": nbad, "executed": executed, "executed_overlapping": noverlap,
			"impl_level_drift": ls.drift - before.drift, "mismatches_not_predicted_by_the_specification": ls.code - before.code})
		c.Logf("R link-overlap (%s): %d states, %d maximal schedules of one hello exchange and one link handshake, %d executed (%d with the two set-ups overlapping), drift %d",
			jb.cfg, dl.Distinct, total, executed, noverlap, ls.drift-before.drift)
		if executed > 0 && noverlap == 0 {
			c.Broken("link stage (%s): no executed schedule had the hello exchange and the link handshake overlap", jb.cfg)
		}
	}
	if os.Getenv("VERIF_C14_DEBUG") != "" {
		c.Logf("link stage: building the worlds took %v, running the schedules %v", tSetup, tRun)
	}
	c.Extra("link_overlap_design_mismatches_confirmed_on_the_real_routers", ls.design)
	c.Extra("link_overlap_design_mismatch_examples", ls.sample)
	keys := make([]string, 0, len(ls.design))
	for k := range ls.design {
		keys = append(keys, k)
	}
	sort.Strings(keys)
	for _, k := range keys {
		c.Logf("R link-overlap: NOTE (no verdict; not an entry of known_findings.json): the specification of the code as it is predicts the quiescent mismatch %s and the real routers confirm it in %d schedule(s), e.g. %v", k, ls.design[k], ls.sample[k])
	}
}

// listedOpen reports whether known_findings.json has an open entry with that key for the property.
func listedOpen(prop, key string) bool {
	data, err := os.ReadFile(filepath.Join(vf.VerifRoot, "known_findings.json"))
	if err != nil {
		return false
	}
	var kf struct {
		Findings []vf.Finding `json:"findings"`
	}
	if json.Unmarshal(data, &kf) != nil {
		return false
	}
	for _, f := range kf.Findings {
		if f.Property == prop && f.Status == "open" && f.Key == key {
			return true
		}
	}
	return false
}
