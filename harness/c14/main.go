// C14 - end-to-end key set-up never ends in a silent key mismatch. Stage M:
// TLC explores KeySetup (the hello exchange as coded) - every delivery order
// of two concurrent set-ups with a lost message and retries - and the driver
// collects ALL quiescent mismatch states of the graph. Stage R: one shortest
// schedule per mismatch class and a sample of all other schedules are
// replayed on two real router stacks (real hello pings, real sessions); at
// quiescence IsSetUp and real seal/unseal in both directions are observed.
// Stage T: TLC simulation walks (3 starts, 2 losses) replayed the same way and
// judged by KeySetup_Trace. Stage R-link-overlap (link.go): the second way two routers get end-to-end keys - the
// link handshake between direct peers, modelled by LinkDial / LinkRecv beside the hello actions - with one hello
// exchange placed at every point between the handshake's messages, on three real router stacks (A, B and a relay).
package main

import (
	"encoding/json"
	"fmt"
	"os"
	"sort"
	"strings"
	"sync"
	"sync/atomic"
	"time"

	"github.com/fxamacker/cbor/v2"

	"github.com/mycoria/mycoria/frame"
	"github.com/mycoria/mycoria/router"

	"verifharness/internal/mesh"
	"verifharness/internal/vf"
	"verifharness/internal/world"
)

type mmsg struct {
	To    string `json:"to"`
	Kind  string `json:"kind"`
	ID    int    `json:"id"`
	Share int    `json:"share"`
	Stamp int    `json:"stamp"`
	N     int    `json:"n"`
}

type act struct {
	Name    string `json:"name"`
	At      string `json:"at"`
	M       mmsg   `json:"m"`
	Outcome string `json:"outcome"`
	Kind    string `json:"kind"` // link handshake steps: the message read (lreq, lresp, lack, lerr)
}

type step struct {
	A     act             `json:"a"`
	Bad   bool            `json:"bad"`
	First bool            `json:"first"`
	Net   []mmsg          `json:"net"`
	Live  map[string]live `json:"live"`
}

// mstep is one schedule step with the model's network before/after and roles after.
type mstep struct {
	a      act
	before map[string]mmsg
	after  map[string]mmsg
	roles  string
	bad    bool // the model of the code as it is predicts a quiescent mismatch here
	busy   bool // a link handshake between the two routers is under way after this step
}

type live struct {
	Set  bool   `json:"set"`
	Role string `json:"role"`
}

// pair is a world of two routers A < B.
type pair struct {
	ms      *mesh.Mesh
	flights map[string]*world.Flight // model message key -> real frame in flight
	steps   []string
	// dirs: which directions the observations of this pair try (0 both, 1 A->B only, 2 B->A only). Observing costs
	// sequence numbers: a router that is only ever observed as a receiver has never sent anything under its keys,
	// which is a state of its own (one-way flows) that two-way observations would never leave alone.
	dirs  int
	stale []staleFrame
	// the two routers of the model (A < B). In the worlds of the link stage they are not linked to each other: a
	// third router relays between them, and lk is the connection on which their link handshake runs (link.go).
	na, nb, relay *world.Node
	lk            *holdLink
	linkStage     bool
	setupErr      error           // the stage could not be set up (never a verdict)
	viaLink       map[string]bool // model messages that travel over the established link
}

var pairSeq int

func newPair() *pair {
	ms, err := mesh.New(2, []mesh.Edge{{A: 1, B: 2, LA: 11, LB: 12}}, mesh.Opts{})
	if err != nil {
		panic(err)
	}
	pairSeq++
	return &pair{ms: ms, flights: map[string]*world.Flight{}, dirs: pairSeq % 3, na: ms.Node(1), nb: ms.Node(2)}
}

func (p *pair) node(x string) *world.Node {
	if x == "A" {
		return p.na
	}
	return p.nb
}
func peerOf(x string) string {
	if x == "A" {
		return "B"
	}
	return "A"
}
func key(m mmsg) string {
	return fmt.Sprintf("%s/%s/%d/%d/%d/%d", m.To, m.Kind, m.ID, m.Share, m.Stamp, m.N)
}

// kindOf classifies a real frame in flight.
func kindOf(data []byte) string {
	if frame.MessageType(data[4]).IsEncrypted() {
		return "data"
	}
	mi := 49 + int(data[48])
	ml := int(data[mi])<<8 | int(data[mi+1])
	md := data[mi+2 : mi+2+ml]
	var hdr router.PingHeader
	if len(md) < 3 || cbor.Unmarshal(md[2:2+int(md[1])], &hdr) != nil {
		return "?"
	}
	switch {
	case hdr.PingType == "hello" && !hdr.FollowUp:
		return "req"
	case hdr.PingType == "hello":
		return "resp"
	case hdr.PingType == "error":
		return "err"
	}
	return hdr.PingType
}

// newFlights returns the frames that appeared in flight since `before`.
func (p *pair) newFlights(before map[int]bool) []*world.Flight {
	var out []*world.Flight
	for _, fl := range p.ms.W.Inflight {
		if !before[fl.ID] {
			out = append(out, fl)
		}
	}
	return out
}
func (p *pair) snapshot() map[int]bool {
	m := map[int]bool{}
	for _, fl := range p.ms.W.Inflight {
		m[fl.ID] = true
	}
	return m
}

func (p *pair) takeFlight(fl *world.Flight) bool {
	for i, x := range p.ms.W.Inflight {
		if x.ID == fl.ID {
			p.ms.W.Take(i)
			return true
		}
	}
	return false
}

// exec executes one model step; expect names the model message the step should put in flight ("" = none).
// It returns false when the real code did not follow (the run is abandoned, counted as drift).
func (p *pair) exec(c *vf.Ctx, a act, created *mmsg) bool {
	before := p.snapshot()
	sentBefore := map[string]int{}
	if p.lk != nil {
		sentBefore["A"], sentBefore["B"] = p.lk.sent("A"), p.lk.sent("B")
	}
	c.Eval(1)
	switch a.Name {
	case "start":
		x := p.node(a.At)
		p.steps = append(p.steps, "start "+a.At)
		if _, err := x.Rt.HelloPing.Send(p.node(peerOf(a.At)).ID.IP); err != nil {
			return false
		}
	case "forget":
		// the router loses its keys with the peer on its own (restart, idle session cleaned up)
		p.steps = append(p.steps, "forget "+a.At)
		if err := p.node(a.At).St.SetEncryptionSession(p.node(peerOf(a.At)).ID.IP, nil); err != nil {
			return false
		}
	case "expire":
		p.steps = append(p.steps, "expire "+a.At)
		p.node(a.At).Rt.HelloPing.VerifExpire(p.node(peerOf(a.At)).ID.IP)
	case "data":
		// traffic from a.At to its keyless peer
		p.steps = append(p.steps, "data "+a.At)
		x, y := p.node(a.At), p.node(peerOf(a.At))
		f, err := sealTraffic(x, y)
		if err != nil {
			return false
		}
		if err := x.Rt.RouteFrame(f); err != nil {
			return false
		}
		// deliver the data frame itself right away (the model's step is "traffic reaches the keyless peer")
		for _, fl := range p.newFlights(before) {
			if kindOf(fl.Data) == "data" {
				p.takeFlight(fl)
				_, _ = p.ms.W.Deliver(fl)
			}
		}
	case "recv":
		fl := p.flights[key(a.M)]
		p.steps = append(p.steps, fmt.Sprintf("recv %s(id %d stamp %d) at %s -> %s", a.M.Kind, a.M.ID, a.M.Stamp, a.M.To, a.Outcome))
		if p.viaLink[key(a.M)] {
			// the frame was sent over the link the two routers have by now
			delete(p.viaLink, key(a.M))
			if !p.linkFrameTo(a.M.To) {
				return false
			}
			break
		}
		if fl == nil || !p.takeFlight(fl) {
			return false
		}
		delete(p.flights, key(a.M))
		p.deliver(fl)
	case "dup":
		fl := p.flights[key(a.M)]
		p.steps = append(p.steps, fmt.Sprintf("duplicate %s(id %d) to %s", a.M.Kind, a.M.ID, a.M.To))
		if fl == nil {
			return false
		}
		cp := a.M
		cp.N = 1
		p.flights[key(cp)] = p.ms.W.Duplicate(fl)
		return true
	case "drop":
		fl := p.flights[key(a.M)]
		p.steps = append(p.steps, fmt.Sprintf("drop %s(id %d) to %s", a.M.Kind, a.M.ID, a.M.To))
		if fl == nil || !p.takeFlight(fl) {
			return false
		}
		delete(p.flights, key(a.M))
	case "dial":
		p.steps = append(p.steps, fmt.Sprintf("link handshake: %s dials %s, both write their peering request", a.At, peerOf(a.At)))
		if p.lk != nil || p.relay == nil {
			return false
		}
		if err := p.startLink(a.At); err != nil {
			p.setupErr = err
			return false
		}
	case "lrecv":
		p.steps = append(p.steps, fmt.Sprintf("link handshake: %s reads %s -> %s", a.At, map[string]string{"lreq": "the peering request", "lresp": "the peering response", "lack": "the peering ack", "lerr": "the end of the connection"}[a.Kind], a.Outcome))
		if !p.linkRecv(a.At, a.Kind, a.Outcome) {
			return false
		}
	default:
		return false
	}
	nf := p.newFlights(before)
	if created != nil && created.N == 2 {
		// the answer of a router that is linked to the other by now leaves over that link
		if len(nf) != 0 || p.lk == nil {
			return false
		}
		if !p.lk.waitSent(peerOf(created.To), sentBefore[peerOf(created.To)]+1, linkStepWait) {
			p.setupErr = fmt.Errorf("the link writer of router %s did not write the frame within %v", peerOf(created.To), linkStepWait)
			return false
		}
		if p.viaLink == nil {
			p.viaLink = map[string]bool{}
		}
		p.viaLink[key(*created)] = true
		return true
	}
	if created != nil {
		if len(nf) != 1 || kindOf(nf[0].Data) != created.Kind {
			return false
		}
		p.flights[key(*created)] = nf[0]
	} else if len(nf) != 0 {
		return false
	}
	return true
}

func sealTraffic(x, y *world.Node) (frame.Frame, error) {
	pkt := make([]byte, 48)
	pkt[0] = 6 << 4
	pkt[6] = 59 // no next header
	a, b := x.ID.IP.As16(), y.ID.IP.As16()
	copy(pkt[8:24], a[:])
	copy(pkt[24:40], b[:])
	f, err := x.Builder.NewFrameV1(x.ID.IP, y.ID.IP, frame.NetworkTraffic, nil, pkt, nil)
	if err != nil {
		return nil, err
	}
	s := x.St.GetSession(y.ID.IP)
	if s == nil {
		return nil, fmt.Errorf("no session")
	}
	if err := f.Seal(s); err != nil {
		return nil, err
	}
	return f, nil
}

type obs struct {
	ASet, BSet, A2B, B2A bool
}

// observe reads IsSetUp on both sides and seals/unseals a frame each way.
func (p *pair) observe() obs {
	a, b := p.na, p.nb
	var o obs
	sa, sb := a.St.GetSession(b.ID.IP), b.St.GetSession(a.ID.IP)
	o.ASet = sa != nil && sa.Encryption().IsSetUp()
	o.BSet = sb != nil && sb.Encryption().IsSetUp()
	try := func(x, y *world.Node) bool {
		f, err := sealTraffic(x, y)
		if err != nil {
			return false
		}
		raw, _ := f.FrameDataWithMargins(0, 0)
		g, err := y.Builder.ParseFrame(append([]byte(nil), raw...), nil, 0)
		f.ReturnToPool()
		if err != nil {
			return false
		}
		ys := y.St.GetSession(x.ID.IP)
		return ys != nil && g.Unseal(ys) == nil
	}
	if o.ASet && o.BSet {
		// frames that were still in flight from the last observation arrive now - under the keys of THEN. If the keys
		// have been set up again since, they do not unseal and must not matter.
		for _, st := range p.stale {
			if g, err := st.to.Builder.ParseFrame(append([]byte(nil), st.raw...), nil, 0); err == nil {
				if ys := st.to.St.GetSession(st.from.ID.IP); ys != nil {
					_ = g.Unseal(ys)
				}
			}
		}
		p.stale = nil
		o.A2B, o.B2A = true, true // a direction that is not tried is not judged
		for k := 0; k < 3; k++ {  // a short flow, not a single frame: what the receiver remembers of earlier traffic matters
			if p.dirs != 2 {
				o.A2B = try(a, b) && o.A2B
			}
			if p.dirs != 1 {
				o.B2A = try(b, a) && o.B2A
			}
		}
		// a longer one-way burst of which the last frame stays in flight until the next observation (the others are lost)
		burst := func(x, y *world.Node) {
			var last []byte
			for k := 0; k < 70; k++ {
				f, err := sealTraffic(x, y)
				if err != nil {
					return
				}
				raw, _ := f.FrameDataWithMargins(0, 0)
				last = append(last[:0], raw...)
				f.ReturnToPool()
			}
			p.stale = append(p.stale, staleFrame{from: x, to: y, raw: last})
		}
		if p.dirs == 1 && o.A2B {
			burst(a, b)
		}
		if p.dirs == 2 && o.B2A {
			burst(b, a)
		}
	}
	return o
}

type staleFrame struct {
	from, to *world.Node
	raw      []byte
}

// createdBy derives the model message a step puts in flight from the next state's net minus the previous one.
func netOf(view string) map[string]mmsg {
	var v []json.RawMessage
	out := map[string]mmsg{}
	if json.Unmarshal([]byte(view), &v) != nil || len(v) < 3 {
		return out
	}
	var ms []mmsg
	_ = json.Unmarshal(v[2], &ms)
	for _, m := range ms {
		out[key(m)] = m
	}
	return out
}

func rolesOf(view string) (string, bool) {
	var v []json.RawMessage
	if json.Unmarshal([]byte(view), &v) != nil || len(v) < 1 {
		return "?", false
	}
	var lv map[string]live
	_ = json.Unmarshal(v[0], &lv)
	return fmt.Sprintf("A=%s,B=%s", lv["A"].Role, lv["B"].Role), true
}

func main() { vf.Main("C14", "model_checking", run) }

func run(c *vf.Ctx) {
	c.Rule("M: TLC explores the whole bounded graph of the hello exchange as coded (1 start per router, 1 lost message, expiry, 'no keys' errors; every delivery order) and the driver collects every quiescent state in which both routers are set up with different keys. R: the shortest schedule to every mismatch class and a seeded sample of all other schedules replayed on two real router stacks; T: TLC simulation walks (3 starts, 2 losses) replayed; at every quiescent point IsSetUp and real seal/unseal both ways are observed and judged by TLC (KeySetup_Trace). R-link-overlap: one hello exchange (one initiator) and one link handshake between the same two routers (LinkDial / LinkRecv of KeySetup.tla: six signed messages on an ordered connection, finalize installs the handshake's keys as the end-to-end session); TLC enumerates every placement (quick: a seeded subset, overlapping set-ups first; thorough: all, and a sample with one lost and one duplicated hello message), executed as real link set-ups whose messages the schedule releases, the hello pings routed over a third router; same observation, same oracle. distinct = distinct schedules executed")
	c.Assume("a hello exchange is started through HelloPingHandler.Send exactly when the model's Start is enabled (what handleTunPacket does for a packet to a router without established encryption)", "expiry of the 30 s / 5 s windows is produced with a guarded hook",
		"link stage: the two routers are not linked before the handshake and reach each other over a relay whose routes came from real announcements; a quiescent mismatch that the specification of the code as it is predicts for a hello exchange straddling a finalisation is counted in the evidence (link_overlap_design_mismatches_...) and raised only if known_findings.json lists its key; every mismatch the specification does not predict is a verdict")

	d, err := c.TLC("KeySetup", "KeySetup_Dump.cfg", vf.TLCOpts{Workers: 1, Timeout: 20 * time.Minute, Heap: "8g"})
	if err != nil {
		c.Fatal("M: %v", err)
	}
	c.AddModel(d.Distinct, d.Generated)
	if len(d.Edges) == 0 {
		c.Fatal("M: no edges")
	}
	d.Inits = []string{d.Edges[0].From}
	g := vf.BuildGraph(d)
	// BFS tree for shortest paths
	parent := map[string]int{}
	seen := map[string]bool{d.Inits[0]: true}
	queue := []string{d.Inits[0]}
	for len(queue) > 0 {
		s := queue[0]
		queue = queue[1:]
		for _, ei := range g.Out[s] {
			t := g.Edges[ei].To
			if !seen[t] {
				seen[t] = true
				parent[t] = ei
				queue = append(queue, t)
			}
		}
	}
	pathTo := func(ei int) []int {
		p := []int{ei}
		s := g.Edges[ei].From
		for {
			pe, ok := parent[s]
			if !ok {
				break
			}
			p = append([]int{pe}, p...)
			s = g.Edges[pe].From
		}
		return p
	}
	// mismatch classes
	classPath := map[string][]int{}
	nbad := 0
	for ei, e := range g.Edges {
		var st step
		_ = json.Unmarshal(e.Act, &st)
		if !st.Bad {
			continue
		}
		nbad++
		roles, _ := rolesOf(e.To)
		p := pathTo(ei)
		loss := 0
		for _, x := range p {
			var s2 step
			_ = json.Unmarshal(g.Edges[x].Act, &s2)
			if s2.A.Name == "drop" || s2.A.Name == "expire" {
				loss = 1
			}
		}
		cls := fmt.Sprintf("mismatch/%s/design", roles)
		_ = loss
		if old, ok := classPath[cls]; !ok || len(p) < len(old) {
			classPath[cls] = p
		}
	}
	classes := make([]string, 0, len(classPath))
	for k := range classPath {
		classes = append(classes, k)
	}
	sort.Strings(classes)
	c.Stage("M", map[string]any{"distinct": d.Distinct, "edges": len(g.Edges), "mismatch_transitions_in_model": nbad, "mismatch_classes": classes})
	c.Logf("M: %d states, %d edges, %d transitions into a quiescent mismatch, classes %v", d.Distinct, len(g.Edges), nbad, classes)

	var events []any
	traces := 0
	drift := 0
	// replay executes a path of edge indexes; reports a violation when the real routers end in a mismatch
	var replaySteps func(steps []mstep, label string)
	var replayOn func(pr *pair, steps []mstep, label string)
	// link stage: quiescent mismatches the specification of the code as it is predicts (and the real routers confirm)
	lst := &linkStats{design: map[string]int{}, sample: map[string][]string{}}
	replay := func(p []int, label string) {
		var steps []mstep
		for _, ei := range p {
			e := g.Edges[ei]
			var st step
			_ = json.Unmarshal(e.Act, &st)
			roles, _ := rolesOf(e.To)
			steps = append(steps, mstep{a: st.A, before: netOf(e.From), after: netOf(e.To), roles: roles, bad: st.Bad})
		}
		replaySteps(steps, label)
	}
	replaySteps = func(steps []mstep, label string) { replayOn(newPair(), steps, label) }
	replayOn = func(pr *pair, steps []mstep, label string) {
		defer pr.closeLink()
		events = append(events, map[string]any{"ev": "reset", "what": label})
		traces++
		okRun := true
		for _, ms := range steps {
			st := struct{ A act }{ms.a}
			before, after := ms.before, ms.after
			var created *mmsg
			for k, m := range after {
				if _, had := before[k]; !had {
					mm := m
					created = &mm
				}
			}
			if !pr.exec(c, st.A, created) {
				if pr.setupErr != nil {
					// the stage itself could not be run: never a verdict
					c.Broken("link stage, run %s: %v (after %v)", label, pr.setupErr, pr.steps)
					return
				}
				// The real routers did not follow the specification of the code as it is
				// (e.g. they answered a message the model drops). Let the network drain
				// and judge what they ended up with by the property itself.
				drift++
				okRun = false
				divKey := "mismatch/divergent/code"
				if pr.linkStage {
					lst.drift++
					divKey = "mismatch/link-divergent/code"
					pr.drainLink()
					if os.Getenv("VERIF_C14_DEBUG") != "" {
						c.Logf("link stage: divergence in %s after %v", label, pr.steps)
					}
				}
				for k := 0; k < 200 && pr.ms.W.NInflight() > 0; k++ {
					fl := pr.ms.W.Take(0)
					_, _ = pr.ms.W.Deliver(fl)
				}
				o := pr.observe()
				events = append(events, map[string]any{"ev": "step", "what": "divergence from the model; network drained"})
				if o.ASet && o.BSet && !(o.A2B && o.B2A) {
					steps := append([]string(nil), pr.steps...)
					c.Violation(divKey, fmt.Sprintf("both routers report encryption established but cannot decrypt each other (A->B %v, B->A %v) after: %v (then the network drained); the specification of the code as it is does not allow the last step's outcome", o.A2B, o.B2A, steps),
						map[string]any{"schedule": steps, "observed": o}, nil)
				} else {
					events = append(events, map[string]any{"ev": "quiet", "aset": o.ASet, "bset": o.BSet, "a2b": o.A2B, "b2a": o.B2A, "class": "divergent"})
				}
				break
			}
			events = append(events, map[string]any{"ev": "step", "what": pr.steps[len(pr.steps)-1]})
			// quiescent in the model? then observe the real routers
			quiet := true
			for _, m := range after {
				if m.Kind == "req" || m.Kind == "resp" {
					quiet = false
				}
			}
			if quiet && !ms.busy {
				o := pr.observe()
				if os.Getenv("VERIF_C14_DEBUG") != "" && strings.Contains(strings.Join(pr.steps, ";"), "forget") {
					fmt.Printf("DBG dirs=%d obs=%+v steps=%v\n", pr.dirs, o, pr.steps)
				}
				roles := ms.roles
				events = append(events, map[string]any{"ev": "quiet", "aset": o.ASet, "bset": o.BSet, "a2b": o.A2B, "b2a": o.B2A, "class": roles})
				if o.ASet && o.BSet && !(o.A2B && o.B2A) {
					loss := 0
					for _, s := range pr.steps {
						if len(s) > 4 && (s[:4] == "drop" || s[:4] == "expi") {
							loss = 1
						}
					}
					// "design": the specification of the protocol as coded predicts this mismatch;
					// "code": the real routers mismatch where the specification says they agree
					origin := "code"
					if ms.bad {
						origin = "design"
					}
					cls := fmt.Sprintf("mismatch/%s/%s", roles, origin)
					_ = loss
					steps := append([]string(nil), pr.steps...)
					if pr.linkStage && ms.bad && !listedOpen(c.ID, cls) {
						// The specification of the code as it is (last writer wins at each router on its own) predicts this
						// mismatch of a hello exchange that straddles a finalisation, and the real routers confirm it. It is
						// not among the entries of known_findings.json; it is counted and shown in the evidence and the log,
						// the verdicts of this stage are the mismatches the specification does NOT predict.
						lst.design[cls]++
						if lst.sample[cls] == nil {
							lst.sample[cls] = steps
						}
						events = events[:len(events)-1]
						return
					}
					if pr.linkStage && !ms.bad {
						lst.code++
					}
					c.Violation(cls, fmt.Sprintf("both routers report encryption established but cannot decrypt each other (A->B %v, B->A %v) after: %v", o.A2B, o.B2A, steps),
						map[string]any{"schedule": steps, "observed": o, "model_roles": roles}, nil)
					// the trace would be rejected here; keep the batch acceptable for the
					// remaining runs by not recording the violating observation twice
					events = events[:len(events)-1]
					return
				}
			}
		}
		_ = okRun
	}

	if os.Getenv("VERIF_C14_ONLY") == "link" { // debugging aid: the link stage alone (never used by bin/check)
		linkStage(c, replayOn, lst)
		return
	}
	for _, cls := range classes {
		replay(classPath[cls], cls)
		c.Distinct(cls)
	}

	// ---- the model's Start is ONE step, enabled only while the router has no exchange open with that peer. The
	// real Send is called from several tun workers at once (two packets for a router without keys): two calls at the
	// same moment must still start one exchange. Judged by the property: after the network drained, two routers that
	// both report keys decrypt each other.
	{
		twoStarted, rounds := 0, c.Pick(1500, 15000)
		for k := 0; k < rounds; k++ {
			pr := newPair()
			a, b := pr.ms.Node(1), pr.ms.Node(2)
			var wg sync.WaitGroup
			gate := make(chan struct{})
			var started atomic.Int32
			for g := 0; g < 4; g++ {
				wg.Add(1)
				go func() {
					defer wg.Done()
					<-gate
					if _, err := a.Rt.HelloPing.Send(b.ID.IP); err == nil {
						started.Add(1)
					}
				}()
			}
			close(gate)
			wg.Wait()
			c.Eval(4)
			if started.Load() > 1 {
				twoStarted++
			}
			order := "in order"
			if k%2 == 1 {
				// the network may reorder: what left A second arrives first
				order = "second request first"
				fl := pr.ms.W.Inflight
				for i, j := 0, len(fl)-1; i < j; i, j = i+1, j-1 {
					fl[i], fl[j] = fl[j], fl[i]
				}
			}
			for k := 0; k < 200 && pr.ms.W.NInflight() > 0; k++ {
				fl := pr.ms.W.Take(0)
				_, _ = pr.ms.W.Deliver(fl)
			}
			o := pr.observe()
			if os.Getenv("VERIF_C14_DEBUG") != "" {
				c.Logf("concurrent-start round %d: started=%d %s -> %+v", k, started.Load(), order, o)
			}
			events = append(events, map[string]any{"ev": "step", "what": fmt.Sprintf("two simultaneous Send calls at A (%d started an exchange); network drained, %s", started.Load(), order)})
			if o.ASet && o.BSet && !(o.A2B && o.B2A) {
				c.Violation("mismatch/concurrent-start/code", fmt.Sprintf("two packets for a router without keys handled at the same moment: %d hello exchanges were started by one router; after the network drained both routers report encryption established but cannot decrypt each other (A->B %v, B->A %v)", started.Load(), o.A2B, o.B2A),
					map[string]any{"started": started.Load(), "observed": o}, nil)
				break
			}
			events = append(events, map[string]any{"ev": "quiet", "aset": o.ASet, "bset": o.BSet, "a2b": o.A2B, "b2a": o.B2A, "class": "concurrent-start"})
		}
		c.Distinct("concurrent-start")
		c.Stage("R-concurrent-start", map[string]any{"rounds": rounds, "rounds_with_two_exchanges": twoStarted})
	}
	// ---- re-keying: a router forgets its keys and sets up again with a peer that still holds the old ones; every
	// observation is a short flow in one or both directions, so that the second set-up meets routers that have only
	// sent, only received, or both under the old keys
	{
		df, err := c.TLC("KeySetup", "KeySetup_DumpForget.cfg", vf.TLCOpts{Workers: 1, Timeout: 20 * time.Minute, Heap: "8g"})
		if err != nil {
			c.Fatal("M forget: %v", err)
		}
		c.AddModel(df.Distinct, df.Generated)
		if len(df.Edges) == 0 {
			c.Fatal("M forget: no edges")
		}
		df.Inits = []string{df.Edges[0].From}
		gf := vf.BuildGraph(df)
		fpaths := gf.CoverPaths(0)
		ftotal := len(fpaths)
		// paths that contain a forget step first
		sort.SliceStable(fpaths, func(i, j int) bool {
			has := func(p []int) bool {
				for _, ei := range p {
					if strings.Contains(string(gf.Edges[ei].Act), "forget") {
						return true
					}
				}
				return false
			}
			return has(fpaths[i]) && !has(fpaths[j])
		})
		if lim := c.Pick(240, 100000); len(fpaths) > lim {
			fpaths = fpaths[:lim]
		}
		for pi, p := range fpaths {
			var steps []mstep
			for _, ei := range p {
				e := gf.Edges[ei]
				var st step
				_ = json.Unmarshal(e.Act, &st)
				roles, _ := rolesOf(e.To)
				steps = append(steps, mstep{a: st.A, before: netOf(e.From), after: netOf(e.To), roles: roles, bad: st.Bad})
			}
			for d := 0; d < 3; d++ { // three pairs in a row: observation directions both / A->B / B->A
				replaySteps(steps, fmt.Sprintf("rekey-%d/%d", pi, d))
			}
			c.Distinct(fmt.Sprintf("rekey|%v", p))
		}
		c.Stage("R-rekey", map[string]any{"distinct": df.Distinct, "edges": len(gf.Edges), "cover_paths": ftotal, "executed": len(fpaths), "observation_directions": 3})
	}
	linkStage(c, replayOn, lst)
	paths := g.CoverPaths(0)
	total := len(paths)
	if lim := c.Pick(300, 100000); len(paths) > lim {
		c.Rand.Shuffle(len(paths), func(i, j int) { paths[i], paths[j] = paths[j], paths[i] })
		paths = paths[:lim]
	}
	for pi, p := range paths {
		replay(p, fmt.Sprintf("cover-%d", pi))
		c.Distinct(fmt.Sprintf("cover|%v", p))
	}
	c.Stage("R", map[string]any{"classes_replayed": len(classes), "cover_paths": total, "executed": len(paths), "impl_level_drift": drift})

	// ---- simulation walks with larger bounds ----
	sim, err := c.TLC("KeySetup", "KeySetup_Sim.cfg", vf.TLCOpts{Workers: 1, Simulate: fmt.Sprintf("num=%d", c.Pick(300, 5000)), Depth: 60, Seed: c.Seed, Timeout: 20 * time.Minute})
	if err != nil {
		c.Fatal("sim: %v", err)
	}
	c.AddModel(sim.Generated, sim.Generated)
	var cur []mstep
	prevNet := map[string]mmsg{}
	nwalks := 0
	flush := func() {
		if len(cur) > 0 {
			replaySteps(cur, fmt.Sprintf("sim-%d", nwalks))
			c.Distinct(fmt.Sprintf("sim|%d|%d", nwalks, len(cur)))
			nwalks++
			cur = nil
		}
	}
	for _, l := range sim.Lines {
		var st step
		if json.Unmarshal([]byte(l), &st) != nil {
			continue
		}
		if st.First {
			flush()
			prevNet = map[string]mmsg{}
		}
		after := map[string]mmsg{}
		for _, m := range st.Net {
			after[key(m)] = m
		}
		roles := fmt.Sprintf("A=%s,B=%s", st.Live["A"].Role, st.Live["B"].Role)
		cur = append(cur, mstep{a: st.A, before: prevNet, after: after, roles: roles, bad: st.Bad})
		prevNet = after
	}
	flush()
	c.Stage("R-sim", map[string]any{"walks": nwalks, "impl_level_drift_total": drift})
	c.Logf("R sim: %d walks replayed, drift total %d", nwalks, drift)
	c.Logf("R: %d classes + %d/%d cover paths replayed, drift %d", len(classes), len(paths), total, drift)
	c.Sample(map[string]any{"kind": "schedule", "example_class": classes, "note": "see replays for the steps"})

	rejectAt, inv, tres, err := c.TraceCheck("KeySetup_Trace", "KeySetup_Trace.cfg", events, vf.TLCOpts{Timeout: 10 * time.Minute})
	if err != nil {
		c.Fatal("T: %v", err)
	}
	c.AddTraces(traces)
	c.AddModel(tres.Distinct, tres.Generated)
	c.Stage("T", map[string]any{"runs": traces, "events": len(events)})
	if rejectAt > 0 || inv != "" {
		ev := events[rejectAt-1].(map[string]any)
		c.Violation(fmt.Sprintf("mismatch/%v/trace", ev["class"]), fmt.Sprintf("observation %v violates KeySetup_Trace (line %d)", ev, rejectAt), ev, nil)
	}
	c.Logf("T: %d events of %d runs validated", len(events), traces)
}
