package main

import (
	"fmt"
	"time"

	"github.com/mycoria/mycoria/config"
	"verifharness/internal/world"
)

func main() {
	world.InstallLogCapture()
	t0 := time.Now()
	w := world.NewWorld()
	var ns []*world.Node
	for i := 0; i < 5; i++ {
		ns = append(ns, w.NewNode(fmt.Sprintf("n%d", i), world.NodeOpts{Cfg: config.Store{}}))
	}
	fmt.Println("nodes built in", time.Since(t0))
	for i := 0; i+1 < len(ns); i++ {
		if _, _, err := w.Connect(ns[i], ns[i+1], 10, 11, 5); err != nil {
			panic(err)
		}
	}
	for _, n := range ns {
		for _, l := range n.Peer.GetLinks() {
			if err := n.Rt.AnnouncePing.Send(l.Peer()); err != nil {
				fmt.Println("announce err", n.Name, err)
			}
		}
	}
	d := w.RunUntilQuiet(nil, 100000)
	fmt.Println("delivered", d, "panics", w.Panics)
	for _, n := range ns {
		fmt.Println(n.Name, "table:")
		for _, e := range n.RoutingTable().VerifEntries() {
			fmt.Printf("   dst=%s nh=%s hops=%d src=%v\n", w.NodeByIP(e.DstIP).Name, w.NodeByIP(e.NextHop).Name, e.Path.TotalHops, e.Source)
		}
		for _, h := range n.Handled {
			if e := h.HandlerErr(); e != "" {
				fmt.Println("   handler err:", e)
			}
		}
	}
}
