// scratch: lockstep overlap of two handshakes between the same routers (exploration)
package main

import (
	"bytes"
	"fmt"
	"os"
	"sync"
	"time"

	"github.com/mycoria/mycoria/config"
	"github.com/mycoria/mycoria/frame"

	"verifharness/internal/linkworld"
	"verifharness/internal/mesh"
	"verifharness/internal/world"
)

func mk(w *world.World, name string, idx int) *world.Node {
	ids := mesh.Identities(3)
	return w.NewNode(name, world.NodeOpts{ID: ids[idx], Cfg: config.Store{Router: config.Router{Universe: "u", UniverseSecret: "s"}}})
}

func main() {
	cross := len(os.Args) > 1 && os.Args[1] == "cross"
	world.InstallLogCapture()
	w := world.NewWorld()
	d, l := mk(w, "D", 0), mk(w, "L", 1)
	dd, dl := linkworld.StartDrain(d), linkworld.StartDrain(l)
	defer dd.Stop()
	defer dl.Stop()
	var mu sync.Mutex
	arr := map[string]int{}
	gate := func(conn int) func(p *linkworld.Proxy, m linkworld.Msg) [][]byte {
		return func(p *linkworld.Proxy, m linkworld.Msg) [][]byte {
			if m.Idx > 3 {
				return nil // the handshake is over
			}
			// in the cross case connection 2 is dialled by L: its "A" direction is L->D
			dir := m.Dir
			if cross && conn == 2 {
				if dir == "A" {
					dir = "B"
				} else {
					dir = "A"
				}
			}
			k := fmt.Sprintf("%s%d", dir, m.Idx)
			mu.Lock()
			arr[k]++
			mu.Unlock()
			dl := time.Now().Add(2 * time.Second)
			for time.Now().Before(dl) {
				mu.Lock()
				n := arr[k]
				mu.Unlock()
				if n >= 2 {
					break
				}
				time.Sleep(200 * time.Microsecond)
			}
			if conn == 2 {
				time.Sleep(4 * time.Millisecond)
			}
			return nil
		}
	}
	pd1 := linkworld.Start(d, l)
	pd1.Proxy.SetHook(gate(1))
	time.Sleep(8 * time.Millisecond)
	var pd2 *linkworld.Pending
	if cross {
		pd2 = linkworld.Start(l, d)
	} else {
		pd2 = linkworld.Start(d, l)
	}
	pd2.Proxy.SetHook(gate(2))
	get := func(pd *linkworld.Pending) (a, b linkworld.SetupRet) {
		for i := 0; i < 2; i++ {
			select {
			case a = <-pd.DoneA:
			case b = <-pd.DoneB:
			case <-time.After(4 * time.Second):
			}
		}
		return
	}
	a1, b1 := get(pd1)
	a2, b2 := get(pd2)
	fmt.Printf("conn1: dialler %v / listener %v\nconn2: dialler %v / listener %v\n", a1.Err, b1.Err, a2.Err, b2.Err)
	time.Sleep(80 * time.Millisecond)
	ld, ll := d.Peer.GetLink(l.ID.IP), l.Peer.GetLink(d.ID.IP)
	fmt.Printf("registered at D: %v (closing %v), at L: %v (closing %v)\n", ld != nil, ld != nil && ld.IsClosing(), ll != nil, ll != nil && ll.IsClosing())
	if ld != nil && ll != nil {
		dd.Take()
		dl.Take()
		for _, t := range []struct {
			from, to *world.Node
			dr       *linkworld.Drain
		}{{d, l, dl}, {l, d, dd}} {
			want, err := linkworld.SendFrame(t.from, t.to, t.from.Peer.GetLink(t.to.ID.IP), frame.NetworkTraffic, []byte("payload payload payload payload"))
			t.dr.WaitN(1, 300*time.Millisecond)
			got := t.dr.Take()
			fmt.Printf("traffic %s->%s: err %v delivered %v\n", t.from.Name, t.to.Name, err, len(got) == 1 && bytes.Equal(got[0], want))
		}
		time.Sleep(50 * time.Millisecond)
		fmt.Printf("after traffic: D link closing %v, L link closing %v\n", ld.IsClosing(), ll.IsClosing())
	}
}
