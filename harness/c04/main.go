// C04 - peering handshake. Stage M: TLC on Handshake (two honest routers, one
// wire fault at every message position of both directions, all universe /
// secret configurations) - AuthOnRegister, AbortOnFault, CleanCompletes.
// Stage R: every (configuration, fault plan) of the model is run on two real
// router stacks whose REAL link set-up (VerifSetupLink: handshake, link keys,
// label, registration, workers) goes through an adversary proxy applying the
// plan to real bytes; thorough corrupts every byte of each of the six
// messages; a "splice" plan puts the message together from this connection's
// message and one its receiver verified before (earlier connection, earlier
// message). Further stages script a participant against a real victim
// (insider, relay, overlap, impersonation - also with signatures recorded in
// an earlier genuine handshake). Stage T: the observed outcomes are judged by
// TLC (Handshake_Trace).
package main

import (
	"bytes"
	"crypto/ed25519"
	"encoding/binary"
	"encoding/json"
	"fmt"
	"io"
	"math/rand"
	"net"
	"net/netip"
	"os"
	"sort"
	"strings"
	"sync"
	"time"

	"github.com/fxamacker/cbor/v2"
	"github.com/zeebo/blake3"

	"github.com/mycoria/mycoria/config"
	"github.com/mycoria/mycoria/frame"
	"github.com/mycoria/mycoria/m"
	"github.com/mycoria/mycoria/peering"
	"github.com/mycoria/mycoria/state"

	"verifharness/internal/linkworld"
	"verifharness/internal/mesh"
	"verifharness/internal/vf"
	"verifharness/internal/world"
)

type cfgT struct {
	UniA string `json:"uniA"`
	UniB string `json:"uniB"`
	SecA string `json:"secA"`
	SecB string `json:"secB"`
}
type planT struct {
	Op     string `json:"op"`
	Dir    string `json:"dir"`
	Idx    int    `json:"idx"`
	Forgot bool   `json:"forgot"`
}
type outcome struct {
	Cfg  cfgT  `json:"cfg"`
	Plan planT `json:"plan"`
	RegA bool  `json:"regA"`
	RegB bool  `json:"regB"`
}

func mkNode(w *world.World, name string, idx int, uni, sec string) *world.Node {
	ids := mesh.Identities(3)
	return w.NewNode(name, world.NodeOpts{ID: ids[idx], Cfg: config.Store{Router: config.Router{Universe: uni, UniverseSecret: sec}}})
}

// cfgVias: the ways a router's configuration gets from what the operator wrote to the running stack.
//
//	"test"  config.MakeTestConfig(store)                         (what the repository's tests and world.NewNode use)
//	"parse" store.Parse()                                        (what LoadConfig ends in)
//	"json"  config.LoadConfig of a .json file holding the store  (what the real program does at start-up)
//	"yaml"  config.LoadConfig of a .yaml file holding the store  (written in YAML's flow style with double-quoted scalars)
var cfgVias = []string{"test", "parse", "json", "yaml"}

// mkNodeVia: a router stack whose configuration went through the real configuration parser the way `via` says.
// The universe name and secret are the caller's strings - whatever the parsed configuration reports back afterwards is
// not looked at.  err != nil: the stack could not be built (a broken check, never a verdict).
func mkNodeVia(w *world.World, name string, idx int, uni, sec, via string) (n *world.Node, err error) {
	defer func() {
		if r := recover(); r != nil {
			n, err = nil, fmt.Errorf("building %s via %s: panic: %v", name, via, r)
		}
	}()
	n = mkNode(w, name, idx, uni, sec)
	if via == "test" || via == "" {
		return n, nil
	}
	st := config.Store{
		Router: config.Router{Universe: uni, UniverseSecret: sec, Address: n.ID.Store(), Listen: []string{"tcp:47369"}},
		System: config.System{DisableTun: true},
	}
	var parsed *config.Config
	switch via {
	case "parse":
		parsed, err = st.Parse()
	case "json", "yaml":
		var data []byte
		if via == "yaml" {
			// a .yaml file with an `address` block cannot be loaded at all on this tree (yaml.v3 panics on the `omitzero`
			// tag of m.AddressStorage); the stack takes its identity from n.ID, so the block is left out
			st.Router.Address = m.AddressStorage{}
		}
		if data, err = json.Marshal(st); err != nil {
			return nil, err
		}
		if via == "yaml" {
			var doc map[string]map[string]any
			if err = json.Unmarshal(data, &doc); err != nil {
				return nil, err
			}
			delete(doc["router"], "address")
			if data, err = json.Marshal(doc); err != nil {
				return nil, err
			}
		}
		// what goes into the file says what the driver wrote, independent of any code of the repository
		var back struct {
			Router struct {
				Universe       string `json:"universe"`
				UniverseSecret string `json:"universeSecret"`
			} `json:"router"`
		}
		if err = json.Unmarshal(data, &back); err != nil || back.Router.Universe != uni || back.Router.UniverseSecret != sec {
			return nil, fmt.Errorf("the configuration file would not say what was meant (%v): %s", err, data)
		}
		var dir string
		if dir, err = os.MkdirTemp("", "c04cfg"); err != nil {
			return nil, err
		}
		defer os.RemoveAll(dir)
		file := dir + "/config." + via // every JSON document is a YAML document (flow style)
		if err = os.WriteFile(file, data, 0o600); err != nil {
			return nil, err
		}
		parsed, err = config.LoadConfig(file)
	default:
		return nil, fmt.Errorf("unknown way %q", via)
	}
	if err != nil {
		return nil, fmt.Errorf("building %s via %s: %w", name, via, err)
	}
	if parsed == nil {
		return nil, fmt.Errorf("building %s via %s: no configuration", name, via)
	}
	// nothing has run on the stack yet: every component reads the configuration through n.Config() when it needs it
	n.Cfg = parsed
	return n, nil
}

// white space an operator's file can carry around a secret without anybody seeing it
var whiteSpaces = []string{" ", "  ", "\t", "\n", "\r\n", "\u00a0"}

// renderCfg: the model's near-miss secrets (" s", "s ") with a white space of the PRNG's choice.
func renderCfg(rng *rand.Rand, cf cfgT) cfgT {
	ren := func(s string) string {
		switch s {
		case " s":
			return whiteSpaces[rng.Intn(len(whiteSpaces))] + "s"
		case "s ":
			return "s" + whiteSpaces[rng.Intn(len(whiteSpaces))]
		}
		return s
	}
	// the same model secret at both ends is the same secret at both ends
	if cf.SecA == cf.SecB {
		cf.SecA = ren(cf.SecA)
		cf.SecB = cf.SecA
		return cf
	}
	cf.SecA, cf.SecB = ren(cf.SecA), ren(cf.SecB)
	return cf
}

// randomConfig: one configuration pair of a family chosen by the PRNG, from names and secrets an operator could write.
//
//	"nameless"    both routers in the default universe (no name); one of them - or both - with a secret
//	"near-miss"   the same named universe, secrets that differ in white space / case only, or not at all
//	"half-named"  one router names a universe, the other does not
//	"any"         names and secrets drawn independently
func randomConfig(rng *rand.Rand) (cf cfgT, family string) {
	names := []string{"u", "U", "v", "test", "Test", "ü", "u v"}
	secrets := []string{"s", "t", "password", "correct horse battery staple", "pass word", "ß3cr3t", "0"}
	near := func(s string) string {
		switch rng.Intn(6) {
		case 0:
			return whiteSpaces[rng.Intn(len(whiteSpaces))] + s
		case 1:
			return s + whiteSpaces[rng.Intn(len(whiteSpaces))]
		case 2:
			if up := strings.ToUpper(s); up != s {
				return up
			}
			return s + s
		case 3:
			if rs := []rune(s); len(rs) > 0 && rs[0] < 0x80 {
				if t := strings.ToUpper(string(rs[:1])) + string(rs[1:]); t != s {
					return t
				}
			}
			return s + " "
		case 4:
			return s
		}
		return ""
	}
	name, sec := names[rng.Intn(len(names))], secrets[rng.Intn(len(secrets))]
	other := secrets[rng.Intn(len(secrets))]
	family = []string{"nameless", "nameless", "near-miss", "half-named", "any"}[rng.Intn(5)]
	switch family {
	case "nameless":
		cf = cfgT{"", "", sec, []string{"", "", sec, other, near(sec)}[rng.Intn(5)]}
	case "near-miss":
		cf = cfgT{name, name, sec, near(sec)}
	case "half-named":
		cf = cfgT{name, "", []string{sec, ""}[rng.Intn(2)], []string{sec, "", other}[rng.Intn(3)]}
	default:
		pick := func(pool []string) string {
			if rng.Intn(4) == 0 {
				return ""
			}
			return pool[rng.Intn(len(pool))]
		}
		cf = cfgT{pick(names[:3]), pick(names[:3]), pick(secrets[:2]), pick(secrets[:2])}
	}
	if rng.Intn(2) == 0 { // either end, i.e. either role: A dials, B listens
		cf = cfgT{cf.UniB, cf.UniA, cf.SecB, cf.SecA}
	}
	return cf, family
}

// authenticated byte offsets of a handshake message (2-byte length prefix + frame)
func authOffsets(data []byte) []int {
	f := data[2:]
	var offs []int
	add := func(lo, hi int) {
		for i := lo; i < hi && i < len(f); i++ {
			offs = append(offs, 2+i)
		}
	}
	add(0, 1)  // version
	add(3, 48) // rate, type, nonce, sequence time, src, dst
	mi := 49 + int(f[48])
	add(48, mi+2) // switch length + block, message length
	ml := int(f[mi])<<8 | int(f[mi+1])
	add(mi+2, mi+2+ml+64) // message and signature
	return offs
}

type runner struct {
	c    *vf.Ctx
	rng  *rand.Rand
	aged bool // replayold: the earlier connection is two hours old
	// splice: what the message is put together from (see spliceMsg)
	spBody, spSig string
}

type observed struct {
	RegA, RegB         bool
	PeersOK, TrafficOK bool
	Note               string
	Skip               bool // the plan could not be applied (reported as broken): nothing to judge
	// what the driver WROTE into the two configurations (the model's near-miss secrets rendered with a white space of
	// the PRNG's choice) and how each router was built from it; empty Via = the model's strings through mkNode
	Cfg        cfgT
	ViaA, ViaB string
}

// run executes one link set-up with the plan; byteOff >= 0 selects the corrupted byte (thorough sweep).
func (r *runner) run(cf cfgT, pl planT, byteOff, bit int) observed {
	world.InstallLogCapture()
	w := world.NewWorld()
	var a, b *world.Node
	viaA, viaB := "", ""
	if pl.Op == "none" {
		// configurations are explored without wire fault: the strings of the model are rendered (near-miss secrets with
		// a white space of the PRNG's choice) and each router is built from them through one of the ways the real
		// program gets its configuration
		cf = renderCfg(r.rng, cf)
		viaA, viaB = cfgVias[r.rng.Intn(len(cfgVias))], cfgVias[r.rng.Intn(len(cfgVias))]
		var err error
		if a, err = mkNodeVia(w, "A", 0, cf.UniA, cf.SecA, viaA); err == nil {
			b, err = mkNodeVia(w, "B", 1, cf.UniB, cf.SecB, viaB)
		}
		if err != nil {
			r.c.Broken("configuration %q/%q %q/%q via %s/%s: router not built: %v", cf.UniA, cf.SecA, cf.UniB, cf.SecB, viaA, viaB, err)
			return observed{Skip: true}
		}
	} else {
		a = mkNode(w, "A", 0, cf.UniA, cf.SecA)
		b = mkNode(w, "B", 1, cf.UniB, cf.SecB)
	}
	da, db := linkworld.StartDrain(a), linkworld.StartDrain(b)
	defer da.Stop()
	defer db.Stop()
	node := map[string]*world.Node{"A": a, "B": b}
	var old map[string][][]byte
	if pl.Op == "replayold" || pl.Op == "splice" {
		var restamp func(p *linkworld.Proxy, m linkworld.Msg) [][]byte
		if r.aged && pl.Op == "replayold" {
			// the earlier connection happened two hours ago: what its sender signed carries the time of then
			restamp = func(p *linkworld.Proxy, m linkworld.Msg) [][]byte {
				if m.Dir != pl.Dir {
					return nil
				}
				return [][]byte{agedCopy(m.Data, node[m.Dir].ID.PrivateKey, 2*time.Hour)}
			}
		}
		first := linkworld.Connect(a, b, restamp, 300*time.Millisecond)
		old = first.Proxy.Delivered
		if first.LinkA == nil || first.LinkB == nil {
			r.c.Broken("%s: the earlier clean connection failed: %v %v", pl.Op, first.ErrA, first.ErrB)
			return observed{Skip: pl.Op == "splice"}
		}
		a.Peer.CloseLink(b.ID.IP)
		b.Peer.CloseLink(a.ID.IP)
		first.Proxy.Close()
		time.Sleep(5 * time.Millisecond)
		if r.aged && pl.Op == "replayold" {
			// ... and the two routers have met since
			mid := linkworld.Connect(a, b, nil, 300*time.Millisecond)
			if mid.LinkA == nil || mid.LinkB == nil {
				r.c.Broken("replayold: the connection between then and now failed: %v %v", mid.ErrA, mid.ErrB)
				return observed{}
			}
			a.Peer.CloseLink(b.ID.IP)
			b.Peer.CloseLink(a.ID.IP)
			mid.Proxy.Close()
			time.Sleep(5 * time.Millisecond)
		}
		if pl.Forgot {
			// the receiver of the replayed message lost its state: same identity, fresh stack
			if pl.Dir == "A" {
				db.Stop()
				b = mkNode(w, "B2", 1, cf.UniB, cf.SecB)
				db = linkworld.StartDrain(b)
			} else {
				da.Stop()
				a = mkNode(w, "A2", 0, cf.UniA, cf.SecA)
				da = linkworld.StartDrain(a)
			}
			node = map[string]*world.Node{"A": a, "B": b}
		}
		time.Sleep(2 * time.Millisecond)
	}
	note := ""
	swapped := false
	spliced := false
	hook := func(p *linkworld.Proxy, m linkworld.Msg) [][]byte {
		if pl.Op == "none" || m.Dir != pl.Dir {
			return nil
		}
		if pl.Op == "swap" && m.Idx == pl.Idx+1 && swapped {
			return [][]byte{} // already forwarded ahead of the held message
		}
		if m.Idx != pl.Idx {
			return nil
		}
		switch pl.Op {
		case "drop":
			return [][]byte{}
		case "corrupt":
			d := append([]byte(nil), m.Data...)
			offs := authOffsets(d)
			o := offs[r.rng.Intn(len(offs))]
			bt := r.rng.Intn(8)
			if byteOff >= 0 {
				o, bt = byteOff, bit
				if o >= len(d) {
					return nil
				}
			}
			d[o] ^= 1 << bt
			note = fmt.Sprintf("byte %d bit %d of %d", o, bt, len(d))
			return [][]byte{d}
		case "truncate":
			cut := []int{1, 16, 64, len(m.Data) - 8}[r.rng.Intn(4)]
			if cut >= len(m.Data)-4 {
				cut = len(m.Data) - 5
			}
			d := append([]byte(nil), m.Data[:len(m.Data)-cut]...)
			d[0], d[1] = byte(len(d)>>8), byte(len(d))
			note = fmt.Sprintf("cut %d of %d bytes", cut, len(m.Data))
			return [][]byte{d}
		case "dup":
			return [][]byte{m.Data, append([]byte(nil), m.Data...)}
		case "swap":
			next := p.Sent(m.Dir, m.Idx+1, 400*time.Millisecond)
			if next == nil {
				return nil
			}
			swapped = true
			return [][]byte{next, m.Data}
		case "replayold":
			if len(old[m.Dir]) >= m.Idx {
				return [][]byte{old[m.Dir][m.Idx-1]}
			}
		case "splice":
			var now [][]byte // what this sender has sent on this connection before (the receiver has verified it)
			for j := 1; j < m.Idx; j++ {
				if d := p.Sent(m.Dir, j, time.Millisecond); d != nil {
					now = append(now, d)
				}
			}
			d, what := spliceMsg(r.rng, m.Data, m.Idx, old[m.Dir], now, r.spBody, r.spSig)
			if d == nil {
				note = what
				return nil
			}
			spliced = true
			note = what
			return [][]byte{d}
		case "reflect":
			other := "B"
			if m.Dir == "B" {
				other = "A"
			}
			own := p.Sent(other, m.Idx, 400*time.Millisecond)
			if own != nil {
				return [][]byte{own}
			}
		}
		return nil
	}
	res := linkworld.Connect(a, b, hook, 250*time.Millisecond)
	r.c.Eval(1)
	time.Sleep(2 * time.Millisecond)
	if pl.Op == "splice" && !spliced {
		// the message was not reached or could not be put together: no fault was applied, nothing to judge
		r.c.Broken("splice %s%d (%s/%s): not applied: %s (set-up: %v / %v)", pl.Dir, pl.Idx, r.spBody, r.spSig, note, res.ErrA, res.ErrB)
		for _, n := range node {
			for _, l := range n.Peer.GetLinks() {
				l.Close(nil)
			}
		}
		res.Proxy.Close()
		return observed{Skip: true}
	}
	// "registered" = the real set-up returned a link (it had been added to the registry at that moment;
	// the other end giving up later closes it again)
	o := observed{RegA: res.LinkA != nil, RegB: res.LinkB != nil, PeersOK: true, TrafficOK: true, Note: note, Cfg: cf, ViaA: viaA, ViaB: viaB}
	if o.RegA && res.LinkA.Peer() != b.ID.IP {
		o.PeersOK = false
	}
	if o.RegB && res.LinkB.Peer() != a.ID.IP {
		o.PeersOK = false
	}
	if o.RegA && o.RegB && res.Reg(a, b) && res.Reg(b, a) {
		da.Take()
		db.Take()
		for _, d := range []struct {
			from, to *world.Node
			dr       *linkworld.Drain
		}{{a, b, db}, {b, a, da}} {
			for _, mt := range []frame.MessageType{frame.RouterPing, frame.NetworkTraffic} {
				payload := []byte(fmt.Sprintf("c04 traffic %s->%s %d", d.from.Name, d.to.Name, r.rng.Int63()))
				want, err := linkworld.SendFrame(d.from, d.to, d.from.Peer.GetLink(d.to.ID.IP), mt, payload)
				if err != nil {
					o.TrafficOK = false
					continue
				}
				d.dr.WaitN(1, 300*time.Millisecond)
				got := d.dr.Take()
				// forwarding through the link writer does not touch the frame; compare modulo nothing
				if len(got) != 1 || !bytes.Equal(got[0], want) {
					o.TrafficOK = false
				}
			}
		}
	}
	// tidy up: close links and connections
	for _, n := range node {
		for _, l := range n.Peer.GetLinks() {
			l.Close(nil)
		}
	}
	res.Proxy.Close()
	return o
}

// agedCopy: the same handshake message as its sender would have produced it `age` ago (time stamp moved back, signed
// again with the sender's key). data carries the 2-byte length prefix of the link framing.
func agedCopy(data []byte, key ed25519.PrivateKey, age time.Duration) []byte {
	d := append([]byte(nil), data...)
	body := d[2:]
	if len(body) < 48+64 {
		return d
	}
	stamp := binary.BigEndian.Uint64(body[8:16])
	binary.BigEndian.PutUint64(body[8:16], stamp-uint64(age.Milliseconds()))
	ttl := body[1]
	body[1] = 0
	copy(body[len(body)-64:], ed25519.Sign(key, body[:len(body)-64]))
	body[1] = ttl
	return d
}

// sigSpan: where the 64 signature bytes of a framed handshake message (2-byte length prefix + frame) are.
func sigSpan(data []byte) (lo, hi int, ok bool) {
	if len(data) < 2+49 {
		return 0, 0, false
	}
	f := data[2:]
	mi := 49 + int(f[48])
	if len(f) < mi+2 {
		return 0, 0, false
	}
	ml := int(f[mi])<<8 | int(f[mi+1])
	lo = 2 + mi + 2 + ml
	hi = lo + 64
	return lo, hi, hi <= len(data)
}

// the bodies and signature sources a spliced message is put together from
var (
	spliceBodies = []string{"current", "current-restamped", "old-restamped"}
	spliceSigs   = []string{"old-same", "old-other", "now-earlier", "current"}
)

// spliceMsg composes replay and alteration: a message put together from the message in flight (cur, the idx-th of its
// direction) and material its receiver has seen and verified before - the messages `old` of the same direction of an
// earlier completed connection, and the messages `now` the sender sent on this connection before.
//
//	body: "current"           today's message
//	      "current-restamped" today's message with a later time stamp
//	      "old-restamped"     the same message of the earlier connection with today's time stamp
//	sig:  "old-same"    the signature of the same message of the earlier connection
//	      "old-other"   the signature of another message of the earlier connection
//	      "now-earlier" the signature of an earlier message of this connection (idx > 1; otherwise as old-other)
//	      "current"     today's signature (not with body "current": that would be no fault at all)
//
// Whatever the mix, the sender never produced these bytes. nil = could not be composed (what says why).
func spliceMsg(rng *rand.Rand, cur []byte, idx int, old, now [][]byte, body, sig string) (out []byte, what string) {
	if len(old) < 3 || idx < 1 || idx > 3 {
		return nil, fmt.Sprintf("only %d messages of the earlier connection", len(old))
	}
	if body == "current" && sig == "current" {
		return nil, "today's message under today's signature is no fault"
	}
	switch body {
	case "current":
		out = append([]byte(nil), cur...)
	case "current-restamped":
		out = append([]byte(nil), cur...)
		if len(out) < 2+16 {
			return nil, "message too short"
		}
		stamp := binary.BigEndian.Uint64(out[2+8 : 2+16])
		binary.BigEndian.PutUint64(out[2+8:2+16], stamp+uint64(1+rng.Intn(50)))
	case "old-restamped":
		out = append([]byte(nil), old[idx-1]...)
		if len(out) < 2+16 || len(cur) < 2+16 {
			return nil, "message too short"
		}
		copy(out[2+8:2+16], cur[2+8:2+16])
	default:
		return nil, "unknown body " + body
	}
	src, from := cur, "today's own"
	switch {
	case sig == "old-same":
		src, from = old[idx-1], fmt.Sprintf("message %d of the earlier connection", idx)
	case sig == "now-earlier" && len(now) > 0:
		j := rng.Intn(len(now))
		src, from = now[j], fmt.Sprintf("message %d of this connection", j+1)
	case sig == "old-other" || sig == "now-earlier":
		j := (idx - 1 + 1 + rng.Intn(2)) % 3
		src, from = old[j], fmt.Sprintf("message %d of the earlier connection", j+1)
	case sig == "current":
	default:
		return nil, "unknown signature source " + sig
	}
	slo, shi, ok1 := sigSpan(src)
	olo, ohi, ok2 := sigSpan(out)
	if !ok1 || !ok2 {
		return nil, "a message without room for a signature"
	}
	copy(out[olo:ohi], src[slo:shi])
	if bytes.Equal(out, cur) {
		return nil, "the composed message equals today's message"
	}
	return out, fmt.Sprintf("message %d = %s bytes under the signature of %s", idx, body, from)
}

// unproved names a rejected undisturbed set-up in which a router that has a universe secret registered a link to a peer
// that does not know it (the clause of Handshake_Trace SetupOK TLC rejected the line for); "" = another clause.
func unproved(ev map[string]any) string {
	str := func(k string) string { s, _ := ev[k].(string); return s }
	if str("uniA") != str("uniB") {
		return ""
	}
	for _, x := range []struct{ me, peer string }{{"A", "B"}, {"B", "A"}} {
		if ev["reg"+x.me] == true && str("sec"+x.me) != "" && str("sec"+x.peer) != str("sec"+x.me) {
			return fmt.Sprintf("router %s is configured with the universe secret %q (universe name %q, configuration read via %v) and registered a link to a peer that never proved knowledge of it - the peer's configuration says secret %q (universe name %q, read via %v)",
				x.me, str("sec"+x.me), str("uni"+x.me), ev["via"+x.me], str("sec"+x.peer), str("uni"+x.peer), ev["via"+x.peer])
		}
	}
	return ""
}

func main() { vf.Main("C04", "model_checking", run) }

// ---------- a participant without the universe secret (HandshakeInsider.tla)

type pReq struct {
	RouterVersion string          `cbor:"v,omitempty"`
	Universe      string          `cbor:"u,omitempty"`
	LiteMode      bool            `cbor:"lm,omitempty"`
	Address       m.PublicAddress `cbor:"a,omitempty"`
	Challenge     []byte          `cbor:"c,omitempty"`
	LinkVersion   int             `cbor:"lv,omitempty"`
	TunMTU        int             `cbor:"tmtu,omitempty"`
}
type pResp struct {
	Challenge       []byte `cbor:"c,omitempty"`
	UniverseAuth    []byte `cbor:"ua,omitempty"`
	KeyExchange     []byte `cbor:"kx,omitempty"`
	KeyExchangeType string `cbor:"kxt,omitempty"`
	Err             string `cbor:"err,omitempty"`
}
type pAck struct {
	Ack             bool   `cbor:"ack,omitempty"`
	KeyExchange     []byte `cbor:"kx,omitempty"`
	KeyExchangeType string `cbor:"kxt,omitempty"`
	Err             string `cbor:"err,omitempty"`
}

func readMsg(conn net.Conn) ([]byte, error) {
	_ = conn.SetReadDeadline(time.Now().Add(2 * time.Second))
	var lb [2]byte
	if _, err := io.ReadFull(conn, lb[:]); err != nil {
		return nil, err
	}
	n := int(lb[0])<<8 | int(lb[1])
	if n < 3 {
		return nil, fmt.Errorf("length %d", n)
	}
	buf := make([]byte, n-2)
	if _, err := io.ReadFull(conn, buf); err != nil {
		return nil, err
	}
	return buf, nil
}

func writeMsg(conn net.Conn, f *frame.FrameV1) error {
	raw, err := f.FrameDataWithMargins(0, 0)
	if err != nil {
		return err
	}
	out := append([]byte{byte((len(raw) + 2) >> 8), byte(len(raw) + 2)}, raw...)
	f.ReturnToPool()
	_ = conn.SetWriteDeadline(time.Now().Add(2 * time.Second))
	_, err = conn.Write(out)
	return err
}

// insider speaks the handshake itself (as the dialling side) against a real victim that has the universe secret.
// challenge: "cV" = M copies the victim's challenge into its own request, "cM" = a fresh one.
// proof: "none", "observed" = the proof the victim sent for M's challenge, "own" = computed with the secret.
func insider(rng *rand.Rand, challenge, proof string, mHasSecret bool) (registered bool, detail string) {
	w := world.NewWorld()
	v := mkNode(w, "V", 0, "u", "s")
	msec := ""
	if mHasSecret {
		msec = "s"
	}
	mn := mkNode(w, "M", 1, "u", msec)
	return insiderConn(rng, v, mn, mn.ID.PublicAddress, challenge, proof)
}

// insiderConn: one connection of the scripted participant M to the victim, presenting `claim` as its identity (its
// own public address, or somebody else's) and signing everything with M's own key.
func insiderConn(rng *rand.Rand, v, mn *world.Node, claim m.PublicAddress, challenge, proof string) (registered bool, detail string) {
	return insiderConnSigs(rng, v, mn, claim, challenge, proof, nil)
}

// insiderConnSigs: as insiderConn; with sigs (three signatures M recorded when the router it passes for spoke to the
// victim earlier) M signs nothing: it puts the recorded signatures under its request, response and ack.
func insiderConnSigs(rng *rand.Rand, v, mn *world.Node, claim m.PublicAddress, challenge, proof string, sigs [][]byte) (registered bool, detail string) {
	if sigs != nil && len(sigs) != 3 {
		return false, "set-up: three recorded signatures are needed"
	}
	ca, cb := net.Pipe()
	defer ca.Close()
	url, _ := m.ParsePeeringURL("tcp://127.0.0.1:47369")
	type ret struct {
		l   peering.Link
		err error
	}
	done := make(chan ret, 1)
	go func() {
		defer func() {
			if r := recover(); r != nil {
				done <- ret{nil, fmt.Errorf("panic: %v", r)}
			}
		}()
		l, err := v.Peer.VerifSetupLink(cb, url, false)
		done <- ret{l, err}
	}()
	fail := func(step string, err error) (bool, string) {
		_ = ca.Close()
		select {
		case r := <-done:
			return r.l != nil && r.err == nil, fmt.Sprintf("%s: %v; victim: %v", step, err, r.err)
		case <-time.After(3 * time.Second):
			return false, step + ": victim set-up did not end"
		}
	}
	// 1. the victim's request
	raw, err := readMsg(ca)
	if err != nil {
		return fail("read request", err)
	}
	fr, err := mn.Builder.ParseFrame(raw, nil, 0)
	if err != nil {
		return fail("parse request", err)
	}
	var vreq pReq
	if err := cbor.Unmarshal(fr.MessageData(), &vreq); err != nil {
		return fail("decode request", err)
	}
	cV := append([]byte(nil), vreq.Challenge...)
	vpub := vreq.Address
	_ = mn.St.AddRouter(&vpub)
	sess := mn.St.GetSession(v.ID.IP)
	// 2. M's own request
	myChallenge := make([]byte, len(cV))
	rng.Read(myChallenge)
	if challenge == "cV" {
		myChallenge = cV
	}
	rq, _ := cbor.Marshal(&pReq{RouterVersion: "verif", Universe: "u", Address: claim, Challenge: myChallenge, LinkVersion: 1, TunMTU: 1400})
	f1, err := mn.Builder.NewFrameV1(claim.IP, m.RouterAddress, frame.RouterPing, nil, rq, nil)
	if err != nil {
		return fail("build request", err)
	}
	f1.SetTTL(0)
	f1.SetSequenceTime(time.Now().Round(time.Millisecond).Add(-time.Millisecond))
	if err := f1.SignRaw(mn.ID.PrivateKey); err != nil {
		return fail("sign request", err)
	}
	f1.SetTTL(1)
	if sigs != nil {
		copy(f1.AuthData(), sigs[0])
	}
	if err := writeMsg(ca, f1); err != nil {
		return fail("write request", err)
	}
	// 3. the victim's response to M's request: it carries the victim's proof for M's challenge
	raw, err = readMsg(ca)
	if err != nil {
		return fail("read response", err)
	}
	fr2, err := mn.Builder.ParseFrame(raw, nil, 0)
	if err != nil {
		return fail("parse response", err)
	}
	var vresp pResp
	if err := cbor.Unmarshal(fr2.MessageData(), &vresp); err != nil {
		return fail("decode response", err)
	}
	if vresp.Err != "" {
		return fail("victim refused the request", fmt.Errorf("%s", vresp.Err))
	}
	// 4. M's response to the victim's request
	kx, kxt, err := sess.Encryption().InitKeyClientStart()
	if err != nil {
		return fail("kx", err)
	}
	resp := pResp{Challenge: cV, KeyExchange: kx, KeyExchangeType: kxt}
	switch proof {
	case "observed":
		resp.UniverseAuth = vresp.UniverseAuth
	case "own":
		d := append([]byte("u"), cV...)
		d = append(d, []byte("s")...)
		d = append(d, v.ID.IP.AsSlice()...)
		d = append(d, claim.IP.AsSlice()...)
		sum := blake3.Sum256(d)
		resp.UniverseAuth = sum[:]
	}
	rb, _ := cbor.Marshal(&resp)
	f2, err := mn.Builder.NewFrameV1(claim.IP, v.ID.IP, frame.RouterPing, nil, rb, nil)
	if err != nil {
		return fail("build response", err)
	}
	if err := f2.Seal(sess); err != nil {
		return fail("seal response", err)
	}
	if sigs != nil {
		copy(f2.AuthData(), sigs[1])
	}
	if err := writeMsg(ca, f2); err != nil {
		return fail("write response", err)
	}
	// 5. the victim's ack, then M's ack
	raw, err = readMsg(ca)
	if err != nil {
		return fail("read ack", err)
	}
	fr3, err := mn.Builder.ParseFrame(raw, nil, 0)
	if err == nil {
		var vack pAck
		if cbor.Unmarshal(fr3.MessageData(), &vack) == nil && vack.Err != "" {
			return fail("victim refused the response", fmt.Errorf("%s", vack.Err))
		}
	}
	ab, _ := cbor.Marshal(&pAck{Ack: true})
	f3, err := mn.Builder.NewFrameV1(claim.IP, v.ID.IP, frame.RouterPing, nil, ab, nil)
	if err != nil {
		return fail("build ack", err)
	}
	if err := f3.Seal(sess); err != nil {
		return fail("seal ack", err)
	}
	if sigs != nil {
		copy(f3.AuthData(), sigs[2])
	}
	if err := writeMsg(ca, f3); err != nil {
		return fail("write ack", err)
	}
	select {
	case r := <-done:
		registered = r.l != nil && r.err == nil && v.Peer.GetLink(claim.IP) != nil
		detail = fmt.Sprint(r.err)
		if r.l != nil {
			r.l.Close(nil)
		}
	case <-time.After(3 * time.Second):
		detail = "victim set-up did not end"
	}
	return registered, detail
}

func writeRaw(conn net.Conn, raw []byte) error {
	out := append([]byte{byte((len(raw) + 2) >> 8), byte(len(raw) + 2)}, raw...)
	_ = conn.SetWriteDeadline(time.Now().Add(2 * time.Second))
	_, err := conn.Write(out)
	return err
}

// relay (HandshakeRelay.tla): M sits between a real victim V and a real honest router P, in a handshake with both at the
// same time.  It hands P's request to V unchanged, puts a challenge of its choice (V's, or a fresh one) into its own
// request to P, and hands V either P's response / ack (signed by P, addressed to M) or its own.  P never speaks on V's
// connection, so V must not register a link to P.
func relay(rng *rand.Rand, vrole, prole, challenge, respFrom, ackFrom string) (registered bool, detail string) {
	w := world.NewWorld()
	v := mkNode(w, "V", 0, "u", "")
	mn := mkNode(w, "M", 1, "u", "")
	p := mkNode(w, "P", 2, "u", "")
	c1a, c1b := net.Pipe()
	c2a, c2b := net.Pipe()
	defer c1a.Close()
	defer c2a.Close()
	url, _ := m.ParsePeeringURL("tcp://127.0.0.1:47369")
	type ret struct {
		l   peering.Link
		err error
	}
	setup := func(n *world.Node, conn net.Conn, outgoing bool) chan ret {
		done := make(chan ret, 1)
		go func() {
			defer func() {
				if r := recover(); r != nil {
					done <- ret{nil, fmt.Errorf("panic: %v", r)}
				}
			}()
			l, err := n.Peer.VerifSetupLink(conn, url, outgoing)
			done <- ret{l, err}
		}()
		return done
	}
	vdone := setup(v, c1b, vrole == "client")
	pdone := setup(p, c2b, prole == "client")
	finish := func(step string, err error) (bool, string) {
		_ = c1a.Close()
		_ = c2a.Close()
		reg := false
		det := fmt.Sprintf("%s: %v", step, err)
		select {
		case r := <-vdone:
			reg = r.l != nil && r.err == nil && v.Peer.GetLink(p.ID.IP) != nil
			det += fmt.Sprintf("; victim: %v", r.err)
			if r.l != nil {
				r.l.Close(nil)
			}
		case <-time.After(3 * time.Second):
			det += "; victim set-up did not end"
		}
		select {
		case r := <-pdone:
			if r.l != nil {
				r.l.Close(nil)
			}
		case <-time.After(3 * time.Second):
		}
		return reg, det
	}
	decode := func(raw []byte, into any) error {
		fr, err := mn.Builder.ParseFrame(append([]byte(nil), raw...), nil, 0)
		if err != nil {
			return err
		}
		return cbor.Unmarshal(fr.MessageData(), into)
	}
	// 1. both requests
	rawReqV, err := readMsg(c1a)
	if err != nil {
		return finish("read V's request", err)
	}
	rawReqP, err := readMsg(c2a)
	if err != nil {
		return finish("read P's request", err)
	}
	var reqV, reqP pReq
	if err := decode(rawReqV, &reqV); err != nil {
		return finish("decode V's request", err)
	}
	if err := decode(rawReqP, &reqP); err != nil {
		return finish("decode P's request", err)
	}
	vpub, ppub := reqV.Address, reqP.Address
	_ = mn.St.AddRouter(&vpub)
	_ = mn.St.AddRouter(&ppub)
	sessV, sessP := mn.St.GetSession(v.ID.IP), mn.St.GetSession(p.ID.IP)
	// 2. P's request goes to V unchanged; M's own request goes to P
	if err := writeRaw(c1a, rawReqP); err != nil {
		return finish("forward P's request", err)
	}
	myChallenge := make([]byte, len(reqV.Challenge))
	rng.Read(myChallenge)
	if challenge == "cV" {
		myChallenge = append([]byte(nil), reqV.Challenge...)
	}
	rq, _ := cbor.Marshal(&pReq{RouterVersion: "verif", Universe: "u", Address: mn.ID.PublicAddress, Challenge: myChallenge, LinkVersion: 1, TunMTU: 1400})
	f1, err := mn.Builder.NewFrameV1(mn.ID.IP, m.RouterAddress, frame.RouterPing, nil, rq, nil)
	if err != nil {
		return finish("build request", err)
	}
	f1.SetTTL(0)
	f1.SetSequenceTime(time.Now().Round(time.Millisecond).Add(-time.Millisecond))
	if err := f1.SignRaw(mn.ID.PrivateKey); err != nil {
		return finish("sign request", err)
	}
	f1.SetTTL(1)
	if err := writeMsg(c2a, f1); err != nil {
		return finish("write request to P", err)
	}
	// 3. both responses
	rawRespV, err := readMsg(c1a)
	if err != nil {
		return finish("read V's response", err)
	}
	var respV pResp
	if err := decode(rawRespV, &respV); err == nil && respV.Err != "" {
		return finish("V refused the request", fmt.Errorf("%s", respV.Err))
	}
	rawRespP, err := readMsg(c2a)
	if err != nil {
		return finish("read P's response", err)
	}
	var respP pResp
	if err := decode(rawRespP, &respP); err == nil && respP.Err != "" {
		return finish("P refused M's request", fmt.Errorf("%s", respP.Err))
	}
	// 4. V gets P's response (made for M) or M's own; P gets M's honest response
	own := func(sess *state.Session, to netip.Addr, echo []byte, withKX bool) (*frame.FrameV1, error) {
		r := pResp{Challenge: echo}
		if withKX {
			kx, kxt, err := sess.Encryption().InitKeyClientStart()
			if err != nil {
				return nil, err
			}
			r.KeyExchange, r.KeyExchangeType = kx, kxt
		}
		rb, _ := cbor.Marshal(&r)
		f, err := mn.Builder.NewFrameV1(mn.ID.IP, to, frame.RouterPing, nil, rb, nil)
		if err != nil {
			return nil, err
		}
		if err := f.Seal(sess); err != nil {
			return nil, err
		}
		return f, nil
	}
	if respFrom == "P" {
		if err := writeRaw(c1a, rawRespP); err != nil {
			return finish("forward P's response", err)
		}
	} else {
		f, err := own(sessV, v.ID.IP, reqV.Challenge, vrole == "server")
		if err != nil {
			return finish("build own response for V", err)
		}
		if err := writeMsg(c1a, f); err != nil {
			return finish("write own response to V", err)
		}
	}
	fp, err := own(sessP, p.ID.IP, reqP.Challenge, prole == "server")
	if err != nil {
		return finish("build response for P", err)
	}
	if err := writeMsg(c2a, fp); err != nil {
		return finish("write response to P", err)
	}
	// 5. both acks
	rawAckV, err := readMsg(c1a)
	if err != nil {
		return finish("read V's ack", err)
	}
	var ackV pAck
	if err := decode(rawAckV, &ackV); err == nil && ackV.Err != "" {
		return finish("V refused the response", fmt.Errorf("%s", ackV.Err))
	}
	rawAckP, err := readMsg(c2a)
	if err != nil {
		return finish("read P's ack", err)
	}
	// 6. V gets P's ack (made for M) or M's own
	if ackFrom == "P" {
		if err := writeRaw(c1a, rawAckP); err != nil {
			return finish("forward P's ack", err)
		}
	} else {
		a := pAck{Ack: true}
		if vrole == "client" {
			a.KeyExchange, a.KeyExchangeType = ackV.KeyExchange, ackV.KeyExchangeType
			if len(a.KeyExchange) == 0 {
				a.KeyExchange = make([]byte, 32)
				rng.Read(a.KeyExchange)
				a.KeyExchangeType = respV.KeyExchangeType
			}
		}
		ab, _ := cbor.Marshal(&a)
		f, err := mn.Builder.NewFrameV1(mn.ID.IP, v.ID.IP, frame.RouterPing, nil, ab, nil)
		if err != nil {
			return finish("build own ack", err)
		}
		if err := f.Seal(sessV); err != nil {
			return finish("seal own ack", err)
		}
		if err := writeMsg(c1a, f); err != nil {
			return finish("write own ack", err)
		}
	}
	select {
	case r := <-vdone:
		registered = r.l != nil && r.err == nil && v.Peer.GetLink(p.ID.IP) != nil
		detail = fmt.Sprint(r.err)
		if r.l != nil {
			r.l.Close(nil)
		}
	case <-time.After(3 * time.Second):
		detail = "victim set-up did not end"
	}
	_ = c2a.Close()
	select {
	case r := <-pdone:
		if r.l != nil {
			r.l.Close(nil)
		}
	case <-time.After(3 * time.Second):
	}
	return registered, detail
}

// overlap (HandshakeOverlap.tla): two connections between the same two routers - both dialled by D ("same"), or one by
// each end ("cross", a simultaneous cross-connect) - whose handshakes proceed in lockstep: the proxies hold every
// handshake message until the same message of the other connection is there too and let connection 1's pass first.
// At either end the key-exchange steps of both connections then come before either finalize.  Whatever link is
// registered at the end must carry traffic both ways, encrypted.
func overlap(rng *rand.Rand, cross bool) (regD, regL, trafficOK, clear bool, detail string) {
	world.InstallLogCapture()
	w := world.NewWorld()
	d := mkNode(w, "D", 0, "u", "s")
	l := mkNode(w, "L", 1, "u", "s")
	dd, dl := linkworld.StartDrain(d), linkworld.StartDrain(l)
	defer dd.Stop()
	defer dl.Stop()
	var mu sync.Mutex
	arr := map[string]int{}
	gate := func(conn int) func(p *linkworld.Proxy, m linkworld.Msg) [][]byte {
		return func(p *linkworld.Proxy, m linkworld.Msg) [][]byte {
			if m.Idx > 3 {
				return nil // the handshake is over
			}
			dir := m.Dir // in the cross case connection 2 is dialled by L: its "A" direction is L->D
			if cross && conn == 2 {
				dir = map[string]string{"A": "B", "B": "A"}[dir]
			}
			k := fmt.Sprintf("%s%d", dir, m.Idx)
			mu.Lock()
			arr[k]++
			mu.Unlock()
			deadline := time.Now().Add(2 * time.Second)
			for time.Now().Before(deadline) {
				mu.Lock()
				n := arr[k]
				mu.Unlock()
				if n >= 2 {
					break
				}
				time.Sleep(200 * time.Microsecond)
			}
			if conn == 2 {
				time.Sleep(4 * time.Millisecond)
			}
			return nil
		}
	}
	pd1 := linkworld.Start(d, l)
	pd1.Proxy.SetHook(gate(1))
	time.Sleep(8 * time.Millisecond)
	var pd2 *linkworld.Pending
	if cross {
		pd2 = linkworld.Start(l, d)
	} else {
		pd2 = linkworld.Start(d, l)
	}
	pd2.Proxy.SetHook(gate(2))
	get := func(pd *linkworld.Pending) (a, b linkworld.SetupRet) {
		for i := 0; i < 2; i++ {
			select {
			case a = <-pd.DoneA:
			case b = <-pd.DoneB:
			case <-time.After(4 * time.Second):
			}
		}
		return
	}
	a1, b1 := get(pd1)
	a2, b2 := get(pd2)
	detail = fmt.Sprintf("connection 1: dialler %v / listener %v; connection 2: dialler %v / listener %v", a1.Err, b1.Err, a2.Err, b2.Err)
	time.Sleep(80 * time.Millisecond) // an end that gave up closes its connection: the other end's link goes with it
	ld, ll := d.Peer.GetLink(l.ID.IP), l.Peer.GetLink(d.ID.IP)
	regD = ld != nil && !ld.IsClosing()
	regL = ll != nil && !ll.IsClosing()
	trafficOK = true
	if regD && regL {
		dd.Take()
		dl.Take()
		var payloads [][]byte
		for _, t := range []struct {
			from, to *world.Node
			dr       *linkworld.Drain
		}{{d, l, dl}, {l, d, dd}} {
			payload := make([]byte, 200)
			rng.Read(payload)
			payloads = append(payloads, payload)
			want, err := linkworld.SendFrame(t.from, t.to, t.from.Peer.GetLink(t.to.ID.IP), frame.NetworkTraffic, payload)
			if err != nil {
				trafficOK = false
				continue
			}
			t.dr.WaitN(1, 300*time.Millisecond)
			got := t.dr.Take()
			if len(got) != 1 || !bytes.Equal(got[0], want) {
				trafficOK = false
			}
		}
		for _, pd := range []*linkworld.Pending{pd1, pd2} {
			for _, dir := range []string{"A", "B"} {
				for _, pl := range payloads {
					if bytes.Contains(pd.Proxy.Raw(dir), pl[:32]) {
						clear = true
					}
				}
			}
		}
	}
	for _, n := range []*world.Node{d, l} {
		for _, lk := range n.Peer.GetLinks() {
			lk.Close(nil)
		}
	}
	pd1.Proxy.Close()
	pd2.Proxy.Close()
	return
}

// recordedHistory: one victim V, one honest router P, one router M that reads along.  P and V meet genuinely once or
// twice (either end dials), M records what P sent; the links are closed.  Then up to three connections of M to V in
// which M presents P's identity: with recorded signatures under its own messages ("recorded"; taken by position from
// the last meeting, or picked at random from everything recorded), or - mixed in by the PRNG - signed with its own key
// ("genuine" / "swapped" as in the histories above).  broken != "" = the history could not be set up.
func recordedHistory(rng *rand.Rand, sec string, rep int) (evs []any, conns, meetings int, broken string) {
	world.InstallLogCapture()
	w := world.NewWorld()
	v, mn, pn := mkNode(w, "V", 0, "u", sec), mkNode(w, "M", 1, "u", sec), mkNode(w, "P", 2, "u", sec)
	dv, dp := linkworld.StartDrain(v), linkworld.StartDrain(pn)
	defer dv.Stop()
	defer dp.Stop()
	var pool, last [][]byte
	meetings = 1 + rng.Intn(2)
	for i := 0; i < meetings; i++ {
		var res *linkworld.Result
		pdir := "A"
		if rng.Intn(2) == 0 {
			res = linkworld.Connect(pn, v, nil, 300*time.Millisecond)
		} else {
			res, pdir = linkworld.Connect(v, pn, nil, 300*time.Millisecond), "B"
		}
		if res.LinkA == nil || res.LinkB == nil {
			res.Proxy.Close()
			return nil, 0, 0, fmt.Sprintf("genuine meeting %d failed: %v / %v", i+1, res.ErrA, res.ErrB)
		}
		last = nil
		for j := 1; j <= 3; j++ {
			d := res.Proxy.Sent(pdir, j, 50*time.Millisecond)
			lo, hi, ok := sigSpan(d)
			if d == nil || !ok {
				res.Proxy.Close()
				return nil, 0, 0, fmt.Sprintf("genuine meeting %d: handshake message %d of P not recorded", i+1, j)
			}
			last = append(last, append([]byte(nil), d[lo:hi]...))
		}
		pool = append(pool, last...)
		v.Peer.CloseLink(pn.ID.IP)
		pn.Peer.CloseLink(v.ID.IP)
		res.Proxy.Close()
		time.Sleep(5 * time.Millisecond)
	}
	deadline := time.Now().Add(time.Second)
	for v.Peer.GetLink(pn.ID.IP) != nil && time.Now().Before(deadline) {
		time.Sleep(time.Millisecond)
	}
	if v.Peer.GetLink(pn.ID.IP) != nil {
		return nil, 0, 0, "the genuine link to P did not go away"
	}
	proof := "none"
	if sec != "" {
		proof = "own"
	}
	for k := 0; k < 3; k++ {
		cl, mode := "recorded", "position"
		if rep > 0 {
			switch x := rng.Intn(10); {
			case x < 3:
				mode = "shuffled"
			case x < 5:
				mode = "one-for-all"
			case x == 8:
				cl, mode = "genuine", "own-key"
			case x == 9:
				cl, mode = "swapped", "own-key"
			}
		}
		claim := pn.ID.PublicAddress
		var sigs [][]byte
		switch mode {
		case "position":
			sigs = last
		case "shuffled":
			for j := 0; j < 3; j++ {
				sigs = append(sigs, pool[rng.Intn(len(pool))])
			}
		case "one-for-all":
			one := pool[rng.Intn(len(pool))]
			sigs = [][]byte{one, one, one}
		}
		if cl == "swapped" {
			claim.PublicKey = mn.ID.PublicKey
		}
		time.Sleep(time.Duration(3+rng.Intn(4)) * time.Millisecond)
		challenge := []string{"cM", "cV"}[rng.Intn(2)]
		if rep == 0 {
			challenge = "cM"
		}
		reg, detail := insiderConnSigs(rng, v, mn, claim, challenge, proof, sigs)
		conns++
		if !reg && v.Peer.GetLink(pn.ID.IP) != nil {
			reg = true
		}
		bound := "none"
		var key []byte
		if sess := v.St.GetSession(pn.ID.IP); sess != nil && sess.Address() != nil {
			key = sess.Address().PublicKey
		} else if rec, err := v.Store.GetRouter(pn.ID.IP); err == nil && rec != nil && rec.Address != nil {
			key = rec.Address.PublicKey
		}
		switch {
		case key == nil:
		case bytes.Equal(key, pn.ID.PublicKey):
			bound = "P"
		case bytes.Equal(key, mn.ID.PublicKey):
			bound = "M"
		default:
			bound = "other"
		}
		evs = append(evs, map[string]any{"ev": "impersonate", "claim": cl, "sigs": mode, "challenge": challenge, "meetings": meetings, "conn": k + 1, "known": true, "secret": sec != "",
			"history": fmt.Sprintf("recorded/%d", rep), "registered": reg, "bound": bound, "detail": detail})
		if reg {
			for _, l := range v.Peer.GetLinks() {
				l.Close(nil)
			}
			break
		}
	}
	return evs, conns, meetings, ""
}

func run(c *vf.Ctx) {
	c.Rule("M: TLC on Handshake: the universe/secret configurations without wire fault (universe names equal / different / differing in case / EMPTY at either end - a router outside any named universe, with or without a secret; secrets none / same / different / differing in surrounding white space or case only) and, for the admissible configurations (no secret / same secret), one fault (drop, corrupt, truncate, duplicate, swap, replay-from-earlier-connection with and without lost receiver state, reflect) at each of the 3 message positions of both directions, every interleaving of the two directions. R: each (configuration, plan) run as a REAL link set-up of two real routers through a proxy that applies the plan to the real bytes (quick: one random authenticated byte per corrupt plan; thorough: every authenticated byte of each of the six messages, 2 bits). Op splice = replay composed with alteration: the message at the plan's position is put together from this connection's message and material its receiver has verified before (bytes of now / of an earlier completed connection with a changed stamp, under the signature of the same or another message of the earlier connection or of an earlier message of this one). HandshakeImpersonate claim recorded: after 1-2 genuine handshakes of P and the victim a third router presents P's identity and puts signatures recorded then under its own messages. R-config: the model's configurations and configurations drawn by the PRNG (nameless, near-miss secrets, half-named, any), every router built from the strings the driver wrote through the real configuration parser (MakeTestConfig, Store.Parse, LoadConfig of a .json / .yaml file); judged from what was written, never from what the parsed configuration reports. T: outcomes judged by TLC. distinct = distinct (configuration, plan, byte)")
	c.Assume("signature / hash security symbolic in the model, real in the replay", "a set-up in which a message never arrives is ended by closing the connection after 250 ms of silence")

	mc, err := c.TLC("Handshake", "Handshake_MC.cfg", vf.TLCOpts{Workers: 1, Timeout: 10 * time.Minute})
	if err != nil {
		c.Fatal("M: %v", err)
	}
	if mc.Violated != "" {
		c.Broken("M: %s violated in the model", mc.Violated)
	}
	c.AddModel(mc.Distinct, mc.Generated)
	allowed := map[string]map[string]bool{}
	plans := map[string]outcome{}
	for _, l := range mc.Lines {
		var o outcome
		if json.Unmarshal([]byte(l), &o) != nil {
			continue
		}
		k := fmt.Sprintf("%q|%v", o.Cfg, o.Plan)
		if allowed[k] == nil {
			allowed[k] = map[string]bool{}
		}
		allowed[k][fmt.Sprintf("%v/%v", o.RegA, o.RegB)] = true
		plans[k] = o
	}
	keys := make([]string, 0, len(plans))
	for k := range plans {
		keys = append(keys, k)
	}
	sort.Strings(keys)
	c.Stage("M", map[string]any{"distinct": mc.Distinct, "plans": len(keys)})
	c.Logf("M: %d states, %d (configuration, plan) pairs", mc.Distinct, len(keys))

	r := &runner{c: c, rng: rand.New(rand.NewSource(c.Seed))}
	var events []any
	drift := 0
	nConfigs, nNameless := 0, 0
	record := func(o outcome, ob observed) {
		cf := o.Cfg
		if ob.ViaA != "" {
			cf = ob.Cfg // the strings the driver wrote into the two configurations
		}
		events = append(events, map[string]any{"ev": "setup", "uniA": cf.UniA, "uniB": cf.UniB, "secA": cf.SecA, "secB": cf.SecB,
			"op": o.Plan.Op, "dir": o.Plan.Dir, "idx": o.Plan.Idx, "forgot": o.Plan.Forgot, "viaA": ob.ViaA, "viaB": ob.ViaB,
			"regA": ob.RegA, "regB": ob.RegB, "peersok": ob.PeersOK, "trafficok": ob.TrafficOK, "detail": ob.Note})
	}
	for i, k := range keys {
		o := plans[k]
		if o.Plan.Op == "splice" {
			continue // run below, once per way of putting the message together
		}
		ob := r.run(o.Cfg, o.Plan, -1, 0)
		if ob.Skip {
			continue
		}
		record(o, ob)
		if o.Plan.Op == "none" {
			nConfigs++
			if o.Cfg.UniA == "" || o.Cfg.UniB == "" {
				nNameless++
			}
		}
		if !allowed[k][fmt.Sprintf("%v/%v", ob.RegA, ob.RegB)] {
			drift++
			c.Logf("drift: %s real outcome %v/%v, model %v", k, ob.RegA, ob.RegB, allowed[k])
		}
		c.Distinct(k + ob.Note)
		if i%25 == 0 {
			c.Sample(map[string]any{"cfg": o.Cfg, "plan": o.Plan, "observed": ob})
		}
	}
	// the same replays with an earlier connection of two hours ago (and a meeting of the two routers since)
	aged := 0
	r.aged = true
	for _, k := range keys {
		o := plans[k]
		if o.Plan.Op != "replayold" || o.Plan.Forgot {
			continue
		}
		ob := r.run(o.Cfg, o.Plan, -1, 0)
		record(o, ob)
		if !allowed[k][fmt.Sprintf("%v/%v", ob.RegA, ob.RegB)] {
			drift++
			c.Logf("drift: %s (aged) real outcome %v/%v, model %v", k, ob.RegA, ob.RegB, allowed[k])
		}
		c.Distinct(k + "|aged")
		aged++
	}
	r.aged = false
	// replay composed with alteration: the message at the plan's position is put together from today's message and
	// material the receiver has verified before (an earlier completed connection of the pair, this connection's
	// earlier messages); quick: every body with one signature source in rotation, thorough: every mix, 3 times
	spliced, splicePlans := 0, 0
	rot := r.rng.Intn(4)
	for _, k := range keys {
		o := plans[k]
		if o.Plan.Op != "splice" {
			continue
		}
		splicePlans++
		for _, body := range spliceBodies {
			var sigs []string
			for _, sg := range spliceSigs {
				if sg == "current" && body != "current-restamped" {
					continue // today's signature on today's (or byte-identical) bytes would be no fault
				}
				sigs = append(sigs, sg)
			}
			chosen := []string{sigs[rot%len(sigs)]}
			rot++
			if c.Thorough() {
				chosen = append(append(append([]string(nil), sigs...), sigs...), sigs...)
			}
			for rep, sg := range chosen {
				r.spBody, r.spSig = body, sg
				ob := r.run(o.Cfg, o.Plan, -1, 0)
				if ob.Skip {
					continue
				}
				record(o, ob)
				if !allowed[k][fmt.Sprintf("%v/%v", ob.RegA, ob.RegB)] {
					drift++
					c.Logf("drift: %s (%s) real outcome %v/%v, model %v", k, ob.Note, ob.RegA, ob.RegB, allowed[k])
				}
				c.Distinct(fmt.Sprintf("%s|%s|%s|%d", k, body, sg, rep))
				spliced++
			}
		}
	}
	r.spBody, r.spSig = "", ""
	if splicePlans == 0 {
		c.Broken("R: the model produced no splice plan")
	}
	if nNameless == 0 {
		c.Broken("R: the model produced no configuration with a router outside any named universe")
	}
	// ---- configurations beyond the model's handful of strings: names and secrets an operator could write, drawn by the
	// PRNG family by family (randomConfig), each router built from its configuration through the real configuration
	// parser in one of the ways the real program does it; no wire fault; the same rules (Handshake_Trace SetupOK)
	nDrawn := 0
	{
		n, fam := 0, map[string]int{}
		for rep := 0; rep < c.Pick(60, 1200); rep++ {
			cf, family := randomConfig(r.rng)
			o := outcome{Cfg: cf, Plan: planT{Op: "none", Dir: "A", Idx: 1}}
			ob := r.run(cf, o.Plan, -1, 0)
			if ob.Skip {
				continue
			}
			ob.Note = "configuration family " + family
			record(o, ob)
			c.Distinct(fmt.Sprintf("config|%q|%q|%q|%q|%s|%s", ob.Cfg.UniA, ob.Cfg.UniB, ob.Cfg.SecA, ob.Cfg.SecB, ob.ViaA, ob.ViaB))
			n++
			fam[family]++
			if rep%20 == 0 {
				c.Sample(map[string]any{"cfg": ob.Cfg, "viaA": ob.ViaA, "viaB": ob.ViaB, "family": family, "observed": ob})
			}
		}
		nDrawn = n
		c.Stage("R-config", map[string]any{"model_configurations": nConfigs, "of_them_with_a_nameless_router": nNameless, "drawn_configurations": n, "families": fam})
		c.Logf("R-config: %d configurations of the model (%d with a router without universe name), %d drawn (%v)", nConfigs, nNameless, n, fam)
	}
	c.Stage("R", map[string]any{"setups": len(keys) - splicePlans + aged + spliced + nDrawn, "drawn_configurations": nDrawn, "replays_of_a_two_hour_old_connection": aged, "spliced_messages": spliced, "impl_level_drift": drift})
	c.Logf("R: %d set-ups (%d with a spliced message, %d drawn configurations), drift %d", len(keys)-splicePlans+aged+spliced+nDrawn, spliced, nDrawn, drift)

	if c.Thorough() {
		// every authenticated byte of each of the six messages
		clean := linkworld.Connect(mkNode(world.NewWorld(), "A", 0, "u", "s"), mkNode(world.NewWorld(), "B", 1, "u", "s"), nil, 300*time.Millisecond)
		n := 0
		for _, dir := range []string{"A", "B"} {
			for idx := 1; idx <= 3; idx++ {
				if len(clean.Proxy.Transcript[dir]) < idx {
					continue
				}
				for _, off := range authOffsets(clean.Proxy.Transcript[dir][idx-1]) {
					for _, bit := range []int{0, 7} {
						o := outcome{Cfg: cfgT{"u", "u", "s", "s"}, Plan: planT{Op: "corrupt", Dir: dir, Idx: idx}}
						ob := r.run(o.Cfg, o.Plan, off, bit)
						record(o, ob)
						c.Distinct(fmt.Sprintf("sweep|%s|%d|%d|%d", dir, idx, off, bit))
						n++
					}
				}
			}
		}
		clean.Proxy.Close()
		c.Stage("R-sweep", map[string]any{"setups": n})
		c.Logf("R sweep: %d set-ups", n)
	}

	// ---- a participant without the secret (HandshakeInsider): model, negative control, real victim
	for _, hc := range []struct {
		cfg  string
		want string
	}{{"HandshakeInsider_directed_FALSE.cfg", ""}, {"HandshakeInsider_directed_TRUE.cfg", ""}, {"HandshakeInsider_sorted_FALSE.cfg", "AuthOnRegister"}} {
		hres, err := c.TLC("HandshakeInsider", hc.cfg, vf.TLCOpts{Workers: 1})
		if err != nil {
			c.Fatal("M insider %s: %v", hc.cfg, err)
		}
		c.AddModel(hres.Distinct, hres.Generated)
		if hres.Violated != hc.want {
			c.Broken("M insider %s: expected violated=%q, TLC says %q", hc.cfg, hc.want, hres.Violated)
		}
		if hc.want != "" {
			continue
		}
		// every behaviour of the model (request challenge x response proof) against a real victim
		type ia struct {
			Name      string `json:"name"`
			Challenge string `json:"challenge"`
			Proof     string `json:"proof"`
		}
		reqs := map[string]bool{}
		proofs := map[string]bool{}
		for _, e := range hres.Edges {
			var a ia
			if json.Unmarshal(e.Act, &a) != nil {
				continue
			}
			if a.Name == "mrequest" {
				reqs[a.Challenge] = true
			}
			if a.Name == "mresponse" {
				proofs[a.Proof] = true
			}
		}
		has := strings.Contains(hc.cfg, "TRUE")
		for ch := range reqs {
			for pr := range proofs {
				for rep := 0; rep < c.Pick(2, 20); rep++ {
					reg, detail := insider(r.rng, ch, pr, has)
					c.Eval(1)
					c.Distinct(fmt.Sprintf("insider|%s|%s|%v|%d", ch, pr, has, rep))
					events = append(events, map[string]any{"ev": "insider", "challenge": ch, "proof": pr, "mhassecret": has, "registered": reg, "detail": detail})
				}
			}
		}
	}
	c.Logf("insider behaviours executed; %d events", len(events))

	// ---- two overlapping handshakes between the same routers (HandshakeOverlap)
	for _, hc := range []struct {
		cfg  string
		want string
	}{{"HandshakeOverlap_Current.cfg", ""}, {"HandshakeOverlap_PinnedShared.cfg", "OwnKeys"}, {"HandshakeOverlap_PinnedUnchecked.cfg", "LinkHasSession"}} {
		hres, err := c.TLC("HandshakeOverlap", hc.cfg, vf.TLCOpts{Workers: 1})
		if err != nil {
			c.Fatal("M overlap %s: %v", hc.cfg, err)
		}
		c.AddModel(hres.Distinct, hres.Generated)
		if hres.Violated != hc.want {
			c.Broken("M overlap %s: expected violated=%q, TLC says %q", hc.cfg, hc.want, hres.Violated)
		}
	}
	for rep := 0; rep < c.Pick(6, 60); rep++ {
		cross := rep%2 == 1
		regD, regL, tok, clear, detail := overlap(r.rng, cross)
		c.Eval(1)
		c.Distinct(fmt.Sprintf("overlap|%v|%d", cross, rep))
		mode := map[bool]string{false: "same-dialler", true: "cross-connect"}[cross]
		events = append(events, map[string]any{"ev": "overlap", "mode": mode, "regD": regD, "regL": regL, "trafficok": tok, "clear": clear, "detail": detail})
		if os.Getenv("VERIF_C04_DEBUG") != "" {
			c.Logf("overlap %s: regD=%v regL=%v traffic=%v clear=%v %s", mode, regD, regL, tok, clear, detail)
		}
	}
	c.Stage("R-overlap", map[string]any{"runs": c.Pick(6, 60)})

	// ---- a participant that is in a handshake with the router it wants to pass for (HandshakeRelay)
	for _, hc := range []struct {
		cfg  string
		want string
	}{{"HandshakeRelay_TRUE.cfg", ""}, {"HandshakeRelay_FALSE.cfg", "NoLinkWithoutProof"}} {
		hres, err := c.TLC("HandshakeRelay", hc.cfg, vf.TLCOpts{Workers: 1})
		if err != nil {
			c.Fatal("M relay %s: %v", hc.cfg, err)
		}
		c.AddModel(hres.Distinct, hres.Generated)
		if hres.Violated != hc.want {
			c.Broken("M relay %s: expected violated=%q, TLC says %q", hc.cfg, hc.want, hres.Violated)
		}
		if hc.want != "" {
			continue
		}
		type ra struct {
			Name      string `json:"name"`
			VRole     string `json:"vrole"`
			PRole     string `json:"prole"`
			Challenge string `json:"challenge"`
			Resp      string `json:"resp"`
			Ack       string `json:"ack"`
		}
		n := 0
		for _, e := range hres.Edges {
			var a ra
			if json.Unmarshal(e.Act, &a) != nil || a.Name != "relay" {
				continue
			}
			for rep := 0; rep < c.Pick(1, 10); rep++ {
				reg, detail := relay(r.rng, a.VRole, a.PRole, a.Challenge, a.Resp, a.Ack)
				c.Eval(1)
				n++
				c.Distinct(fmt.Sprintf("relay|%v|%d", a, rep))
				events = append(events, map[string]any{"ev": "relay", "vrole": a.VRole, "prole": a.PRole, "challenge": a.Challenge, "resp": a.Resp, "ack": a.Ack, "registered": reg, "detail": detail})
			}
		}
		if n < 32 {
			c.Broken("relay: only %d of the 32 cases of HandshakeRelay were executed", n)
		}
		c.Stage("R-relay", map[string]any{"cases": n})
	}

	// ---- a participant that claims somebody else's address, over a history of connections (HandshakeImpersonate)
	for _, hc := range []struct {
		cfg   string
		want  string
		known bool
	}{{"HandshakeImpersonate_TRUE_FALSE.cfg", "", false}, {"HandshakeImpersonate_TRUE_TRUE.cfg", "", true}, {"HandshakeImpersonate_FALSE_FALSE.cfg", "AuthOnRegister", false}} {
		hres, err := c.TLC("HandshakeImpersonate", hc.cfg, vf.TLCOpts{Workers: 1})
		if err != nil {
			c.Fatal("M impersonate %s: %v", hc.cfg, err)
		}
		c.AddModel(hres.Distinct, hres.Generated)
		if hres.Violated != hc.want {
			c.Broken("M impersonate %s: expected violated=%q, TLC says %q", hc.cfg, hc.want, hres.Violated)
		}
		if hc.want != "" {
			continue
		}
		// every history of three connections of the model, against one persistent victim each
		n := 0
		for hist := 0; hist < 8; hist++ {
			for _, sec := range []string{"", "s"} {
				w := world.NewWorld()
				v, mn, pn := mkNode(w, "V", 0, "u", sec), mkNode(w, "M", 1, "u", sec), mkNode(w, "P", 2, "u", sec)
				if hc.known {
					pp := pn.ID.PublicAddress
					_ = v.St.AddRouter(&pp)
				}
				for k := 0; k < 3; k++ {
					claim, cl := pn.ID.PublicAddress, "genuine"
					if hist>>k&1 == 1 {
						cl = "swapped"
						claim.PublicKey = mn.ID.PublicKey
					}
					time.Sleep(3 * time.Millisecond)
					proof := "none"
					if sec != "" {
						proof = "own"
					}
					reg, detail := insiderConn(r.rng, v, mn, claim, "cM", proof)
					bound := "none"
					var key []byte
					if sess := v.St.GetSession(pn.ID.IP); sess != nil && sess.Address() != nil {
						key = sess.Address().PublicKey
					} else if rec, err := v.Store.GetRouter(pn.ID.IP); err == nil && rec != nil && rec.Address != nil {
						key = rec.Address.PublicKey
					}
					switch {
					case key == nil:
					case bytes.Equal(key, pn.ID.PublicKey):
						bound = "P"
					case bytes.Equal(key, mn.ID.PublicKey):
						bound = "M"
					default:
						bound = "other"
					}
					if !reg && v.Peer.GetLink(pn.ID.IP) != nil {
						reg = true
					}
					c.Eval(1)
					n++
					c.Distinct(fmt.Sprintf("impersonate|%v|%d|%s|%d", hc.known, hist, sec, k))
					events = append(events, map[string]any{"ev": "impersonate", "claim": cl, "conn": k + 1, "known": hc.known, "secret": sec != "", "history": hist, "registered": reg, "bound": bound, "detail": detail})
					if reg {
						break
					}
				}
			}
		}
		c.Stage("R-impersonate/"+hc.cfg, map[string]any{"connections": n})
	}

	// ---- the same participant with signatures it RECORDED (HandshakeImpersonate, claim "recorded"): P and the victim
	// completed genuine handshakes which M read along; the links are gone, the victim still holds its session for P.
	// M connects, presents P's genuine identity, writes its own messages (own challenge, the victim's fresh challenge
	// echoed, own key share, newer stamps) and puts signatures P made then under them.
	{
		n, meetingsTotal := 0, 0
		for _, sec := range []string{"", "s"} {
			for rep := 0; rep < c.Pick(3, 30); rep++ {
				evs, conns, meetings, broken := recordedHistory(r.rng, sec, rep)
				if broken != "" {
					c.Broken("recorded signatures (secret %q, history %d): %s", sec, rep, broken)
					continue
				}
				c.Eval(conns)
				n += conns
				meetingsTotal += meetings
				c.Distinct(fmt.Sprintf("recorded|%s|%d", sec, rep))
				events = append(events, evs...)
			}
		}
		c.Stage("R-impersonate/recorded-signatures", map[string]any{"connections": n, "genuine_meetings_before": meetingsTotal})
		c.Logf("recorded signatures: %d connections after %d genuine meetings", n, meetingsTotal)
	}

	for len(events) > 0 {
		rejectAt, inv, tres, err := c.TraceCheck("Handshake_Trace", "Handshake_Trace.cfg", events, vf.TLCOpts{Timeout: 20 * time.Minute})
		if err != nil {
			c.Fatal("T: %v", err)
		}
		c.AddModel(tres.Distinct, tres.Generated)
		if rejectAt <= 0 && inv == "" {
			c.AddTraces(len(events))
			break
		}
		ev := events[rejectAt-1].(map[string]any)
		what := "the outcome violates the handshake rules"
		key := vf.Key(ev["op"], ev["dir"], ev["idx"])
		if ev["ev"] == "overlap" {
			c.Violation(vf.Key("overlap", ev["mode"], ev["regD"], ev["regL"], ev["trafficok"], ev["clear"]), fmt.Sprintf("two overlapping handshakes between the same routers (%v): the link that is registered does not carry the link-layer keys its own handshake agreed on (registered at D %v / at L %v, traffic both ways %v, payload in clear on the wire %v): %v", ev["mode"], ev["regD"], ev["regL"], ev["trafficok"], ev["clear"], ev["detail"]), ev, nil)
			events = events[rejectAt:]
			continue
		}
		if ev["ev"] == "relay" {
			key = vf.Key("relay", ev["vrole"], ev["challenge"], ev["resp"], ev["ack"])
			c.Violation(key, fmt.Sprintf("a link to a router that never spoke on the connection was registered: its response / ack, made for another router in a handshake running at the same time, was accepted: %v", ev), ev, nil)
			events = events[rejectAt:]
			continue
		}
		if ev["ev"] == "impersonate" && ev["claim"] == "recorded" {
			key = vf.Key("impersonate", ev["claim"], ev["sigs"], ev["secret"], ev["registered"], ev["bound"])
			c.Violation(key, fmt.Sprintf("a router that holds no key of P's presented P's identity and put signatures under its own messages that P had made for OTHER messages, in %v earlier genuine handshake(s) with the victim (signatures chosen: %v; connection %v of history %v, universe secret %v): link registered under P's address over this connection: %v, key bound to that address at the victim afterwards: %v (%v)", ev["meetings"], ev["sigs"], ev["conn"], ev["history"], ev["secret"], ev["registered"], ev["bound"], ev["detail"]), ev, nil)
			events = events[rejectAt:]
			continue
		}
		if ev["ev"] == "impersonate" {
			key = vf.Key("impersonate", ev["claim"], ev["conn"], ev["known"], ev["registered"], ev["bound"])
			c.Violation(key, fmt.Sprintf("a router that signs with its own key claimed the address of a router that never took part (connection %v of history %v, claim %v): link registered under that address: %v, key bound to that address at the victim afterwards: %v (%v)", ev["conn"], ev["history"], ev["claim"], ev["registered"], ev["bound"], ev["detail"]), ev, nil)
			events = events[rejectAt:]
			continue
		}
		if ev["ev"] == "insider" {
			key = vf.Key("insider", ev["challenge"], ev["proof"], ev["mhassecret"])
			what = "a router that speaks the handshake itself without knowing the universe secret was registered (or one that knows it was refused)"
			c.Violation(key, fmt.Sprintf("%s: %v", what, ev), ev, nil)
			events = events[rejectAt:]
			continue
		}
		switch {
		case ev["op"] == "none" && unproved(ev) != "":
			what = unproved(ev)
			key = vf.Key("config-secret", ev["uniA"], ev["uniB"], ev["secA"], ev["secB"])
		case ev["op"] == "splice" && (ev["regA"] == true || ev["regB"] == true):
			what = "a router registered the link although the message it received was not what its peer sent: it was put together from this connection's message and one the router had verified before (its sender never signed these bytes)"
		case ev["op"] != "none" && (ev["regA"] == true || ev["regB"] == true):
			what = "a router registered the link although the message it received was altered / replayed / reflected / missing"
		case ev["op"] == "none" && ev["regA"] != ev["regB"]:
			what = "only one end registered an undisturbed set-up"
		case ev["op"] == "none" && ev["regA"] == true:
			what = "a link was registered although universe or universe secret do not match, or addresses / traffic are wrong"
			key = vf.Key("config", ev["uniB"], ev["secA"], ev["secB"])
		case ev["op"] == "none":
			what = "an admissible undisturbed set-up did not complete"
			key = vf.Key("config", ev["uniB"], ev["secA"], ev["secB"])
		}
		c.Violation(key, fmt.Sprintf("%s: %v", what, ev), ev, nil)
		events = events[rejectAt:]
		if c.NViolations() > 6 {
			// enough link set-ups reported; the histories of the other kinds are still judged
			var rest []any
			for _, e := range events {
				if e.(map[string]any)["ev"] != "setup" {
					rest = append(rest, e)
				}
			}
			events = rest
		}
	}
	c.Logf("T done")
}
