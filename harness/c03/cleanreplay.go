// Stage T-cleanreplay: a signed frame that was accepted, is replayed after the receiver's session cleaner has removed the
// idle session (a session without encryption keys goes after one idle minute). The newest accepted stamp of the signed
// class lives in the session object only, so the replay is judged by a fresh handler. The history is validated by TLC
// against SeqWindow_Trace like every other (a tick of the cleaner does not change what was accepted); what TLC
// rejects is a violation of clause 1 ("at most once under any delivery history") with a key of its own, which is listed
// in known_findings.json as an open finding (see DESIGN 0a.4).
package main

import (
	"fmt"
	"math/rand"
	"time"

	"github.com/mycoria/mycoria/frame"

	"verifharness/internal/vf"
)

const cleanReplayKey = "signed/accepted-again-after-session-cleaned"

func cleanReplayHistory(c *vf.Ctx, rng *rand.Rand, h string, idle time.Duration) (events []any, replayOK bool, ok bool) {
	pa, _ := newSlowParty()
	pb, _ := newSlowParty()
	pubA := pa.ID.PublicAddress
	if err := pb.St.AddRouter(&pubA); err != nil {
		c.Broken("T-cleanreplay: AddRouter: %v", err)
		return nil, false, false
	}
	bld := frame.NewFrameBuilder()
	baseT := time.Now().Add(-time.Hour).Round(time.Millisecond)
	events = append(events, map[string]any{"ev": "reset", "h": h, "binding": "FrameV1.Unseal/signed/replay after the session cleaner"})
	mk := func(t int, msg string) []byte {
		mt := []frame.MessageType{frame.RouterPing, frame.RouterHopPing}[rng.Intn(2)]
		f, err := bld.NewFrameV1(pa.ID.IP, pb.ID.IP, mt, nil, []byte(msg), nil)
		if err != nil {
			c.Broken("T-cleanreplay: building a frame: %v", err)
			return nil
		}
		ttl := f.TTL()
		f.SetTTL(0)
		f.SetSequenceTime(baseT.Add(time.Duration(t) * time.Millisecond))
		if err := f.SignRaw(pa.ID.PrivateKey); err != nil {
			c.Broken("T-cleanreplay: signing: %v", err)
			return nil
		}
		f.SetTTL(ttl)
		raw, err := f.FrameDataWithMargins(0, 0)
		if err != nil {
			c.Broken("T-cleanreplay: frame bytes: %v", err)
			return nil
		}
		wire := append([]byte(nil), raw...)
		f.ReturnToPool()
		return wire
	}
	deliver := func(wire []byte, t int, note string) (bool, bool) {
		fr, err := bld.ParseFrame(append([]byte(nil), wire...), nil, 0)
		if err != nil {
			c.Broken("T-cleanreplay: parse: %v", err)
			return false, false
		}
		s := pb.St.GetSession(fr.SrcIP())
		res := s != nil && fr.Unseal(s) == nil
		c.Eval(1)
		events = append(events, map[string]any{"ev": "tcheck", "h": h, "t": t, "ok": res, "note": note})
		return res, true
	}
	n := 1 + rng.Intn(4)
	var wires [][]byte
	var ts []int
	t := 0
	for i := 0; i < n; i++ {
		t += 1 + rng.Intn(50)
		w := mk(t, fmt.Sprintf("signed %s/%d", h, i))
		if w == nil {
			return nil, false, false
		}
		wires, ts = append(wires, w), append(ts, t)
		if _, ok := deliver(w, t, "first delivery"); !ok {
			return nil, false, false
		}
	}
	pick := rng.Intn(n)
	if _, ok := deliver(wires[pick], ts[pick], "replay while the session is held"); !ok {
		return nil, false, false
	}
	removed := pb.St.VerifIdleAndClean(idle)
	events = append(events, map[string]any{"ev": "cleaned", "h": h, "idle_s": int(idle.Seconds()), "removed": removed})
	res, ok := deliver(wires[pick], ts[pick], "replay after the cleaner's tick")
	return events, res, ok
}

// cleanReplay runs the histories and has TLC judge them; it returns the number of traces.
func cleanReplay(c *vf.Ctx, rng *rand.Rand) int {
	n := c.Pick(6, 60)
	var all []any
	type span struct {
		from, to int
		idle     time.Duration
		evs      []any
	}
	var spans []span
	idles := []time.Duration{20 * time.Second, 90 * time.Second, 5 * time.Minute, 2 * time.Hour}
	replayed := 0
	for i := 0; i < n; i++ {
		idle := idles[i%len(idles)]
		evs, res, ok := cleanReplayHistory(c, rng, fmt.Sprintf("cr%d", i), idle)
		if !ok {
			return i
		}
		if res {
			replayed++
		}
		spans = append(spans, span{len(all) + 1, len(all) + len(evs), idle, evs})
		all = append(all, evs...)
	}
	// every history on its own would cost a JVM start each: validate them together and, as TLC stops at the first line
	// it cannot explain, continue behind the history that line belongs to
	rest := spans
	rejectedHist := 0
	for len(rest) > 0 {
		var evs []any
		for _, s := range rest {
			evs = append(evs, s.evs...)
		}
		at, inv, tres, err := c.TraceCheck("SeqWindow_Trace", "SeqWindow_Trace.cfg", evs, vf.TLCOpts{Timeout: 10 * time.Minute})
		if err != nil {
			c.Fatal("T-cleanreplay: %v", err)
		}
		c.AddModel(tres.Distinct, tres.Generated)
		if at <= 0 && inv == "" {
			break
		}
		pos, idx := 0, -1
		for k, s := range rest {
			if at <= pos+len(s.evs) {
				idx = k
				break
			}
			pos += len(s.evs)
		}
		if idx < 0 {
			c.Broken("T-cleanreplay: trace rejected at line %d of %d", at, len(evs))
			break
		}
		s := rest[idx]
		ev, _ := s.evs[at-pos-1].(map[string]any)
		rejectedHist++
		if ev["ev"] == "tcheck" && ev["ok"] == true && ev["note"] == "replay after the cleaner's tick" {
			c.Violation(cleanReplayKey, fmt.Sprintf("a signed frame that had unsealed successfully (and whose replay was refused while the session was held) unsealed successfully a SECOND time after the receiver had been idle for %v and its session cleaner had removed the session: the newest accepted stamp of the signed class is kept in the session object only. History: %v", s.idle, s.evs), s.evs, nil)
		} else {
			c.Violation(vf.Key("cleanreplay", ev["note"], ev["ok"]), fmt.Sprintf("signed history with a tick of the session cleaner: line %v is not allowed by SeqWindow_Trace. History: %v", ev, s.evs), s.evs, nil)
		}
		rest = append(append([]span{}, rest[:idx]...), rest[idx+1:]...)
	}
	c.Stage("T-cleanreplay", map[string]any{"histories": n, "replay_after_cleaning_accepted": replayed, "histories_rejected_by_tlc": rejectedHist})
	c.Logf("T-cleanreplay: %d histories; the replay after the cleaner's tick unsealed in %d; TLC rejected %d", n, replayed, rejectedHist)
	return n
}
