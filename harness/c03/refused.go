// C03, stage T-refused: delivery histories in which the receiver's session - while it is in use - is asked for NEW
// keys and REFUSES.
//
// Every other history of this driver runs on sessions whose key set-ups all went through. A router is asked for keys
// on a session it is using all the time: the partner lost its keys and says hello again (router/ping_hello.go keys the
// session it HAS, in place, with InitKeyServer), or it opened an exchange itself and the answer comes back. Such a
// set-up can be refused part-way: a key-exchange type this release does not support (version skew), a key-exchange
// share of the wrong size, a low-order share (the shared secret cannot be computed - by then both exchange keys are
// already stored in the session), the completion of an exchange that is not open (finished and cleaned up, stale,
// never started), an exchange that is opened and abandoned, a derivation without exchange keys. A refused set-up
// leaves the session's keys in place - so every frame the session has accepted under these keys is still a frame it
// has accepted: it must stay refused, in both encrypted classes and for the link session derived from the exchange.
//
// Two kinds of histories:
//   - "party": two identities with their own state.State. The keys come about in one of the real styles (hello with
//     the receiver as server = re-keyed in place and the exchange keys kept; hello with the receiver as client = a new
//     encryption session installed; peering = both install and clean up; both in place), a link session is derived
//     from the same exchange. Three streams (regular class, priority class, link frames) are delivered interleaved,
//     each a multiset of the numbers the sender produced in a perturbed order (as in stage T); between deliveries the
//     refused set-ups of every kind the API allows happen on the receiver's end-to-end session or on its link session.
//   - "router": two complete router stacks joined by a virtual link, keyed by a real hello exchange. The refused
//     set-ups are real hello pings: a request of the sender whose kx / kxt the receiver's HelloPingHandler refuses
//     (InitKeyServer in place on the session in use), or an exchange the receiver opened itself whose response is
//     refused (bad kx / kxt, wrong ping ID, no exchange open).
//
// Every real Unseal is one `check` line, every refused set-up one `refusedsetup` line per stream; TLC validates
// the whole against SeqWindow_Trace - the oracle of stage T with one more event that leaves `acc` and `newest`
// unchanged. The Go side never decides; it names what TLC rejected. A set-up that was meant to be refused and went
// through, or after which the receiver's in-key is another or gone, ends the history (new keys are a new epoch; whether
// a set-up may go through is C14's business, not this property's).
package main

import (
	"bytes"
	"encoding/hex"
	"fmt"
	"math/rand"
	"strings"
	"time"

	"github.com/fxamacker/cbor/v2"

	"github.com/mycoria/mycoria/config"
	"github.com/mycoria/mycoria/frame"
	"github.com/mycoria/mycoria/peering"
	"github.com/mycoria/mycoria/router"
	"github.com/mycoria/mycoria/state"

	"verifharness/internal/mesh"
	"verifharness/internal/vf"
	"verifharness/internal/world"
)

// the points of low order on Curve25519 (and their non-canonical twins): X25519 with any of them yields the all-zero
// secret, which crypto/ecdh refuses
var rsLowOrder = []string{
	"0000000000000000000000000000000000000000000000000000000000000000",
	"0100000000000000000000000000000000000000000000000000000000000000",
	"e0eb7a7c3b41b8ae1656e3faf19fc46ada098deb9c32b1fd866205165f49b800",
	"5f9c95bca3508c24b1d0b1559c83ef5b04445cc4581c8e86d8224eddd09f1157",
	"ecffffffffffffffffffffffffffffffffffffffffffffffffffffffffffff7f",
	"edffffffffffffffffffffffffffffffffffffffffffffffffffffffffffff7f",
	"eeffffffffffffffffffffffffffffffffffffffffffffffffffffffffffff7f",
}

// rsGoodShare returns a well-formed key-exchange share and the key-exchange type this tree speaks.
func rsGoodShare() ([]byte, string) {
	kx, kxt, err := state.NewEncryptionSession().InitKeyClientStart()
	if err != nil {
		panic(err)
	}
	return kx, kxt
}

func rsBadType(rng *rand.Rand, good string) string {
	switch rng.Intn(7) {
	case 0:
		return good + "-v2"
	case 1:
		return ""
	case 2:
		return "ECDH-P256/BLAKE3"
	case 3:
		return strings.ToLower(good)
	case 4:
		return good[:len(good)-1]
	case 5:
		return " " + good
	default:
		b := make([]byte, 1+rng.Intn(24))
		for i := range b {
			b[i] = byte('A' + rng.Intn(26))
		}
		return string(b)
	}
}

func rsBadSize(rng *rand.Rand) []byte {
	n := []int{0, 1, 8, 16, 31, 33, 48, 64, 65}[rng.Intn(9)]
	if n == 0 && rng.Intn(2) == 0 {
		return nil
	}
	b := make([]byte, n)
	rng.Read(b)
	return b
}

func rsLow(rng *rand.Rand) []byte {
	b, _ := hex.DecodeString(rsLowOrder[rng.Intn(len(rsLowOrder))])
	return b
}

// rsBad picks the kind of malformed (kx, kxt) pair; the names are used in keys and texts.
func rsBad(rng *rand.Rand) (kind string, kx []byte, kxt string) {
	good, goodT := rsGoodShare()
	switch rng.Intn(5) {
	case 0, 1:
		return "unsupported key-exchange type", good, rsBadType(rng, goodT)
	case 2:
		return "key-exchange share of the wrong size", rsBadSize(rng), goodT
	case 3:
		return "low-order key-exchange share", rsLow(rng), goodT
	default:
		kx = rsBadSize(rng)
		return "garbage share and type", kx, rsBadType(rng, goodT)
	}
}

// rsRefusal is what one attempted set-up did.
type rsRefusal struct {
	side, kind, call string
	err              error // nil: the call(s) returned no error
	abandoned        bool  // an exchange that was only opened: nothing to refuse, nothing installed
}

// rsAPI runs one set-up that ought to be refused on es through the state API.
func rsAPI(es *state.EncryptionSession, rng *rand.Rand) rsRefusal {
	good, goodT := rsGoodShare()
	switch rng.Intn(11) {
	case 0, 1, 2, 3: // server side, as router/ping_hello.go does it on the session in use
		kind, kx, kxt := rsBad(rng)
		_, _, err := es.InitKeyServer(kx, kxt)
		return rsRefusal{side: "server", kind: kind, call: fmt.Sprintf("InitKeyServer(%d-byte share, %q)", len(kx), kxt), err: err}
	case 4: // the answer to an exchange that was finished and cleaned up (or never opened)
		es.InitCleanup()
		err := es.InitKeyClientComplete(good, goodT)
		return rsRefusal{side: "client", kind: "completion of an exchange that is not open", call: "InitCleanup(); InitKeyClientComplete(well-formed share)", err: err}
	case 5: // the same with garbage
		es.InitCleanup()
		kind, kx, kxt := rsBad(rng)
		err := es.InitKeyClientComplete(kx, kxt)
		return rsRefusal{side: "client", kind: "completion of an exchange that is not open, " + kind, call: fmt.Sprintf("InitCleanup(); InitKeyClientComplete(%d-byte share, %q)", len(kx), kxt), err: err}
	case 6, 7, 8: // an exchange opened in place and answered badly
		if _, _, err := es.InitKeyClientStart(); err != nil {
			return rsRefusal{side: "client", kind: "exchange cannot be opened", call: "InitKeyClientStart()", err: err}
		}
		kind, kx, kxt := rsBad(rng)
		err := es.InitKeyClientComplete(kx, kxt)
		if rng.Intn(2) == 0 {
			es.InitCleanup()
		}
		return rsRefusal{side: "client", kind: kind, call: fmt.Sprintf("InitKeyClientStart(); InitKeyClientComplete(%d-byte share, %q)", len(kx), kxt), err: err}
	case 9: // opened and abandoned
		_, _, err := es.InitKeyClientStart()
		if err == nil && rng.Intn(2) == 0 {
			es.InitCleanup()
		}
		return rsRefusal{side: "client", kind: "exchange opened and abandoned", call: "InitKeyClientStart()", err: err, abandoned: err == nil}
	default: // a derivation that is refused: no exchange keys, or no purpose
		purpose := "link layer crypt"
		if rng.Intn(2) == 0 {
			purpose = ""
		} else {
			es.InitCleanup()
		}
		_, err := es.DeriveSessionFromKX(rng.Intn(2) == 0, purpose)
		return rsRefusal{side: "derive", kind: "derivation without exchange keys or purpose", call: fmt.Sprintf("DeriveSessionFromKX(%q)", purpose), err: err}
	}
}

// rsStream is one receiving window of a history.
type rsStream struct {
	h        string
	cls      string
	r        receiver
	order    []uint32
	pos      int
	accepted []uint32
}

// rsOrder: a multiset of sent numbers in a perturbed order (the generator of stage T).
func rsOrder(rng *rand.Rand, n int) []uint32 {
	base := uint32(1 + rng.Intn(1000))
	var order []uint32
	for i := 0; i < n; i++ {
		mult := []int{0, 1, 1, 1, 2, 3}[rng.Intn(6)]
		for j := 0; j < mult; j++ {
			order = append(order, base+uint32(i))
		}
	}
	switch rng.Intn(4) {
	case 0:
		for i := range order {
			j := i + rng.Intn(140) - 70
			if j >= 0 && j < len(order) {
				order[i], order[j] = order[j], order[i]
			}
		}
	case 1:
		rng.Shuffle(len(order), func(i, j int) { order[i], order[j] = order[j], order[i] })
	case 2:
		order = append(order, order...)
	case 3: // nearly in order: neighbours swapped
		for i := range order {
			j := i + rng.Intn(7) - 3
			if j >= 0 && j < len(order) {
				order[i], order[j] = order[j], order[i]
			}
		}
	}
	return order
}

// rsHist is one history and what is needed to word a rejection.
type rsHist struct {
	kind    string // party | router
	idx     int
	story   string
	evs     []any
	streams []*rsStream
	refused map[string]int
	through int    // set-ups that were meant to be refused and went through
	ended   string // why the history ended early ("" = ran to its end)
	broken  string // set-up failure: cannot be judged
}

func (h *rsHist) check(c *vf.Ctx, st *rsStream, s uint32, note string) {
	got := st.r.deliver(s)
	c.Eval(1)
	ev := map[string]any{"ev": "check", "h": st.h, "s": int(s), "ok": got}
	if note != "" {
		ev["note"] = note
	}
	h.evs = append(h.evs, ev)
	if got {
		st.accepted = append(st.accepted, s)
	}
}

// note writes one attempted set-up into the trace (one line per stream: all of them hang on the exchange).
func (h *rsHist) note(c *vf.Ctx, r rsRefusal, on, via string) {
	outcome := "refused"
	errText := ""
	if r.err != nil {
		errText = r.err.Error()
	}
	if r.abandoned {
		outcome = "abandoned"
	}
	for _, st := range h.streams {
		h.evs = append(h.evs, map[string]any{"ev": "refusedsetup", "h": st.h, "side": r.side, "kind": r.kind, "on": on, "via": via, "call": r.call, "outcome": outcome, "err": errText})
	}
	h.refused[r.side+": "+r.kind]++
	c.Distinct(fmt.Sprintf("refused|%s|%s|%s|%s", h.kind, on, r.side, r.kind))
}

// run delivers the streams interleaved, calling refuse between deliveries; refuse returns false when the history
// cannot go on (the set-up went through, the keys are others or gone).
func (h *rsHist) run(c *vf.Ctx, rng *rand.Rand, every int, refuse func() bool) {
	total := 0
	for _, st := range h.streams {
		total += len(st.order)
	}
	forced := 1 + rng.Intn(max(total-1, 1)) // at least one refused set-up in the middle of every history
	for step := 0; ; step++ {
		var open []*rsStream
		for _, st := range h.streams {
			if st.pos < len(st.order) {
				open = append(open, st)
			}
		}
		if len(open) == 0 {
			break
		}
		if step == forced || rng.Intn(every) == 0 {
			if !refuse() {
				return
			}
		}
		st := open[rng.Intn(len(open))]
		if dm, ok := st.r.(interface {
			damaged(uint32, *rand.Rand) bool
		}); ok && rng.Intn(25) == 0 {
			ds := st.order[st.pos] + uint32(rng.Intn(2)*(1+rng.Intn(300)))
			h.evs = append(h.evs, map[string]any{"ev": "forged", "h": st.h, "s": int(ds), "ok": dm.damaged(ds, rng)})
			c.Eval(1)
		}
		if os, ok := st.r.(interface{ ownSend(bool) }); ok && rng.Intn(60) == 0 {
			os.ownSend(false)
			h.evs = append(h.evs, map[string]any{"ev": "ownsend", "h": st.h, "wrap": false})
		}
		h.check(c, st, st.order[st.pos], "")
		st.pos++
	}
	// the end of every history: one more refused set-up (mostly), then frames the receiver has accepted arrive again,
	// and a few it has never seen
	if rng.Intn(4) != 0 {
		if !refuse() {
			return
		}
	}
	for _, st := range h.streams {
		acc := append([]uint32(nil), st.accepted...)
		rng.Shuffle(len(acc), func(i, j int) { acc[i], acc[j] = acc[j], acc[i] })
		for i := 0; i < len(acc) && i < 12; i++ {
			h.check(c, st, acc[i], "replay at the end")
		}
		top := uint32(0)
		for _, s := range st.order {
			top = max(top, s)
		}
		for i := 0; i < 3; i++ {
			top += uint32(1 + rng.Intn(40))
			h.check(c, st, top, "new frame at the end")
		}
	}
}

// rsInKey is the receiver's current in-key (nil: no keys).
func rsInKey(es *state.EncryptionSession) []byte {
	if es == nil || !es.IsSetUp() {
		return nil
	}
	return append([]byte(nil), (&state.EncryptionSessionTestHelper{EncryptionSession: es}).InKey()...)
}

// rsEstablish keys sender pa and receiver pb in one of the real styles and derives the link sessions from the same
// exchange.
func rsEstablish(pa, pb *world.Party, style int) (p *pair, story string, err error) {
	p = &pair{a: pa, b: pb, ba: frame.NewFrameBuilder(), bb: frame.NewFrameBuilder()}
	p.ba.SetFrameMargins(peering.FrameOffset, peering.FrameOverhead)
	p.bb.SetFrameMargins(peering.FrameOffset, peering.FrameOverhead)
	p.sa, p.sb = pa.SessionWith(pb), pb.SessionWith(pa)
	var ce, se *state.EncryptionSession // client, server
	recvIsServer := true
	switch style {
	case 0:
		story = "hello exchange opened by the sender: the receiver re-keyed the session it had in place (InitKeyServer) and kept its exchange keys, the sender installed a new encryption session"
		ce, se = state.NewEncryptionSession(), p.sb.Encryption()
	case 1:
		story = "hello exchange opened by the receiver: the receiver keyed a new encryption session and installed it, the sender re-keyed in place"
		ce, se, recvIsServer = state.NewEncryptionSession(), p.sa.Encryption(), false
	case 2:
		story = "link handshake dialled by the sender: both keyed a new encryption session, cleaned up and installed it"
		ce, se = state.NewEncryptionSession(), state.NewEncryptionSession()
	case 3:
		story = "link handshake dialled by the receiver: both keyed a new encryption session, cleaned up and installed it"
		ce, se, recvIsServer = state.NewEncryptionSession(), state.NewEncryptionSession(), false
	default:
		story = "exchange opened by the sender: both re-keyed the encryption session they had in place and cleaned up"
		ce, se = p.sa.Encryption(), p.sb.Encryption()
	}
	kx, kxt, err := ce.InitKeyClientStart()
	if err != nil {
		return nil, story, fmt.Errorf("client start: %w", err)
	}
	rkx, rkxt, err := se.InitKeyServer(kx, kxt)
	if err != nil {
		return nil, story, fmt.Errorf("server: %w", err)
	}
	if err := ce.InitKeyClientComplete(rkx, rkxt); err != nil {
		return nil, story, fmt.Errorf("client complete: %w", err)
	}
	lc, err := ce.DeriveSessionFromKX(true, "link layer crypt")
	if err != nil {
		return nil, story, fmt.Errorf("derive (client): %w", err)
	}
	ls, err := se.DeriveSessionFromKX(false, "link layer crypt")
	if err != nil {
		return nil, story, fmt.Errorf("derive (server): %w", err)
	}
	ce.InitCleanup()
	if style != 0 && style != 1 {
		se.InitCleanup() // the hello server keeps its exchange keys
	}
	cs, ss := p.sa, p.sb
	p.la, p.lb = lc, ls
	if !recvIsServer {
		cs, ss = p.sb, p.sa
		p.la, p.lb = ls, lc
	}
	cs.SetEncryptionSession(ce)
	ss.SetEncryptionSession(se)
	return p, story, nil
}

func rsStreams(p *pair, rng *rand.Rand, link bool, n int) []*rsStream {
	regl := []frame.MessageType{frame.NetworkTraffic, frame.SessionData}[rng.Intn(2)]
	prio := []frame.MessageType{frame.RouterCtrl, frame.SessionCtrl}[rng.Intn(2)]
	out := []*rsStream{
		{h: "rs-regl", cls: "regular class (" + regl.String() + ")", r: &e2eRecv{p: p, mt: regl, sealed: map[uint32][]byte{}}},
		{h: "rs-prio", cls: "priority class (" + prio.String() + ")", r: &e2eRecv{p: p, mt: prio, sealed: map[uint32][]byte{}}},
	}
	if link {
		out = append(out, &rsStream{h: "rs-link", cls: "link frames", r: &linkRecv{p: p, sealed: map[uint32][]byte{}}})
	}
	for _, st := range out {
		st.order = rsOrder(rng, 8+rng.Intn(n))
	}
	return out
}

func (h *rsHist) reset() {
	for _, st := range h.streams {
		h.evs = append(h.evs, map[string]any{"ev": "reset", "h": st.h, "binding": rsBinding(h.kind, st)})
	}
}

func rsBinding(kind string, st *rsStream) string {
	b := "FrameV1.Unseal/"
	if st.h == "rs-link" {
		b = "LinkFrame.Unseal/"
	}
	return b + st.cls + "/refused key set-ups between deliveries (" + kind + ")"
}

// rsPartyHistory: state API.
func rsPartyHistory(c *vf.Ctx, idx int, seed int64) *rsHist {
	rng := rand.New(rand.NewSource(seed))
	h := &rsHist{kind: "party", idx: idx, refused: map[string]int{}}
	pa := world.NewParty(world.NewPrivacyIdentity(), config.Store{})
	pb := world.NewParty(world.NewPrivacyIdentity(), config.Store{})
	p, story, err := rsEstablish(pa, pb, idx%5)
	h.story = story
	if err != nil {
		h.broken = fmt.Sprintf("key set-up (%s): %v", story, err)
		return h
	}
	h.streams = rsStreams(p, rng, true, c.Pick(60, 160))
	h.reset()
	refuse := func() bool {
		// on the end-to-end session of the receiver (as the router looks it up), sometimes on its link session
		es, on := p.sb.Encryption(), "end-to-end session"
		if rng.Intn(5) == 0 {
			es, on = p.lb, "link session"
		}
		e2eBefore, linkBefore := rsInKey(p.sb.Encryption()), rsInKey(p.lb)
		r := rsAPI(es, rng)
		if r.err == nil && !r.abandoned {
			h.through++
			h.ended = fmt.Sprintf("%s on the %s returned no error: the session has new keys", r.call, on)
			return false
		}
		if !bytes.Equal(e2eBefore, rsInKey(p.sb.Encryption())) || !bytes.Equal(linkBefore, rsInKey(p.lb)) {
			h.ended = fmt.Sprintf("after %s on the %s (error: %v) the receiver's in-key is another or gone", r.call, on, r.err)
			return false
		}
		h.note(c, r, on, "state API")
		return true
	}
	h.run(c, rng, 30, refuse)
	return h
}

// rsPing builds a hello ping of `from` for `to` the way sendPingMsg does (signed RouterPing).
func rsPing(from, to *world.Node, followUp bool, id uint64, body any) ([]byte, error) {
	hdr := router.PingHeader{PingID: id, PingType: "hello", FollowUp: followUp,
		AddrHash: from.ID.Hash, KeyType: from.ID.Type, PublicKey: from.ID.PublicKey}
	hd, err := cbor.Marshal(&hdr)
	if err != nil {
		return nil, err
	}
	bd, err := cbor.Marshal(body)
	if err != nil {
		return nil, err
	}
	data := append([]byte{1, byte(len(hd))}, hd...)
	data = append(data, bd...)
	bld := frame.NewFrameBuilder()
	f, err := bld.NewFrameV1(from.ID.IP, to.ID.IP, frame.RouterPing, nil, data, nil)
	if err != nil {
		return nil, err
	}
	defer f.ReturnToPool()
	sess := from.St.GetSession(to.ID.IP)
	if sess == nil {
		return nil, fmt.Errorf("%s has no session for %s", from.Name, to.Name)
	}
	if err := f.Seal(sess); err != nil {
		return nil, err
	}
	raw, err := f.FrameDataWithMargins(0, 0)
	if err != nil {
		return nil, err
	}
	return append([]byte(nil), raw...), nil
}

// rsOpenedExchange lets node n open a hello exchange with peer and returns the ping ID of its request (taken off the
// virtual link; the request itself is lost).
func rsOpenedExchange(ms *mesh.Mesh, n, peer *world.Node) (uint64, error) {
	ms.W.Lock()
	ms.W.Inflight = nil
	ms.W.Unlock()
	n.Rt.HelloPing.VerifExpire(peer.ID.IP)
	if _, err := n.Rt.HelloPing.Send(peer.ID.IP); err != nil {
		return 0, fmt.Errorf("hello ping: %w", err)
	}
	ms.W.Lock()
	fls := ms.W.Inflight
	ms.W.Inflight = nil
	ms.W.Unlock()
	bld := frame.NewFrameBuilder()
	for _, fl := range fls {
		f, err := bld.ParseFrame(append([]byte(nil), fl.Data...), nil, 0)
		if err != nil || f.MessageType() != frame.RouterPing {
			continue
		}
		md := f.MessageData()
		var hdr router.PingHeader
		if len(md) > 2 && 2+int(md[1]) <= len(md) && cbor.Unmarshal(md[2:2+int(md[1])], &hdr) == nil && hdr.PingType == "hello" && !hdr.FollowUp {
			return hdr.PingID, nil
		}
	}
	return 0, fmt.Errorf("no hello request of %s seen on the link", n.Name)
}

// rsRouterHistory: the refused set-ups are hello pings handled by the real router.
func rsRouterHistory(c *vf.Ctx, idx int, seed int64) *rsHist {
	rng := rand.New(rand.NewSource(seed))
	h := &rsHist{kind: "router", idx: idx, refused: map[string]int{}}
	ms, err := mesh.New(2, []mesh.Edge{{A: 1, B: 2, LA: 11, LB: 12}}, mesh.Opts{})
	if err != nil {
		h.broken = fmt.Sprintf("mesh: %v", err)
		return h
	}
	snd, rcv := ms.Node(1), ms.Node(2)
	if idx%2 == 1 {
		snd, rcv = rcv, snd
	}
	// real hello exchange, opened by either
	cli, srv := snd, rcv
	h.story = "real hello exchange opened by the sender: the receiver's HelloPingHandler re-keyed the session it had in place"
	if (idx/2)%2 == 1 {
		cli, srv = rcv, snd
		h.story = "real hello exchange opened by the receiver: its HelloPingHandler installed a new encryption session"
	}
	if _, err := cli.Rt.HelloPing.Send(srv.ID.IP); err != nil {
		h.broken = fmt.Sprintf("hello ping %s -> %s: %v", cli.Name, srv.Name, err)
		return h
	}
	ms.W.RunUntilQuiet(nil, 50)
	ss, sr := snd.St.GetSession(rcv.ID.IP), rcv.St.GetSession(snd.ID.IP)
	if ss == nil || sr == nil || !ss.Encryption().IsSetUp() || !sr.Encryption().IsSetUp() {
		h.broken = fmt.Sprintf("after the hello exchange %s -> %s the routers are not keyed (panics: %v, lost: %v)", cli.Name, srv.Name, ms.W.Panics, ms.W.Lost)
		return h
	}
	p := &pair{a: &world.Party{ID: snd.ID, Cfg: snd.Cfg, St: snd.St, Store: snd.Store}, b: &world.Party{ID: rcv.ID, Cfg: rcv.Cfg, St: rcv.St, Store: rcv.Store},
		sa: ss, sb: sr, ba: frame.NewFrameBuilder(), bb: frame.NewFrameBuilder()}
	h.streams = rsStreams(p, rng, false, c.Pick(40, 120))
	h.reset()
	_, goodT := rsGoodShare()
	deliverPing := func(data []byte) (string, error) {
		res, err := ms.W.DeliverRaw(snd, rcv, data)
		ms.W.Lock()
		ms.W.Inflight = nil // whatever the receiver answered is lost
		ms.W.Unlock()
		if err != nil {
			return "", err
		}
		for _, hd := range res {
			if hd.Panic {
				return "", fmt.Errorf("the router worker panicked: %v", hd.Err)
			}
			if e := hd.HandlerErr(); e != "" {
				return e, nil
			}
		}
		return "", nil
	}
	refuse := func() bool {
		before := rsInKey(sr.Encryption())
		time.Sleep(2 * time.Millisecond) // the stamps of the sender's signed pings differ
		var r rsRefusal
		var data []byte
		var err error
		wantErr := ""
		switch rng.Intn(5) {
		case 0, 1, 2: // the sender says hello again with something the receiver refuses
			kind, kx, kxt := rsBad(rng)
			r = rsRefusal{side: "server", kind: kind, call: fmt.Sprintf("hello request with a %d-byte kx and kxt %q handled by HelloPingHandler (InitKeyServer on the session in use)", len(kx), kxt)}
			data, err = rsPing(snd, rcv, false, rng.Uint64()|1, &router.HelloPingRequest{KeyExchange: kx, KeyExchangeType: kxt, MTU: 1300 + rng.Intn(200)})
			wantErr = "server key exchange"
		case 3: // the receiver opened an exchange itself; the answer is one it refuses
			id, e := rsOpenedExchange(ms, rcv, snd)
			if e != nil {
				h.broken = e.Error()
				return false
			}
			kind, kx, kxt := rsBad(rng)
			r = rsRefusal{side: "client", kind: kind, call: fmt.Sprintf("hello response with a %d-byte kx and kxt %q to the exchange the receiver opened, handled by HelloPingHandler (InitKeyClientComplete)", len(kx), kxt)}
			data, err = rsPing(snd, rcv, true, id, &router.HelloPingResponse{KeyExchange: kx, KeyExchangeType: kxt, MTU: 1300})
			wantErr = "complete client key exchange"
		default: // a well-formed answer to an exchange that is not the open one
			good, _ := rsGoodShare()
			if rng.Intn(2) == 0 {
				id, e := rsOpenedExchange(ms, rcv, snd)
				if e != nil {
					h.broken = e.Error()
					return false
				}
				r = rsRefusal{side: "client", kind: "response with another ping ID", call: "well-formed hello response with a ping ID that is not the open exchange's, handled by HelloPingHandler"}
				data, err = rsPing(snd, rcv, true, id+1+uint64(rng.Intn(1000)), &router.HelloPingResponse{KeyExchange: good, KeyExchangeType: goodT, MTU: 1300})
				wantErr = "ping ID mismatch"
			} else {
				rcv.Rt.HelloPing.VerifExpire(snd.ID.IP)
				r = rsRefusal{side: "client", kind: "response to an exchange that is not open", call: "well-formed hello response while the receiver has no exchange open, handled by HelloPingHandler"}
				data, err = rsPing(snd, rcv, true, rng.Uint64()|1, &router.HelloPingResponse{KeyExchange: good, KeyExchangeType: goodT, MTU: 1300})
				wantErr = "no state"
			}
		}
		if err != nil {
			h.broken = fmt.Sprintf("building the hello ping: %v", err)
			return false
		}
		herr, err := deliverPing(data)
		if err != nil {
			h.broken = fmt.Sprintf("delivering the hello ping: %v", err)
			return false
		}
		if herr == "" {
			h.through++
			h.ended = r.call + ": the handler reported no error"
			return false
		}
		if !strings.Contains(herr, wantErr) {
			// the ping did not get as far as the key exchange (e.g. refused as a signed frame): not a set-up at all
			h.ended = fmt.Sprintf("%s: did not reach the key exchange: %s", r.call, herr)
			return false
		}
		r.err = fmt.Errorf("%s", herr)
		if !bytes.Equal(before, rsInKey(sr.Encryption())) {
			h.ended = fmt.Sprintf("after %s (%s) the receiver's in-key is another or gone", r.call, herr)
			return false
		}
		h.note(c, r, "end-to-end session", "router.HelloPingHandler")
		return true
	}
	h.run(c, rng, 25, refuse)
	return h
}

// refusedSetups runs the histories and has TLC judge them; it returns the number of traces.
func refusedSetups(c *vf.Ctx) int {
	var hists []*rsHist
	nParty, nRouter := c.Pick(30, 400), c.Pick(10, 120)
	for i, ip, ir := 0, 0, 0; i < nParty+nRouter; i++ {
		var h *rsHist
		// the two kinds alternate 3:1 (TLC stops at the first line it cannot explain: both kinds get their turn early)
		if ir >= nRouter || (ip < nParty && i%4 != 1) {
			h = rsPartyHistory(c, ip, c.Seed*7919+int64(ip))
			ip++
		} else {
			h = rsRouterHistory(c, ir, c.Seed*104729+int64(ir))
			ir++
		}
		if h.broken != "" {
			c.Broken("T-refused: history %d (%s) could not be set up: %s", h.idx, h.kind, h.broken)
			continue
		}
		hists = append(hists, h)
	}
	refused := map[string]int{}
	through, ended, nev := 0, 0, 0
	for _, h := range hists {
		for k, v := range h.refused {
			refused[h.kind+": "+k] += v
		}
		through += h.through
		if h.ended != "" {
			ended++
		}
		nev += len(h.evs)
	}
	if len(refused) == 0 {
		c.Broken("T-refused: no set-up was refused in %d histories", len(hists))
	}
	// validate the histories together; TLC stops at the first line it cannot explain: continue without the history
	// that line belongs to (a bounded number of times: one wording per kind of refusal is enough)
	rest := hists
	rejected := 0
	for round := 0; len(rest) > 0; round++ {
		if round >= c.Pick(6, 24) {
			c.Logf("T-refused: %d histories rejected; %d more histories left unjudged", rejected, len(rest))
			break
		}
		var evs []any
		for _, h := range rest {
			evs = append(evs, h.evs...)
		}
		at, inv, tres, err := c.TraceCheck("SeqWindow_Trace", "SeqWindow_Trace.cfg", evs, vf.TLCOpts{Timeout: 15 * time.Minute, Heap: "4g"})
		if err != nil {
			c.Fatal("T-refused: %v", err)
		}
		c.AddModel(tres.Distinct, tres.Generated)
		if at <= 0 && inv == "" {
			break
		}
		pos, idx := 0, -1
		for k, h := range rest {
			if at <= pos+len(h.evs) {
				idx = k
				break
			}
			pos += len(h.evs)
		}
		if idx < 0 {
			c.Broken("T-refused: trace rejected at line %d of %d", at, len(evs))
			break
		}
		rejected++
		rsReport(c, rest[idx], at-pos-1)
		rest = append(append([]*rsHist{}, rest[:idx]...), rest[idx+1:]...)
	}
	c.Stage("T-refused", map[string]any{"histories_party": nParty, "histories_router": nRouter, "events": nev, "refused_setups_by_kind": refused,
		"setups_that_went_through": through, "histories_ended_early": ended, "histories_rejected_by_tlc": rejected})
	c.Logf("T-refused: %d histories (%d events) with %d kinds of refused key set-ups between deliveries; %d set-ups went through, %d histories ended early; TLC rejected %d", len(hists), nev, len(refused), through, ended, rejected)
	return len(hists)
}

// rsReport words the line TLC rejected (line k of h.evs).
func rsReport(c *vf.Ctx, h *rsHist, k int) {
	ev, _ := h.evs[k].(map[string]any)
	var st *rsStream
	for _, s := range h.streams {
		if s.h == ev["h"] {
			st = s
		}
	}
	if st == nil {
		c.Broken("T-refused: rejected line %v belongs to no stream", ev)
		return
	}
	binding := rsBinding(h.kind, st)
	// this stream's lines up to the rejected one; the last refused set-up; the earlier decisions about this number
	var hist []any
	var last map[string]any
	lastAt, firstAccept, refusals, refusedBetween := -1, -1, 0, 0
	for i := 0; i <= k; i++ {
		m, _ := h.evs[i].(map[string]any)
		if m["h"] != ev["h"] || m["ev"] == "reset" {
			continue
		}
		hist = append(hist, m)
		switch {
		case m["ev"] == "refusedsetup":
			last, lastAt = m, i
			refusals++
		case i < k && m["ev"] == "check" && m["s"] == ev["s"]:
			if m["ok"] == true && firstAccept < 0 {
				firstAccept = i
			}
			if m["ok"] == false && firstAccept >= 0 {
				refusedBetween++
			}
		}
	}
	if len(hist) > 120 {
		hist = hist[len(hist)-120:]
	}
	replay := map[string]any{"binding": binding, "history_kind": h.kind, "history": h.idx, "keys": h.story, "rejected_event": ev, "history_tail": hist}
	if ev["ev"] != "check" {
		c.Violation(vf.Key("refused-setup", h.kind, st.h, ev["ev"]), fmt.Sprintf("%s: line %v is not allowed by SeqWindow_Trace (keys: %s)", binding, ev, h.story), replay, nil)
		return
	}
	kind := "accepted-twice"
	if ev["ok"] != true {
		kind = "fresh-in-window-rejected"
	}
	if last == nil {
		c.Violation(vf.Key("refused-setup", h.kind, st.h, "before-any-refusal", kind),
			fmt.Sprintf("%s: delivery %v is not allowed by SeqWindow_Trace (%s) before any set-up was refused in this history (keys: %s)", binding, ev, kind, h.story), replay, nil)
		return
	}
	what := fmt.Sprintf("a key set-up on the receiver's %v was refused (%v side, %v: %v -> %q); its keys stayed in place", last["on"], last["side"], last["kind"], last["call"], last["err"])
	if last["outcome"] == "abandoned" {
		what = fmt.Sprintf("a key exchange was opened on the receiver's %v and abandoned (%v); its keys stayed in place", last["on"], last["call"])
	}
	var text string
	if kind == "accepted-twice" && firstAccept >= 0 && firstAccept < lastAt {
		again := ""
		if refusedBetween > 0 {
			again = fmt.Sprintf(" (and was refused %d times when it arrived again)", refusedBetween)
		}
		text = fmt.Sprintf("%s: frame %v, which had unsealed successfully at the receiver%s, unsealed successfully a SECOND time after %s - what the session has accepted under these keys must stay refused ('unseals successfully at its receiver at most once'). %d deliveries of this stream lay between the refusal and the replay; %d set-ups were refused in this history so far. Keys: %s",
			binding, ev["s"], again, what, rsChecksBetween(h, st.h, lastAt, k), refusals, h.story)
	} else {
		text = fmt.Sprintf("%s: delivery %v is not allowed by SeqWindow_Trace (%s); the last event on the receiver's session before it: %s. Keys: %s", binding, ev, kind, what, h.story)
	}
	c.Violation(vf.Key("refused-setup", h.kind, st.h, last["side"], last["kind"], kind), text, replay, nil)
}

func rsChecksBetween(h *rsHist, hid string, from, to int) int {
	n := 0
	for i := from + 1; i < to; i++ {
		if m, _ := h.evs[i].(map[string]any); m["h"] == hid && m["ev"] == "check" {
			n++
		}
	}
	return n
}
