// C03 - replay protection. Stage M: TLC on SeqWindow (window 4, exhaustive).
// Stage R: every edge of the dumped graph and TLC simulation walks at the
// real window size are executed on the real SequenceHandler, on end-to-end
// frames (regular and priority class) and on link frames. Stage T: seeded
// random delivery histories (and the signed class) are logged and validated
// against SeqWindow_Trace. Verdicts use only the property-level fields.
package main

import (
	"bytes"
	"context"
	"encoding/json"
	"fmt"
	"math/rand"
	"os"
	"os/exec"
	"path/filepath"
	"sort"
	"strings"
	"sync"
	"time"

	"github.com/mycoria/mycoria/config"
	"github.com/mycoria/mycoria/frame"
	"github.com/mycoria/mycoria/peering"
	"github.com/mycoria/mycoria/state"

	"verifharness/internal/vf"
	"verifharness/internal/world"
)

type act struct {
	Name string `json:"name"`
	S    int    `json:"s"`
	I    int    `json:"i"`
	OK   bool   `json:"ok"`
	Dup  bool   `json:"dup"`
	Must bool   `json:"must"`
}

// receiver is one binding of the window in the real code.
type receiver interface {
	name() string
	// deliver delivers the frame carrying sequence number s (sealing it on
	// first use) and reports whether the real code accepted it.
	deliver(s uint32) bool
}

// --- binding 1: the handler itself -----------------------------------------

type rawHandler struct {
	h    *state.SequenceHandler
	full bool
}

func (r *rawHandler) name() string {
	if r.full {
		return "SequenceHandler(NewSequenceHandler)"
	}
	return "SequenceHandler(new)"
}
func (r *rawHandler) deliver(s uint32) bool { return r.h.Check(s) == nil }

// --- binding 2: end-to-end frames --------------------------------------------

type pair struct {
	a, b   *world.Party
	sa, sb *state.Session
	la, lb *state.EncryptionSession
	ba, bb *frame.Builder
}

func newPair(a, b *world.Party) *pair {
	p := &pair{a: a, b: b, ba: frame.NewFrameBuilder(), bb: frame.NewFrameBuilder()}
	p.ba.SetFrameMargins(peering.FrameOffset, peering.FrameOverhead)
	p.bb.SetFrameMargins(peering.FrameOffset, peering.FrameOverhead)
	p.sa, p.sb, p.la, p.lb = world.KeyExchange(a, b, true)
	return p
}

type e2eRecv struct {
	p      *pair
	mt     frame.MessageType
	sealed map[uint32][]byte
}

func (r *e2eRecv) name() string { return "FrameV1.Unseal/" + r.mt.String() }

// damaged delivers a copy of frame s that does not authenticate: one bit of its MAC, or of its sequence field, is
// flipped on the way. Whatever it claims, it must be refused and must leave no trace in the receiver.
func (r *e2eRecv) damaged(s uint32, rng *rand.Rand) bool {
	data := append([]byte(nil), r.frameOf(s)...)
	off := len(data) - 1 - rng.Intn(16)
	if rng.Intn(2) == 0 {
		off = 8 + rng.Intn(8)
	}
	data[off] ^= byte(1 << rng.Intn(8))
	f, err := r.p.bb.ParseFrame(data, nil, 0)
	if err != nil {
		return false
	}
	return f.Unseal(r.p.sb) == nil
}

func (r *e2eRecv) deliver(s uint32) bool {
	buf := append([]byte(nil), r.frameOf(s)...)
	f, err := r.p.bb.ParseFrame(buf, nil, 0)
	if err != nil {
		panic(err)
	}
	err = f.Unseal(r.p.sb)
	if err == nil {
		want := fmt.Sprintf("payload-%d-of-%s", s, r.mt)
		if string(f.MessageData()) != want {
			panic("driver: payload mismatch after successful unseal")
		}
	}
	return err == nil
}

// frameOf returns the bytes of the frame with sequence number s as the sender sealed it (once).
func (r *e2eRecv) frameOf(s uint32) []byte {
	data, ok := r.sealed[s]
	if !ok {
		h := &state.EncryptionSessionTestHelper{EncryptionSession: r.p.sa.Encryption()}
		if r.mt.Class() == frame.MessageClassPriorityEncrypted {
			h.PrioSetOut(s - 1)
		} else {
			h.ReglSetOut(s - 1)
		}
		payload := []byte(fmt.Sprintf("payload-%d-of-%s", s, r.mt))
		f, err := r.p.ba.NewFrameV1(r.p.a.ID.IP, r.p.b.ID.IP, r.mt, nil, payload, nil)
		if err != nil {
			panic(err)
		}
		if err := f.Seal(r.p.sa); err != nil {
			panic(err)
		}
		if f.SequenceNum() != s {
			panic(fmt.Sprintf("driver: sealed seq %d, wanted %d", f.SequenceNum(), s))
		}
		raw, err := f.FrameDataWithMargins(0, 0)
		if err != nil {
			panic(err)
		}
		data = append([]byte(nil), raw...)
		r.sealed[s] = data
		f.ReturnToPool()
	}
	return data
}

// ownSend lets the RECEIVER seal frames of its own towards the sender (regular and priority class); with wrap the
// receiver's own outgoing regular sequence number crosses 2^32 first, which rolls its OUTGOING key. None of this
// may touch what it has accepted from the sender.
func (r *e2eRecv) ownSend(wrap bool) {
	h := &state.EncryptionSessionTestHelper{EncryptionSession: r.p.sb.Encryption()}
	if wrap {
		h.ReglSetOut(0xFFFFFFFD)
	}
	for i := 0; i < 5; i++ {
		for _, mt := range []frame.MessageType{frame.NetworkTraffic, frame.SessionCtrl} {
			f, err := r.p.bb.NewFrameV1(r.p.b.ID.IP, r.p.a.ID.IP, mt, nil, []byte("own traffic of the receiver"), nil)
			if err != nil {
				panic(err)
			}
			if err := f.Seal(r.p.sb); err != nil {
				panic(err)
			}
			f.ReturnToPool()
		}
	}
}

func (r *linkRecv) ownSend(wrap bool) {
	h := &state.EncryptionSessionTestHelper{EncryptionSession: r.p.lb}
	if wrap {
		h.ReglSetOut(0xFFFFFFFD)
	}
	for i := 0; i < 5; i++ {
		inner := []byte("own link traffic of the receiver")
		buf := make([]byte, peering.FrameOffset+len(inner)+peering.FrameOverhead)
		copy(buf[peering.FrameOffset:], inner)
		if err := peering.LinkFrame(buf).Seal(r.p.lb); err != nil {
			panic(err)
		}
	}
}

// --- binding 3: link frames --------------------------------------------------

type linkRecv struct {
	p      *pair
	sealed map[uint32][]byte
}

func (r *linkRecv) name() string { return "LinkFrame.Unseal" }

func (r *linkRecv) damaged(s uint32, rng *rand.Rand) bool {
	data := append([]byte(nil), r.frameOf(s)...)
	off := len(data) - 1 - rng.Intn(16)
	if rng.Intn(2) == 0 {
		off = 4 + rng.Intn(4)
	}
	data[off] ^= byte(1 << rng.Intn(8))
	return peering.LinkFrame(data).Unseal(r.p.lb) == nil
}

func (r *linkRecv) deliver(s uint32) bool {
	buf := append([]byte(nil), r.frameOf(s)...)
	return peering.LinkFrame(buf).Unseal(r.p.lb) == nil
}

func (r *linkRecv) frameOf(s uint32) []byte {
	data, ok := r.sealed[s]
	if !ok {
		h := &state.EncryptionSessionTestHelper{EncryptionSession: r.p.la}
		h.ReglSetOut(s - 1)
		inner := []byte(fmt.Sprintf("link-inner-%d", s))
		buf := make([]byte, peering.FrameOffset+len(inner)+peering.FrameOverhead)
		copy(buf[peering.FrameOffset:], inner)
		lf := peering.LinkFrame(buf)
		if err := lf.Seal(r.p.la); err != nil {
			panic(err)
		}
		if lf.SequenceNum() != s {
			panic("driver: link seq mismatch")
		}
		data = buf
		r.sealed[s] = data
	}
	return data
}

// -----------------------------------------------------------------------------

type world3 struct {
	a, b *world.Party
	// one pair of parties per receiver: sessions live per State, so receivers built on the same two parties would share
	// ONE session object - and message types of one class one replay window (thorough tier: all receivers of a call
	// are used one after the other; a false `fresh-in-window-rejected` on the unchanged tree)
	own [][2]*world.Party
}

func (w *world3) receivers() []receiver {
	// fresh keys => fresh windows on every call; message types of one class share a window, so every receiver
	// gets a session pair - and a pair of parties - of its own
	k := 0
	np := func() *pair {
		if k >= len(w.own) {
			w.own = append(w.own, [2]*world.Party{world.NewParty(world.NewPrivacyIdentity(), config.Store{}), world.NewParty(world.NewPrivacyIdentity(), config.Store{})})
		}
		pp := w.own[k]
		k++
		return newPair(pp[0], pp[1])
	}
	return []receiver{
		&rawHandler{h: new(state.SequenceHandler)},
		&rawHandler{h: state.NewSequenceHandler(), full: true},
		&e2eRecv{p: np(), mt: frame.NetworkTraffic, sealed: map[uint32][]byte{}},
		&e2eRecv{p: np(), mt: frame.RouterCtrl, sealed: map[uint32][]byte{}},
		&e2eRecv{p: np(), mt: frame.SessionData, sealed: map[uint32][]byte{}},
		&e2eRecv{p: np(), mt: frame.SessionCtrl, sealed: map[uint32][]byte{}},
		&linkRecv{p: np(), sealed: map[uint32][]byte{}},
	}
}

func main() {
	vf.Main("C03", "model_checking", run)
}

// inductive runs Apalache on SeqWindowInd: Init => IndInv, and IndInit /\ Next => clause' for every clause, in
// parallel. Result per step: "ok", "violated", "timeout" or "error: ...".
func inductive(c *vf.Ctx) map[string]string {
	out := map[string]string{}
	if _, err := exec.LookPath("apalache-mc"); err != nil {
		out["apalache"] = "not installed"
		return out
	}
	dir := filepath.Join(c.Work, "apalache")
	_ = os.MkdirAll(dir, 0o755)
	src, err := os.ReadFile(filepath.Join(vf.VerifRoot, "spec", "SeqWindowInd.tla"))
	if err != nil {
		out["apalache"] = "error: " + err.Error()
		return out
	}
	type job struct{ name, init, inv, length string }
	jobs := []job{{"base", "Init", "IndInv", "0"}}
	for _, cl := range []string{"C1", "C2", "C3", "C4", "C5", "C6", "C7", "C8"} {
		jobs = append(jobs, job{"step-" + cl, "IndInit", cl, "1"})
	}
	var mu sync.Mutex
	var wg sync.WaitGroup
	for _, j := range jobs {
		wg.Add(1)
		go func(j job) {
			defer wg.Done()
			jd := filepath.Join(dir, j.name)
			_ = os.MkdirAll(jd, 0o755)
			_ = os.WriteFile(filepath.Join(jd, "SeqWindowInd.tla"), src, 0o644)
			ctx, cancel := context.WithTimeout(context.Background(), 45*time.Minute)
			defer cancel()
			cmd := exec.CommandContext(ctx, "apalache-mc", "check", "--init="+j.init, "--inv="+j.inv, "--length="+j.length, "SeqWindowInd.tla")
			cmd.Dir = jd
			b, err := cmd.CombinedOutput()
			res := "error: " + fmt.Sprint(err)
			switch {
			case ctx.Err() != nil:
				res = "timeout"
			case strings.Contains(string(b), "EXITCODE: OK"):
				res = "ok"
			case strings.Contains(string(b), "Checker has found an error"):
				res = "violated"
			}
			mu.Lock()
			out[j.name] = res
			mu.Unlock()
		}(j)
	}
	wg.Wait()
	return out
}

func run(c *vf.Ctx) {
	c.Rule("M: TLC exhaustive on SeqWindow (W=4, numbers 1..9, <=7 deliveries); thorough: Apalache proves the inductive invariant of SeqWindowInd at the real window size 64 for behaviours of any length (base case and 8 inductive steps in parallel). R: every edge of the dumped W=4 graph (numbers scaled x16 into the real 64-window, an exact homomorphism) and TLC -simulate walks at W=64 executed on SequenceHandler (both constructors), FrameV1.Unseal (4 encrypted message types) and LinkFrame.Unseal; T: seeded random delivery histories incl. signed frames validated by SeqWindow_Trace. T-refused: histories in which key set-ups on the receiver's session IN USE are refused between the deliveries (server side in place as router/ping_hello.go does it, client side, derivation: unsupported key-exchange type, share of the wrong size, low-order share, completion of an exchange that is not open, exchange opened and abandoned; through the state API on the end-to-end and on the link session, and as real hello requests / responses handled by the HelloPingHandler of a router stack), regular class, priority class and link frames interleaved; same trace specification with the event refusedsetup (accepted set unchanged). distinct = distinct (binding, delivery history prefix hash) pairs whose last step is a duplicate, a behind-window or an in-window out-of-order delivery")
	c.Assume("ChaCha20-Poly1305/Ed25519 are unforgeable (frames that fail authentication are not part of this property)",
		"sequence numbers stay below 2^31 here; the wrap is C15")

	// ---- M-design: where the newest accepted stamp of the signed class could be kept (behind the open findings) ----
	designStage(c)

	// ---- M ----
	mc, err := c.TLC("SeqWindow", "SeqWindow_MC.cfg", vf.TLCOpts{Workers: 8, Coverage: true, Timeout: 5 * time.Minute})
	if err != nil {
		c.Fatal("M: %v", err)
	}
	if mc.Violated != "" {
		c.Broken("M: model violates %s - the model (as fixed code) admits a bad state; counterexample:\n%s", mc.Violated, lastStates(mc))
	}
	if mc.Coverage["Check"] == 0 {
		c.Broken("M: vacuous, action Check never taken")
	}
	c.AddModel(mc.Distinct, mc.Generated)
	c.Stage("M", map[string]any{"cfg": "SeqWindow_MC.cfg", "generated": mc.Generated, "distinct": mc.Distinct, "depth": mc.Depth, "wall_s": mc.Wall.Seconds()})
	c.Logf("M: %d generated, %d distinct", mc.Generated, mc.Distinct)

	// ---- M (unbounded, thorough): the inductive invariant at the real window size, clause by clause, with Apalache
	var indDone chan map[string]string
	if c.Thorough() {
		indDone = make(chan map[string]string, 1)
		go func() { indDone <- inductive(c) }()
	}

	a := world.NewParty(world.NewPrivacyIdentity(), config.Store{})
	b := world.NewParty(world.NewPrivacyIdentity(), config.Store{})
	w := &world3{a: a, b: b}

	var events []any
	traces := 0
	hseq := 0
	newH := func(r receiver) string {
		hseq++
		h := fmt.Sprintf("h%d", hseq)
		events = append(events, map[string]any{"ev": "reset", "h": h, "binding": r.name()})
		return h
	}

	// ---- R (a): edge cover of the dumped graph ----
	dump, err := c.TLC("SeqWindow", "SeqWindow_Dump.cfg", vf.TLCOpts{Workers: 1, Timeout: 5 * time.Minute})
	if err != nil {
		c.Fatal("R: dump: %v", err)
	}
	if dump.Violated != "" {
		c.Broken("R: dump config violated %s", dump.Violated)
	}
	dump.Inits = []string{initOf(dump)}
	g := vf.BuildGraph(dump)
	paths := g.CoverPaths(0)
	if !c.Thorough() && len(paths) > 400 {
		// seeded sample for the quick tier
		c.Rand.Shuffle(len(paths), func(i, j int) { paths[i], paths[j] = paths[j], paths[i] })
		paths = paths[:400]
	}
	c.Logf("R: %d edges, %d cover paths", len(g.Edges), len(paths))
	edgesRun := 0
	drift := 0
	for pi, p := range paths {
		steps := make([]act, len(p))
		for i, ei := range p {
			if err := json.Unmarshal(g.Edges[ei].Act, &steps[i]); err != nil {
				c.Fatal("bad act: %v", err)
			}
		}
		recvs := w.receivers()
		if !c.Thorough() {
			// quick: raw handler always, one frame binding in rotation
			recvs = []receiver{recvs[0], recvs[1], recvs[2+pi%5]}
		}
		for _, r := range recvs {
			h := newH(r)
			traces++
			for i, st := range steps {
				s := uint32(st.S * 16)
				got := r.deliver(s)
				c.Eval(1)
				edgesRun++
				events = append(events, map[string]any{"ev": "check", "h": h, "s": int(s), "ok": got})
				if st.Dup || !st.Must || i > 0 {
					c.Distinct(fmt.Sprintf("%s|%v", r.name(), prefix(steps, i)))
				}
				if got != st.OK {
					if (got && st.Dup) || (!got && st.Must) {
						seq := prefix(steps, i)
						c.Violation(vf.Key("replay", r.name(), classify(st, got)),
							fmt.Sprintf("%s: delivering %v (x16): last delivery got accepted=%v, property allows %s", r.name(), seq, got, allowed(st)),
							map[string]any{"binding": r.name(), "deliveries_x16": seq, "got": got, "spec": st},
							func() bool { return reproduce(w, r.name(), seq, 16, got) })
					} else {
						drift++
					}
				}
			}
		}
		if pi < 2 {
			c.Sample(map[string]any{"kind": "graph path (x16)", "deliveries": prefix(steps, len(steps)-1), "predicted": steps})
		}
	}
	c.Stage("R-graph", map[string]any{"edges": len(g.Edges), "paths": len(paths), "steps_executed": edgesRun, "drift": drift})

	// ---- R (b): simulation at the real window size ----
	nsim := c.Pick(40, 600)
	sim, err := c.TLC("SeqWindow", "SeqWindow_Sim.cfg", vf.TLCOpts{Workers: 1, Simulate: fmt.Sprintf("num=%d", nsim), Depth: 200, Seed: c.Seed, Timeout: 10 * time.Minute})
	if err != nil {
		c.Fatal("R: sim: %v", err)
	}
	if sim.Violated != "" {
		c.Broken("R: simulation config violated %s", sim.Violated)
	}
	var walks [][]act
	var cur []act
	for _, l := range sim.Lines {
		var st act
		if json.Unmarshal([]byte(l), &st) != nil || st.Name != "check" {
			continue
		}
		if st.I == 1 && len(cur) > 0 {
			walks = append(walks, cur)
			cur = nil
		}
		cur = append(cur, st)
	}
	if len(cur) > 0 {
		walks = append(walks, cur)
	}
	if len(walks) == 0 {
		c.Broken("R: no simulation walks parsed")
	}
	simSteps := 0
	for wi, steps := range walks {
		recvs := w.receivers()
		if !c.Thorough() {
			recvs = []receiver{recvs[0], recvs[2+wi%5]}
		}
		for _, r := range recvs {
			h := newH(r)
			traces++
			for i, st := range steps {
				got := r.deliver(uint32(st.S))
				c.Eval(1)
				simSteps++
				events = append(events, map[string]any{"ev": "check", "h": h, "s": st.S, "ok": got})
				if st.Dup || !st.Must {
					c.Distinct(fmt.Sprintf("sim|%s|%d|%d|%d", r.name(), wi, i, st.S))
				}
				if got != st.OK {
					if (got && st.Dup) || (!got && st.Must) {
						seq := prefix(steps, i)
						c.Violation(vf.Key("replay", r.name(), classify(st, got)),
							fmt.Sprintf("%s: simulated walk: last delivery %d got accepted=%v, property allows %s", r.name(), st.S, got, allowed(st)),
							map[string]any{"binding": r.name(), "deliveries": seq, "got": got, "spec": st},
							func() bool { return reproduce(w, r.name(), seq, 1, got) })
					} else {
						drift++
					}
				}
			}
		}
	}
	c.Stage("R-sim", map[string]any{"walks": len(walks), "steps_executed": simSteps, "drift_total": drift})
	c.AddModel(sim.Generated, sim.Generated)

	// ---- T: seeded random histories incl. the signed class ----
	rng := rand.New(rand.NewSource(c.Seed))
	nhist := c.Pick(60, 1500)
	for k := 0; k < nhist; k++ {
		recvs := w.receivers()
		r := recvs[k%len(recvs)]
		h := newH(r)
		traces++
		n := 20 + rng.Intn(c.Pick(120, 400))
		base := uint32(1 + rng.Intn(1000))
		// a multiset of sent numbers, delivered in a perturbed order
		var order []uint32
		for i := 0; i < n; i++ {
			mult := []int{0, 1, 1, 1, 2, 3}[rng.Intn(6)]
			for j := 0; j < mult; j++ {
				order = append(order, base+uint32(i))
			}
		}
		switch rng.Intn(3) {
		case 0: // local displacement straddling the window edge
			for i := range order {
				j := i + rng.Intn(140) - 70
				if j >= 0 && j < len(order) {
					order[i], order[j] = order[j], order[i]
				}
			}
		case 1:
			rng.Shuffle(len(order), func(i, j int) { order[i], order[j] = order[j], order[i] })
		case 2: // in order, then a full replay
			order = append(order, order...)
		}
		for _, s := range order {
			if os, ok := r.(interface{ ownSend(bool) }); ok && rng.Intn(40) == 0 {
				// the receiver is a router too: it seals frames of its own in between, sometimes across the wrap of its own counter
				wrap := rng.Intn(2) == 0
				os.ownSend(wrap)
				events = append(events, map[string]any{"ev": "ownsend", "h": h, "wrap": wrap})
				c.Distinct(fmt.Sprintf("ownsend|%s|%v", r.name(), wrap))
			}
			if dm, ok := r.(interface {
				damaged(uint32, *rand.Rand) bool
			}); ok && rng.Intn(12) == 0 {
				// a copy that does not authenticate arrives first: of this very frame, or of one far ahead
				ds := s
				if rng.Intn(2) == 0 {
					ds = s + uint32(1+rng.Intn(300))
				}
				events = append(events, map[string]any{"ev": "forged", "h": h, "s": int(ds), "ok": dm.damaged(ds, rng)})
				c.Eval(1)
				c.Distinct(fmt.Sprintf("forged|%s|%v", r.name(), ds == s))
			}
			got := r.deliver(s)
			c.Eval(1)
			events = append(events, map[string]any{"ev": "check", "h": h, "s": int(s), "ok": got})
		}
		if k == 0 {
			c.Sample(map[string]any{"kind": "random history", "binding": r.name(), "first_deliveries": order[:min(len(order), 24)]})
		}
	}
	// signed class: frames with chosen timestamps, any delivery order
	for k := 0; k < c.Pick(30, 400); k++ {
		p := newPair(a, b) // sessions persist per State; a fresh pair of parties gives a fresh time sequence
		_ = p
		pa := world.NewParty(world.NewPrivacyIdentity(), config.Store{})
		pb := world.NewParty(world.NewPrivacyIdentity(), config.Store{})
		_ = pb.SessionWith(pa) // makes the sender known to the receiver
		hseq++
		h := fmt.Sprintf("t%d", hseq)
		events = append(events, map[string]any{"ev": "reset", "h": h, "binding": "FrameV1.Unseal/signed"})
		traces++
		bld := frame.NewFrameBuilder()
		// stamps are the SENDER's clock: in half of the histories it is not the receiver's - some frames are stamped
		// hours or days ahead of (or behind) the receiver's time; the order rule is about the stamps alone
		baseT := time.Now().Round(time.Millisecond).Add(-72 * time.Hour)
		skew := k%2 == 1
		mts := []frame.MessageType{frame.RouterPing, frame.RouterHopPing, frame.RouterHopPingDeprecated}
		n := 10 + rng.Intn(60)
		for i := 0; i < n; i++ {
			t := 259200000 + 1 + rng.Intn(40) // 72 h in ms: "now" at the receiver
			if skew {
				t += []int{0, 0, 90000000, 172800000, 864000000, -90000000, -250000000}[rng.Intn(7)] // +25 h, +48 h, +10 d, -25 h, -69 h
			}
			f, err := bld.NewFrameV1(pa.ID.IP, pb.ID.IP, mts[rng.Intn(3)], nil, []byte("signed"), nil)
			if err != nil {
				panic(err)
			}
			ttl := f.TTL()
			f.SetTTL(0)
			f.SetSequenceTime(baseT.Add(time.Duration(t) * time.Millisecond))
			if err := f.SignRaw(pa.ID.PrivateKey); err != nil {
				panic(err)
			}
			f.SetTTL(ttl)
			if rng.Intn(12) == 0 {
				// the receiver handles a "no encryption keys" error ping of the sender (router/ping_error.go): the
				// session's keys go, what it has accepted from the sender must not
				_ = pb.St.SetEncryptionSession(pa.ID.IP, nil)
				events = append(events, map[string]any{"ev": "nokeys", "h": h})
				c.Distinct("nokeys|signed")
			}
			// the router looks the session up for every arriving frame
			sess := pb.St.GetSession(pa.ID.IP)
			got := sess != nil && f.Unseal(sess) == nil
			c.Eval(1)
			events = append(events, map[string]any{"ev": "tcheck", "h": h, "t": t, "ok": got})
			f.ReturnToPool()
		}
	}

	// ---- copies of one frame handled at the same moment: a router runs one frame worker per CPU on the same session.
	// Every frame of a run is delivered as four copies by four goroutines at once (sometimes late, inside the window);
	// "at most once" is about all of them together. The decisions of one frame are written down one after the other.
	for k := 0; k < c.Pick(10, 120); k++ {
		for _, mt := range []frame.MessageType{frame.NetworkTraffic, frame.SessionCtrl} {
			er := &e2eRecv{p: newPair(a, b), mt: mt, sealed: map[uint32][]byte{}}
			hseq++
			h := fmt.Sprintf("c%d", hseq)
			events = append(events, map[string]any{"ev": "reset", "h": h, "binding": er.name() + "/concurrent copies"})
			traces++
			n := 300
			wires := make([][]byte, n+1)
			for s := 1; s <= n; s++ {
				wires[s] = er.frameOf(uint32(s))
			}
			order := rng.Perm(n)
			for i := range order { // mostly in order, with late ones inside the window
				j := i + rng.Intn(20) - 10
				if j >= 0 && j < n {
					order[i], order[j] = order[j], order[i]
				}
			}
			sort.Slice(order, func(x, y int) bool { return order[x]/24 < order[y]/24 })
			for _, o := range order {
				s := uint32(o + 1)
				var wg sync.WaitGroup
				res := make([]bool, 4)
				start := make(chan struct{})
				for g := 0; g < 4; g++ {
					wg.Add(1)
					go func(g int) {
						defer wg.Done()
						buf := append([]byte(nil), wires[s]...)
						<-start
						f, err := er.p.bb.ParseFrame(buf, nil, 0)
						if err != nil {
							return
						}
						res[g] = f.Unseal(er.p.sb) == nil
					}(g)
				}
				close(start)
				wg.Wait()
				// a linearisation of the four decisions: an accepting one (if any) came first
				sort.SliceStable(res, func(x, y int) bool { return res[x] && !res[y] })
				for g := 0; g < 4; g++ {
					c.Eval(1)
					events = append(events, map[string]any{"ev": "check", "h": h, "s": int(s), "ok": res[g]})
				}
			}
			c.Distinct(fmt.Sprintf("concurrent-copies|%s|%d", mt, k))
		}
	}

	// ---- copies of one signed frame that meet NO session object at the receiver (first contact, or the cleaner removed
	// the idle one), each handled with the router's per-frame session lookup, over a storage that is not instant
	traces += lookupHistories(c, rng, &hseq, &events)

	// a signed frame replayed after the receiver's session cleaner removed the idle session (judged on its own: an
	// open known finding on this tree)
	traces += cleanReplay(c, rng)

	// refused key set-ups (of every kind the API and the hello handler allow) on the receiver's session in use, between
	// the deliveries of both encrypted classes and of link frames: what was accepted stays refused
	traces += refusedSetups(c)

	rejectAt, inv, tres, err := c.TraceCheck("SeqWindow_Trace", "SeqWindow_Trace.cfg", events, vf.TLCOpts{Timeout: time.Duration(c.Pick(20, 90)) * time.Minute, Heap: "8g"})
	if err != nil {
		c.Fatal("T: %v", err)
	}
	c.AddTraces(traces)
	c.AddModel(tres.Distinct, tres.Generated)
	c.Stage("T", map[string]any{"events": len(events), "traces": traces, "tlc_states": tres.Distinct, "wall_s": tres.Wall.Seconds()})
	if rejectAt > 0 || inv != "" {
		ev := events[rejectAt-1].(map[string]any)
		// find the handler's binding and its history
		hid := ev["h"]
		var hist []any
		binding := ""
		for _, e := range events[:rejectAt] {
			m := e.(map[string]any)
			if m["h"] == hid {
				if m["ev"] == "reset" {
					binding, _ = m["binding"].(string)
					hist = nil
				} else {
					hist = append(hist, m)
				}
			}
		}
		kind := "accepted-twice"
		if ok, _ := ev["ok"].(bool); !ok {
			kind = "fresh-in-window-rejected"
		}
		if ev["ev"] == "tcheck" {
			kind = "timestamp-order"
		}
		if ev["ev"] == "ownsend" {
			kind = "own-send"
		}
		if ev["ev"] == "nokeys" {
			kind = "no-keys"
		}
		if ev["ev"] == "cleaned" {
			kind = "cleaner"
		}
		detail := ""
		if binding == lookupBinding && ev["ev"] == "tcheck" {
			// name what the receiver did with the copies of this frame (the verdict is TLC's, this is its wording)
			acc := 0
			for _, e := range hist {
				if m := e.(map[string]any); m["ev"] == "tcheck" && m["t"] == ev["t"] && m["ok"] == true {
					acc++
				}
			}
			detail = fmt.Sprintf(": the signed frame with stamp %v arrived as %v copies while the receiver's session for the sender was %v; each copy was handled as GetSession(src)+Unseal by a worker of its own; the receiver used %v different session objects for them and this stamp has unsealed successfully %d times so far", ev["t"], ev["copies"], ev["session"], ev["session_objects"], acc)
			if n, _ := ev["session_objects"].(int); n > 1 {
				kind += "/several-session-objects"
			}
		}
		c.Violation(vf.Key("trace", binding, kind),
			fmt.Sprintf("%s: trace line %d (%v) is not allowed by SeqWindow_Trace after history of %d deliveries%s", binding, rejectAt, ev, len(hist)-1, detail),
			map[string]any{"binding": binding, "history": hist, "rejected_event": ev}, nil)
	}
	c.Logf("T: %d events in %d traces validated", len(events), traces)
	suite(c)
	collectInductive(c, indDone)
}

// suite is stage S: the traces are not made by this driver but recorded from the repository's OWN test suite. The
// state, frame and peering tests are run from /repo with the guarded hooks on (VERIF_SEQ_TRACE): every decision of
// every SequenceHandler they create is logged inside Check while the handler's lock is held, and TLC validates the
// log against SeqWindow_Suite (never a number twice per key epoch; new and in the window => accepted).
func suite(c *vf.Ctx) {
	trace := filepath.Join(c.Work, "suite-seq.ndjson")
	_ = os.Remove(trace)
	cmd := exec.Command("bash", "-c", fmt.Sprintf(". %s/bin/goenv.sh && cd %s && VERIF_SEQ_TRACE=%s \"$GO\" test -tags verif -vet=off -count=1 ./state/ ./frame/ ./peering/", vf.VerifRoot, vf.RepoRoot, trace))
	out, err := cmd.CombinedOutput()
	if err != nil {
		// the repository's tests failing is not this check's verdict; without a trace the stage cannot run
		c.Fatal("S: the repository's tests did not pass with the hooks on: %v\n%s", err, tailStr(string(out), 1500))
	}
	data, err := os.ReadFile(trace)
	if err != nil {
		c.Fatal("S: no trace was recorded: %v", err)
	}
	var evs []any
	checks := 0
	for _, ln := range bytes.Split(data, []byte("\n")) {
		if len(bytes.TrimSpace(ln)) == 0 {
			continue
		}
		if !json.Valid(ln) {
			c.Fatal("S: malformed trace line %q", ln)
		}
		if bytes.Contains(ln, []byte(`"check"`)) {
			checks++
		}
		evs = append(evs, json.RawMessage(append([]byte(nil), ln...)))
	}
	if checks < 1000 {
		c.Broken("S: the repository's tests produced only %d sequence decisions (hooks not reached?)", checks)
		return
	}
	rejectAt, inv, tres, err := c.TraceCheck("SeqWindow_Suite", "SeqWindow_Suite.cfg", evs, vf.TLCOpts{Timeout: 20 * time.Minute, Heap: "8g"})
	if err != nil {
		c.Fatal("S: %v", err)
	}
	c.AddTraces(1)
	c.Eval(checks)
	c.AddModel(tres.Distinct, tres.Generated)
	c.Stage("S", map[string]any{"events": len(evs), "decisions": checks, "packages": []string{"state", "frame", "peering"}, "wall_s": tres.Wall.Seconds()})
	if rejectAt > 0 || inv != "" {
		var ev map[string]any
		_ = json.Unmarshal(evs[rejectAt-1].(json.RawMessage), &ev)
		// the handler's history in this epoch
		var hist []any
		for _, e := range evs[:rejectAt] {
			var m map[string]any
			_ = json.Unmarshal(e.(json.RawMessage), &m)
			if m["h"] == ev["h"] {
				if m["ev"] == "reset" {
					hist = nil
				}
				hist = append(hist, m)
			}
		}
		if len(hist) > 80 {
			hist = hist[len(hist)-80:]
		}
		kind := "accepted-twice"
		if ok, _ := ev["ok"].(bool); !ok {
			kind = "fresh-in-window-rejected"
		}
		c.Violation(vf.Key("suite-trace", kind),
			fmt.Sprintf("a SequenceHandler decision recorded from the repository's own tests is not allowed by SeqWindow_Suite: line %d %v (%s)", rejectAt, ev, kind),
			map[string]any{"rejected_event": ev, "history_tail": hist}, nil)
	}
	c.Logf("S: %d events (%d decisions) recorded from the repository's own tests validated", len(evs), checks)
}

func tailStr(s string, n int) string {
	if len(s) > n {
		return s[len(s)-n:]
	}
	return s
}

func initOf(r *vf.TLCResult) string {
	// The initial state is the source of the first printed edge (single Init).
	if len(r.Edges) == 0 {
		return ""
	}
	return r.Edges[0].From
}

func prefix(steps []act, i int) []int {
	out := make([]int, i+1)
	for k := 0; k <= i; k++ {
		out[k] = steps[k].S
	}
	return out
}

func classify(st act, got bool) string {
	if got && st.Dup {
		return "accepted-twice"
	}
	return "fresh-in-window-rejected"
}

func allowed(st act) string {
	switch {
	case st.Dup:
		return "reject only (already accepted)"
	case st.Must:
		return "accept only (new and inside the window)"
	default:
		return "either"
	}
}

// reproduce re-executes a delivery sequence on a fresh receiver of the named
// binding and reports whether the last outcome is again `got`.
func reproduce(w *world3, binding string, seq []int, scale int, got bool) bool {
	for _, r := range w.receivers() {
		if r.name() != binding {
			continue
		}
		var last bool
		for _, s := range seq {
			last = r.deliver(uint32(s * scale))
		}
		return last == got
	}
	return false
}

func collectInductive(c *vf.Ctx, ch chan map[string]string) {
	if ch == nil {
		return
	}
	res := <-ch
	c.Stage("M-inductive", res)
	c.Logf("inductive invariant (Apalache, W=64, any length): %v", res)
	for k, v := range res {
		if v == "violated" {
			c.Broken("the inductive invariant of SeqWindowInd is not inductive at %s (the argument is wrong, not the code)", k)
		}
	}
}

func lastStates(r *vf.TLCResult) string {
	s := ""
	for _, st := range r.ErrTrace {
		s += st + "\n"
	}
	return s
}
