// Stage M-design: the design analysis behind the open findings C03 signed/accepted-again-after-session-cleaned and C07
// lost/replayed-after-session-loss (spec/SignedReplay.tla). TLC decides, per place where the newest accepted stamp of
// the signed class could be kept and per way a session object gets lost, whether AtMostOnce and MustAccept hold. The
// expected verdicts are part of the record (DESIGN 0a.4); a verdict that differs from the expectation means the model
// was changed without the record - exit 2, never a verdict on the code.
package main

import (
	"time"

	"verifharness/internal/vf"
)

func designStage(c *vf.Ctx) {
	want := []struct{ cfg, violated, what string }{
		{"SignedReplay_session_clean.cfg", "AtMostOnce", "the code as it is: a tick of the session cleaner is enough"},
		{"SignedReplay_memory_clean.cfg", "", "a table that outlives sessions covers the cleaner"},
		{"SignedReplay_memory_restart.cfg", "AtMostOnce", "... but not a restart"},
		{"SignedReplay_persist_restart.cfg", "", "the stamp in the stored router record (written when a session is cleaned and at a clean shutdown) covers cleaner and clean restart"},
		{"SignedReplay_persist_kill.cfg", "AtMostOnce", "... but not a kill"},
		{"SignedReplay_fresh_cleanonly.cfg", "", "a freshness bound shorter than the cleaner's idle time covers the cleaner for synchronised clocks"},
		{"SignedReplay_fresh_sync.cfg", "AtMostOnce", "... but a restart within the window re-opens it"},
		{"SignedReplay_fresh_wide.cfg", "AtMostOnce", "a window longer than the idle time does not even cover the cleaner"},
		{"SignedReplay_fresh_slow.cfg", "MustAcceptA", "and a sender whose clock is behind by the window or more is refused although honest"},
	}
	out := map[string]any{}
	for _, w := range want {
		res, err := c.TLC("SignedReplay", w.cfg, vf.TLCOpts{Workers: 2, Timeout: 5 * time.Minute})
		if err != nil {
			c.Broken("M-design %s: %v", w.cfg, err)
			return
		}
		c.AddModel(res.Distinct, res.Generated)
		if res.Violated != w.violated {
			c.Broken("M-design %s: TLC reports %q, the record says %q (%s)", w.cfg, res.Violated, w.violated, w.what)
		}
		out[w.cfg] = map[string]any{"violated": res.Violated, "distinct": res.Distinct, "meaning": w.what}
	}
	c.Stage("M-design", out)
	c.Logf("M-design: %d configurations of SignedReplay decided as recorded", len(want))
}
