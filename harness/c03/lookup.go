// C03, stage T (part "per-frame lookup"): the receiver has NO session object for the sender when the copies of one
// signed frame arrive - first contact, or its session cleaner removed the idle session - and every copy is handled
// the way the router handles every frame (router.parsePingMsg, peering.handlePeeringRequest, hello / announce
// handlers): `State().GetSession(f.SrcIP())`, then `Unseal`, one router worker per copy, all at the same moment. The
// receiver's router storage is not instant (it yields, or takes some hundred microseconds or a few milliseconds per
// query), and in some rounds the receiver looks the same session up for a frame of its OWN at that moment. "At most
// once" and "strictly increasing stamps" are claims about the receiver, whatever objects it keeps its replay state in:
// the decisions of all copies are linearised (an accepting one first) and judged by the same SeqWindow_Trace rule as
// every other signed history (`tcheck`); a tick of the cleaner is the event `cleaned`.
package main

import (
	"fmt"
	"math/rand"
	"net/netip"
	"runtime"
	"sort"
	"sync"
	"sync/atomic"
	"time"

	"github.com/mycoria/mycoria/config"
	"github.com/mycoria/mycoria/frame"
	"github.com/mycoria/mycoria/state"
	"github.com/mycoria/mycoria/storage"

	"verifharness/internal/vf"
	"verifharness/internal/world"
)

// lookupBinding is the binding name of these histories (used in keys and texts).
const lookupBinding = "FrameV1.Unseal/signed/per-frame session lookup, copies at the same moment"

// slowStore is a router storage that takes a moment to answer a router query: delay < 0 answers at once, 0 yields
// the processor first, > 0 sleeps that many nanoseconds first. Everything else is the in-memory storage of /repo.
type slowStore struct {
	storage.Storage
	delay   atomic.Int64
	queries atomic.Int64
}

func (s *slowStore) GetRouter(ip netip.Addr) (*storage.StoredRouter, error) {
	s.queries.Add(1)
	switch d := s.delay.Load(); {
	case d == 0:
		runtime.Gosched()
	case d > 0:
		time.Sleep(time.Duration(d))
	}
	return s.Storage.GetRouter(ip)
}

// newSlowParty is world.NewParty with the storage wrapped.
func newSlowParty() (*world.Party, *slowStore) {
	id := world.NewPrivacyIdentity()
	p := &world.Party{ID: id}
	var cfg config.Store
	cfg.Router.Address = id.Store()
	p.Cfg = config.MakeTestConfig(cfg)
	st := &slowStore{Storage: storage.NewMemStorage()}
	st.delay.Store(-1)
	p.Store = st
	p.St = state.New(p, p.Store)
	return p, st
}

// lookupHistories appends the histories of this stage to events and returns the number of traces added.
func lookupHistories(c *vf.Ctx, rng *rand.Rand, hseq *int, events *[]any) int {
	traces := 0
	missRounds, cleanedRounds, firstRounds, decisions, ownRounds := 0, 0, 0, 0, 0
	baseT := time.Now().Round(time.Millisecond).Add(-72 * time.Hour)
	const nowMs = 259200000 // 72 h in ms: "now" at the receiver
	mts := []frame.MessageType{frame.RouterPing, frame.RouterHopPing, frame.RouterHopPingDeprecated}
	for k := 0; k < c.Pick(40, 600); k++ {
		pa := world.NewParty(world.NewPrivacyIdentity(), config.Store{})
		pb, store := newSlowParty()
		// the receiver knows the sender's address (router storage), it has no session for it: first contact
		pub := pa.ID.PublicAddress
		if err := pb.St.AddRouter(&pub); err != nil {
			c.Broken("T-lookup: the receiver could not store the sender's address: %v", err)
			return traces
		}
		*hseq++
		h := fmt.Sprintf("f%d", *hseq)
		*events = append(*events, map[string]any{"ev": "reset", "h": h, "binding": lookupBinding})
		traces++
		bld := frame.NewFrameBuilder()
		slowness := k % 3 // how slow this receiver's storage is: yields / some 100 us / some ms
		absent := true    // the receiver holds no session object for the sender
		why := "first-contact"
		maxT := nowMs
		var used []int
		n := 4 + rng.Intn(10)
		for i := 0; i < n; i++ {
			if i > 0 && rng.Intn(3) == 0 {
				// nothing arrives for a while; one tick of the receiver's session cleaner
				idle := []time.Duration{10 * time.Second, 90 * time.Second, 5 * time.Minute, 2 * time.Hour}[rng.Intn(4)]
				removed := pb.St.VerifIdleAndClean(idle)
				*events = append(*events, map[string]any{"ev": "cleaned", "h": h, "idle_s": int(idle.Seconds()), "removed": removed})
				if removed > 0 {
					absent, why = true, "cleaned"
				}
			}
			// the stamp: a new newest one, or (only while the receiver still holds its session: what a receiver may
			// do with an old stamp after it dropped an idle session is not judged here) an old or repeated one
			t := maxT + 1 + rng.Intn(40)
			if !absent && len(used) > 0 && rng.Intn(3) == 0 {
				t = used[rng.Intn(len(used))] - rng.Intn(3)
			}
			if t > maxT {
				maxT = t
			}
			used = append(used, t)
			f, err := bld.NewFrameV1(pa.ID.IP, pb.ID.IP, mts[rng.Intn(len(mts))], nil, []byte(fmt.Sprintf("signed %s/%d", h, i)), nil)
			if err != nil {
				c.Broken("T-lookup: building a frame: %v", err)
				return traces
			}
			ttl := f.TTL()
			f.SetTTL(0)
			f.SetSequenceTime(baseT.Add(time.Duration(t) * time.Millisecond))
			if err := f.SignRaw(pa.ID.PrivateKey); err != nil {
				c.Broken("T-lookup: signing a frame: %v", err)
				return traces
			}
			f.SetTTL(ttl)
			raw, err := f.FrameDataWithMargins(0, 0)
			if err != nil {
				c.Broken("T-lookup: frame bytes: %v", err)
				return traces
			}
			wire := append([]byte(nil), raw...)
			f.ReturnToPool()

			copies := []int{1, 2, 2, 3, 4, 4}[rng.Intn(6)]
			if absent && copies == 1 && rng.Intn(4) != 0 {
				copies = 2 + rng.Intn(3)
			}
			own := rng.Intn(4) == 0 // the receiver sends a signed frame of its own to the sender at that moment
			switch slowness {
			case 0:
				store.delay.Store(0)
			case 1:
				store.delay.Store(int64(50+rng.Intn(450)) * int64(time.Microsecond))
			default:
				store.delay.Store(int64(1000+rng.Intn(2000)) * int64(time.Microsecond))
			}
			res := make([]bool, copies)
			sess := make([]*state.Session, copies)
			perr := make([]error, copies)
			var ownErr error
			start := make(chan struct{})
			var wg sync.WaitGroup
			for g := 0; g < copies; g++ {
				wg.Add(1)
				go func(g int) {
					defer wg.Done()
					buf := append([]byte(nil), wire...)
					<-start
					fr, err := bld.ParseFrame(buf, nil, 0)
					if err != nil {
						perr[g] = err
						return
					}
					// the router looks the session up for every arriving frame
					s := pb.St.GetSession(fr.SrcIP())
					sess[g] = s
					res[g] = s != nil && fr.Unseal(s) == nil
				}(g)
			}
			if own {
				wg.Add(1)
				go func() {
					defer wg.Done()
					<-start
					s := pb.St.GetSession(pa.ID.IP)
					if s == nil {
						return
					}
					fo, err := bld.NewFrameV1(pb.ID.IP, pa.ID.IP, frame.RouterPing, nil, []byte("a ping of the receiver's own"), nil)
					if err != nil {
						ownErr = err
						return
					}
					ownErr = fo.Seal(s)
					fo.ReturnToPool()
				}()
			}
			close(start)
			wg.Wait()
			store.delay.Store(-1)
			for g := range perr {
				if perr[g] != nil {
					c.Broken("T-lookup: the receiver could not parse the sender's frame: %v", perr[g])
					return traces
				}
			}
			if ownErr != nil {
				c.Broken("T-lookup: the receiver could not seal a frame of its own: %v", ownErr)
				return traces
			}
			objs := map[*state.Session]bool{}
			for _, s := range sess {
				if s != nil {
					objs[s] = true
				}
			}
			// a linearisation of the decisions of this round: an accepting one (if any) came first
			sort.SliceStable(res, func(x, y int) bool { return res[x] && !res[y] })
			for g := 0; g < copies; g++ {
				c.Eval(1)
				decisions++
				*events = append(*events, map[string]any{"ev": "tcheck", "h": h, "t": t, "ok": res[g],
					"copy": g + 1, "copies": copies, "session_objects": len(objs), "session": map[bool]string{true: "none (" + why + ")", false: "held"}[absent]})
			}
			if absent && copies > 1 {
				missRounds++
				if why == "cleaned" {
					cleanedRounds++
				} else {
					firstRounds++
				}
			}
			if own {
				ownRounds++
			}
			c.Distinct(fmt.Sprintf("lookup|%s|storage-%d|copies-%d|own-%v", map[bool]string{true: why, false: "held"}[absent], slowness, copies, own))
			absent = false
		}
		if store.queries.Load() == 0 {
			c.Broken("T-lookup: the receiver never queried its router storage (the wrapped storage is not in use)")
			return traces
		}
		if k == 0 {
			c.Sample(map[string]any{"kind": "per-frame lookup history", "binding": lookupBinding, "stamps_ms": used})
		}
	}
	if firstRounds == 0 || cleanedRounds == 0 {
		c.Broken("T-lookup: vacuous: %d rounds at first contact, %d rounds after the cleaner removed the session", firstRounds, cleanedRounds)
	}
	c.Stage("T-lookup", map[string]any{"histories": traces, "decisions": decisions, "rounds_without_session_and_several_copies": missRounds,
		"of_these_first_contact": firstRounds, "of_these_after_cleaner": cleanedRounds, "rounds_with_own_send": ownRounds})
	c.Logf("T-lookup: %d histories, %d decisions; %d rounds of several copies met no session (%d first contact, %d after the cleaner)", traces, decisions, missRounds, firstRounds, cleanedRounds)
	return traces
}
