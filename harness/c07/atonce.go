// Stage R-atonce of C07: first contact, several router workers at the same moment.
//
// Every other case of this check hands its pings to the victim ONE AT A TIME: a frame is worked on to the end before
// the next one arrives. A started router runs one frame worker per CPU, all reading the same input, so pings that
// arrive back to back - an on-path attacker sends every frame twice - are worked on at the same moment. What a ping
// may change does not depend on that: of several verbatim copies of one genuine ping one is the ping and the others
// are replays. This stage produces that history with the real code:
//
//	unknown    the victim has no stored record and no session object of router X: it never heard of X
//	           ("never-heard"), or it was restarted without its state file and knows nobody ("storage-lost": a new
//	           state manager on an empty storage; links, routing table and connection states stay)
//	storage    the victim's router storage is the in-memory storage of /repo behind slowStore: per round it answers
//	           after yielding the processor, after some 100 us or after a few ms (reads and writes apart, with jitter)
//	burst      as TLC enumerated it (action AtOnceCase of ControlPlane): K1 copies of a genuine ping of X, K2 copies of
//	           a newer one, and possibly a genuine announcement of another peer that travelled through X, so that a hop
//	           record signed by X introduces X too (the third caller of State.AddRouter). Copies arrive over X's
//	           link / the link of any peer, some with another TTL. world.DeliverAtOnce: all frames pass the switch,
//	           as many real router workers wait on the router's input, all frames are put there at once
//	afterwards every ping of the burst is delivered again, one frame at a time
//
// and judges it with the same trace specification: event "atonce" (the snapshots before and after the whole burst
// against AllowedAtOnce - what the DISTINCT authentic pings allow, once each - and, per ping, the number of copies
// that are witnessed to have changed state the property names: a hello request answered with n different
// key-exchange shares set the session keys n times), event "atonce-replay" (the snapshots around one re-delivered
// ping: a replay, NoEffect).
package main

import (
	"encoding/hex"
	"fmt"
	"math/rand"
	"net/netip"
	"runtime"
	"sort"
	"strings"
	"sync"
	"sync/atomic"
	"time"

	"github.com/fxamacker/cbor/v2"

	"github.com/mycoria/mycoria/router"
	"github.com/mycoria/mycoria/state"
	"github.com/mycoria/mycoria/storage"

	"verifharness/internal/vf"
	"verifharness/internal/world"
)

// slowStore is a router storage whose record look-ups and writes take a moment: < 0 at once, 0 after yielding the
// processor, > 0 after about that many nanoseconds (0.75 .. 1.25 of it). Everything else is the wrapped storage.
type slowStore struct {
	storage.Storage
	read, write atomic.Int64

	mu    sync.Mutex
	rng   *rand.Rand
	saves map[netip.Addr]int // SaveRouter calls per router while counting is on
	count bool
}

func newSlowStore(inner storage.Storage, seed int64) *slowStore {
	s := &slowStore{Storage: inner, rng: rand.New(rand.NewSource(seed)), saves: map[netip.Addr]int{}}
	s.read.Store(-1)
	s.write.Store(-1)
	return s
}

func (s *slowStore) wait(base int64) {
	switch {
	case base == 0:
		runtime.Gosched()
	case base > 0:
		s.mu.Lock()
		d := base*3/4 + s.rng.Int63n(base/2+1)
		s.mu.Unlock()
		time.Sleep(time.Duration(d))
	}
}

func (s *slowStore) GetRouter(ip netip.Addr) (*storage.StoredRouter, error) {
	s.wait(s.read.Load())
	return s.Storage.GetRouter(ip)
}

func (s *slowStore) SaveRouter(r *storage.StoredRouter) error {
	s.wait(s.write.Load())
	s.mu.Lock()
	if s.count && r != nil && r.Address != nil {
		s.saves[r.Address.IP]++
	}
	s.mu.Unlock()
	return s.Storage.SaveRouter(r)
}

// slow switches the delays on and starts counting writes; fast switches them off and returns the counts.
func (s *slowStore) slow(read, write int64) {
	s.mu.Lock()
	s.saves, s.count = map[netip.Addr]int{}, true
	s.mu.Unlock()
	s.read.Store(read)
	s.write.Store(write)
}

func (s *slowStore) fast() map[netip.Addr]int {
	s.read.Store(-1)
	s.write.Store(-1)
	s.mu.Lock()
	defer s.mu.Unlock()
	s.count = false
	return s.saves
}

type burstPing struct {
	Type   string
	Src    int
	First  bool
	Copies int
	data   []byte
	id     uint64
}

func pingID(data []byte) uint64 {
	md := msgData(data)
	var hdr router.PingHeader
	if len(md) > 2 && 2+int(md[1]) <= len(md) && cbor.Unmarshal(md[2:2+int(md[1])], &hdr) == nil {
		return hdr.PingID
	}
	return 0
}

// helloAnswers reads the hello responses the victim put on its links: ping ID -> the different key-exchange shares.
func (s *scene) helloAnswers() map[uint64]map[string]bool {
	out := map[uint64]map[string]bool{}
	s.ms.W.Lock()
	defer s.ms.W.Unlock()
	for _, fl := range s.ms.W.Inflight {
		if fl.From != s.v || len(fl.Data) < 52 {
			continue
		}
		md := msgData(fl.Data)
		var hdr router.PingHeader
		if len(md) <= 2 || 2+int(md[1]) > len(md) || cbor.Unmarshal(md[2:2+int(md[1])], &hdr) != nil {
			continue
		}
		if hdr.PingType != "hello" || !hdr.FollowUp {
			continue
		}
		var resp router.HelloPingResponse
		if cbor.Unmarshal(md[2+int(md[1]):], &resp) != nil || len(resp.KeyExchange) == 0 {
			continue
		}
		if out[hdr.PingID] == nil {
			out[hdr.PingID] = map[string]bool{}
		}
		out[hdr.PingID][hex.EncodeToString(resp.KeyExchange)] = true
	}
	return out
}

func hasHello(a act) bool { return a.T1 == "hello-req" || a.T2 == "hello-req" }

func atOnceStage(c *vf.Ctx, rng *rand.Rand, all []act) []any {
	if len(all) == 0 {
		c.Broken("R-atonce: the model produced no case of the history first contact / several workers at once")
		return nil
	}
	// selection: half of the bursts contain a hello request (the ping whose every handling sets new keys); the kinds
	// of "unknown" in turn
	rng.Shuffle(len(all), func(i, j int) { all[i], all[j] = all[j], all[i] })
	budget := c.Pick(320, 6000)
	var hello, other []act
	for _, a := range all {
		if hasHello(a) {
			hello = append(hello, a)
		} else {
			other = append(other, a)
		}
	}
	var sel []act
	for len(sel) < budget && len(hello)+len(other) > 0 {
		if len(other) == 0 || (len(hello) > 0 && len(sel)%2 == 0) {
			sel, hello = append(sel, hello[0]), hello[1:]
		} else {
			sel, other = append(sel, other[0]), other[1:]
		}
	}

	var events []any
	skipped := map[string]int{}
	rounds, overlap, helloRounds, helloAnswered, frames, replays := 0, 0, 0, 0, 0, 0
	dupHandled := 0 // information: bursts in which fewer frames were refused than there were surplus copies
	t0 := time.Now()
	for ci, a := range sel {
		evs, st, why := atOnceInstance(c, rng, a, ci)
		if evs == nil {
			skipped[why]++
			continue
		}
		rounds++
		frames += st.frames
		replays += len(evs) - 1
		if st.savesOfX >= 2 {
			overlap++
		}
		if hasHello(a) {
			helloRounds++
			if st.answers > 0 {
				helloAnswered++
			}
		}
		if st.surplusAccepted {
			dupHandled++
		}
		for _, ev := range evs {
			events = append(events, ev)
		}
		c.Distinct(fmt.Sprintf("atonce|%s|%d|%s|%d|%d|%s|%d", a.T1, a.K1, a.T2, a.K2, a.Src, a.How, a.Hop))
		if ci%100 == 0 {
			c.Sample(evs[0])
		}
	}
	nsk := 0
	for _, n := range skipped {
		nsk += n
	}
	c.Stage("R-atonce", map[string]any{"model_cases": len(all), "selected": len(sel), "bursts": rounds, "frames": frames, "skipped": skipped,
		"bursts_where_two_workers_found_X_missing": overlap, "bursts_with_hello": helloRounds, "of_which_answered": helloAnswered,
		"replays_afterwards": replays, "bursts_with_surplus_copies_not_refused": dupHandled, "wall_s": time.Since(t0).Seconds()})
	c.Logf("R-atonce: %d cases of the model, %d bursts executed (%d frames), skipped %v; in %d bursts two workers found X missing at the same time; %d bursts with a hello request, %d answered; %d replays afterwards", len(all), rounds, frames, skipped, overlap, helloRounds, helloAnswered, replays)
	if nsk*4 > len(sel) {
		c.Broken("R-atonce: the history could not be set up in %d of %d instances (%v)", nsk, len(sel), skipped)
	}
	if rounds >= 50 && overlap == 0 {
		// the moment this stage is about - two workers that both find X missing - never came about
		c.Broken("R-atonce: in none of %d bursts two workers met the unknown router at the same time", rounds)
	}
	if helloRounds >= 20 && helloAnswered*2 < helloRounds {
		// first contact does not work at all in this set-up: the copies would be refused for the wrong reason
		c.Broken("R-atonce: only %d of %d bursts with a genuine hello request of the unknown router were answered", helloAnswered, helloRounds)
	}
	return events
}

type atOnceStats struct {
	frames          int
	savesOfX        int
	answers         int
	surplusAccepted bool
}

// atOnceInstance runs one burst on a fresh victim and returns its observations (the burst first, then the replays);
// (nil, _, why) when the history could not be set up (never a verdict).
func atOnceInstance(c *vf.Ctx, rng *rand.Rand, a act, ci int) ([]map[string]any, atOnceStats, string) {
	var st atOnceStats
	s := newSceneStore(rng, a.Table, nil, true)
	s.lost = true
	x := s.node(a.Src)
	notes := []string{}
	switch a.How {
	case "never-heard":
	case "storage-lost":
		// restarted, and the state file is gone: a new state manager on an empty storage
		s.store = newSlowStore(storage.NewMemStorage(), rng.Int63())
		s.v.Store = s.store
		s.v.St = state.New(s.v, s.store)
	default:
		return nil, st, "unknown-how"
	}
	if s.v.St.GetSession(x.ID.IP) != nil { // (no record: nothing is created by asking)
		return nil, st, "x-is-known"
	}
	first := func(n int) bool { return a.How == "storage-lost" || n == 5 }

	// ---- the genuine pings of X, made by X's own stack ----
	var pings []*burstPing
	pings = append(pings, &burstPing{Type: a.T1, Src: a.Src, First: true, Copies: a.K1, data: s.genuinePing(a.T1, x, x)})
	if a.T2 != "none" {
		time.Sleep(2 * time.Millisecond)
		pings = append(pings, &burstPing{Type: a.T2, Src: a.Src, First: true, Copies: a.K2, data: s.genuinePing(a.T2, x, x)})
	}
	for _, p := range pings {
		p.id = pingID(p.data)
	}
	xLink := s.via(a.Src)
	var fls []*world.Flight
	for _, p := range pings {
		for k := 0; k < p.Copies; k++ {
			d := append([]byte(nil), p.data...)
			from := xLink
			if k > 0 && p.Type != "announce" && rng.Intn(3) == 0 {
				from = s.node(1 + rng.Intn(3)) // this copy comes over another link ...
				if rng.Intn(2) == 0 {
					d[1] = byte(2 + rng.Intn(200)) // ... after some more hops
				}
			}
			fls = append(fls, &world.Flight{From: from, To: s.v, Data: d})
		}
	}
	// ---- a genuine announcement of peer Hop that travelled through X ----
	hops := []int{}
	all := append([]*burstPing(nil), pings...)
	if a.Hop != 0 {
		var others []int // peers that are neither the announcing one nor X
		for q := 1; q <= 3; q++ {
			if q != a.Hop && q != a.Src {
				others = append(others, q)
			}
		}
		rng.Shuffle(len(others), func(i, j int) { others[i], others[j] = others[j], others[i] })
		var chain []int
		switch {
		case a.Src <= 3 && rng.Intn(3) == 0:
			chain = []int{a.Src} // X is a peer and hands the announcement over itself
		case len(others) >= 2 && rng.Intn(2) == 0:
			chain = []int{others[0], a.Src, others[1]}
			if rng.Intn(2) == 0 {
				chain = []int{others[0], others[1], a.Src}
			}
		default:
			chain = []int{others[0], a.Src}
		}
		relays := make([]*world.Node, len(chain))
		for i, n := range chain {
			relays[i] = s.node(n)
		}
		hops = append(hops, chain...)
		sort.Ints(hops)
		d := s.hopAnnouncement(s.node(a.Hop), relays)
		fls = append(fls, &world.Flight{From: relays[0], To: s.v, Data: d})
		all = append(all, &burstPing{Type: "announce", Src: a.Hop, First: first(a.Hop), Copies: 1, data: d})
		notes = append(notes, fmt.Sprintf("the announcement of peer %d carries genuine hop records of routers %v (outermost first) and arrives over the link of peer %d", a.Hop, chain, chain[0]))
	}
	rng.Shuffle(len(fls), func(i, j int) { fls[i], fls[j] = fls[j], fls[i] })
	st.frames = len(fls)

	// ---- how long the victim's storage takes in this round ----
	var rd, wr int64
	switch ci % 3 {
	case 0:
		notes = append(notes, "storage yields the processor per query")
	case 1:
		rd = int64(50+rng.Intn(450)) * int64(time.Microsecond)
	default:
		rd = int64(1000+rng.Intn(1000)) * int64(time.Microsecond)
	}
	if rd > 0 {
		if rng.Intn(4) != 0 {
			wr = rd * int64(3+rng.Intn(6)) / 2 // writing takes longer than reading
		} else if ci%3 == 1 {
			wr = int64(50+rng.Intn(450)) * int64(time.Microsecond)
		} else {
			wr = int64(1000+rng.Intn(1000)) * int64(time.Microsecond)
		}
		notes = append(notes, fmt.Sprintf("storage: a look-up takes about %v, a write about %v", time.Duration(rd), time.Duration(wr)))
	}

	// ---- the burst ----
	s.ms.W.Inflight = nil
	before := s.snapshotSel(nil)
	s.store.slow(rd, wr)
	res, err := s.ms.W.DeliverAtOnce(fls)
	saves := s.store.fast()
	c.Eval(len(fls))
	if err != nil {
		c.Broken("R-atonce: %v", err)
		return nil, st, "delivery-failed"
	}
	if res.Up != len(fls) {
		return nil, st, "switch-kept-a-frame"
	}
	answers := s.helloAnswers()
	s.ms.W.Inflight = nil
	after := s.snapshotSel(nil)
	st.savesOfX = saves[x.ID.IP]

	surplus := 0
	prec := make([]map[string]any, len(all))
	for i, p := range all {
		eff := 0
		if p.Type == "hello-req" && p.id != 0 {
			eff = len(answers[p.id])
			st.answers += eff
		}
		if p.Type != "announce" { // (an exact duplicate of the newest announcement is handled again by design)
			surplus += p.Copies - 1
		}
		prec[i] = map[string]any{"type": p.Type, "src": p.Src, "first": p.First, "copies": p.Copies, "effective": eff}
	}
	refusals := res.Refusals()
	st.surplusAccepted = len(refusals) < surplus
	sort.Strings(refusals)
	notes = append(notes, fmt.Sprintf("%d frames on %d workers, %d refused; the unknown router was written to the storage %d times", len(fls), res.Up, len(refusals), st.savesOfX))
	mkEv := func(name string, b, af snap) map[string]any {
		ev := map[string]any{"ev": name, "src": a.Src, "how": a.How,
			"before": b.Routes, "after": af.Routes,
			"keys": diffKeys(b.Keys, af.Keys, emptyKeys), "mtu": diffKeys(b.MTU, af.MTU, 0),
			"conn": fmt.Sprint(b.Conn) != fmt.Sprint(af.Conn),
			"info": diffKeys(b.Info, af.Info, ""), "offline": diffKeys(b.Offline, af.Offline, false),
			"stored": diffKeys(b.Stored, af.Stored, false)}
		if b.Routes == nil {
			ev["before"] = []route{}
		}
		if af.Routes == nil {
			ev["after"] = []route{}
		}
		return ev
	}
	ev := mkEv("atonce", before, after)
	ev["type"] = a.T1
	if a.T2 != "none" {
		ev["type"] = a.T1 + "+" + a.T2
	}
	ev["variant"] = "first-contact-at-once"
	ev["pings"] = prec
	ev["hops"] = hops
	ev["panic"] = res.Panics > 0
	ev["detail"] = strings.Join(notes, "; ")
	ev["handler"] = strings.Join(refusals, " | ")
	out := []map[string]any{ev}

	// ---- afterwards: every ping of X of the burst once more, one frame at a time ----
	order := rng.Perm(len(pings))
	for _, i := range order {
		p := pings[i]
		if p.Type == "announce" && i == len(pings)-1 {
			continue // an exact duplicate of X's newest announcement is tolerated by design
		}
		from := xLink
		if rng.Intn(3) == 0 {
			from = s.node(1 + rng.Intn(3))
		}
		s.ms.W.Inflight = nil
		b := s.snapshotSel(nil)
		hres, derr := s.ms.W.DeliverRaw(from, s.v, p.data)
		c.Eval(1)
		af := s.snapshotSel(nil)
		rv := mkEv("atonce-replay", b, af)
		rv["type"] = p.Type
		rv["variant"] = "replayed-after-first-contact-at-once"
		herr, panicked := "", false
		for _, h := range hres {
			if h.Panic {
				panicked = true
			}
			if e := h.HandlerErr(); e != "" {
				herr = e
			}
		}
		if derr != nil {
			herr = derr.Error()
		}
		rv["panic"] = panicked
		rv["handler"] = herr
		rv["detail"] = fmt.Sprintf("verbatim copy of the %s ping of the burst [%s], arriving over the link of peer %d", p.Type, ev["detail"], s.num(from.ID.IP))
		out = append(out, rv)
	}
	s.ms.W.Inflight = nil
	return out, st, ""
}

// copiesEffective: the largest number of copies of ONE ping of the burst that are witnessed to have changed state the
// property names, and the sentence that says so.
func copiesEffective(ev map[string]any) (int, string) {
	ps, _ := ev["pings"].([]map[string]any)
	best, txt := 0, ""
	for _, p := range ps {
		if n, _ := p["effective"].(int); n > best {
			best = n
			txt = fmt.Sprintf("%d of the %v verbatim copies of ONE genuine %v ping of router %v each passed as authentic and each changed the session keys (the victim answered the one hello request with %d different key-exchange shares): all but one of them are replays, and a replayed ping changed session keys", n, p["copies"], p["type"], p["src"], n)
		}
	}
	return best, txt
}

func burstText(ev map[string]any) string {
	ps, _ := ev["pings"].([]map[string]any)
	var parts []string
	for _, p := range ps {
		parts = append(parts, fmt.Sprintf("%v x %v of router %v", p["copies"], p["type"], p["src"]))
	}
	return strings.Join(parts, ", ")
}
