// Stage R-lost of C07: pings that arrive after good-byes and a loss of session objects.
//
// The cases of stage R all meet a victim that holds a live session object for every router it knows and that has
// never been told good-bye: the snapshot taken before the ping even calls State.GetSession for every stored router,
// which creates whatever session was missing. Two kinds of stored state are therefore never in the state they are in
// on a router that has been up for a while: the offline flag (never set before the ping) and the session map (never
// without the claimed source). This stage produces that history with the real code:
//
//	good-bye   the routers of `off` send a genuine disconnect{GoingDown}; the victim marks them offline
//	loss       cleaner-all:     every session idle for 1 h .. 2 d, ticks of the real session cleaner (hook ed16000)
//	           cleaner-unkeyed: the sessions of `off` have no end-to-end keys (never set up, or given up after a
//	                            genuine "no keys" error of that router) and everything is idle for 1 .. 59 min:
//	                            the cleaner drops exactly those
//	           restart:         the storage is written to its JSON file, loaded again, and a new state manager is
//	                            put on it (what a restart does to sessions and stored records)
//	ping       type x variant x claimed source as TLC enumerated them (action LostCase of ControlPlane)
//
// (variant replayed-after-loss: a genuine ping of X the victim received BEFORE the loss, delivered again afterwards
// over X's link or another peer's - every violation of this variant carries the one key lost/replayed-after-session-loss)
// and judges the before/after snapshots with the same trace specification (event "lost", AllowedLost). The snapshot
// taken before the ping looks at no session the driver believes lost.
package main

import (
	"fmt"
	"math/rand"
	"os"
	"path/filepath"
	"time"

	"github.com/fxamacker/cbor/v2"

	"github.com/mycoria/mycoria/frame"
	"github.com/mycoria/mycoria/m"
	"github.com/mycoria/mycoria/router"
	"github.com/mycoria/mycoria/state"
	"github.com/mycoria/mycoria/storage"

	"verifharness/internal/vf"
	"verifharness/internal/world"
)

// offlineFlags reads the stored offline flags without touching any session.
func (s *scene) offlineFlags() map[int]bool {
	out := map[int]bool{}
	q := storage.NewRouterQuery(nil, nil, 1000)
	_ = s.v.St.QueryRouters(q)
	for _, r := range q.Result() {
		out[s.num(r.Address.IP)] = r.Offline
	}
	return out
}

// restartState writes the victim's stored records to a JSON state file the way the real storage does when it is
// stopped, loads the file again and puts a new state manager on the loaded storage. Routing table and connection
// states stay in place (the property quantifies over them anyway).
func (s *scene) restartState(dir string) error {
	fn := filepath.Join(dir, "state.json")
	_ = os.Remove(fn)
	js, err := storage.NewJSONFileStorage(fn)
	if err != nil {
		return err
	}
	q := storage.NewRouterQuery(nil, nil, 1000)
	if err := s.v.St.QueryRouters(q); err != nil {
		return err
	}
	for _, r := range q.Result() {
		cp := *r
		if err := js.SaveRouter(&cp); err != nil {
			return err
		}
	}
	if err := js.Stop(); err != nil {
		return err
	}
	js2, err := storage.NewJSONFileStorage(fn)
	if err != nil {
		return err
	}
	s.v.Store = js2
	s.v.St = state.New(s.v, js2)
	return nil
}

// announcementOf captures a fresh announcement of origin addressed to the victim.
func (s *scene) announcementOf(origin *world.Node) []byte {
	s.ms.W.Inflight = nil
	time.Sleep(2 * time.Millisecond)
	_ = origin.Rt.AnnouncePing.Send(s.v.ID.IP)
	var fr []byte
	for _, fl := range s.ms.W.Inflight {
		if fl.To == s.v && fl.From == origin {
			fr = append([]byte(nil), fl.Data...)
		}
	}
	s.ms.W.Inflight = nil
	return fr
}

// annCtx is the signing context of the hop records of an announcement (source, stamp, signature of the origin).
func annCtx(fr []byte) (ctx []byte, end int) {
	mi := 49 + int(fr[48])
	ml := int(fr[mi])<<8 | int(fr[mi+1])
	authFrom := mi + 2 + ml
	ctx = make([]byte, 16+8+64)
	copy(ctx[:16], fr[16:32])
	copy(ctx[16:24], fr[8:16])
	copy(ctx[24:], fr[authFrom:authFrom+64])
	return ctx, authFrom + 64
}

// forgedHopAnnouncement: a genuine announcement of origin dressed with hop records (outermost first) of which the one
// naming `named` was not signed by that router for this announcement. kind: 0 = signed by another router (right
// context), 1 = random signature bytes, 2 = signed by the named router itself, but for another announcement of the
// origin (a record lifted from elsewhere). The other records are genuine.
func (s *scene) forgedHopAnnouncement(origin *world.Node, relays []*world.Node, named *world.Node, kind int, other *world.Node) []byte {
	fr := s.announcementOf(origin)
	if fr == nil {
		return nil
	}
	ctx, end := annCtx(fr)
	wrongCtx := ctx
	if kind == 2 {
		fr2 := s.announcementOf(origin)
		if fr2 == nil {
			return nil
		}
		// keep the NEWER one as the carrier (the older one would be refused as delayed once a newer one was seen)
		wrongCtx = ctx
		fr = fr2
		ctx, end = annCtx(fr)
	}
	var inner []byte
	for i := len(relays) - 1; i >= 0; i-- {
		at := router.AnnouncePingAttachment{Router: relays[i].ID.PublicAddress, Delay: uint16(3 + i), ForwardLabel: m.SwitchLabel(70 + i), ReturnLabel: m.SwitchLabel(80 + i), NextAttachment: inner}
		if i == 0 {
			if l := relays[0].LinkTo(s.v); l != nil {
				at.ReturnLabel = l.SwitchLabel()
			}
		}
		body, err := cbor.Marshal(at)
		if err != nil {
			panic(err)
		}
		var sig []byte
		switch {
		case relays[i] != named:
			sig, err = relays[i].ID.SignWithContext(body, ctx)
		case kind == 0:
			sig, err = other.ID.SignWithContext(body, ctx)
		case kind == 1:
			sig = make([]byte, 64)
			s.rng.Read(sig)
		default:
			sig, err = named.ID.SignWithContext(body, wrongCtx)
		}
		if err != nil {
			panic(err)
		}
		inner = append(body, sig...)
	}
	return append(append([]byte(nil), fr[:end]...), inner...)
}

func lostKey(a act) string { return a.Type + "|" + a.Variant + "|" + a.How }

func lostStage(c *vf.Ctx, rng *rand.Rand, all []act) []any {
	if len(all) == 0 {
		c.Broken("R-lost: the model produced no case of the history good-bye / loss of sessions")
		return nil
	}
	// selection: every (type, variant, how) once, the rest of the budget at random over claimed source x set of
	// routers that said good-bye x table
	rng.Shuffle(len(all), func(i, j int) { all[i], all[j] = all[j], all[i] })
	budget := c.Pick(500, 10000)
	var sel, rest []act
	seen := map[string]bool{}
	for _, a := range all {
		if k := lostKey(a); !seen[k] {
			seen[k] = true
			sel = append(sel, a)
		} else {
			rest = append(rest, a)
		}
	}
	// the history bites where the claimed source is one of the routers that said good-bye: three of four of the
	// remaining budget go there
	var in, out []act
	for _, a := range rest {
		if inOff(a) {
			in = append(in, a)
		} else {
			out = append(out, a)
		}
	}
	for len(sel) < budget && len(in)+len(out) > 0 {
		if len(out) == 0 || (len(in) > 0 && rng.Intn(4) != 0) {
			sel, in = append(sel, in[0]), in[1:]
		} else {
			sel, out = append(sel, out[0]), out[1:]
		}
	}
	dir, err := os.MkdirTemp(c.Work, "lost-")
	if err != nil {
		c.Broken("R-lost: %v", err)
		return nil
	}
	defer os.RemoveAll(dir)

	var events []any
	skipped := map[string]int{}
	genuine, effective := map[string]int{}, map[string]int{} // authentic pings per kind of loss, and how many of them changed anything
	replays, replaysEffective := 0, 0
	t0 := time.Now()
	for ci, a := range sel {
		ev, why := lostInstance(c, rng, a, dir)
		if ev == nil {
			skipped[why]++
			continue
		}
		events = append(events, ev)
		if a.Variant == "genuine" || a.Variant == "transit" {
			genuine[a.How]++
			if fmt.Sprint(ev["keys"], ev["mtu"], ev["info"], ev["offline"], ev["conn"]) != "[] [] [] [] false" || fmt.Sprint(ev["before"]) != fmt.Sprint(ev["after"]) {
				effective[a.How]++
			}
		}
		if a.Variant == "replayed-after-loss" {
			replays++
			if fmt.Sprint(ev["keys"], ev["mtu"], ev["info"], ev["offline"], ev["conn"]) != "[] [] [] [] false" || fmt.Sprint(ev["before"]) != fmt.Sprint(ev["after"]) {
				replaysEffective++ // the open finding lost/replayed-after-session-loss; none at all is fine (repaired)
			}
		}
		c.Distinct(fmt.Sprintf("lost|%s|%s|%d|%v|%s|%v", a.Type, a.Variant, a.Src, a.Off, a.How, a.Table))
		if ci%200 == 0 {
			c.Sample(ev)
		}
	}
	nsk := 0
	for _, n := range skipped {
		nsk += n
	}
	c.Stage("R-lost", map[string]any{"model_cases": len(all), "selected": len(sel), "executed": len(events), "skipped": skipped, "genuine": genuine, "genuine_effective": effective, "replays_after_loss": replays, "replays_after_loss_effective": replaysEffective, "wall_s": time.Since(t0).Seconds()})
	c.Logf("R-lost: %d cases of the model, %d selected, %d executed, skipped %v; authentic pings %v of which effective %v; replays after the loss %d of which effective %d", len(all), len(sel), len(events), skipped, genuine, effective, replays, replaysEffective)
	for how, n := range genuine {
		if n >= 10 && effective[how] == 0 {
			// e.g. the reloaded records no longer verify anything: the unauthentic cases would then pass vacuously
			c.Broken("R-lost: none of the %d authentic pings after %s changed anything", n, how)
		}
	}
	if nsk*4 > len(sel) {
		c.Broken("R-lost: the history could not be set up in %d of %d instances (%v)", nsk, len(sel), skipped)
	}
	return events
}

func inOff(a act) bool {
	for _, o := range a.Off {
		if o == a.Src {
			return true
		}
	}
	return false
}

// lostInstance sets up the history of one abstract case on a fresh victim, delivers the ping and returns the
// observation; (nil, why) when the history could not be set up (never a verdict).
func lostInstance(c *vf.Ctx, rng *rand.Rand, a act, dir string) (map[string]any, string) {
	off := map[int]bool{}
	for _, o := range a.Off {
		off[o] = true
	}
	encryptedType := a.Type == "err-denied" || a.Type == "err-rejected"
	// cleaner-unkeyed: why the sessions of `off` have no keys - never set up, or given up after a "no keys" error
	unkeyed := map[int]bool{}
	noKeysErr := map[int]bool{}
	if a.How == "cleaner-unkeyed" {
		for _, o := range a.Off {
			// (X's recorded ping may be a hello that sets keys up: then X gives them up afterwards)
			if rng.Intn(2) == 0 && !((encryptedType || a.Variant == "replayed-after-loss") && o == a.Src) {
				unkeyed[o] = true
			} else {
				noKeysErr[o] = true
			}
		}
	}
	s := newSceneOpt(rng, a.Table, unkeyed)
	s.lost = true
	x := s.node(a.Src)
	notes := []string{}

	// ---- replayed-after-loss: the ping that will be replayed is made by X and received by the victim now ----
	var recorded []byte
	cameBack := false // X announced itself again after its good-bye and before the loss (its flag is cleared, its route is back)
	announceX := func() {
		_, _ = s.ms.W.DeliverRaw(x, s.v, s.genuinePing("announce", x, x))
		s.ms.W.Inflight = nil
	}
	if a.Variant == "replayed-after-loss" {
		recorded = s.genuinePing(a.Type, x, x)
		time.Sleep(2 * time.Millisecond)
		_, _ = s.ms.W.DeliverRaw(s.via(a.Src), s.v, recorded)
		s.ms.W.Inflight = nil
		if off[a.Src] {
			cameBack = a.Src <= 3 && rng.Intn(4) < map[bool]int{true: 2, false: 1}[a.Type == "disconnect-down"]
		} else {
			if a.Type == "disconnect-down" {
				announceX() // not among the routers that are offline at the time of the loss: it came back
				notes = append(notes, "X came back (announced itself) after the recorded good-bye")
			}
			for k := rng.Intn(3); k > 0; k-- { // newer traffic of X: the recorded ping is stale
				_, _ = s.ms.W.DeliverRaw(s.via(a.Src), s.v, s.genuinePing("pong-req", x, x))
			}
		}
	}

	// ---- good-byes (with some genuine traffic of the others in between) ----
	order := append([]int(nil), a.Off...)
	rng.Shuffle(len(order), func(i, j int) { order[i], order[j] = order[j], order[i] })
	for _, o := range order {
		on := s.node(o)
		if noKeysErr[o] {
			_, _ = s.ms.W.DeliverRaw(s.via(o), s.v, s.genuinePing("err-nokeys", on, on))
		}
		for k := rng.Intn(3); k > 0; k-- {
			y := 1 + rng.Intn(4)
			if !off[y] {
				_, _ = s.ms.W.DeliverRaw(s.via(y), s.v, s.genuinePing("pong-req", s.node(y), s.node(y)))
			}
		}
		_, _ = s.ms.W.DeliverRaw(s.via(o), s.v, s.genuinePing("disconnect-down", on, on))
		s.ms.W.Inflight = nil
	}
	fl := s.offlineFlags()
	for _, o := range a.Off {
		if !fl[o] {
			return nil, "good-bye-not-recorded"
		}
	}
	if cameBack {
		announceX()
		notes = append(notes, "X came back (announced itself) after its good-bye")
	}

	// ---- loss of session objects ----
	live := map[int]bool{}
	switch a.How {
	case "cleaner-all":
		d := time.Hour + time.Duration(1+rng.Intn(47*60))*time.Minute
		removed := 0
		for tick := 0; tick < 5; tick++ {
			n := s.v.St.VerifIdleAndClean(d)
			removed += n
			if n == 0 && tick > 0 {
				break
			}
			d = time.Duration(1+rng.Intn(3)) * time.Minute // further ticks, a minute or so apart
			if tick == 4 {
				return nil, "cleaner-left-sessions"
			}
		}
		if removed < 4 {
			return nil, "cleaner-removed-too-few"
		}
		notes = append(notes, fmt.Sprintf("the cleaner dropped all %d sessions", removed))
	case "cleaner-unkeyed":
		d := time.Duration(61+rng.Intn(58*60)) * time.Second
		removed := s.v.St.VerifIdleAndClean(d)
		if removed != len(a.Off) {
			return nil, "cleaner-unkeyed-count"
		}
		for n := 1; n <= 4; n++ {
			live[n] = !off[n]
		}
		notes = append(notes, fmt.Sprintf("idle for %v: the cleaner dropped the %d sessions without keys", d, removed))
	case "restart":
		if err := s.restartState(dir); err != nil {
			c.Broken("R-lost: restart of the state manager on its JSON file: %v", err)
			return nil, "restart-failed"
		}
		notes = append(notes, "state manager restarted on the reloaded JSON state file")
	default:
		return nil, "unknown-how"
	}
	fl = s.offlineFlags()
	for _, o := range a.Off {
		if !fl[o] && !(cameBack && o == a.Src) {
			return nil, "flag-lost-before-the-ping" // not by a ping: outside this property
		}
	}

	// ---- the ping ----
	from := s.via(a.Src)
	anyPeer := func() *world.Node { return s.node(1 + rng.Intn(3)) }
	// pickZ: the router that makes a ping in X's name - any router but X that is able to make a ping of this type
	// (an announcement needs a link to the victim, an encrypted ping needs keys with the victim)
	pickZ := func() int {
		var cands []int
		for z := 1; z <= 5; z++ {
			switch {
			case z == a.Src:
			case a.Type == "announce" && z > 3:
			case encryptedType && (z == 5 || unkeyed[z]):
			default:
				cands = append(cands, z)
			}
		}
		return cands[rng.Intn(len(cands))]
	}
	flip := func(d []byte, lo, hi int) {
		o := lo + rng.Intn(hi-lo)
		b := rng.Intn(8)
		d[o] ^= 1 << b
		notes = append(notes, fmt.Sprintf("byte %d bit %d", o, b))
	}
	var data []byte
	switch a.Variant {
	case "genuine":
		data = s.genuinePing(a.Type, x, x)
	case "transit":
		data = s.genuinePing(a.Type, x, x)
		data[1] = byte(2 + rng.Intn(200))
		data[2] ^= byte(1 + rng.Intn(7))
	case "flip-header":
		data = s.genuinePing(a.Type, x, x)
		offs := []int{3, 4, 5, 6, 7, 8, 9, 10, 11, 12, 13, 14, 15, 48}
		for i := 16; i < 48; i++ {
			offs = append(offs, i)
		}
		mi := 49 + int(data[48])
		offs = append(offs, mi, mi+1)
		o := offs[rng.Intn(len(offs))]
		b := rng.Intn(8)
		data[o] ^= 1 << b
		notes = append(notes, fmt.Sprintf("header byte %d bit %d", o, b))
		from = anyPeer()
	case "flip-pinghdr":
		data = s.genuinePing(a.Type, x, x)
		mi := 49 + int(data[48]) + 2
		flip(data, mi, mi+2+hdrLen(data))
		from = anyPeer()
	case "flip-body":
		data = s.genuinePing(a.Type, x, x)
		mi := 49 + int(data[48]) + 2
		md := msgData(data)
		lo := mi + 2 + hdrLen(data)
		if lo >= mi+len(md) {
			lo = mi + len(md) - 1
		}
		flip(data, lo, mi+len(md))
		from = anyPeer()
	case "flip-sig":
		data = s.genuinePing(a.Type, x, x)
		mi := 49 + int(data[48]) + 2
		md := msgData(data)
		auth := 64
		if frame.MessageType(data[4]).IsEncrypted() {
			auth = 16
		}
		flip(data, mi+len(md), mi+len(md)+auth)
		from = anyPeer()
	case "src-rewritten":
		// a genuine ping of router Z whose source address was replaced by X on the way
		zi := pickZ()
		z := s.node(zi)
		data = s.genuinePing(a.Type, z, z)
		o := x.ID.IP.As16()
		copy(data[16:32], o[:])
		notes = append(notes, fmt.Sprintf("made by router %d, source replaced by router %d", zi, a.Src))
		from = anyPeer()
	case "dst-rewritten":
		data = s.genuinePing(a.Type, x, x)
		oi := 1 + rng.Intn(4)
		if oi >= a.Src {
			oi++
		}
		o := s.node(oi).ID.IP.As16()
		copy(data[32:48], o[:])
		from = anyPeer()
	case "resealed":
		// made and sealed by router Z (its key data in the ping header, its signature), claiming X
		zi := pickZ()
		data = s.genuinePing(a.Type, s.node(zi), x)
		notes = append(notes, fmt.Sprintf("sealed by router %d", zi))
		from = anyPeer()
	case "replayed-after-loss":
		data = recorded
		if rng.Intn(2) == 0 {
			from = anyPeer()
		}
		notes = append(notes, fmt.Sprintf("verbatim copy of the %s ping the victim received from router %d before the loss, arriving over the link of peer %d", a.Type, a.Src, s.num(from.ID.IP)))
	case "forged-hop":
		// X's genuine announcement arrives over another peer P's link with P's genuine hop record and a record naming
		// a router that said good-bye, which that router never signed for this announcement
		var cands []int
		for _, o := range a.Off {
			if o != a.Src {
				cands = append(cands, o)
			}
		}
		if len(cands) == 0 {
			cands = a.Off
		}
		ni := cands[rng.Intn(len(cands))]
		var ps []int
		for q := 1; q <= 3; q++ {
			if q != a.Src && q != ni {
				ps = append(ps, q)
			}
		}
		pi := ps[rng.Intn(len(ps))]
		p, named := s.node(pi), s.node(ni)
		kind := rng.Intn(3)
		relays := []*world.Node{p, named}
		switch rng.Intn(5) {
		case 0:
			relays = []*world.Node{p, named, s.node(5)} // below it a genuine record of a router the victim has never heard of
		case 1:
			relays = []*world.Node{named} // the forged record is the outermost one
			if ni <= 3 {
				p, pi = named, ni // ... and arrives over the link of the router it names
			}
		}
		signer := 1 + rng.Intn(4)
		if signer >= ni {
			signer++
		}
		data = s.forgedHopAnnouncement(x, relays, named, kind, s.node(signer))
		if data == nil {
			return nil, "no-announcement-captured"
		}
		from = p
		notes = append(notes, fmt.Sprintf("delivered by peer %d; hop record naming router %d forged (kind %d) in a chain of %d", pi, ni, kind, len(relays)))
	default:
		return nil, "unknown-variant"
	}

	s.ms.W.Inflight = nil
	before := s.snapshotSel(live)
	res, derr := s.ms.W.DeliverRaw(from, s.v, data)
	c.Eval(1)
	after := s.snapshotSel(nil)
	panicked := false
	herr := ""
	for _, h := range res {
		if h.Panic {
			panicked = true
		}
		if e := h.HandlerErr(); e != "" {
			herr = e
		}
	}
	if derr != nil {
		herr = derr.Error()
	}
	detail := ""
	for i, n := range notes {
		if i > 0 {
			detail += "; "
		}
		detail += n
	}
	ev := map[string]any{"ev": "lost", "type": a.Type, "variant": a.Variant, "src": a.Src, "off": a.Off, "how": a.How,
		"before": before.Routes, "after": after.Routes,
		"keys": diffKeys(before.Keys, after.Keys, emptyKeys), "mtu": diffKeys(before.MTU, after.MTU, 0),
		"conn": fmt.Sprint(before.Conn) != fmt.Sprint(after.Conn),
		"info": diffKeys(before.Info, after.Info, ""), "offline": diffKeys(before.Offline, after.Offline, false),
		"stored": diffKeys(before.Stored, after.Stored, false), "panic": panicked, "detail": detail, "handler": herr}
	if before.Routes == nil {
		ev["before"] = []route{}
	}
	if after.Routes == nil {
		ev["after"] = []route{}
	}
	return ev, ""
}
